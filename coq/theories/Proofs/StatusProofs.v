(* Proofs about Model/Status.v, part 1: one status() / compare_status() call (property C12).
   Part 2 (the history invariant) is Proofs/StatusHistoryProofs.v.  std++ style. *)
From stdpp Require Import gmap.
From Coq Require Import NArith.
From DvcData Require Import Base.Val Model.Status.
Open Scope N_scope.

(* ------------------------------------------------------------------------------------ *)
(* The queried identifiers: the request, plus - in expanding mode - what the requested
   directory objects list. *)
Definition Queried (load : loader) (sh : bool) (q : list oid) (o : oid) : Prop :=
  o ∈ q ∨ (sh = false ∧ ∃ D l, D ∈ q ∧ is_dir_oid D = true ∧ load D = Some l ∧ o ∈ l).

Lemma collect_spec load sh q : ∀ ids,
  collect load sh q = Some ids → ∀ o, o ∈ ids ↔ Queried load sh q o.
Proof.
  induction q as [|a r IH]; intros ids H o; cbn [collect] in H.
  - inversion H; subst. unfold Queried. split; [set_solver|].
    intros [Hin|(_ & D & l & Hin & _)]; inversion Hin.
  - destruct (collect load sh r) as [acc|] eqn:Er; [|discriminate].
    specialize (IH acc eq_refl). unfold Queried in *.
    destruct (is_dir_oid a && negb sh) eqn:Ed.
    + apply andb_true_iff in Ed as [Ed Es]. apply negb_true_iff in Es.
      destruct (load a) as [l|] eqn:El; [|discriminate]. inversion H; subst ids; clear H.
      rewrite !elem_of_union, elem_of_singleton, elem_of_list_to_set, IH.
      setoid_rewrite elem_of_cons. split.
      * intros [[->|Hl]|[Hq|(Hs & D & l' & HD & Hr)]].
        -- left. by left.
        -- right. split; [done|]. exists a, l. split_and!; auto.
        -- left. by right.
        -- right. split; [done|]. exists D, l'. naive_solver.
      * intros [[->|Hq]|(Hs & D & l' & [->|HD] & Hd & Hl & Ho)].
        -- left. by left.
        -- right. by left.
        -- left. right. congruence.
        -- right. right. split; [done|]. exists D, l'. done.
    + inversion H; subst ids; clear H.
      rewrite elem_of_union, elem_of_singleton, IH. setoid_rewrite elem_of_cons. split.
      * intros [->|[Hq|(Hs & D & l' & HD & Hr)]].
        -- left. by left.
        -- left. by right.
        -- right. split; [done|]. exists D, l'. naive_solver.
      * intros [[->|Hq]|(Hs & D & l' & [->|HD] & Hd & Hl & Ho)].
        -- by left.
        -- right. by left.
        -- subst sh. rewrite Hd in Ed. discriminate.
        -- right. right. split; [done|]. exists D, l'. done.
Qed.

(* status() raises FileNotFoundError exactly when it must expand a directory it cannot load *)
Lemma collect_none load sh q :
  collect load sh q = None ↔
  sh = false ∧ ∃ D, D ∈ q ∧ is_dir_oid D = true ∧ load D = None.
Proof.
  induction q as [|a r IH]; cbn [collect].
  - split; [discriminate|]. intros (_ & D & Hin & _). inversion Hin.
  - setoid_rewrite elem_of_cons. destruct (collect load sh r) as [acc|] eqn:Er.
    + destruct (is_dir_oid a && negb sh) eqn:Ed.
      * apply andb_true_iff in Ed as [Ed Es]. apply negb_true_iff in Es.
        destruct (load a) as [l|] eqn:El.
        -- split; [discriminate|]. intros (Hs & D & [->|HD] & Hd & Hl); [congruence|].
           assert (Some acc = None) by (apply IH; eauto). discriminate.
        -- split; [|done]. intros _. split; [done|]. exists a. auto.
      * split; [discriminate|]. intros (Hs & D & [->|HD] & Hd & Hl).
        -- subst sh. rewrite Hd in Ed. discriminate.
        -- assert (Some acc = None) by (apply IH; eauto). discriminate.
    + split; [|done]. intros _. destruct IH as [IH _]. destruct (IH eq_refl) as (Hs & D & HD & Hd & Hl).
      split; [done|]. exists D. auto.
Qed.

(* ------------------------------------------------------------------------------------ *)
(* C12_exact *)
Lemma status_exact st load q sh e m ix' :
  status st load None q sh = Ok (e, m, ix') →
  ix' = None ∧
  (∀ o, o ∈ e ↔ Queried load sh q o ∧ o ∈ st) ∧
  (∀ o, o ∈ m ↔ Queried load sh q o ∧ o ∉ st).
Proof.
  unfold status, status_plain. destruct (collect load sh q) as [ids|] eqn:Ec; [|discriminate].
  intros H; inversion H; subst; clear H. pose proof (collect_spec _ _ _ _ Ec) as Hs.
  split; [done|]. split; intros o; rewrite <- Hs; set_solver.
Qed.

Lemma status_exact_sets st load q sh e m ix' :
  status st load None q sh = Ok (e, m, ix') →
  ∃ ids, collect load sh q = Some ids ∧ e = ids ∩ st ∧ m = ids ∖ st ∧ e ∪ m = ids ∧ e ∩ m = ∅.
Proof.
  unfold status, status_plain. destruct (collect load sh q) as [ids|] eqn:Ec; [|discriminate].
  intros H; inversion H; subst; clear H. exists ids. split; [done|].
  split_and!; [done|set_solver| |set_solver].
  apply set_eq. intros o. destruct (decide (o ∈ st)); set_solver.
Qed.

Lemma status_plain_error st load q sh k :
  status st load None q sh = Err k →
  k = 2 ∧ sh = false ∧ ∃ D, D ∈ q ∧ is_dir_oid D = true ∧ load D = None.
Proof.
  unfold status, status_plain. destruct (collect load sh q) as [ids|] eqn:Ec; [discriminate|].
  intros H; inversion H; subst. split; [done|]. by apply collect_none.
Qed.

(* comparison of a finite set with a literal list, for the Examples (vm_compute cannot
   compare gsets by [=] literally: they carry well-formedness proofs) *)
Definition same_set (s : gset oid) (l : list oid) : bool := val_eqb (enc_oids s) (enc_set l).

Example status_exact_ex :
  let F1 : oid := [1] in let F2 : oid := [2] in let F3 : oid := [3] in
  let D : oid := [7] ++ dot_dir in
  match status {[F1; D]} (λ o, if decide (o = D) then Some [F1; F2] else None) None [D; F3] false with
  | Ok (e, m, None) => same_set e [F1; D] && same_set m [F2; F3] = true
  | _ => False
  end.
Proof. vm_compute. reflexivity. Qed.

(* ------------------------------------------------------------------------------------ *)
(* C12_compare *)
Lemma compare_combines src dst load_s load_d six dix q sh cd c six' dix' :
  compare_status src dst load_s load_d six dix q sh cd = Ok (c, six', dix') →
  ∃ dex dmiss sex smiss,
    status dst load_d dix q sh = Ok (dex, dmiss, dix') ∧
    (if negb (bool_decide (dmiss = ∅)) || cd
     then status src load_s six q sh = Ok (sex, smiss, six')
     else sex = dex ∧ smiss = ∅ ∧ six' = six) ∧
    ∀ o, (o ∈ c_ok c ↔ o ∈ sex ∧ o ∈ dex) ∧
         (o ∈ c_new c ↔ o ∈ sex ∧ o ∉ dex) ∧
         (o ∈ c_deleted c ↔ o ∉ sex ∧ o ∈ dex) ∧
         (o ∈ c_missing c ↔ o ∈ smiss ∧ o ∈ dmiss).
Proof.
  unfold compare_status. destruct (status dst load_d dix q sh) as [[[dex dmiss] dix1]|] eqn:Ed; [|discriminate].
  destruct (negb (bool_decide (dmiss = ∅)) || cd) eqn:Eb.
  - destruct (status src load_s six q sh) as [[[sex smiss] six1]|] eqn:Es; [|discriminate].
    intros H; inversion H; subst; clear H. exists dex, dmiss, sex, smiss. rewrite Eb.
    split_and!; [done..|]. intros o; cbn. set_solver.
  - intros H; inversion H; subst; clear H. exists dex, dmiss, dex, ∅. rewrite Eb.
    split_and!; [done..|]. intros o; cbn. set_solver.
Qed.

(* without indexes the four answers are the four Boolean combinations of membership in the
   two stores; in "transfer mode" (check_deleted = false) the source is not consulted when
   nothing is missing in the destination: then everything is reported ok and nothing new *)
Lemma compare_exact src dst load q sh cd c six' dix' :
  compare_status src dst load load None None q sh cd = Ok (c, six', dix') →
  let Q := Queried load sh q in
  (∀ o, o ∈ c_new c ↔ Q o ∧ o ∈ src ∧ o ∉ dst) ∧
  (∀ o, o ∈ c_missing c ↔ Q o ∧ o ∉ src ∧ o ∉ dst) ∧
  (cd = true ∨ (∃ x, Q x ∧ x ∉ dst) →
     (∀ o, o ∈ c_ok c ↔ Q o ∧ o ∈ src ∧ o ∈ dst) ∧
     (∀ o, o ∈ c_deleted c ↔ Q o ∧ o ∉ src ∧ o ∈ dst)) ∧
  (cd = false ∧ (∀ x, Q x → x ∈ dst) → (∀ o, o ∈ c_ok c ↔ Q o) ∧ (∀ o, o ∉ c_deleted c)) ∧
  (∀ o, Q o ↔ o ∈ c_ok c ∨ o ∈ c_new c ∨ o ∈ c_deleted c ∨ o ∈ c_missing c) ∧
  c_ok c ## c_new c ∧ c_ok c ## c_deleted c ∧ c_ok c ## c_missing c ∧
  c_new c ## c_deleted c ∧ c_new c ## c_missing c ∧ c_deleted c ## c_missing c.
Proof.
  intros H Q. apply compare_combines in H as (dex & dmiss & sex & smiss & Hd & Hs & Hc).
  apply status_exact in Hd as (_ & Hde & Hdm). fold Q in Hde, Hdm.
  assert (Hdec : ∀ o, o ∈ src ∨ o ∉ src) by (intros o; destruct (decide (o ∈ src)); auto).
  assert (Hdec' : ∀ o, o ∈ dst ∨ o ∉ dst) by (intros o; destruct (decide (o ∈ dst)); auto).
  destruct (negb (bool_decide (dmiss = ∅)) || cd) eqn:Eb.
  - apply status_exact in Hs as (_ & Hse & Hsm). fold Q in Hse, Hsm.
    (* everything is pointwise and propositional *)
    assert (Hpt : ∀ o,
      (o ∈ c_new c ↔ Q o ∧ o ∈ src ∧ o ∉ dst) ∧ (o ∈ c_missing c ↔ Q o ∧ o ∉ src ∧ o ∉ dst) ∧
      (o ∈ c_ok c ↔ Q o ∧ o ∈ src ∧ o ∈ dst) ∧ (o ∈ c_deleted c ↔ Q o ∧ o ∉ src ∧ o ∈ dst)).
    { intros o. destruct (Hc o) as (-> & -> & -> & ->). rewrite (Hse o), (Hde o), (Hsm o), (Hdm o).
      clear -Hdec Hdec'. destruct (Hdec o), (Hdec' o); tauto. }
    clear Hc Hse Hsm Hde.
    split_and!.
    + intros o. apply Hpt.
    + intros o. apply Hpt.
    + intros _. split; intros o; apply Hpt.
    + intros [-> Hall]. rewrite orb_false_r in Eb. apply negb_true_iff in Eb.
      apply bool_decide_eq_false in Eb. exfalso. apply Eb. apply set_eq. intros o.
      rewrite Hdm. split; [|set_solver]. intros (Hq & Hn). exfalso. auto.
    + intros o. destruct (Hpt o) as (-> & -> & -> & ->). clear -Hdec Hdec'.
      destruct (Hdec o), (Hdec' o); tauto.
    + intros o. specialize (Hpt o). tauto.
    + intros o. specialize (Hpt o). tauto.
    + intros o. specialize (Hpt o). tauto.
    + intros o. specialize (Hpt o). tauto.
    + intros o. specialize (Hpt o). tauto.
    + intros o. specialize (Hpt o). tauto.
  - destruct Hs as (-> & -> & _). apply orb_false_iff in Eb as [Eb ->].
    apply negb_false_iff, bool_decide_eq_true in Eb. subst dmiss.
    assert (Hall : ∀ x, Q x → x ∈ dst).
    { intros x Hx. destruct (decide (x ∈ dst)); [done|]. exfalso.
      assert (x ∈ (∅ : gset oid)) by (apply Hdm; auto). set_solver. }
    assert (Hpt : ∀ o,
      (o ∈ c_new c ↔ False) ∧ (o ∈ c_missing c ↔ False) ∧ (o ∈ c_ok c ↔ Q o) ∧ (o ∈ c_deleted c ↔ False)).
    { intros o. specialize (Hc o). specialize (Hde o). specialize (Hall o).
      assert (o ∉ (∅ : gset oid)) by set_solver. tauto. }
    clear Hc Hde Hdm.
    split_and!.
    + intros o. specialize (Hpt o). specialize (Hall o). tauto.
    + intros o. specialize (Hpt o). specialize (Hall o). tauto.
    + intros [?|(x & Hx & Hn)]; [done|]. exfalso. auto.
    + intros _. split; intros o; specialize (Hpt o); tauto.
    + intros o. specialize (Hpt o). tauto.
    + intros o. specialize (Hpt o). tauto.
    + intros o. specialize (Hpt o). tauto.
    + intros o. specialize (Hpt o). tauto.
    + intros o. specialize (Hpt o). tauto.
    + intros o. specialize (Hpt o). tauto.
    + intros o. specialize (Hpt o). tauto.
Qed.

Example compare_exact_ex :
  let F1 : oid := [1] in let F2 : oid := [2] in let F3 : oid := [3] in let F4 : oid := [4] in
  let D : oid := [7] ++ dot_dir in
  let ld : loader := λ o, if decide (o = D) then Some [F1; F2] else None in
  match compare_status {[F1; F3; D]} {[F1; F4; D]} ld ld None None [D; F3; F4] false true with
  | Ok (c, None, None) =>
      same_set (c_ok c) [F1; D] && same_set (c_new c) [F3] && same_set (c_deleted c) [F4]
      && same_set (c_missing c) [F2] = true
  | _ => False
  end.
Proof. vm_compute. reflexivity. Qed.

(* ------------------------------------------------------------------------------------ *)
(* The index: ObjectDBIndex.update, the loop of _indexed_dir_hashes *)

(* Tree objects are flat: a listing never lists a directory id *)
Definition wf_loader (load : loader) : Prop :=
  ∀ D l, load D = Some l → ∀ o, o ∈ l → is_dir_oid o = false.
(* the flag stored with an id says whether it is a directory id (dir_hashes() relies on it) *)
Definition flags_ok (ix : index) : Prop := ∀ o b, ix !! o = Some b → b = is_dir_oid o.

Lemma flags_ok_empty : flags_ok ∅.
Proof. intros o b H. rewrite lookup_empty in H. discriminate. Qed.

Lemma ix_dirs_spec (ix : index) o : o ∈ ix_dirs ix ↔ ix !! o = Some true.
Proof.
  unfold ix_dirs. rewrite elem_of_dom. split.
  - intros [b Hb]. apply map_filter_lookup_Some in Hb as [Hb Hp]. cbn in Hp. by subst.
  - intros H. exists true. by apply map_filter_lookup_Some.
Qed.

Lemma ix_dirs_dom (ix : index) o : o ∈ ix_dirs ix → o ∈ dom ix.
Proof. rewrite ix_dirs_spec, elem_of_dom. eauto. Qed.

Lemma ix_dirs_flags (ix : index) o :
  flags_ok ix → (o ∈ ix_dirs ix ↔ o ∈ dom ix ∧ is_dir_oid o = true).
Proof.
  intros Hf. rewrite ix_dirs_spec, elem_of_dom. split.
  - intros H. split; [eauto|]. symmetry. by apply Hf.
  - intros [[b Hb] Hd]. rewrite (Hf _ _ Hb) in Hb. by rewrite Hd in Hb.
Qed.

Lemma foldl_files_dom (l : list oid) : ∀ m0 : index,
  dom (foldl (λ m f, <[f := false]> m) m0 l) = dom m0 ∪ list_to_set l.
Proof.
  induction l as [|a l IH]; intros m0; cbn [foldl list_to_set]; [set_solver|].
  rewrite IH, dom_insert_L. set_solver.
Qed.

Lemma ix_update_dom ix D l o : o ∈ dom (ix_update ix D l) ↔ o ∈ dom ix ∨ o = D ∨ o ∈ l.
Proof. unfold ix_update. rewrite foldl_files_dom, dom_insert_L. set_solver. Qed.

Lemma foldl_files_flags (l : list oid) : ∀ m0 : index,
  flags_ok m0 → (∀ e, e ∈ l → is_dir_oid e = false) →
  flags_ok (foldl (λ m f, <[f := false]> m) m0 l).
Proof.
  induction l as [|a l IH]; intros m0 Hf Hl; cbn [foldl]; [done|].
  apply IH; [|intros e He; apply Hl; by right].
  intros o b. rewrite lookup_insert_Some. intros [[<- <-]|[_ H]]; [|by apply Hf].
  symmetry. apply Hl. by left.
Qed.

Lemma ix_update_flags ix D l :
  flags_ok ix → is_dir_oid D = true → (∀ e, e ∈ l → is_dir_oid e = false) →
  flags_ok (ix_update ix D l).
Proof.
  intros Hf HD Hl. unfold ix_update. apply foldl_files_flags; [|done].
  intros o b. rewrite lookup_insert_Some. intros [[<- <-]|[_ H]]; [done|by apply Hf].
Qed.

(* invariants of the loop at lines 68-84, in rule form *)
Lemma fold_index_dir_inv (P : index * gset oid → Prop) load ds :
  (∀ acc D, D ∈ ds → P acc → P (index_dir load acc D)) →
  ∀ acc, P acc → P (foldl (index_dir load) acc ds).
Proof.
  induction ds as [|a ds IH]; intros Hstep acc Hacc; cbn [foldl]; [done|].
  apply IH.
  - intros acc' D HD. apply Hstep. by right.
  - apply Hstep; [by left|done].
Qed.

(* every id the loop puts into the index or yields is [G], when the directories it visits and
   what they list are [G] *)
Lemma fold_index_dir_dom (G : oid → Prop) load ds acc :
  (∀ D l, D ∈ ds → load D = Some l → G D ∧ ∀ e, e ∈ l → G e) →
  (∀ o, o ∈ dom acc.1 → G o) → (∀ o, o ∈ acc.2 → G o) →
  (∀ o, o ∈ dom (foldl (index_dir load) acc ds).1 → G o) ∧
  (∀ o, o ∈ (foldl (index_dir load) acc ds).2 → G o).
Proof.
  intros Hds H1 H2.
  apply (fold_index_dir_inv (λ a, (∀ o, o ∈ dom a.1 → G o) ∧ (∀ o, o ∈ a.2 → G o))); [|done].
  clear acc H1 H2. intros [ix y] D HD [H1 H2]. unfold index_dir. cbn [fst snd] in *.
  destruct (load D) as [l|] eqn:El; [|done]. destruct (Hds D l HD El) as [GD Gl].
  cbn [fst snd]. split.
  - intros o. destruct (decide (is_Some (ix !! D))); [apply H1|].
    rewrite ix_update_dom. intros [?|[->|?]]; auto.
  - intros o. rewrite !elem_of_union, elem_of_list_to_set, elem_of_singleton.
    intros [[?|?]| ->]; auto.
Qed.

Lemma fold_index_dir_flags load ds acc :
  wf_loader load → (∀ D, D ∈ ds → is_dir_oid D = true) → flags_ok acc.1 →
  flags_ok (foldl (index_dir load) acc ds).1.
Proof.
  intros Hw Hds. apply (fold_index_dir_inv (λ a, flags_ok a.1)).
  intros [ix y] D HD Hf. unfold index_dir. cbn [fst snd] in *.
  destruct (load D) as [l|] eqn:El; [|done]. cbn [fst].
  destruct (decide (is_Some (ix !! D))); [done|].
  apply ix_update_flags; auto. intros e He. by apply (Hw D l).
Qed.

(* the yielded ids are exactly the visited loadable directories and what they list *)
Lemma fold_index_dir_yield load ds : ∀ acc o,
  o ∈ (foldl (index_dir load) acc ds).2 ↔
  o ∈ acc.2 ∨ ∃ D l, D ∈ ds ∧ load D = Some l ∧ (o = D ∨ o ∈ l).
Proof.
  induction ds as [|a ds IH]; intros acc o; cbn [foldl].
  - split; [auto|]. intros [?|(D & l & HD & _)]; [done|inversion HD].
  - rewrite IH. setoid_rewrite elem_of_cons. unfold index_dir.
    destruct (load a) as [la|] eqn:Ea; cbn [snd].
    + rewrite !elem_of_union, elem_of_list_to_set, elem_of_singleton. split.
      * intros [[[?|?]| ->]|(D & l & HD & Hl & Ho)]; eauto 10.
      * intros [?|(D & l & [->|HD] & Hl & Ho)]; eauto 10.
        rewrite Ea in Hl. inversion Hl; subst. destruct Ho as [->|?]; auto.
    + split.
      * intros [?|(D & l & HD & Hl & Ho)]; eauto 10.
      * intros [?|(D & l & [->|HD] & Hl & Ho)]; eauto 10. congruence.
Qed.

(* lines 39-59 *)
Lemma revalidate_spec st ix :
  (revalidate st ix).2 = ix_dirs ix ∩ st ∧
  (((revalidate st ix).1 = ix ∧ ix_dirs ix ⊆ st) ∨
   ((revalidate st ix).1 = ∅ ∧ ¬ ix_dirs ix ⊆ st)).
Proof.
  unfold revalidate. cbn [fst snd]. split; [done|].
  destruct (decide (ix_dirs ix ∖ (ix_dirs ix ∩ st) = ∅)) as [He|He].
  - left. split; [done|]. intros o Ho. destruct (decide (o ∈ st)); [done|]. set_solver.
  - right. split; [done|]. intros Hs. apply He. set_solver.
Qed.

Lemma revalidate_dirs_fresh st ix o : o ∈ ix_dirs (revalidate st ix).1 → o ∈ st.
Proof.
  destruct (revalidate_spec st ix) as [_ [[-> Hs]|[-> _]]]; [by apply Hs|].
  rewrite ix_dirs_spec, lookup_empty. discriminate.
Qed.

Lemma revalidate_dom st ix o : o ∈ dom (revalidate st ix).1 → o ∈ dom ix.
Proof.
  destruct (revalidate_spec st ix) as [_ [[-> _]|[-> _]]]; [done|]. rewrite dom_empty_L. set_solver.
Qed.

Lemma revalidate_flags st ix : flags_ok ix → flags_ok (revalidate st ix).1.
Proof.
  destruct (revalidate_spec st ix) as [_ [[-> _]|[-> _]]]; [done|]. intros _. apply flags_ok_empty.
Qed.

Lemma dir_exists_spec st ix dirs D :
  D ∈ dir_exists st (revalidate st ix).2 dirs ↔ D ∈ dirs ∧ D ∈ st.
Proof.
  destruct (revalidate_spec st ix) as [-> _]. unfold dir_exists. cbv zeta.
  generalize (ix_dirs ix). intros X. rewrite <- (elem_of_list_to_set (C:=gset oid) D dirs).
  generalize (list_to_set dirs : gset oid). intros Y.
  destruct (decide (D ∈ st)), (decide (D ∈ X)); set_solver.
Qed.

Lemma indexed_dir_hashes_unfold st load ix dirs :
  indexed_dir_hashes st load ix dirs =
  foldl (index_dir load) ((revalidate st ix).1, ∅)
        (filter (λ D, D ∈ dir_exists st (revalidate st ix).2 dirs) dirs).
Proof. unfold indexed_dir_hashes. by destruct (revalidate st ix). Qed.

(* the directories _indexed_dir_hashes visits are the requested ones that are in the store NOW *)
Lemma visited_spec st ix dirs D :
  D ∈ filter (λ D, D ∈ dir_exists st (revalidate st ix).2 dirs) dirs ↔ D ∈ dirs ∧ D ∈ st.
Proof. rewrite elem_of_list_filter, dir_exists_spec. tauto. Qed.

Lemma indexed_dir_hashes_dom (G : oid → Prop) st load ix dirs :
  (∀ D l, D ∈ dirs → D ∈ st → load D = Some l → G D ∧ ∀ e, e ∈ l → G e) →
  (∀ o, o ∈ dom (revalidate st ix).1 → G o) →
  (∀ o, o ∈ dom (indexed_dir_hashes st load ix dirs).1 → G o) ∧
  (∀ o, o ∈ (indexed_dir_hashes st load ix dirs).2 → G o).
Proof.
  intros Hd Hix. rewrite indexed_dir_hashes_unfold. apply fold_index_dir_dom; cbn [fst snd]; [|done|set_solver].
  intros D l HD. apply visited_spec in HD as [? ?]. eauto.
Qed.

Lemma indexed_dir_hashes_flags st load ix dirs :
  wf_loader load → (∀ D, D ∈ dirs → is_dir_oid D = true) → flags_ok ix →
  flags_ok (indexed_dir_hashes st load ix dirs).1.
Proof.
  intros Hw Hd Hf. rewrite indexed_dir_hashes_unfold. apply fold_index_dir_flags; [done| |].
  - intros D HD. apply visited_spec in HD as [? ?]. auto.
  - by apply revalidate_flags.
Qed.

Lemma indexed_dir_hashes_yield st load ix dirs o :
  o ∈ (indexed_dir_hashes st load ix dirs).2 ↔
  ∃ D l, D ∈ dirs ∧ D ∈ st ∧ load D = Some l ∧ (o = D ∨ o ∈ l).
Proof.
  rewrite indexed_dir_hashes_unfold, fold_index_dir_yield. cbn [snd]. split.
  - intros [?|(D & l & HD & Hl & Ho)]; [set_solver|]. apply visited_spec in HD as [? ?]. eauto 10.
  - intros (D & l & HD & Hs & Hl & Ho). right. exists D, l. rewrite visited_spec. auto.
Qed.

Lemma req_dirs_spec q D : D ∈ req_dirs q ↔ D ∈ q ∧ is_dir_oid D = true.
Proof. unfold req_dirs. rewrite elem_of_list_filter. tauto. Qed.

(* ------------------------------------------------------------------------------------ *)
(* status() with an index, taken apart *)
Lemma status_ix_inv st load ix q sh e m ix' :
  status_ix st load ix q sh = Ok (e, m, ix') →
  ∃ ids, collect load sh q = Some ids ∧ e ⊆ ids ∧ m = ids ∖ e ∧
    ((ids = ∅ ∧ e = ∅ ∧ ix' = ix) ∨
     (ids ≠ ∅ ∧ req_dirs q = [] ∧ ix' = ix ∧
        ∀ o, o ∈ e ↔ o ∈ ids ∧ (o ∈ dom ix ∨ o ∈ st)) ∨
     (ids ≠ ∅ ∧ req_dirs q ≠ [] ∧ ix' = (indexed_dir_hashes st load ix (req_dirs q)).1 ∧
        ∀ o, o ∈ e ↔ o ∈ ids ∧ (o ∈ (indexed_dir_hashes st load ix (req_dirs q)).2
                                   ∨ o ∈ dom ix' ∨ o ∈ st))).
Proof.
  unfold status_ix. destruct (collect load sh q) as [ids|] eqn:Ec; [|discriminate].
  destruct (decide (ids = ∅)) as [He|He].
  - intros H; inversion H; subst; clear H. exists ∅. split_and!; [done|set_solver|set_solver|]. by left.
  - destruct (req_dirs q) as [|d0 dr] eqn:Er.
    + intros H; inversion H; subst; clear H. exists ids. split_and!; [done|set_solver| |].
      * apply set_eq. intros o. set_unfold. destruct (decide (o ∈ dom ix')), (decide (o ∈ st)); tauto.
      * right. left. split_and!; [done..|]. intros o. set_unfold.
        destruct (decide (o ∈ dom ix')), (decide (o ∈ st)); tauto.
    + destruct (indexed_dir_hashes st load ix (d0 :: dr)) as [ix1 y] eqn:Ei.
      intros H; inversion H; subst; clear H. exists ids. cbn [fst snd].
      split_and!; [done|set_solver| |].
      * apply set_eq. intros o. set_unfold.
        destruct (decide (o ∈ y)), (decide (o ∈ dom ix')), (decide (o ∈ st)); tauto.
      * right. right. split_and!; [done..|]. intros o. set_unfold.
        destruct (decide (o ∈ y)), (decide (o ∈ dom ix')), (decide (o ∈ st)); tauto.
Qed.

(* under flat listings a queried directory id was requested *)
Lemma queried_dir load sh q ids D :
  wf_loader load → collect load sh q = Some ids → D ∈ ids → is_dir_oid D = true → D ∈ req_dirs q.
Proof.
  intros Hw Hc HD Hd. apply (collect_spec _ _ _ _ Hc) in HD as [?|(_ & D' & l & _ & _ & Hl & Ho)].
  - by apply req_dirs_spec.
  - rewrite (Hw _ _ Hl _ Ho) in Hd. discriminate.
Qed.

(* C12_dir_fresh *)
Lemma status_dir_fresh st load ix q sh e m ix' :
  status_ix st load ix q sh = Ok (e, m, ix') → wf_loader load → flags_ok ix →
  (∀ D, D ∈ e → is_dir_oid D = true → D ∈ st) ∧
  (req_dirs q ≠ [] → ∀ D, D ∈ ix_dirs ix' → D ∈ st) ∧
  flags_ok ix'.
Proof.
  intros H Hw Hf. apply status_ix_inv in H as (ids & Hc & Hsub & _ & Hcase).
  assert (Hfl : flags_ok (indexed_dir_hashes st load ix (req_dirs q)).1).
  { apply indexed_dir_hashes_flags; auto. intros D HD. by apply req_dirs_spec in HD as [_ ?]. }
  assert (HG : (∀ o, o ∈ dom (indexed_dir_hashes st load ix (req_dirs q)).1 → is_dir_oid o = true → o ∈ st)
             ∧ (∀ o, o ∈ (indexed_dir_hashes st load ix (req_dirs q)).2 → is_dir_oid o = true → o ∈ st)).
  { apply (indexed_dir_hashes_dom (λ o, is_dir_oid o = true → o ∈ st)).
    - intros D l HD Hs Hl. split; [done|]. intros o Ho Hd. rewrite (Hw _ _ Hl _ Ho) in Hd. discriminate.
    - intros o Ho Hd. apply revalidate_dirs_fresh with ix. apply ix_dirs_flags; [by apply revalidate_flags|].
      by split. }
  destruct HG as [HG1 HG2].
  destruct Hcase as [(-> & -> & ->)|[(Hne & Hr & -> & He)|(Hne & Hr & -> & He)]].
  - split_and!; [set_solver| |done]. intros Hr. exfalso.
    destruct (req_dirs q) as [|d0 dr] eqn:Er; [done|].
    assert (Hd0 : d0 ∈ req_dirs q) by (rewrite Er; by left). apply req_dirs_spec in Hd0 as [Hd0 _].
    assert (d0 ∈ (∅ : gset oid)); [|set_solver]. apply (collect_spec _ _ _ _ Hc). by left.
  - split_and!; [|done|done]. intros D HD Hd. exfalso.
    assert (D ∈ req_dirs q) by (eapply queried_dir; eauto). rewrite Hr in H. inversion H.
  - split_and!; [| |done].
    + intros D HD Hd. apply He in HD as [_ [?|[?|?]]]; auto.
    + intros _ D HD. apply ix_dirs_flags in HD as [? ?]; auto.
Qed.

Example status_dir_fresh_ex :
  (* a stale index: D1 and its file are indexed, D1 has vanished from the store; D2 is there *)
  let F1 : oid := [1] in let F2 : oid := [2] in
  let D1 : oid := [7] ++ dot_dir in let D2 : oid := [8] ++ dot_dir in
  let ld : loader := λ o, if decide (o = D1) then Some [F1] else if decide (o = D2) then Some [F2] else None in
  match status_ix {[F1; D2]} ld (list_to_map [(D1, true); (F1, false)]) [D1; D2; F2] true with
  | Ok (e, m, ix') =>
      same_set e [D2; F2] && same_set m [D1] && same_set (dom ix') [D2; F2]
      && same_set (ix_dirs ix') [D2] = true
  | _ => False
  end.
Proof. vm_compute. reflexivity. Qed.

(* ------------------------------------------------------------------------------------ *)
(* Iteration order.  dir_objs / dir_exists are Python dicts / sets: the real loop visits the
   directories in an order the model does not know.  For flat listings the order is
   irrelevant: the model's choice (request order) is as good as any other. *)
Lemma foldl_files_lookup (l : list oid) : ∀ (m0 : index) o,
  foldl (λ m f, <[f := false]> m) m0 l !! o = if decide (o ∈ l) then Some false else m0 !! o.
Proof.
  induction l as [|a l IH]; intros m0 o; cbn [foldl].
  - rewrite decide_False; [done|]. intros H; inversion H.
  - rewrite IH. destruct (decide (o ∈ l)) as [Hl|Hl].
    + rewrite decide_True; [done|by right].
    + destruct (decide (o = a)) as [->|Hne].
      * rewrite lookup_insert, decide_True; [done|by left].
      * rewrite lookup_insert_ne by done. rewrite decide_False; [done|].
        intros H. apply elem_of_cons in H as [?|?]; auto.
Qed.

Lemma ix_update_lookup ix D l o :
  ix_update ix D l !! o =
  if decide (o ∈ l) then Some false else if decide (o = D) then Some true else ix !! o.
Proof.
  unfold ix_update. rewrite foldl_files_lookup. destruct (decide (o ∈ l)); [done|].
  destruct (decide (o = D)) as [->|Hne]; [by rewrite lookup_insert|by rewrite lookup_insert_ne].
Qed.

Lemma ix_update_lookup_other ix D l D' : D' ∉ l → D' ≠ D → ix_update ix D l !! D' = ix !! D'.
Proof. intros H1 H2. rewrite ix_update_lookup, decide_False, decide_False; done. Qed.

Lemma ix_update_comm ix D1 l1 D2 l2 :
  D1 ∉ l2 → D2 ∉ l1 → D1 ≠ D2 →
  ix_update (ix_update ix D1 l1) D2 l2 = ix_update (ix_update ix D2 l2) D1 l1.
Proof.
  intros H1 H2 Hne. apply map_eq. intros o. rewrite !ix_update_lookup.
  destruct (decide (o ∈ l2)), (decide (o ∈ l1)), (decide (o = D2)), (decide (o = D1)); subst; done.
Qed.

Lemma index_dir_comm load acc D1 D2 :
  wf_loader load → is_dir_oid D1 = true → is_dir_oid D2 = true →
  index_dir load (index_dir load acc D1) D2 = index_dir load (index_dir load acc D2) D1.
Proof.
  intros Hw Hd1 Hd2. destruct (decide (D1 = D2)) as [->|Hne]; [done|].
  destruct acc as [ix y]. unfold index_dir.
  destruct (load D1) as [l1|] eqn:E1; destruct (load D2) as [l2|] eqn:E2; cbn [fst snd];
    rewrite ?E1, ?E2; cbn [fst snd]; try done.
  assert (H12 : D1 ∉ l2). { intros H. rewrite (Hw _ _ E2 _ H) in Hd1. discriminate. }
  assert (H21 : D2 ∉ l1). { intros H. rewrite (Hw _ _ E1 _ H) in Hd2. discriminate. }
  f_equal; [|set_solver].
  destruct (decide (is_Some (ix !! D1))) as [S1|S1], (decide (is_Some (ix !! D2))) as [S2|S2].
  - by rewrite decide_True.
  - rewrite decide_True; [done|]. by rewrite ix_update_lookup_other by auto.
  - rewrite decide_True by (by rewrite ix_update_lookup_other by auto). by rewrite decide_False.
  - rewrite decide_False by (by rewrite ix_update_lookup_other by auto).
    rewrite decide_False by (by rewrite ix_update_lookup_other by auto).
    by apply ix_update_comm.
Qed.

Lemma foldl_perm {A B} (f : A → B → A) (P : B → Prop) :
  (∀ a x y, P x → P y → f (f a x) y = f (f a y) x) →
  ∀ l1 l2, l1 ≡ₚ l2 → Forall P l1 → ∀ a, foldl f a l1 = foldl f a l2.
Proof.
  intros Hc l1 l2 Hp. induction Hp as [|x l1 l2 _ IH|x y l|l1 l2 l3 H12 IH1 _ IH2]; intros HP a; cbn [foldl].
  - done.
  - inversion HP; subst. by apply IH.
  - inversion HP as [|? ? Hy HP']; subst. inversion HP' as [|? ? Hx _]; subst. by rewrite Hc.
  - rewrite IH1 by done. apply IH2. by rewrite <- H12.
Qed.

(* the lemma the model file and the harness refer to *)
Lemma indexed_loop_perm load ds1 ds2 acc :
  wf_loader load → (∀ D, D ∈ ds1 → is_dir_oid D = true) → ds1 ≡ₚ ds2 →
  foldl (index_dir load) acc ds1 = foldl (index_dir load) acc ds2.
Proof.
  intros Hw Hd Hp. apply (foldl_perm _ (λ D, is_dir_oid D = true)); [|done|by apply Forall_forall].
  intros a x y Hx Hy. by apply index_dir_comm.
Qed.

Lemma collect_perm load sh q1 q2 : q1 ≡ₚ q2 → collect load sh q1 = collect load sh q2.
Proof.
  intros Hp.
  assert (HQ : ∀ o, Queried load sh q1 o ↔ Queried load sh q2 o).
  { intros o. unfold Queried. setoid_rewrite Hp. done. }
  destruct (collect load sh q1) as [i1|] eqn:E1, (collect load sh q2) as [i2|] eqn:E2.
  - f_equal. apply set_eq. intros o.
    by rewrite (collect_spec _ _ _ _ E1), (collect_spec _ _ _ _ E2).
  - exfalso. apply collect_none in E2 as (Hs & D & HD & ?). rewrite <- Hp in HD.
    assert (collect load sh q1 = None) by (apply collect_none; eauto). congruence.
  - exfalso. apply collect_none in E1 as (Hs & D & HD & ?). rewrite Hp in HD.
    assert (collect load sh q2 = None) by (apply collect_none; eauto). congruence.
  - done.
Qed.

(* status() through an index does not depend on the order of the request, i.e. on the order
   in which the real loop happens to visit the directories *)
Lemma status_ix_perm st load ix q1 q2 sh :
  wf_loader load → q1 ≡ₚ q2 → status_ix st load ix q1 sh = status_ix st load ix q2 sh.
Proof.
  intros Hw Hp. unfold status_ix. rewrite (collect_perm _ _ _ _ Hp).
  destruct (collect load sh q2) as [ids|]; [|done].
  destruct (decide (ids = ∅)); [done|].
  assert (Hr : req_dirs q1 ≡ₚ req_dirs q2) by (unfold req_dirs; by rewrite Hp).
  assert (Hi : indexed_dir_hashes st load ix (req_dirs q1) = indexed_dir_hashes st load ix (req_dirs q2)).
  { rewrite !indexed_dir_hashes_unfold.
    assert (Hset : (list_to_set (req_dirs q1) : gset oid) = list_to_set (req_dirs q2)).
    { apply set_eq. intros o. rewrite !elem_of_list_to_set. by rewrite Hr. }
    assert (Hdex : dir_exists st (revalidate st ix).2 (req_dirs q1) = dir_exists st (revalidate st ix).2 (req_dirs q2)).
    { unfold dir_exists. by rewrite Hset. }
    rewrite Hdex. apply indexed_loop_perm; [done| |by rewrite Hr].
    intros D HD. apply elem_of_list_filter in HD as [_ HD]. by apply req_dirs_spec in HD as [_ ?]. }
  destruct (req_dirs q1) as [|a1 r1] eqn:E1, (req_dirs q2) as [|a2 r2] eqn:E2.
  - done.
  - apply Permutation_nil_l in Hr. discriminate.
  - apply Permutation_nil_r in Hr. discriminate.
  - by rewrite Hi.
Qed.
