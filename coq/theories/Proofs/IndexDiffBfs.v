(* C08, part 2: the breadth-first queue of `_diff` in closed form.

   Generic part: a queue-driven breadth-first traversal [bfsq] over a forest whose child relation
   strictly decreases a rank visits exactly the nodes of the forest ([tree]), each once, and needs
   one unit of fuel per node.

   Specific part (shallow = False): the items of the queue of `_diff` are the listings of the
   *reached* nodes, so that

       diff_core o old new fuel  =  Some cs   with   cs  ≡ₚ  flat_map yield (visited o old new)

   where [visited] is a duplicate-free list of keys: the root and the children of every reached
   node.  No well-formedness of the indexes is needed for this. *)
From Coq Require Import NArith List Bool Arith Lia Permutation.
From DvcData Require Import Base.Val Base.PyBase Gen.PyTypes Gen.IDiff Model.Trie Model.IndexDiff Proofs.IndexDiffProofsBase.
Import ListNotations.

(* ---- list helpers ------------------------------------------------------------------------------- *)
Lemma flat_map_ext_In {A B} (f g : A -> list B) l :
  (forall a, In a l -> f a = g a) -> flat_map f l = flat_map g l.
Proof.
  induction l as [|x l IH]; intros H; simpl; [reflexivity|].
  rewrite (H x) by now left. f_equal. apply IH. intros a Ha. apply H. now right.
Qed.

Lemma flat_map_if {A B} (P : A -> bool) (g : A -> B) l :
  flat_map (fun c => if P c then [g c] else []) l = map g (filter P l).
Proof.
  induction l as [|x l IH]; simpl; [reflexivity|]. destruct (P x); simpl; now rewrite IH.
Qed.

Lemma NoDup_flat_map {A B} (f : A -> list B) l :
  NoDup l -> (forall a, In a l -> NoDup (f a)) ->
  (forall a b x, In a l -> In b l -> In x (f a) -> In x (f b) -> a = b) ->
  NoDup (flat_map f l).
Proof.
  induction 1 as [|a l Ha Hl IH]; intros Hf Hd; simpl; [constructor|].
  apply NoDup_app_intro.
  - apply Hf. now left.
  - apply IH.
    + intros b Hb. apply Hf. now right.
    + intros b c x Hb Hc. apply Hd; now right.
  - intros x Hx Hx'. apply in_flat_map in Hx' as [b [Hb Hxb]].
    assert (a = b) by (apply (Hd a b x); [now left | now right | assumption | assumption]).
    subst. contradiction.
Qed.

Lemma map_fst_graph {A B} (f : A -> B) l : map fst (map (fun c => (c, f c)) l) = l.
Proof. induction l as [|x l IH]; simpl; [reflexivity | now rewrite IH]. Qed.

(* ---- the generic breadth-first queue --------------------------------------------------------------- *)
Section Bfs.
  Context {A B : Type} (out : A -> list B) (kids : A -> list A) (rank : A -> nat).
  Hypothesis rank_kids : forall a c, In c (kids a) -> (rank c < rank a)%nat.

  Fixpoint tree (n : nat) (a : A) : list A :=
    match n with
    | O => [a]
    | S m => a :: flat_map (tree m) (kids a)
    end.

  Lemma kids_rank0 a : rank a = 0%nat -> kids a = [].
  Proof.
    intros H. destruct (kids a) as [|c l] eqn:E; [reflexivity|].
    assert (Hc : In c (kids a)) by (rewrite E; now left). apply rank_kids in Hc. lia.
  Qed.

  Lemma tree_S n : forall a, (rank a <= n)%nat -> tree (S n) a = tree n a.
  Proof.
    induction n as [|m IH]; intros a H.
    - simpl. rewrite kids_rank0 by lia. reflexivity.
    - change (tree (S (S m)) a) with (a :: flat_map (tree (S m)) (kids a)).
      change (tree (S m) a) with (a :: flat_map (tree m) (kids a)).
      f_equal. apply flat_map_ext_In. intros c Hc. apply IH. apply rank_kids in Hc. lia.
  Qed.

  Lemma tree_unfold n a : (rank a <= n)%nat -> tree n a = a :: flat_map (tree n) (kids a).
  Proof.
    destruct n as [|m]; intros H.
    - simpl. rewrite kids_rank0 by lia. reflexivity.
    - change (tree (S m) a) with (a :: flat_map (tree m) (kids a)) at 1. f_equal.
      apply flat_map_ext_In. intros c Hc. symmetry. apply tree_S. apply rank_kids in Hc. lia.
  Qed.

  Lemma tree_head n a : In a (tree n a).
  Proof. destruct n; simpl; now left. Qed.

  Lemma tree_In_closed n : forall a q c, (rank a <= n)%nat -> In q (tree n a) -> In c (kids q) -> In c (tree n a).
  Proof.
    induction n as [|m IH]; intros a q c Hr Hq Hc.
    - simpl in Hq. destruct Hq as [<-|[]]. rewrite kids_rank0 in Hc by lia. destruct Hc.
    - simpl in Hq. destruct Hq as [<-|Hq].
      + simpl. right. apply in_flat_map. exists c. split; [assumption | apply tree_head].
      + apply in_flat_map in Hq as [c' [Hc' Hq]]. simpl. right. apply in_flat_map. exists c'.
        split; [assumption|]. apply (IH c' q c); try assumption. apply rank_kids in Hc'. lia.
  Qed.

  Lemma tree_In_cases n : forall a x, In x (tree n a) -> x = a \/ exists p, In x (kids p).
  Proof.
    induction n as [|m IH]; intros a x H; simpl in H.
    - destruct H as [<-|[]]. now left.
    - destruct H as [<-|H]; [now left|]. apply in_flat_map in H as [c [Hc H]].
      apply IH in H as [->|H]; [right; now exists a | now right].
  Qed.

  Lemma bfsq_tree n : forall fuel q,
    Forall (fun a => (rank a <= n)%nat) q ->
    (length (flat_map (tree n) q) <= fuel)%nat ->
    exists r, bfsq out kids fuel q = Some r /\ Permutation r (flat_map out (flat_map (tree n) q)).
  Proof.
    induction fuel as [|f IH]; intros q Hq Hlen.
    - destruct q as [|a r].
      + exists []. split; [reflexivity | constructor].
      + exfalso. simpl in Hlen. rewrite app_length in Hlen. destruct n; simpl in Hlen; lia.
    - destruct q as [|a r]; [exists []; split; [reflexivity | constructor]|].
      inversion Hq as [|? ? Ha Hr]; subst.
      assert (Hk : Forall (fun c => (rank c <= n)%nat) (kids a)).
      { apply Forall_forall. intros c Hc. apply rank_kids in Hc. lia. }
      simpl in Hlen. rewrite (tree_unfold n a Ha) in Hlen. simpl in Hlen. rewrite app_length in Hlen.
      destruct (IH (r ++ kids a)) as [r' [E P]].
      + apply Forall_app. now split.
      + rewrite flat_map_app, app_length. lia.
      + simpl. rewrite E. simpl. eexists. split; [reflexivity|].
        rewrite (tree_unfold n a Ha). simpl. rewrite !flat_map_app. apply Permutation_app_head.
        rewrite !flat_map_app in P. etransitivity; [exact P|]. apply Permutation_app_comm.
  Qed.

  (* a property of every emitted element, from an invariant of the queue items *)
  Lemma bfsq_Forall (Q : A -> Prop) (P : B -> Prop) :
    (forall a, Q a -> Forall P (out a) /\ Forall Q (kids a)) ->
    forall fuel q r, Forall Q q -> bfsq out kids fuel q = Some r -> Forall P r.
  Proof.
    intros H. induction fuel as [|f IH]; intros q r Hq E.
    - destruct q; simpl in E; [injection E as <-; constructor | discriminate].
    - destruct q as [|a q']; simpl in E; [injection E as <-; constructor|].
      inversion Hq as [|? ? Ha Hq']; subst. destruct (H a Ha) as [Ho Hk].
      destruct (bfsq out kids f (q' ++ kids a)) as [r'|] eqn:E'; simpl in E; [|discriminate].
      injection E as <-. apply Forall_app. split; [assumption|].
      apply (IH (q' ++ kids a) r'); [|assumption]. apply Forall_app. now split.
  Qed.
End Bfs.

(* the queue over items simulates a queue over the nodes the items stand for *)
Lemma bfsq_map {A B K} (out : A -> list B) (kids : A -> list A) (out' : K -> list B) (kids' : K -> list K)
      (g : K -> A) :
  (forall k, out (g k) = out' k) -> (forall k, kids (g k) = map g (kids' k)) ->
  forall fuel q, bfsq out kids fuel (map g q) = bfsq out' kids' fuel q.
Proof.
  intros Ho Hk. induction fuel as [|f IH]; intros q; destruct q as [|k q]; simpl; try reflexivity.
  rewrite Ho, Hk, <- map_app, IH. reflexivity.
Qed.

Lemma tree_ext_In {A} (kids1 kids2 : A -> list A) n :
  (forall a x, In x (kids1 a) <-> In x (kids2 a)) ->
  forall a x, In x (tree kids1 n a) <-> In x (tree kids2 n a).
Proof.
  intros H. induction n as [|m IH]; intros a x; simpl; [tauto|].
  rewrite !in_flat_map. split; (intros [E|[c [Hc Hx]]]; [now left | right; exists c; split; [now apply H | now apply IH]]).
Qed.

(* ---- the queue of _diff ------------------------------------------------------------------------------ *)
Definition hasn (i : option index) (c : key) : bool :=
  match i with Some ix => has_node ix c | None => false end.

(* the info a listing holds for a key (None: the key is not listed) *)
Definition linfo (i : option index) (k : key) : option info :=
  match i with
  | None => None
  | Some ix => if is_node ix k then Some (info_from_entry (lookup ix k)) else None
  end.

Definition lsl (i : option index) (k : key) : items := get_items false i k None.
Definition item_of (old new : option index) (k : key) : items * items := (lsl old k, lsl new k).
Definition children (old new : option index) (k : key) : list key := union_keys (lsl old k) (lsl new k).

(* what visiting key [k] yields / whether its listing is appended to the queue *)
Definition yield (o : opts) (old new : option index) (k : key) : list change :=
  fst (visit o old new k (linfo old k) (linfo new k)).
Definition vdesc (o : opts) (old new : option index) (k : key) : bool :=
  match snd (visit o old new k (linfo old k) (linfo new k)) with [] => false | _ => true end.
Definition kkids (o : opts) (old new : option index) (k : key) : list key :=
  filter (vdesc o old new) (children old new k).

Definition roots (old new : option index) : list key :=
  if is_some old || is_some new then [[]] else [].

Definition depth_bound (old new : option index) : nat := Nat.max (maxlen (idx old)) (maxlen (idx new)).

(* the nodes whose listing is popped from the queue *)
Definition reached (o : opts) (old new : option index) : list key :=
  flat_map (tree (kkids o old new) (depth_bound old new)) (filter (vdesc o old new) (roots old new)).

(* the keys visited: the root, and the children of every reached node *)
Definition visited (o : opts) (old new : option index) : list key :=
  roots old new ++ flat_map (children old new) (reached o old new).

Lemma get_items_noshallow i k e : get_items false i k e = lsl i k.
Proof. unfold lsl, get_items. destruct i; reflexivity. Qed.

Lemma lsl_keys_In i k c :
  In c (map fst (lsl i k)) <-> exists n, c = k ++ [n] /\ hasn i c = true.
Proof.
  unfold lsl, get_items. destruct i as [ix|]; simpl.
  - unfold ls. destruct (is_node ix k) eqn:E.
    + rewrite map_fst_graph. apply child_nodes_spec.
    + simpl. split; [tauto|]. intros [n [-> H]].
      assert (is_node ix (k ++ [n]) = true) by (destruct k; exact H).
      apply is_node_prefix in H0. congruence.
  - split; [tauto|]. intros [n [_ H]]. discriminate.
Qed.

Lemma lsl_keys_NoDup i k : NoDup (map fst (lsl i k)).
Proof.
  unfold lsl, get_items. destruct i as [ix|]; simpl; [|constructor].
  unfold ls. destruct (is_node ix k); [|constructor]. rewrite map_fst_graph. apply child_nodes_NoDup.
Qed.

Lemma children_spec old new k c :
  In c (children old new k) <-> exists n, c = k ++ [n] /\ (hasn old c = true \/ hasn new c = true).
Proof.
  unfold children. rewrite union_keys_In, !lsl_keys_In. split.
  - intros [[n [-> H]]|[n [-> H]]]; exists n; tauto.
  - intros [n [-> [H|H]]]; [left | right]; now exists n.
Qed.

Lemma children_NoDup old new k : NoDup (children old new k).
Proof. apply union_keys_NoDup; apply lsl_keys_NoDup. Qed.

Lemma snoc_nonnil {A} (k : list A) n : k ++ [n] <> [].
Proof. destruct k; discriminate. Qed.

Lemma get_item_lsl i k n : get_item (lsl i k) (k ++ [n]) = linfo i (k ++ [n]).
Proof.
  unfold lsl, get_items, linfo. destruct i as [ix|]; [|reflexivity].
  assert (Hn : is_node ix (k ++ [n]) = has_node ix (k ++ [n])) by (destruct k; reflexivity).
  unfold ls. destruct (is_node ix k) eqn:E.
  - cbn [andb]. cbv beta iota. rewrite (get_item_map (fun c => info_from_entry (lookup ix c))). rewrite Hn.
    destruct (has_node ix (k ++ [n])) eqn:Eh.
    + assert (Hin : In (k ++ [n]) (child_nodes ix k)) by (apply child_nodes_spec; now exists n).
      apply mem_key_spec in Hin. now rewrite Hin.
    + destruct (mem_key (k ++ [n]) (child_nodes ix k)) eqn:Em; [|reflexivity].
      apply mem_key_spec, child_nodes_spec in Em as [n' [E' H]]. apply app_inj_tail in E' as [_ <-]. congruence.
  - cbn [andb get_item]. destruct (is_node ix (k ++ [n])) eqn:E'; [|reflexivity].
    apply is_node_prefix in E'. congruence.
Qed.

Lemma step_out_item o old new k :
  step_out o old new (item_of old new k) = flat_map (yield o old new) (children old new k).
Proof.
  unfold step_out, item_of. cbn [fst snd]. fold (children old new k).
  apply flat_map_ext_In. intros c Hc. apply children_spec in Hc as [n [-> _]].
  unfold yield. now rewrite !get_item_lsl.
Qed.

Lemma visit_snd o old new k oi ni :
  o_shallow o = false ->
  snd (visit o old new k oi ni) =
  match snd (visit o old new k oi ni) with [] => [] | _ => [item_of old new k] end.
Proof.
  intros Hs. unfold visit. cbn [snd]. rewrite Hs, !get_items_noshallow.
  repeat match goal with |- context [if ?b then _ else _] => destruct b end; reflexivity.
Qed.

Lemma step_todo_item o old new k :
  o_shallow o = false ->
  step_todo o old new (item_of old new k) = map (item_of old new) (kkids o old new k).
Proof.
  intros Hs. unfold step_todo, item_of, kkids. cbn [fst snd]. fold (children old new k).
  rewrite <- flat_map_if. apply flat_map_ext_In. intros c Hc. apply children_spec in Hc as [n [-> _]].
  rewrite !get_item_lsl. rewrite visit_snd by assumption. unfold vdesc.
  destruct (snd (visit o old new (k ++ [n]) (linfo old (k ++ [n])) (linfo new (k ++ [n])))); reflexivity.
Qed.

(* the first item of the queue: the infos of the root key *)
Lemma get_info_root ix : get_info ix [] = Some (info_from_entry (lookup ix [])).
Proof. unfold get_info. destruct (lookup ix []); reflexivity. Qed.

Lemma root_items_get i : get_item (root_items i) [] = linfo i [].
Proof. destruct i as [ix|]; simpl; [|reflexivity]. now rewrite get_info_root. Qed.

Lemma root_union old new : union_keys (root_items old) (root_items new) = roots old new.
Proof.
  unfold union_keys, roots, root_items. destruct old as [io|], new as [inw|]; simpl;
    rewrite ?get_info_root; reflexivity.
Qed.

Lemma step_out_root o old new :
  step_out o old new (root_items old, root_items new) = flat_map (yield o old new) (roots old new).
Proof.
  unfold step_out. cbn [fst snd]. rewrite root_union. apply flat_map_ext_In. intros c Hc.
  unfold roots in Hc. destruct (is_some old || is_some new); [|destruct Hc]. destruct Hc as [<-|[]].
  unfold yield. now rewrite !root_items_get.
Qed.

Lemma step_todo_root o old new :
  o_shallow o = false ->
  step_todo o old new (root_items old, root_items new) =
  map (item_of old new) (filter (vdesc o old new) (roots old new)).
Proof.
  intros Hs. unfold step_todo. cbn [fst snd]. rewrite root_union, <- flat_map_if.
  apply flat_map_ext_In. intros c Hc.
  unfold roots in Hc. destruct (is_some old || is_some new); [|destruct Hc]. destruct Hc as [<-|[]].
  rewrite !root_items_get, visit_snd by assumption. unfold vdesc.
  destruct (snd (visit o old new [] (linfo old []) (linfo new []))); reflexivity.
Qed.

(* ---- rank: the depth left below a key ----------------------------------------------------------------- *)
Definition krank (old new : option index) (k : key) : nat := (depth_bound old new - length k)%nat.

Lemma hasn_length i c : hasn i c = true -> (length c <= maxlen (idx i))%nat.
Proof. destruct i as [ix|]; simpl; [apply has_node_length | discriminate]. Qed.

Lemma child_length old new k c : In c (children old new k) ->
  length c = S (length k) /\ (length c <= depth_bound old new)%nat.
Proof.
  intros H. apply children_spec in H as [n [-> H]]. rewrite app_length. simpl. split; [lia|].
  unfold depth_bound. destruct H as [H|H]; apply hasn_length in H; rewrite app_length in H; simpl in H; lia.
Qed.

Lemma krank_kids o old new a c : In c (kkids o old new a) -> (krank old new c < krank old new a)%nat.
Proof.
  unfold kkids. intros H. apply filter_In in H as [H _]. apply child_length in H as [H1 H2].
  unfold krank. lia.
Qed.

(* ---- no node is reached twice -------------------------------------------------------------------------- *)
Lemma tree_extends o old new n : forall a x, In x (tree (kkids o old new) n a) -> exists s, x = a ++ s.
Proof.
  induction n as [|m IH]; intros a x H; simpl in H.
  - destruct H as [<-|[]]. exists []. now rewrite app_nil_r.
  - destruct H as [<-|H]; [exists []; now rewrite app_nil_r|].
    apply in_flat_map in H as [c [Hc H]]. apply IH in H as [s ->].
    apply filter_In in Hc as [Hc _]. apply children_spec in Hc as [m' [-> _]].
    exists (m' :: s). now rewrite <- app_assoc.
Qed.

Lemma tree_NoDup o old new n : forall a, NoDup (tree (kkids o old new) n a).
Proof.
  induction n as [|m IH]; intros a; simpl; [repeat constructor; intros []|].
  constructor.
  - intros H. apply in_flat_map in H as [c [Hc H]]. apply tree_extends in H as [s E].
    apply filter_In in Hc as [Hc _]. apply children_spec in Hc as [m' [-> _]].
    apply (f_equal (@length _)) in E. rewrite !app_length in E. simpl in E. lia.
  - apply NoDup_flat_map.
    + apply NoDup_filter, children_NoDup.
    + intros c _. apply IH.
    + intros c1 c2 x H1 H2 Hx1 Hx2.
      apply filter_In in H1 as [H1 _]. apply filter_In in H2 as [H2 _].
      apply children_spec in H1 as [m1 [-> _]]. apply children_spec in H2 as [m2 [-> _]].
      apply tree_extends in Hx1 as [s1 E1]. apply tree_extends in Hx2 as [s2 E2].
      rewrite E1, <- !app_assoc in E2. apply app_inv_head in E2. simpl in E2. now injection E2 as ->.
Qed.

Lemma reached_NoDup o old new : NoDup (reached o old new).
Proof.
  unfold reached, roots. destruct (is_some old || is_some new); simpl; [|constructor].
  destruct (vdesc o old new []); simpl; [|constructor]. rewrite app_nil_r. apply tree_NoDup.
Qed.

Lemma visited_NoDup o old new : NoDup (visited o old new).
Proof.
  unfold visited. apply NoDup_app_intro.
  - unfold roots. destruct (is_some old || is_some new); repeat constructor. intros [].
  - apply NoDup_flat_map.
    + apply reached_NoDup.
    + intros a _. apply children_NoDup.
    + intros a b x _ _ Ha Hb. apply children_spec in Ha as [n1 [-> _]]. apply children_spec in Hb as [n2 [E _]].
      now apply app_inj_tail in E as [-> _].
  - intros x Hx Hf. apply in_flat_map in Hf as [a [_ Ha]]. apply children_spec in Ha as [n [-> _]].
    unfold roots in Hx. destruct (is_some old || is_some new); [|destruct Hx]. destruct Hx as [E|[]].
    symmetry in E. now apply snoc_nonnil in E.
Qed.

(* every reached node is a node of one of the two tries: the fuel bound *)
Lemma reached_nodes o old new k :
  In k (reached o old new) -> In k (nodes (idx old) ++ nodes (idx new)).
Proof.
  unfold reached. intros H. apply in_flat_map in H as [r [Hr H]].
  apply filter_In in Hr as [Hr _]. unfold roots in Hr.
  destruct (is_some old || is_some new); [|destruct Hr]. destruct Hr as [<-|[]].
  apply tree_In_cases in H as [->|[p Hp]].
  - apply in_or_app. left. now apply nodes_spec.
  - apply filter_In in Hp as [Hp _]. apply children_spec in Hp as [n [-> Hn]].
    apply in_or_app. assert (Hnn : forall ix, has_node ix (p ++ [n]) = is_node ix (p ++ [n])) by (intros; destruct p; reflexivity).
    destruct Hn as [Hn|Hn]; [left | right]; apply nodes_spec.
    + destruct old as [ix|]; simpl in *; [now rewrite <- Hnn | discriminate].
    + destruct new as [ix|]; simpl in *; [now rewrite <- Hnn | discriminate].
Qed.

Lemma reached_length o old new :
  (length (reached o old new) <= length (nodes (idx old)) + length (nodes (idx new)))%nat.
Proof.
  rewrite <- app_length. apply NoDup_incl_length; [apply reached_NoDup|].
  intros k. apply reached_nodes.
Qed.

(* ---- the closed form ------------------------------------------------------------------------------------ *)
Theorem diff_core_closed o old new fuel :
  o_shallow o = false -> (fuel_for old new <= fuel)%nat ->
  exists cs, diff_core o old new fuel = Some cs /\
             Permutation cs (flat_map (yield o old new) (visited o old new)).
Proof.
  intros Hs Hf. unfold fuel_for in Hf. destruct fuel as [|f]; [lia|].
  unfold diff_core. cbn [bfsq]. cbn [app].
  rewrite step_out_root, step_todo_root by assumption.
  rewrite (bfsq_map (step_out o old new) (step_todo o old new)
             (fun k => flat_map (yield o old new) (children old new k)) (kkids o old new) (item_of old new)
             (step_out_item o old new) (fun k => step_todo_item o old new k Hs)).
  destruct (bfsq_tree (fun k => flat_map (yield o old new) (children old new k)) (kkids o old new)
              (krank old new) (krank_kids o old new) (depth_bound old new) f
              (filter (vdesc o old new) (roots old new))) as [r [E P]].
  - apply Forall_forall. intros k _. unfold krank. lia.
  - fold (reached o old new). pose proof (reached_length o old new). lia.
  - rewrite E. simpl. eexists. split; [reflexivity|].
    unfold visited. rewrite flat_map_app. apply Permutation_app_head.
    fold (reached o old new) in P. etransitivity; [exact P|].
    clear. induction (reached o old new) as [|a l IH]; simpl; [constructor|].
    rewrite flat_map_app. now apply Permutation_app_head.
Qed.

(* membership in [reached]: closed under the descent, and only the root or descended children *)
Lemma reached_root o old new :
  is_some old || is_some new = true -> vdesc o old new [] = true -> In [] (reached o old new).
Proof.
  intros H1 H2. unfold reached, roots. rewrite H1. simpl. rewrite H2. simpl. rewrite app_nil_r. apply tree_head.
Qed.

Lemma reached_step o old new p c :
  In p (reached o old new) -> In c (children old new p) -> vdesc o old new c = true -> In c (reached o old new).
Proof.
  unfold reached, roots. destruct (is_some old || is_some new); simpl; [|tauto].
  destruct (vdesc o old new []); simpl; [|tauto]. rewrite !app_nil_r. intros Hp Hc Hd.
  apply (tree_In_closed (kkids o old new) (krank old new) (krank_kids o old new) _ [] p c).
  - unfold krank. lia.
  - assumption.
  - unfold kkids. apply filter_In. now split.
Qed.

Lemma reached_inv o old new k :
  In k (reached o old new) ->
  vdesc o old new k = true /\ (k = [] \/ exists p, In p (reached o old new) /\ In k (children old new p)).
Proof.
  unfold reached, roots. destruct (is_some old || is_some new); simpl; [|tauto].
  destruct (vdesc o old new []) eqn:Er; simpl; [|tauto]. rewrite !app_nil_r.
  generalize (depth_bound old new). intros n.
  assert (G : forall n a x, In x (tree (kkids o old new) n a) ->
              x = a \/ (vdesc o old new x = true /\ exists p, In p (tree (kkids o old new) n a) /\ In x (children old new p))).
  { clear. induction n as [|m IH]; intros a x H; simpl in H.
    - destruct H as [<-|[]]. now left.
    - destruct H as [<-|H]; [now left|]. right. apply in_flat_map in H as [c [Hc H]].
      pose proof Hc as Hc'. apply filter_In in Hc' as [Hc1 Hc2].
      apply IH in H as [->|[Hd [p [Hp Hx]]]].
      + split; [assumption|]. exists a. split; [apply tree_head | assumption].
      + split; [assumption|]. exists p. split; [|assumption]. simpl. right. apply in_flat_map. now exists c. }
  intros H. apply G in H as [->|[Hd [p [Hp Hx]]]].
  - split; [assumption | now left].
  - split; [assumption|]. right. now exists p.
Qed.
