(* C03, part 2: what _get_hashes / _build_files / _build_tree compute does not depend on the
   scheduling parameters.

   For a directory with pairwise distinct file names, a state cache that is sound for the
   requested algorithm ([StateSound]: a hit under that algorithm carries the file's true digest)
   and a thread-pool delivery order [done] that eventually delivers every file it was given
   ([Delivers]; the order, and repetitions, are arbitrary):

     build_files c done fs = Some [ (name f, (alg, f_true f)) | f <- fs ]

   - no occurrence of threshold, jobs, done, the sizes or the state answers on the right.  Hence
   [build_tree] and the identifier [build_oid] equal those of the sequential cold run. *)
From Coq Require Import NArith List Bool Lia Permutation.
From DvcData Require Import Base.Val Base.MD5 Base.Json Model.Listing Model.HashSched.
From DvcData Require Import Proofs.ListingSort Proofs.ListingProofs.
Import ListNotations.
Open Scope N_scope.

(* ------------------------------------------------------------------ insertion-ordered dict *)
Lemma hd_get_set k k' v d :
  hd_get k (hd_set k' v d) = if list_N_eqb k k' then Some v else hd_get k d.
Proof.
  induction d as [|[k1 v1] r IH]; cbn [hd_set hd_get].
  - destruct (list_N_eqb k k'); reflexivity.
  - destruct (list_N_eqb k' k1) eqn:E1; cbn [hd_get].
    + apply list_N_eqb_spec in E1. subst k1. destruct (list_N_eqb k k'); reflexivity.
    + destruct (list_N_eqb k k1) eqn:E2.
      * apply list_N_eqb_spec in E2. subst k1.
        rewrite list_N_eqb_neq; [reflexivity|]. intros ->. now rewrite list_N_eqb_refl in E1.
      * exact IH.
Qed.

(* a key whose every binding in [pairs] is v0 *)
Lemma hd_update_keep k v0 pairs : forall d,
  (forall v, In (k, v) pairs -> v = v0) -> hd_get k d = Some v0 ->
  hd_get k (hd_update d pairs) = Some v0.
Proof.
  unfold hd_update. induction pairs as [|[k1 v1] r IH]; intros d Hall Hd; cbn [fold_left]; [exact Hd|].
  apply IH; [intros v Hv; apply Hall; now right|].
  cbn [fst snd]. rewrite hd_get_set. destruct (list_N_eqb k k1) eqn:E; [|exact Hd].
  apply list_N_eqb_spec in E. subst k1. f_equal. apply Hall. now left.
Qed.

Lemma hd_update_bound k v0 pairs : forall d,
  (forall v, In (k, v) pairs -> v = v0) -> (exists v, In (k, v) pairs) ->
  hd_get k (hd_update d pairs) = Some v0.
Proof.
  unfold hd_update. induction pairs as [|[k1 v1] r IH]; intros d Hall [v Hv]; [destruct Hv|].
  cbn [fold_left fst snd].
  destruct (list_N_eqb k k1) eqn:E.
  - apply list_N_eqb_spec in E. subst k1.
    apply (hd_update_keep k v0 r); [intros w Hw; apply Hall; now right|].
    rewrite hd_get_set, list_N_eqb_refl. f_equal. apply Hall. now left.
  - apply IH; [intros w Hw; apply Hall; now right|].
    destruct Hv as [Hv|Hv]; [|now exists v].
    injection Hv as -> _. now rewrite list_N_eqb_refl in E.
Qed.

(* ------------------------------------------------------------------ hypotheses *)
Definition StateSound (c : hconf) (fs : list hfile) : Prop :=
  forall f n v, In f fs -> f_state f = Some (n, v) -> n = c_name c -> v = f_true f.

(* the pool hands back every file it was given (imap_unordered: each exactly once, any order;
   the proof needs "at least once") *)
Definition Delivers (c : hconf) (done : list (list N)) (fs : list hfile) : Prop :=
  forall f, In f (par_files c fs) -> In (f_name f) done.

Definition NoDupNames (fs : list hfile) : Prop := NoDup (map f_name fs).

(* the answer: every file under the requested algorithm with its true digest *)
Definition spec_pair (c : hconf) (f : hfile) : list N * (list N * list N) := (f_name f, (c_name c, f_true f)).
Definition spec_files (c : hconf) (fs : list hfile) : hdict := map (spec_pair c) fs.

(* ------------------------------------------------------------------ where each file goes *)
Lemma par_files_incl c fs f : In f (par_files c fs) -> In f fs /\ is_hit c f = false.
Proof.
  unfold par_files. destruct (Nat.ltb _ 2); [intros []|].
  unfold large0. intros H. apply filter_In in H as [Hin Hb].
  apply andb_true_iff in Hb as [Hb _]. apply negb_true_iff in Hb. now split.
Qed.

Lemma seq_files_incl c fs f : In f (seq_files c fs) -> In f fs /\ is_hit c f = false.
Proof.
  unfold seq_files, small0, large0. intros H.
  assert (H' : In f (filter (fun f => negb (is_hit c f) && negb (is_large c f)) fs) \/
               In f (filter (fun f => negb (is_hit c f) && is_large c f) fs)).
  { destruct (Nat.ltb _ 2); [apply in_app_or in H; exact H | now left]. }
  destruct H' as [H'|H']; apply filter_In in H' as [Hin Hb];
    apply andb_true_iff in Hb as [Hb _]; apply negb_true_iff in Hb; now split.
Qed.

Lemma classify c fs f : In f fs ->
  In f (hits c fs) \/ In f (seq_files c fs) \/ In f (par_files c fs).
Proof.
  intros Hin. destruct (is_hit c f) eqn:Eh.
  - left. unfold hits. apply filter_In. now split.
  - right. unfold seq_files, par_files, small0, large0.
    destruct (is_large c f) eqn:El.
    + destruct (Nat.ltb _ 2).
      * left. apply in_or_app. right. apply filter_In. split; [exact Hin|]. now rewrite Eh, El.
      * right. apply filter_In. split; [exact Hin|]. now rewrite Eh, El.
    + left. assert (In f (filter (fun f => negb (is_hit c f) && negb (is_large c f)) fs)).
      { apply filter_In. split; [exact Hin|]. now rewrite Eh, El. }
      destruct (Nat.ltb _ 2); [apply in_or_app; now left | assumption].
Qed.

Lemma find_file_some n fs f : find_file n fs = Some f -> In f fs /\ f_name f = n.
Proof.
  induction fs as [|x r IH]; cbn [find_file]; [discriminate|].
  destruct (list_N_eqb n (f_name x)) eqn:E.
  - intros [= <-]. apply list_N_eqb_spec in E. split; [now left | now symmetry].
  - intros H. apply IH in H as [H1 H2]. split; [now right | exact H2].
Qed.

Lemma find_file_in n fs : In n (map f_name fs) -> exists f, find_file n fs = Some f.
Proof.
  induction fs as [|x r IH]; cbn [find_file map]; [intros []|].
  destruct (list_N_eqb n (f_name x)) eqn:E; [now exists x|].
  intros [H|H]; [|now apply IH]. subst n. now rewrite list_N_eqb_refl in E.
Qed.

Lemma delivered_incl done par f : In f (delivered done par) -> In f par.
Proof.
  unfold delivered. intros H. apply in_flat_map in H as [n [_ H]].
  destruct (find_file n par) as [g|] eqn:E; [|destruct H].
  destruct H as [<-|[]]. now apply find_file_some in E.
Qed.

Lemma names_inj fs f g : NoDupNames fs -> In f fs -> In g fs -> f_name f = f_name g -> f = g.
Proof. intros Hn. now apply NoDup_map_inj. Qed.

Lemma delivered_has c done fs f : NoDupNames fs -> Delivers c done fs ->
  In f (par_files c fs) -> In f (delivered done (par_files c fs)).
Proof.
  intros Hn Hd Hf. unfold delivered. apply in_flat_map. exists (f_name f). split; [now apply Hd|].
  destruct (find_file_in (f_name f) (par_files c fs)) as [g Eg]; [now apply in_map|].
  rewrite Eg. left. apply find_file_some in Eg as [Hg En].
  apply (names_inj fs); [exact Hn | now apply par_files_incl in Hg | now apply par_files_incl in Hf | exact En].
Qed.

(* ------------------------------------------------------------------ _get_hashes *)
Lemma hit_pair_spec c fs f : StateSound c fs -> In f (hits c fs) -> hit_pair f = spec_pair c f.
Proof.
  intros Hs H. unfold hits in H. apply filter_In in H as [Hin Hh].
  unfold is_hit in Hh. unfold hit_pair, spec_pair.
  destruct (f_state f) as [[n v]|] eqn:E; [|discriminate].
  apply list_N_eqb_spec in Hh. subst n. now rewrite (Hs f _ v Hin E eq_refl).
Qed.

Lemma fresh_pair_spec c f : fresh_pair c f = spec_pair c f.
Proof. reflexivity. Qed.

Lemma hash_files_values c done fs f v : NoDupNames fs ->
  In f fs -> In (f_name f, v) (hash_files c done fs) -> v = (c_name c, f_true f).
Proof.
  intros Hn Hin H. unfold hash_files in H. apply in_app_or in H.
  assert (Hg : exists g, In g fs /\ fresh_pair c g = (f_name f, v)).
  { destruct H as [H|H]; apply in_map_iff in H as [g [Eg Hg]]; exists g; split; try exact Eg.
    - now apply seq_files_incl in Hg.
    - apply delivered_incl in Hg. now apply par_files_incl in Hg. }
  destruct Hg as [g [Hg Eg]]. unfold fresh_pair in Eg. injection Eg as En Ev.
  assert (g = f) by now apply (names_inj fs). subst g. now symmetry.
Qed.

Lemma hits_values c fs f v : NoDupNames fs -> StateSound c fs ->
  In f fs -> In (f_name f, v) (map hit_pair (hits c fs)) -> v = (c_name c, f_true f).
Proof.
  intros Hn Hs Hin H. apply in_map_iff in H as [g [Eg Hg]].
  rewrite (hit_pair_spec c fs g Hs Hg) in Eg. unfold spec_pair in Eg. injection Eg as En Ev.
  assert (Hgin : In g fs) by (unfold hits in Hg; now apply filter_In in Hg).
  assert (g = f) by now apply (names_inj fs). subst g. now symmetry.
Qed.

Lemma In_hd_set x k v d : In x (hd_set k v d) -> x = (k, v) \/ In x d.
Proof.
  induction d as [|[k1 v1] r IH]; cbn [hd_set].
  - intros [<-|[]]. now left.
  - destruct (list_N_eqb k k1).
    + intros [<-|H]; [now left | right; now right].
    + intros [<-|H]; [right; now left|]. apply IH in H as [H|H]; [now left | right; now right].
Qed.

Lemma In_hd_update x pairs : forall d, In x (hd_update d pairs) -> In x d \/ In x pairs.
Proof.
  unfold hd_update. induction pairs as [|[k1 v1] r IH]; intros d H; cbn [fold_left] in H; [now left|].
  apply IH in H as [H|H]; [|right; now right].
  cbn [fst snd] in H. apply In_hd_set in H as [->|H]; [right; now left | now left].
Qed.

Lemma hd_get_In k v d : hd_get k d = Some v -> In (k, v) d.
Proof.
  induction d as [|[k1 v1] r IH]; cbn [hd_get]; [discriminate|].
  destruct (list_N_eqb k k1) eqn:E.
  - intros [= ->]. apply list_N_eqb_spec in E. subst k1. now left.
  - intros H. right. now apply IH.
Qed.

Theorem get_hashes_spec c done fs f :
  NoDupNames fs -> StateSound c fs -> Delivers c done fs -> In f fs ->
  hd_get (f_name f) (get_hashes c done fs) = Some (c_name c, f_true f).
Proof.
  intros Hn Hs Hd Hin. unfold get_hashes.
  set (k := f_name f). set (v0 := (c_name c, f_true f)).
  set (new := hd_update [] (hash_files c done fs)).
  set (hashes := hd_update [] (map hit_pair (hits c fs))).
  assert (Hnew : forall v, In (k, v) new -> v = v0).
  { intros v Hv. apply In_hd_update in Hv as [[]|Hv]. now apply (hash_files_values c done fs f v). }
  assert (Hfresh : forall v, In (k, v) (hash_files c done fs) -> v = v0).
  { intros v Hv. now apply (hash_files_values c done fs f v). }
  destruct (classify c fs f Hin) as [Hh|Hsp].
  - (* served by the state *)
    apply hd_update_keep; [exact Hnew|].
    apply hd_update_bound.
    + intros v Hv. now apply (hits_values c fs f v).
    + exists v0. apply in_map_iff. exists f. split; [|exact Hh]. now apply (hit_pair_spec c fs).
  - (* hashed now, sequentially or by the pool *)
    apply hd_update_bound; [exact Hnew|]. exists v0. apply hd_get_In.
    apply hd_update_bound; [exact Hfresh|]. exists v0.
    unfold hash_files. apply in_or_app. destruct Hsp as [Hsq|Hp].
    + left. apply in_map_iff. now exists f.
    + right. apply in_map_iff. exists f. split; [reflexivity|]. now apply delivered_has.
Qed.

(* ------------------------------------------------------------------ _build_files *)
Lemma build_files_go_spec c h : forall fs,
  (forall f, In f fs -> hd_get (f_name f) h = Some (c_name c, f_true f)) ->
  build_files_go h fs = Some (spec_files c fs).
Proof.
  induction fs as [|f r IH]; intros H; cbn [build_files_go]; [reflexivity|].
  rewrite (H f (or_introl eq_refl)).
  rewrite IH; [reflexivity | intros g Hg; apply H; now right].
Qed.

Theorem build_files_spec c done fs :
  NoDupNames fs -> StateSound c fs -> Delivers c done fs ->
  build_files c done fs = Some (spec_files c fs).
Proof.
  intros Hn Hs Hd. unfold build_files. apply build_files_go_spec.
  intros f Hf. now apply get_hashes_spec.
Qed.

(* ------------------------------------------------------------------ _build_tree *)
(* per walked directory: distinct names, sound state, complete delivery *)
Fixpoint WalkOk (c : hconf) (dones : list (list (list N))) (walk : list (key * list hfile)) : Prop :=
  match walk with
  | [] => True
  | (rel, fs) :: w =>
      NoDupNames fs /\ StateSound c fs /\
      Delivers c (match dones with d :: _ => d | [] => [] end) fs /\ WalkOk c (tl dones) w
  end.

(* the tree of the sequential cold run: no threshold, jobs, delivery order, sizes or state *)
Definition spec_tree_go (name : list N) (walk : list (key * list (list N * list N))) (t : tree) : tree :=
  fold_left (fun t d =>
    fold_left (fun t nv => add (hentry (fst d) (fst nv, (name, snd nv))) t) (snd d) t) walk t.

(* what the tree is a function of: per directory the (file name, true digest) pairs *)
Definition contents (walk : list (key * list hfile)) : list (key * list (list N * list N)) :=
  map (fun d => (fst d, map (fun f => (f_name f, f_true f)) (snd d))) walk.

Definition spec_tree (name : list N) (walk : list (key * list hfile)) : tree :=
  spec_tree_go name (contents walk) [].

Lemma fold_spec_files c rel fs t :
  fold_left (fun t nv => add (hentry rel nv) t) (spec_files c fs) t =
  fold_left (fun t nv => add (hentry rel (fst nv, (c_name c, snd nv))) t)
            (map (fun f => (f_name f, f_true f)) fs) t.
Proof.
  revert t. induction fs as [|f r IH]; intros t; [reflexivity|].
  cbn [spec_files map fold_left]. apply IH.
Qed.

Theorem build_tree_go_spec c : forall walk dones t,
  WalkOk c dones walk ->
  build_tree_go c dones walk t = Some (spec_tree_go (c_name c) (contents walk) t).
Proof.
  induction walk as [|[rel fs] w IH]; intros dones t Hw; [reflexivity|].
  cbn [WalkOk] in Hw. destruct Hw as (Hn & Hs & Hd & Hw).
  cbn [build_tree_go]. rewrite (build_files_spec c _ fs Hn Hs Hd).
  rewrite (IH (tl dones) _ Hw). f_equal. rewrite fold_spec_files. reflexivity.
Qed.

Theorem build_tree_spec c dones walk :
  WalkOk c dones walk -> build_tree c dones walk = Some (spec_tree (c_name c) walk).
Proof. apply build_tree_go_spec. Qed.

Theorem build_oid_spec c dones walk :
  WalkOk c dones walk -> build_oid c dones walk = Some (digest (spec_tree (c_name c) walk)).
Proof. intros H. unfold build_oid. now rewrite build_tree_spec. Qed.

(* two runs over the same directory contents, under any two configurations with the same
   algorithm, any two delivery orders, any two sound cache states, any file sizes: same id *)
Theorem build_oid_schedule c c' dones dones' walk walk' :
  c_name c = c_name c' -> contents walk = contents walk' ->
  WalkOk c dones walk -> WalkOk c' dones' walk' ->
  build_oid c dones walk = build_oid c' dones' walk'.
Proof.
  intros En Ec H H'. rewrite !build_oid_spec by assumption.
  unfold spec_tree. now rewrite En, Ec.
Qed.

(* ------------------------------------------------------------------ walk order *)
(* the entries _build_tree adds, in walk order *)
Definition walk_entries (name : list N) (cw : list (key * list (list N * list N))) : list entry :=
  flat_map (fun d => map (fun nv => hentry (fst d) (fst nv, (name, snd nv))) (snd d)) cw.

Lemma fold_left_map_add {A} (g : A -> entry) l : forall t,
  fold_left (fun t x => add (g x) t) l t = fold_left (fun t e => add e t) (map g l) t.
Proof. induction l as [|x r IH]; intros t; [reflexivity|]. cbn [map fold_left]. apply IH. Qed.

Lemma spec_tree_go_entries name cw : forall t,
  spec_tree_go name cw t = fold_left (fun t e => add e t) (walk_entries name cw) t.
Proof.
  induction cw as [|d r IH]; intros t; [reflexivity|].
  unfold spec_tree_go, walk_entries in *. cbn [fold_left flat_map].
  rewrite fold_left_app, IH. f_equal. apply fold_left_map_add.
Qed.

Lemma spec_tree_entries name walk :
  spec_tree name walk = tree_of_list (walk_entries name (contents walk)).
Proof. unfold spec_tree, tree_of_list. apply spec_tree_go_entries. Qed.

(* the directories may be walked, and the files of each listed, in any order *)
Theorem spec_tree_walk_order name walk walk' :
  KeysOk (walk_entries name (contents walk)) -> NoDupKeys (walk_entries name (contents walk)) ->
  Permutation (walk_entries name (contents walk)) (walk_entries name (contents walk')) ->
  digest (spec_tree name walk) = digest (spec_tree name walk').
Proof. intros Hk Hn P. rewrite !spec_tree_entries. now apply digest_insertion_order. Qed.

Theorem build_oid_schedule_walk c c' dones dones' walk walk' :
  c_name c = c_name c' ->
  WalkOk c dones walk -> WalkOk c' dones' walk' ->
  KeysOk (walk_entries (c_name c) (contents walk)) ->
  NoDupKeys (walk_entries (c_name c) (contents walk)) ->
  Permutation (walk_entries (c_name c) (contents walk)) (walk_entries (c_name c) (contents walk')) ->
  build_oid c dones walk = build_oid c' dones' walk'.
Proof.
  intros En H H' Hk Hn P. rewrite !build_oid_spec by assumption. f_equal.
  rewrite <- En. now apply spec_tree_walk_order.
Qed.

(* ------------------------------------------------------------------ non-vacuity *)
Definition ex_md5 : list N := [109; 100; 53].
Definition ex_fs : list hfile :=
  [ {| f_name := [97]; f_size := 20; f_state := None; f_true := repeat 49 32 |};
    {| f_name := [98]; f_size := 30; f_state := Some (ex_md5, repeat 50 32); f_true := repeat 50 32 |};
    {| f_name := [99]; f_size := 40; f_state := Some ([120], [0]); f_true := repeat 51 32 |};
    {| f_name := [100]; f_size := 0; f_state := None; f_true := repeat 52 32 |} ].
(* same files: every size changed, cold state *)
Definition ex_fs' : list hfile :=
  map (fun f => {| f_name := f_name f; f_size := 1; f_state := None; f_true := f_true f |}) ex_fs.
Definition ex_c : hconf := {| c_name := ex_md5; c_threshold := 10; c_jobs := Some 4 |}.
Definition ex_c' : hconf := {| c_name := ex_md5; c_threshold := 1048576; c_jobs := None |}.

(* a and c go to the pool (b is a state hit, d is empty), delivered in reverse order *)
Example ex_par : map f_name (par_files ex_c ex_fs) = [[97]; [99]].
Proof. reflexivity. Qed.

Example ex_walk_ok : WalkOk ex_c [[[99]; [97]]] [([[100]], ex_fs)].
Proof.
  cbn [WalkOk tl]. repeat split.
  - unfold NoDupNames. cbn. repeat constructor; cbn; intuition discriminate.
  - intros f n v Hin. cbn in Hin.
    destruct Hin as [<-|[<-|[<-|[<-|[]]]]]; cbn; intros E; try discriminate; injection E as <- <-;
      intros E'; try reflexivity; discriminate.
  - intros f Hin. cbn in Hin. destruct Hin as [<-|[<-|[]]]; cbn; auto.
Qed.

Example ex_walk_ok' : WalkOk ex_c' [] [([[100]], ex_fs')].
Proof.
  cbn [WalkOk tl]. repeat split.
  - unfold NoDupNames. cbn. repeat constructor; cbn; intuition discriminate.
  - intros f n v Hin. cbn in Hin.
    destruct Hin as [<-|[<-|[<-|[<-|[]]]]]; cbn; discriminate.
  - intros f Hin. cbn in Hin. destruct Hin.
Qed.

Example ex_schedule : build_oid ex_c [[[99]; [97]]] [([[100]], ex_fs)] = build_oid ex_c' [] [([[100]], ex_fs')].
Proof. apply build_oid_schedule; [reflexivity | reflexivity | apply ex_walk_ok | apply ex_walk_ok']. Qed.

(* the hypothesis StateSound is necessary: a poisoned cache entry changes the identifier *)
Definition ex_poisoned : list hfile :=
  [ {| f_name := [97]; f_size := 1; f_state := Some (ex_md5, repeat 48 32); f_true := repeat 49 32 |} ].
Example ex_unsound_state_matters :
  build_tree ex_c [] [([], ex_poisoned)] <> Some (spec_tree ex_md5 [([], ex_poisoned)]).
Proof. vm_compute. discriminate. Qed.

(* the same directory walked in another order (sub-directory first, files reversed), other
   configuration: the hypotheses of the walk-order theorem are satisfiable *)
Definition ex_sub_fs : list hfile :=
  [ {| f_name := [122]; f_size := 3; f_state := None; f_true := repeat 53 32 |} ].
Definition ex_walk1 : list (key * list hfile) := [([], ex_fs); ([[115]], ex_sub_fs)].
Definition ex_walk2 : list (key * list hfile) := [([[115]], ex_sub_fs); ([], rev ex_fs')].

Example ex_walk_order :
  build_oid ex_c [[[99]; [97]]; []] ex_walk1 = build_oid ex_c' [] ex_walk2.
Proof.
  apply build_oid_schedule_walk.
  - reflexivity.
  - cbn [WalkOk ex_walk1 tl]. split; [|split; [|split; [|repeat split]]].
    + apply ex_walk_ok.
    + apply ex_walk_ok.
    + apply ex_walk_ok.
    + unfold NoDupNames. cbn. repeat constructor. intros [].
    + intros f n v [<-|[]]; cbn; discriminate.
    + intros f Hin. cbn in Hin. destruct Hin.
  - cbn [WalkOk ex_walk2 tl]. repeat split.
    + unfold NoDupNames. cbn. repeat constructor. intros [].
    + intros f n v [<-|[]]; cbn; discriminate.
    + intros f Hin. cbn in Hin. destruct Hin.
    + unfold NoDupNames. cbn. repeat constructor; cbn; intuition discriminate.
    + intros f n v Hin. cbn in Hin. destruct Hin as [<-|[<-|[<-|[<-|[]]]]]; cbn; discriminate.
    + intros f Hin. cbn in Hin. destruct Hin.
  - repeat constructor.
  - unfold NoDupKeys. cbn. repeat constructor; cbn; intuition discriminate.
  - cbn. 
    (* [a;b;c;d;s/z]  ~  [s/z;d;c;b;a] *)
    match goal with |- Permutation ?l ?r => replace r with (rev l) by reflexivity end.
    apply Permutation_rev.
Qed.
