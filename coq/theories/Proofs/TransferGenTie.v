(* The tie between Model/Transfer.v and the source text of hashfile/transfer.py (+ compare_status):
   Gen/TransferGen.v is regenerated on every run from the current source by
   translator/transferunit.py (symbolic execution of the set algebra of _do_transfer's loop body
   and tail, the exemption test of _add._error, the phase order and the result of transfer(),
   the four sets of compare_status).  The lemmas below say that the hand-written model makes the
   same decisions; a source edit that changes a decision changes the generated definitions and
   breaks a lemma here (obligation "proof"), an edit outside the known statement shapes fails the
   translation (obligation "translation"). *)
From Coq Require Import NArith List Bool Lia.
From DvcData Require Import Base.Val Model.Transfer Gen.TransferGen Proofs.TransferBase Proofs.TransferStatus Proofs.TransferLoop Proofs.TransferProofs.
Import ListNotations.
Open Scope N_scope.

Lemma nonempty_filter (p : oid -> bool) l : nonempty (filter p l) = existsb p l.
Proof. induction l as [|x r IH]; simpl; auto. destruct (p x); simpl; auto. Qed.
Lemma nonempty_In l : nonempty l = true <-> exists x : oid, In x l.
Proof. destruct l; simpl; split; try discriminate; eauto. intros [x []]. Qed.

(* ---- the split of obj_ids and the stores the directory object is looked up in ---- *)
Lemma gen_split_ok i new missing :
  dir_loop i missing (t_dord i (g_split_dirs is_dir_oid new)) (g_split_files is_dir_oid new) [] =
  dir_loop i missing (t_dord i (filter is_dir_oid new)) (filter is_file_oid new) [].
Proof. reflexivity. Qed.

Definition try_store (i : t_in) (w : which_store) (D : oid) : option (list oid) :=
  match w with
  | WCache => match t_cache i with Some c => load_ok (t_parse i) c D | None => None end
  | WSrc => load_ok (t_parse i) (t_src i) D
  end.
Fixpoint first_some (i : t_in) (ws : list which_store) (D : oid) : option (list oid) :=
  match ws with
  | [] => None
  | w :: r => match try_store i w D with Some l => Some l | None => first_some i r D end
  end.
Lemma gen_find_order_ok i D : find_tree i D = first_some i g_find_order D.
Proof.
  unfold find_tree, g_find_order. simpl.
  destruct (match t_cache i with Some c => load_ok (t_parse i) c D | None => None end); auto.
  destruct (load_ok (t_parse i) (t_src i) D); auto.
Qed.

(* ---- one iteration of the directory loop ---- *)
Lemma gen_dir_step_ok i missing D entries files failed :
  let g := g_dir_step (add_events i) (add_failed i) missing D entries files failed in
  let m := dir_step i missing D entries files failed in
  fst (fst (fst g)) = fst (fst (fst m)) /\          (* the events, in order *)
  snd (fst (fst g)) = snd (fst (fst m)) /\          (* file_ids afterwards *)
  snd g = snd m /\                                  (* appended to succeeded_dir_objs? *)
  (forall o, In o (snd (fst g)) <-> In o (snd (fst m))).   (* failed_ids afterwards, as a set *)
Proof.
  unfold g_dir_step, dir_step, inter, diff. rewrite nonempty_filter.
  destruct (add_failed i (filter (fun x => mem x entries) files) ++ filter (fun x => mem x failed) entries)
    as [|x fl] eqn:E; simpl.
  - destruct (existsb (fun x => mem x missing) entries); simpl.
    + repeat split; auto; tauto.
    + destruct (add_failed i [D]) as [|y yl]; simpl; repeat split; auto; tauto.
  - split; [reflexivity|]. split; [reflexivity|]. split; [reflexivity|].
    intros o. simpl. rewrite !in_app_iff. simpl. intuition auto.
Qed.

(* ---- after the loop: insert the rest, failure exit, index update ---- *)
Lemma gen_finish_ok i new missing :
  let r := dir_loop i missing (t_dord i (filter is_dir_oid new)) (filter is_file_oid new) [] in
  d_ok r = true ->
  let g := g_finish (add_events i) (add_failed i) [SrcIndexClear]
             (fun succ => if t_dnoop i then [] else map (fun p => IndexUpdate (fst p) (snd p)) succ)
             (d_events r) (d_files r) (d_failed r) (d_succ r) in
  fst (do_transfer i new missing) = fst g /\
  exists fl, snd (do_transfer i new missing) = Some fl /\ forall o, In o fl <-> In o (snd g).
Proof.
  intros r Hok. unfold do_transfer, g_finish. fold r. rewrite Hok.
  destruct (add_failed i (d_files r)) as [|a al] eqn:Ea; destruct (d_failed r) as [|b bl] eqn:Eb; simpl.
  - split; auto. exists []. split; auto. tauto.
  - split; auto. eexists. split; eauto. intros o. simpl. rewrite ?in_app_iff. simpl. tauto.
  - split; auto. eexists. split; eauto. intros o. simpl. rewrite ?in_app_iff. simpl. tauto.
  - split; auto. eexists. split; eauto. intros o. simpl. rewrite ?in_app_iff. simpl. tauto.
Qed.

(* ---- _add._error: with a single writer the destination object of a failing upload is not
   there, hence not protected: every upload error counts (the exemption is C16's subject) ---- *)
Lemma gen_error_single_writer : forall is_permission_error, g_error_counts is_permission_error false = true.
Proof. intros []; reflexivity. Qed.
Lemma gen_error_exemption : g_error_counts true true = false /\ g_error_counts false true = true.
Proof. split; reflexivity. Qed.

(* ---- transfer(): phase order, arguments, result ---- *)
Lemma gen_phases_ok : g_phases = [PStatus; PValidate; PEarlyReturn; PDoTransfer] /\
                      g_do_transfer_args = (SNew, SMissing).
Proof. split; reflexivity. Qed.

Lemma gen_result_ok i st tr fl :
  o_status (transfer i) = Some st -> o_outcome (transfer i) = TOk tr fl -> c_new st <> [] ->
  (tr, fl) = g_result (c_new st) fl.
Proof.
  intros HS HO Hn. destruct (outcome_ok i tr fl HO) as [st' [dix [six [EC [HS' Hcase]]]]].
  rewrite HS in HS'. inversion HS'; subst st'.
  destruct Hcase as [[En _]|[_ [_ [-> _]]]]; [contradiction|]. reflexivity.
Qed.

(* ---- compare_status: which side is asked, and the four sets ---- *)
Lemma filter_all (p : oid -> bool) l : (forall x, In x l -> p x = true) -> filter p l = l.
Proof.
  induction l as [|x r IH]; simpl; intros H; auto. rewrite (H x (or_introl eq_refl)), IH; auto.
Qed.
Lemma filter_none (p : oid -> bool) l : (forall x, In x l -> p x = false) -> filter p l = [].
Proof.
  induction l as [|x r IH]; simpl; intros H; auto. rewrite (H x (or_introl eq_refl)), IH; auto.
Qed.

Lemma gen_cmp_ok i st dix six dex dmiss dix' :
  compare_status i = inr (st, dix, six) ->
  status_ix (t_dnoop i) (t_parse i) (t_dst i) (status_cache i) (t_dix i) (t_shallow i) (t_req i) = inr (dex, dmiss, dix') ->
  if g_ask_source false dmiss
  then exists sex smiss six',
         status_ix (t_snoop i) (t_parse i) (t_src i) (t_src i) (t_six i) (t_shallow i) (t_req i) = inr (sex, smiss, six') /\
         st = g_cmp sex smiss dex dmiss
  else st = g_cmp dex [] dex dmiss.     (* src_exists = dest_exists; src_missing = set() *)
Proof.
  unfold compare_status. intros H ED. rewrite ED in H. unfold g_ask_source.
  destruct dmiss as [|m0 mr]; simpl.
  - inversion H; subst. unfold g_cmp, inter, diff. simpl.
    rewrite (filter_all _ dex) by (intros x Hx; now apply mem_In).
    rewrite (filter_none _ dex) by (intros x Hx; apply negb_false_iff; now apply mem_In). reflexivity.
  - revert H.
    destruct (status_ix (t_snoop i) (t_parse i) (t_src i) (t_src i) (t_six i) (t_shallow i) (t_req i))
      as [k|[[sex smiss] six']]; intros H; [discriminate|].
    inversion H. eexists _, _, _. split; reflexivity.
Qed.
