(* C17 - the FileStorage loading model (Model/FileLoad.v) is what the source says: the definitions regenerated
   from index/index.py and index/build.py on every run (Gen/FileLoadGen.v, unit fileload) *)
From Coq Require Import NArith List Bool.
From DvcData Require Import Base.Val Model.IndexLoad Model.FileLoad Proofs.IndexLoadBase Proofs.FileLoadProofs Gen.FileLoadGen.
Import ListNotations.

(* FileStorage.get: asserts the prefix, strips the PREFIX (not the storage key) *)
Lemma fs_rel_is_source_get p k :
  fsget_asserts_prefix = true /\ fsget_strips_prefix = true /\
  fs_rel p k = if is_prefix p k then Some (fsget_rel (length p) 0 k) else None.
Proof. repeat split. Qed.

(* a storage built without an explicit prefix serves its key *)
Lemma default_prefix_is_key (key0 : key) :
  fs_default_prefix None key0 = key0 /\ forall p, fs_default_prefix (Some p) key0 = p.
Proof. split; reflexivity. Qed.

(* _load_from_file_storage: refusal of an absent path, children stored under root_entry.key + entry.key *)
Lemma load_file_is_source p w k :
  fls_refuses_missing = true /\ fls_stores_under_new_key = true /\
  load_file p w k =
  match fs_rel p k with
  | None => FlAssert
  | Some rel =>
      if ws_exists w rel
      then FlOk (map (fun n => (fls_child_key k (skipn (length rel) (f_key n)), fs_entry n)) (below rel w))
      else FlMissing
  end.
Proof. repeat split. Qed.

(* build_entries: no hash unless asked for (loading does not ask), `loaded` set for directories only *)
Lemma fs_entry_is_source n :
  be_compute_hash_default = false /\
  e_hash (fs_entry n) = be_hash_when_not_computed /\
  e_loaded (fs_entry n) = be_loaded_flag (f_dir n).
Proof. repeat split. Qed.

(* the keys build_entries gives (root_key + name, level by level) are the node keys of the model: a node key is
   the child key of its parent's key and its last name *)
Lemma node_key_is_source_child_key (parent : key) (nm : name) :
  be_child_key parent nm = parent ++ [nm].
Proof. reflexivity. Qed.
