(* Proofs for property C13 over the model Model/StateDb.v.

   The environment hypothesis [Ticks] (Prop; [ticks_b_sound] relates it to the executable check the
   correspondence evaluates on every observed history):
     - a mutation gives the file a token (ino, mtime, size) that is recorded for that path neither
       in the state table nor in one of the live indexes                                  [Fresh]
     - stat information supplied by a caller is the file's current one        [info_current]
     - a row written without hash_file (state.save by a caller, a foreign writer) is truthful
       whenever it could be served for the file as it is now                          [row_ok]
   Under it, for EVERY history, every answer of every route is the digest of the file's current
   bytes ([never_stale]); the invariant is [Inv]: a row / an index entry whose token equals the
   file's current token holds the file's current hash. *)
From Coq Require Import NArith List Bool Lia PeanoNat.
From DvcData Require Import Base.Val Model.StateDb.
From DvcData Require Base.PyBase Gen.PyTypes Gen.IDiff Gen.State.
Import ListNotations.
Open Scope N_scope.

(* ------------------------------------------------------------------ equalities *)
Lemma leqb_eq a b : list_N_eqb a b = true -> a = b.
Proof. apply list_N_eqb_spec. Qed.
Lemma leqb_refl a : list_N_eqb a a = true.
Proof. now apply list_N_eqb_spec. Qed.
Lemma leqb_neq a b : list_N_eqb a b = false -> a <> b.
Proof. intros E ->. rewrite leqb_refl in E. discriminate. Qed.

Lemma token_eqb_eq a b : token_eqb a b = true <-> a = b.
Proof.
  destruct a as [a1 a2 a3], b as [b1 b2 b3]; unfold token_eqb; cbn [t_ino t_mtime t_size].
  rewrite !andb_true_iff, !N.eqb_eq. split.
  - intros [[-> ->] ->]. reflexivity.
  - intros E. injection E as -> -> ->. auto.
Qed.
Lemma token_eqb_refl a : token_eqb a a = true.
Proof. now apply token_eqb_eq. Qed.

Lemma opt_token_eqb_eq a t : opt_token_eqb a t = true <-> a = Some t.
Proof.
  destruct a as [x|]; cbn [opt_token_eqb].
  - rewrite token_eqb_eq. split; congruence.
  - split; discriminate.
Qed.

(* ------------------------------------------------------------------ association lists *)
Section Assoc.
  Context {A : Type}.
  Implicit Types (l : list (path * A)) (k q : path) (v x : A).

  Lemma lookup_In k l v : lookup k l = Some v -> In (k, v) l.
  Proof.
    induction l as [|[k' v'] r IH]; cbn [lookup]; [discriminate|].
    destruct (list_N_eqb k k') eqn:E.
    - apply leqb_eq in E. subst k'. intros [= ->]. now left.
    - intros Hl. right. auto.
  Qed.

  Lemma lookup_None_In k l : lookup k l = None -> forall v, ~ In (k, v) l.
  Proof.
    induction l as [|[k' v'] r IH]; cbn [lookup]; intros Hl v Hin; [exact Hin|].
    destruct (list_N_eqb k k') eqn:E; [discriminate|].
    destruct Hin as [[= -> ->]|Hin]; [rewrite leqb_refl in E; discriminate|].
    exact (IH Hl v Hin).
  Qed.

  Lemma lookup_set_same k v l : lookup k (set k v l) = Some v.
  Proof.
    induction l as [|[k' v'] r IH]; cbn [set lookup].
    - now rewrite leqb_refl.
    - destruct (list_N_eqb k k') eqn:E; cbn [lookup]; rewrite ?leqb_refl, ?E; auto.
  Qed.

  Lemma lookup_set_other k q v l : q <> k -> lookup q (set k v l) = lookup q l.
  Proof.
    intros Hne. induction l as [|[k' v'] r IH]; cbn [set lookup].
    - destruct (list_N_eqb q k) eqn:E; [apply leqb_eq in E; contradiction|reflexivity].
    - destruct (list_N_eqb k k') eqn:E; cbn [lookup].
      + apply leqb_eq in E. subst k'.
        destruct (list_N_eqb q k) eqn:E2; [apply leqb_eq in E2; contradiction|reflexivity].
      + now rewrite IH.
  Qed.

  Lemma In_set k v l q x : In (q, x) (set k v l) -> (q = k /\ x = v) \/ In (q, x) l.
  Proof.
    induction l as [|[k' v'] r IH]; cbn [set].
    - intros [[= -> ->]|[]]. now left.
    - destruct (list_N_eqb k k') eqn:E.
      + intros [[= -> ->]|Hin]; [now left|right; now right].
      + intros [Heq|Hin]; [right; now left|].
        destruct (IH Hin) as [?|?]; [now left|right; now right].
  Qed.

  Lemma lookup_remove_same k l : lookup k (remove k l) = None.
  Proof.
    unfold remove. induction l as [|[k' v'] r IH]; cbn [filter fst lookup]; [reflexivity|].
    destruct (list_N_eqb k k') eqn:E; cbn [negb lookup]; [exact IH|now rewrite E].
  Qed.

  Lemma lookup_remove_other k q l : q <> k -> lookup q (remove k l) = lookup q l.
  Proof.
    intros Hne. unfold remove. induction l as [|[k' v'] r IH]; cbn [filter fst lookup]; [reflexivity|].
    destruct (list_N_eqb k k') eqn:E; cbn [negb lookup].
    - apply leqb_eq in E. subst k'.
      destruct (list_N_eqb q k) eqn:E2; [apply leqb_eq in E2; contradiction|exact IH].
    - now rewrite IH.
  Qed.

  Lemma has_true k l : has k l = true -> exists v, lookup k l = Some v.
  Proof. unfold has. destruct (lookup k l) as [v|]; [eauto|discriminate]. Qed.
End Assoc.

Lemma path_dec (p q : path) : {p = q} + {p <> q}.
Proof. destruct (list_N_eqb p q) eqn:E; [left; now apply leqb_eq|right; now apply leqb_neq]. Qed.

(* ------------------------------------------------------------------ State._get *)
Lemma st__get_tok r i a : st__get r i = Some a -> raw_tok r = Some i.
Proof.
  destruct r as [|e]; cbn [st__get raw_tok]; [discriminate|].
  destruct (token_eqb (r_tok e) i) eqn:E; cbn [negb]; [|discriminate].
  apply token_eqb_eq in E. now subst.
Qed.

Lemma st__get_v1 t s n v i a :
  st__get (Row {| r_version := Some HASH_VERSION; r_tok := t; r_size := s; r_alg := n; r_val := v |}) i = Some a ->
  a = (n, v) /\ t = i.
Proof.
  cbn [st__get r_tok r_version r_alg r_val].
  destruct (token_eqb t i) eqn:E; cbn [negb]; [|discriminate].
  apply token_eqb_eq in E. unfold HASH_VERSION. cbn. intros [= <-]. auto.
Qed.

(* a row of a newer format is never a hit, whatever it says *)
Lemma st__get_newer e i v : r_version e = Some v -> HASH_VERSION < v -> st__get (Row e) i = None.
Proof.
  intros Hv Hlt. cbn [st__get]. destruct (negb (token_eqb (r_tok e) i)); [reflexivity|].
  rewrite Hv. apply N.ltb_lt in Hlt. now rewrite Hlt.
Qed.

(* the algorithm name a row answers with (a row without version is a 2.x row: md5 meant md5-dos2unix) *)
Definition eff_name (e : row) : name :=
  match r_version e with
  | Some _ => r_alg e
  | None => if list_N_eqb (r_alg e) md5_name then md5_d2u_name else r_alg e
  end.

Lemma st__get_name e i n v : st__get (Row e) i = Some (n, v) -> n = eff_name e /\ v = r_val e.
Proof.
  cbn [st__get]. unfold eff_name. destruct (negb (token_eqb (r_tok e) i)); [discriminate|].
  destruct (r_version e) as [x|].
  - destruct (HASH_VERSION <? x); [discriminate|]. intros [= <- <-]. auto.
  - intros [= <- <-]. auto.
Qed.

Lemma use_hit_some alg a v : use_hit alg a = Some v -> a = Some (alg, v).
Proof.
  destruct a as [[n x]|]; cbn [use_hit]; [|discriminate].
  destruct (list_N_eqb n alg) eqn:E; [|discriminate]. apply leqb_eq in E. now intros [= ->]; subst.
Qed.

(* ------------------------------------------------------------------ batched *)
Lemma skipn_length_le {A} n (l : list A) : (length (skipn n l) <= length l - n)%nat.
Proof. rewrite skipn_length. lia. Qed.

Lemma batched_fuel_concat {A} n : (1 <= n)%nat -> forall fuel (l : list A),
  (length l <= fuel)%nat -> concat (batched_fuel fuel n l) = l.
Proof.
  intros Hn. induction fuel as [|f IH]; intros l Hl; cbn [batched_fuel].
  - destruct l; [reflexivity|cbn in Hl; lia].
  - destruct l as [|a r]; [reflexivity|]. cbn [concat].
    rewrite IH.
    + apply firstn_skipn.
    + pose proof (skipn_length_le n (a :: r)). cbn [length] in *. lia.
Qed.

Lemma batched_concat {A} n (l : list A) : (1 <= n)%nat -> concat (batched n l) = l.
Proof. intros Hn. unfold batched. now apply batched_fuel_concat. Qed.

Lemma batched_fuel_chunks {A} n : (1 <= n)%nat -> forall fuel (l : list A) c,
  In c (batched_fuel fuel n l) -> (1 <= length c <= n)%nat.
Proof.
  intros Hn. induction fuel as [|f IH]; intros l c; cbn [batched_fuel]; [intros []|].
  destruct l as [|a r]; [intros []|]. intros [<-|Hin]; [|eauto].
  rewrite firstn_length. cbn [length]. lia.
Qed.

Lemma batched_chunks {A} n (l : list A) c : (1 <= n)%nat -> In c (batched n l) -> (1 <= length c <= n)%nat.
Proof. intros Hn. unfold batched. now apply batched_fuel_chunks. Qed.

Lemma flat_map_map_concat {A B} (f : A -> B) (ls : list (list A)) :
  flat_map (map f) ls = map f (concat ls).
Proof. induction ls as [|c r IH]; cbn; [reflexivity|]. now rewrite map_app, IH. Qed.

Lemma lookup_nil_db (db : statedb) k : db_is_empty db = true -> lookup k db = None.
Proof. destruct db; [reflexivity|discriminate]. Qed.

(* HashesCache.get_many = one HashesCache.get per key, for every number of keys *)
Lemma hashes_get_many_spec db ks : hashes_get_many db ks = map (fun k => (k, lookup k db)) ks.
Proof.
  unfold hashes_get_many. destruct (db_is_empty db) eqn:E.
  - apply map_ext. intros k. now rewrite lookup_nil_db.
  - unfold lookup_chunk. rewrite flat_map_map_concat, batched_concat; [reflexivity|].
    unfold SQLITE_MAX_VARIABLE_NUMBER. lia.
Qed.

(* State.get_many = one State.get per path (with the path's supplied info), for every number of paths *)
Lemma get_many_is_map_get db local fs ks infos :
  st_get_many db local fs ks infos = map (fun k => (k, st_get db local fs k (lookup k infos))) ks.
Proof.
  unfold st_get_many, st_get. destruct local; cbn [negb]; [|reflexivity].
  rewrite hashes_get_many_spec, map_map. apply map_ext. intros k.
  unfold get_many_row. cbn [fst snd]. destruct (lookup k db) as [r|]; [|reflexivity].
  destruct (or_info (lookup k infos) fs k); reflexivity.
Qed.

(* chunks of at most 999 keys, concatenated *)
Lemma get_many_chunks db fs ks infos :
  st_get_many db true fs ks infos =
  flat_map (fun chunk => st_get_many db true fs chunk infos) (batched SQLITE_MAX_VARIABLE_NUMBER ks)
  /\ (forall c, In c (batched SQLITE_MAX_VARIABLE_NUMBER ks) -> (1 <= length c <= 999)%nat).
Proof.
  split.
  - rewrite get_many_is_map_get.
    rewrite (flat_map_ext _ (map (fun k => (k, st_get db true fs k (lookup k infos))))).
    + rewrite flat_map_map_concat, batched_concat; [reflexivity|unfold SQLITE_MAX_VARIABLE_NUMBER; lia].
    + intros c. apply get_many_is_map_get.
  - intros c. apply batched_chunks. unfold SQLITE_MAX_VARIABLE_NUMBER. lia.
Qed.

(* ================================================================== the invariant and its preservation *)
Section WithDigest.
  Variable H : name -> bytes -> oid.

  (* "v is the digest, under algorithm n, of the bytes the file p has now" *)
  Definition hashes_to (fs : fsview) (p : path) (n : name) (v : oid) : Prop :=
    exists f, lookup p fs = Some f /\ v = H n (f_bytes f).

  (* a row is sound for the file as it is now: were it served, it would be the current digest *)
  Definition row_ok (fs : fsview) (p : path) (r : raw) : Prop :=
    forall f n v, lookup p fs = Some f -> st__get r (f_tok f) = Some (n, v) -> v = H n (f_bytes f).

  Definition DbInv (fs : fsview) (db : statedb) : Prop :=
    forall p r, In (p, r) db -> row_ok fs p r.

  (* an index entry whose recorded (inode, mtime, size) is the file's current one carries the current digest *)
  Definition IdxInv (fs : fsview) (idx : index) : Prop :=
    forall p e f n v, In (p, e) idx -> lookup p fs = Some f -> entry_tok e = Some (f_tok f) ->
                      i_hash e = Some (n, v) -> v = H n (f_bytes f).

  Definition Inv (w : world) : Prop :=
    DbInv (w_fs w) (w_db w) /\ IdxInv (w_fs w) (w_a w) /\ IdxInv (w_fs w) (w_b w).

  Lemma Inv_empty : Inv empty_world.
  Proof. repeat split; intros ? ? *; intros []. Qed.

  (* ---------------------------------------------------------------- the environment hypothesis *)
  Definition Fresh (w : world) (p : path) (t : token) : Prop :=
    (forall r, In (p, r) (w_db w) -> raw_tok r <> Some t) /\
    (forall e, In (p, e) (w_a w) -> entry_tok e <> Some t) /\
    (forall e, In (p, e) (w_b w) -> entry_tok e <> Some t).

  Definition info_current (fs : fsview) (p : path) (info : option token) : Prop :=
    forall i, info = Some i -> fs_info fs p = Some i.
  Definition infos_current (fs : fsview) (infos : list (path * token)) : Prop :=
    forall p i, In (p, i) infos -> fs_info fs p = Some i.

  Definition tick_ok (w : world) (o : op) : Prop :=
    match o with
    | Write p _ t | Replace p _ t | Create p _ t | Touch p t => Fresh w p t
    | Delete _ | MemPut _ _ => True
    | SaveForeign p r => row_ok (w_fs w) p r
    | StSave local p hi info =>
        local = true -> info_current (w_fs w) p info /\
                        (forall f, lookup p (w_fs w) = Some f -> snd hi = H (fst hi) (f_bytes f))
    | QGet local p info | QHashFile local p _ info => local = true -> info_current (w_fs w) p info
    | QGetMany local _ infos | QGetHashes local _ _ infos => local = true -> infos_current (w_fs w) infos
    | QGetHashesW local ps alg infos wp _ t =>
        (local = true -> infos_current (w_fs w) infos) /\
        Fresh (with_db w (snd (get_hashes H (w_db w) local (the_fs w local) ps alg infos))) wp t
    | QHashFileW local p alg i _ t =>
        (local = true -> info_current (w_fs w) p (Some i)) /\
        Fresh (with_db w (snd (hash_file H (w_db w) local (the_fs w local) p alg (Some i)))) p t
    | IBuild _ | IMd5 _ _ | IUpdate _ => True
    end.

  Fixpoint Ticks (w : world) (h : list op) : Prop :=
    match h with
    | [] => True
    | o :: h' => tick_ok w o /\ Ticks (fst (step H w o)) h'
    end.

  (* the executable check evaluated by the correspondence on every observed history implies it *)
  Lemma forallb_In {A} (f : A -> bool) l x : forallb f l = true -> In x l -> f x = true.
  Proof. intros Hf Hin. rewrite forallb_forall in Hf. auto. Qed.

  Lemma fresh_b_sound w p t : fresh_b w p t = true -> Fresh w p t.
  Proof.
    unfold fresh_b. rewrite !andb_true_iff. intros [[Hd Ha] Hb].
    repeat split; intros x Hin Heq.
    - pose proof (forallb_In _ _ _ Hd Hin) as Hx. cbn [fst snd] in Hx.
      rewrite leqb_refl, Heq in Hx. cbn [opt_token_eqb] in Hx. rewrite token_eqb_refl in Hx. discriminate.
    - pose proof (forallb_In _ _ _ Ha Hin) as Hx. cbn [fst snd] in Hx.
      rewrite leqb_refl, Heq in Hx. cbn [opt_token_eqb] in Hx. rewrite token_eqb_refl in Hx. discriminate.
    - pose proof (forallb_In _ _ _ Hb Hin) as Hx. cbn [fst snd] in Hx.
      rewrite leqb_refl, Heq in Hx. cbn [opt_token_eqb] in Hx. rewrite token_eqb_refl in Hx. discriminate.
  Qed.

  Lemma row_ok_b_sound fs p r : row_ok_b H fs p r = true -> row_ok fs p r.
  Proof.
    unfold row_ok_b, row_ok. intros Hb f n v Hl Hg. rewrite Hl, Hg in Hb. now apply leqb_eq.
  Qed.

  Lemma info_current_b_sound fs p info : info_current_b fs p info = true -> info_current fs p info.
  Proof. unfold info_current_b, info_current. intros Hb i ->. now apply opt_token_eqb_eq. Qed.

  Lemma infos_current_b_sound fs infos : infos_current_b fs infos = true -> infos_current fs infos.
  Proof.
    unfold infos_current_b, infos_current. intros Hb p i Hin.
    pose proof (forallb_In _ _ _ Hb Hin) as Hx. cbn [fst snd] in Hx. now apply opt_token_eqb_eq.
  Qed.

  Lemma tick_okb_sound w o : tick_okb H w o = true -> tick_ok w o.
  Proof.
    destruct o; cbn [tick_okb tick_ok]; try (intros; exact I); try apply fresh_b_sound.
    - apply row_ok_b_sound.
    - intros Hb ->. cbn [negb orb] in Hb. apply andb_true_iff in Hb as [H1 H2]. split.
      + now apply info_current_b_sound.
      + intros f Hl. rewrite Hl in H2. now apply leqb_eq.
    - intros Hb ->. now apply info_current_b_sound.
    - intros Hb ->. now apply infos_current_b_sound.
    - intros Hb ->. now apply info_current_b_sound.
    - intros Hb ->. now apply infos_current_b_sound.
    - intros Hb. apply andb_true_iff in Hb as [H1 H2]. split; [|now apply fresh_b_sound].
      intros ->. now apply infos_current_b_sound.
    - intros Hb. apply andb_true_iff in Hb as [H1 H2]. split; [|now apply fresh_b_sound].
      intros ->. now apply info_current_b_sound.
  Qed.

  Lemma ticks_b_sound : forall h w, ticks_b H w h = true -> Ticks w h.
  Proof.
    induction h as [|o h IH]; intros w; cbn [ticks_b Ticks]; [auto|].
    rewrite andb_true_iff. intros [H1 H2]. split; [now apply tick_okb_sound|now apply IH].
  Qed.

  (* ---------------------------------------------------------------- lookups are sound under DbInv *)
  Lemma fs_info_some fs p i : fs_info fs p = Some i -> exists f, lookup p fs = Some f /\ f_tok f = i.
  Proof. unfold fs_info. destruct (lookup p fs) as [f|]; [|discriminate]. intros [= <-]. eauto. Qed.

  Lemma or_info_current fs p info i : info_current fs p info -> or_info info fs p = Some i ->
    exists f, lookup p fs = Some f /\ f_tok f = i.
  Proof.
    unfold or_info. destruct info as [j|]; intros Hc.
    - intros [= <-]. apply fs_info_some. now apply Hc.
    - apply fs_info_some.
  Qed.

  Lemma st_get_sound db fs p info n v : DbInv fs db -> info_current fs p info ->
    st_get db true fs p info = Some (n, v) -> hashes_to fs p n v.
  Proof.
    intros Hdb Hc. unfold st_get. cbn [negb].
    destruct (lookup p db) as [r|] eqn:Hl; [|discriminate].
    destruct (or_info info fs p) as [i|] eqn:Ho; [|discriminate]. intros Hg.
    destruct (or_info_current _ _ _ _ Hc Ho) as [f [Hf <-]].
    exists f. split; [assumption|]. exact (Hdb _ _ (lookup_In _ _ _ Hl) _ _ _ Hf Hg).
  Qed.

  Lemma st_get_nonlocal db fs p info : st_get db false fs p info = None.
  Proof. reflexivity. Qed.

  (* saving the digest of the current bytes keeps the table sound, whatever token it is saved under *)
  Lemma st_save_inv db fs local p n v tok : DbInv fs db ->
    (forall f, lookup p fs = Some f -> tok = f_tok f -> v = H n (f_bytes f)) ->
    DbInv fs (st_save db local p (n, v) tok).
  Proof.
    intros Hdb Hv. unfold st_save. destruct local; cbn [negb]; [|exact Hdb].
    intros q r Hin. apply In_set in Hin as [[-> ->]|Hin]; [|now apply Hdb].
    intros f n' v' Hf Hg. cbn [fst snd] in Hg. apply st__get_v1 in Hg as [[= -> ->] Ht]. now apply Hv.
  Qed.

  Lemma hash_file_sound db local fs p alg info :
    (local = true -> DbInv fs db /\ info_current fs p info) ->
    let r := hash_file H db local fs p alg info in
    (local = true -> DbInv fs (snd r)) /\ (local = false -> snd r = db) /\
    (forall x, fst r = Some x -> hashes_to fs p alg x) /\
    (fst r = None <-> lookup p fs = None).
  Proof.
    intros Hpre. unfold hash_file.
    destruct (use_hit alg (st_get db local fs p info)) as [v|] eqn:Hu; cbn [fst snd].
    - apply use_hit_some in Hu. destruct local; [|discriminate].
      destruct (Hpre eq_refl) as [Hdb Hc]. pose proof (st_get_sound _ _ _ _ _ _ Hdb Hc Hu) as Hs.
      repeat split; auto; try discriminate.
      + intros x [= <-]. exact Hs.
      + destruct Hs as [f [Hf _]]. congruence.
    - destruct (lookup p fs) as [f|] eqn:Hf; cbn [fst snd].
      + repeat split; try discriminate.
        * intros ->. destruct (Hpre eq_refl) as [Hdb _]. apply st_save_inv; [assumption|].
          intros f' Hf' _. rewrite Hf in Hf'. now injection Hf' as <-.
        * intros ->. reflexivity.
        * intros x [= <-]. exists f. auto.
      + repeat split; auto; try discriminate. intros ->. now apply Hpre.
  Qed.

  (* ---------------------------------------------------------------- _get_hashes *)
  Lemma infos_lookup_current fs infos p : infos_current fs infos -> info_current fs p (lookup p infos).
  Proof. intros Hc i Hl. apply Hc. now apply lookup_In. Qed.

  Lemma save_miss_fold_inv local fs alg infos : forall missed db,
    DbInv fs db -> DbInv fs (fold_left (save_miss H local fs alg infos) missed db).
  Proof.
    induction missed as [|pa r IH]; intros db Hdb; cbn [fold_left]; [assumption|].
    apply IH. unfold save_miss.
    destruct (lookup (fst pa) fs) as [f|] eqn:Hf; [|assumption].
    destruct (lookup (fst pa) infos) as [i|]; [|assumption].
    apply st_save_inv; [assumption|]. intros f' Hf' _. rewrite Hf in Hf'. now injection Hf' as <-.
  Qed.

  Lemma save_miss_fold_nonlocal fs alg infos : forall missed db,
    fold_left (save_miss H false fs alg infos) missed db = db.
  Proof.
    induction missed as [|pa r IH]; intros db; cbn [fold_left]; [reflexivity|].
    rewrite <- (IH db) at 2. f_equal. unfold save_miss.
    destruct (lookup (fst pa) fs); [|reflexivity]. destruct (lookup (fst pa) infos); reflexivity.
  Qed.

  Lemma get_hashes_sound db local fs ps alg infos :
    (local = true -> DbInv fs db /\ infos_current fs infos) ->
    let r := get_hashes H db local fs ps alg infos in
    (local = true -> DbInv fs (snd r)) /\ (local = false -> snd r = db) /\
    (forall l, fst r = inr l -> map fst l = ps /\ forall p x, In (p, x) l -> hashes_to fs p alg x).
  Proof.
    intros Hpre. unfold get_hashes.
    destruct (negb (forallb (fun p => has p infos) ps)); cbn [fst snd].
    { repeat split; auto; try discriminate. intros ->. now apply Hpre. }
    set (looked := st_get_many db local fs ps infos).
    destruct (negb (forallb (fun pa => has (fst pa) fs) (filter (miss alg) looked))) eqn:Hm; cbn [fst snd].
    { repeat split; auto; try discriminate. intros ->. now apply Hpre. }
    apply negb_false_iff in Hm. split; [|split].
    - intros ->. apply save_miss_fold_inv. now apply Hpre.
    - intros ->. apply save_miss_fold_nonlocal.
    - intros l [= <-]. subst looked. rewrite get_many_is_map_get. split.
      + rewrite !map_map. cbn [answer_of fst]. apply map_id.
      + intros p x Hin. rewrite map_map in Hin. apply in_map_iff in Hin as [k [Heq Hk]].
        unfold answer_of in Heq. cbn [fst snd] in Heq. injection Heq as -> Hx.
        destruct (use_hit alg (st_get db local fs p (lookup p infos))) as [v|] eqn:Hu.
        * subst x. apply use_hit_some in Hu. destruct local; [|discriminate].
          destruct (Hpre eq_refl) as [Hdb Hc].
          eapply st_get_sound; eauto using infos_lookup_current.
        * assert (Hin : In (p, st_get db local fs p (lookup p infos))
                           (filter (miss alg) (st_get_many db local fs ps infos))).
          { apply filter_In. split.
            - rewrite get_many_is_map_get. apply in_map_iff. exists p. auto.
            - unfold miss. cbn [snd]. now rewrite Hu. }
          pose proof (forallb_In _ _ _ Hm Hin) as Hh. cbn [fst] in Hh.
          apply has_true in Hh as [f Hf]. rewrite Hf in Hx. exists f. auto.
  Qed.

  (* ---------------------------------------------------------------- index level: Meta equality, update *)
  Lemma optN_eqb_eq a b : optN_eqb a b = true -> a = b.
  Proof. destruct a, b; cbn; try discriminate; auto. intros E. apply N.eqb_eq in E. now subst. Qed.
  Lemma optL_eqb_eq a b : optL_eqb a b = true -> a = b.
  Proof. destruct a, b; cbn; try discriminate; auto. intros E. apply leqb_eq in E. now subst. Qed.
  Lemma optN_eqb_refl a : optN_eqb a a = true.
  Proof. destruct a; cbn; [apply N.eqb_refl|reflexivity]. Qed.
  Lemma optL_eqb_refl a : optL_eqb a a = true.
  Proof. destruct a; cbn; [apply leqb_refl|reflexivity]. Qed.

  (* Meta.__eq__ (attrs, the ten eq=True fields) is equality of the ten fields *)
  Lemma meta_eqb_eq a b : meta_eqb a b = true <-> a = b.
  Proof.
    split.
    - destruct a, b. unfold meta_eqb.
      cbn.
      intros E. repeat (apply andb_true_iff in E as [E ?]).
      repeat match goal with
             | X : Bool.eqb _ _ = true |- _ => apply Bool.eqb_prop in X
             | X : optN_eqb _ _ = true |- _ => apply optN_eqb_eq in X
             | X : optL_eqb _ _ = true |- _ => apply optL_eqb_eq in X
             end.
      subst. reflexivity.
    - intros <-. unfold meta_eqb.
      rewrite !Bool.eqb_reflx, !optN_eqb_refl, !optL_eqb_refl. reflexivity.
  Qed.

  (* _diff_meta (cmp_key = None) answers UNCHANGED exactly when the two Optional[Meta] are equal *)
  Lemma diff_meta_unchanged old new : diff_meta old new = UNCHANGED <-> old = new.
  Proof.
    destruct old as [a|], new as [b|]; cbn [diff_meta]; try (split; [discriminate|congruence]).
    - destruct (meta_eqb a b) eqn:E.
      + apply meta_eqb_eq in E. subst. split; auto.
      + split; [discriminate|]. intros [= ->]. rewrite (proj2 (meta_eqb_eq b b) eq_refl) in E. discriminate.
    - split; reflexivity.
  Qed.

  Lemma upd_entry_spec old p e0 q e : upd_entry old (p, e0) = Some (q, e) ->
    q = p /\ i_meta e = i_meta e0 /\
    (e = e0 \/ exists eo, lookup p old = Some eo /\ i_meta eo = i_meta e0 /\ i_hash e = i_hash eo).
  Proof.
    unfold upd_entry. cbn [fst snd]. destruct (lookup p old) as [eo|] eqn:Hl.
    - destruct (diff_meta (i_meta eo) (i_meta e0)) eqn:Hd; intros [= <- <-]; auto.
      apply diff_meta_unchanged in Hd. cbn [i_meta i_hash]. repeat split; auto. right. exists eo. auto.
    - destruct (diff_meta None (i_meta e0)); [| | |discriminate]; intros [= <- <-]; auto.
  Qed.

  Lemma map_opt_In {A B} (f : A -> option B) : forall l l' y,
    map_opt f l = Some l' -> In y l' -> exists x, In x l /\ f x = Some y.
  Proof.
    induction l as [|a r IH]; intros l' y; cbn [map_opt].
    - intros [= <-] [].
    - destruct (f a) as [b|] eqn:Hf; [|discriminate].
      destruct (map_opt f r) as [r'|]; [|discriminate]. intros [= <-] [<-|Hin].
      + exists a. split; [now left|assumption].
      + destruct (IH _ _ eq_refl Hin) as [x [Hx Hfx]]. exists x. split; [now right|assumption].
  Qed.

  Lemma map_opt_keys {A B} (f : A -> option B) (ka : A -> path) (kb : B -> path) :
    (forall a b, f a = Some b -> kb b = ka a) ->
    forall l l', map_opt f l = Some l' -> map kb l' = map ka l.
  Proof.
    intros Hk. induction l as [|a r IH]; intros l'; cbn [map_opt].
    - intros [= <-]. reflexivity.
    - destruct (f a) as [b|] eqn:Hf; [|discriminate].
      destruct (map_opt f r) as [r'|]; [|discriminate]. intros [= <-]. cbn [map].
      now rewrite (Hk _ _ Hf), (IH _ eq_refl).
  Qed.

  (* update(new, old): every entry of the result is the entry of [new], except that its hash may
     be the one of the old entry under the same key - and then only if the two Meta are equal
     (so in particular inode, mtime and size are) *)
  Lemma idx_update_spec new old i : idx_update new old = Some i ->
    map fst i = map fst new /\
    forall p e, In (p, e) i ->
      exists e0, In (p, e0) new /\ i_meta e = i_meta e0 /\
        (e = e0 \/ exists eo, lookup p old = Some eo /\ i_meta eo = i_meta e0 /\ i_hash e = i_hash eo).
  Proof.
    unfold idx_update. intros Hm. split.
    - apply (map_opt_keys (upd_entry old) fst fst); [|exact Hm].
      intros [p0 e0] [q e] Hu. now apply upd_entry_spec in Hu as [-> _].
    - intros p e Hin. destruct (map_opt_In _ _ _ _ Hm Hin) as [[p0 e0] [Hin0 Hu]].
      apply upd_entry_spec in Hu as [-> [Hmeta Hc]]. exists e0. auto.
  Qed.

  Lemma idx_update_inv fs new old i : IdxInv fs new -> IdxInv fs old ->
    idx_update new old = Some i -> IdxInv fs i.
  Proof.
    intros Hn Ho Hu p e f n v Hin Hf Ht Hh.
    destruct (proj2 (idx_update_spec _ _ _ Hu) _ _ Hin) as [e0 [Hin0 [Hm [->|[eo [Hl [Hmo Hho]]]]]]].
    - eapply Hn; eauto.
    - apply (Ho p eo f n v); auto using lookup_In.
      + unfold entry_tok in *. rewrite Hmo, <- Hm. exact Ht.
      + now rewrite <- Hho.
  Qed.

  Lemma idx_build_inv fs fs' : IdxInv fs' (idx_build fs).
  Proof.
    intros p e f n v Hin _ _ Hh. unfold idx_build in Hin. apply in_map_iff in Hin as [pf [[= _ <-] _]].
    discriminate.
  Qed.

  (* ---------------------------------------------------------------- index.md5 *)
  Definition Md5Ok (fs : fsview) (alg : name) (idx0 : index) (p : path) (e : ientry) : Prop :=
    (is_dir_entry e = true /\ In (p, e) idx0) \/
    (is_dir_entry e = false /\
     exists f e0, In (p, e0) idx0 /\ lookup p fs = Some f /\ i_meta e = i_meta e0 /\
                  i_hash e = Some (alg, H alg (f_bytes f)) /\
                  (forall h, old_md5 e0 = Some h -> h = (alg, H alg (f_bytes f)))).

  Lemma hi_eqb_eq a b : hi_eqb a b = true -> a = b.
  Proof.
    destruct a, b. unfold hi_eqb. cbn [fst snd]. rewrite andb_true_iff. intros [E1 E2].
    apply leqb_eq in E1, E2. now subst.
  Qed.

  Lemma md5_step_ok fs alg idx0 ret db pe :
    DbInv fs db -> (forall q x, In (q, x) ret -> Md5Ok fs alg idx0 q x) -> In pe idx0 ->
    let r := md5_step H fs alg (ret, db) pe in
    DbInv fs (snd r) /\ forall q x, In (q, x) (fst r) -> Md5Ok fs alg idx0 q x.
  Proof.
    intros Hdb Hret Hin. destruct pe as [p e]. unfold md5_step. cbn [fst snd].
    destruct (is_dir_entry e) eqn:Hd; cbn [fst snd].
    { split; [assumption|]. intros q x Hq. apply In_set in Hq as [[-> ->]|Hq]; [left; auto|auto]. }
    destruct (lookup p fs) as [f|] eqn:Hf; cbn [fst snd]; [|auto].
    assert (Hpre : true = true -> DbInv fs db /\ info_current fs p None) by (split; [assumption|intros ?; discriminate]).
    pose proof (hash_file_sound db true fs p alg None Hpre) as Hs. cbn zeta in Hs.
    destruct (hash_file H db true fs p alg None) as [[v|] db'] eqn:Hh; cbn [fst snd] in *.
    - destruct Hs as [Hdb' [_ [Hv _]]]. specialize (Hdb' eq_refl).
      destruct (Hv v eq_refl) as [f' [Hf' ->]]. rewrite Hf in Hf'. injection Hf' as <-.
      assert (Hnew : forall q x, In (q, x) (set p {| i_meta := i_meta e; i_hash := Some (alg, H alg (f_bytes f)) |} ret) ->
                     (forall h, old_md5 e = Some h -> h = (alg, H alg (f_bytes f))) -> Md5Ok fs alg idx0 q x).
      { intros q x Hq Hold. apply In_set in Hq as [[-> ->]|Hq]; [|auto].
        right. split; [exact Hd|]. exists f, e. cbn [i_meta i_hash]. auto. }
      destruct (old_md5 e) as [h|] eqn:Ho.
      + destruct (hi_eqb (alg, H alg (f_bytes f)) h) eqn:Eh; cbn [fst snd]; split; auto.
        intros q x Hq. apply (Hnew q x Hq). intros h' [= <-]. symmetry. now apply hi_eqb_eq.
      + cbn [fst snd]. split; auto. intros q x Hq. apply (Hnew q x Hq). discriminate.
    - destruct Hs as [_ [_ [_ Hn]]]. rewrite (proj1 Hn eq_refl) in Hf. discriminate.
  Qed.

  Lemma md5_fold_ok fs alg idx0 : forall idx ret db,
    incl idx idx0 -> DbInv fs db -> (forall q x, In (q, x) ret -> Md5Ok fs alg idx0 q x) ->
    let r := fold_left (md5_step H fs alg) idx (ret, db) in
    DbInv fs (snd r) /\ forall q x, In (q, x) (fst r) -> Md5Ok fs alg idx0 q x.
  Proof.
    induction idx as [|pe r IH]; intros ret db Hincl Hdb Hret; cbn [fold_left]; [auto|].
    destruct (md5_step_ok fs alg idx0 ret db pe Hdb Hret (Hincl _ (or_introl eq_refl))) as [H1 H2].
    destruct (md5_step H fs alg (ret, db) pe) as [ret' db'] eqn:E. cbn [fst snd] in *.
    apply IH; auto. intros x Hx. apply Hincl. now right.
  Qed.

  (* index.md5 on the local file system: every non-directory entry of the result carries the digest of
     the file's current bytes (hash_file through the state cache - never the hash the entry had);
     an entry whose former md5-family hash disagrees with it is dropped *)
  Lemma idx_md5_spec db fs idx alg : DbInv fs db ->
    let r := idx_md5 H db fs idx alg in
    DbInv fs (snd r) /\ forall p e, In (p, e) (fst r) -> Md5Ok fs alg idx p e.
  Proof.
    intros Hdb. unfold idx_md5. apply md5_fold_ok; auto using incl_refl. intros ? ? [].
  Qed.

  Lemma idx_md5_inv db fs idx alg : DbInv fs db -> IdxInv fs idx ->
    IdxInv fs (fst (idx_md5 H db fs idx alg)).
  Proof.
    intros Hdb Hidx p e f n v Hin Hf Ht Hh.
    destruct (proj2 (idx_md5_spec db fs idx alg Hdb) p e Hin) as [[_ Hin0]|[_ [f' [e0 [_ [Hf' [_ [Hh' _]]]]]]]].
    - eapply Hidx; eauto.
    - rewrite Hf in Hf'. injection Hf' as <-. rewrite Hh in Hh'. now injection Hh' as -> ->.
  Qed.

  (* ---------------------------------------------------------------- file mutations *)
  Lemma mutate_inv w p t b : Inv w -> Fresh w p t ->
    Inv (with_fs w (set p {| f_tok := t; f_bytes := b |} (w_fs w))).
  Proof.
    intros [Hdb [Ha Hb]] [Fd [Fa Fb]]. unfold Inv. cbn [with_fs w_fs w_db w_a w_b].
    assert (Hidx : forall idx, IdxInv (w_fs w) idx -> (forall e, In (p, e) idx -> entry_tok e <> Some t) ->
                   IdxInv (set p {| f_tok := t; f_bytes := b |} (w_fs w)) idx).
    { intros idx Hi Hfr q e f n v Hin Hf Ht Hh. destruct (path_dec q p) as [->|Hne].
      - rewrite lookup_set_same in Hf. injection Hf as <-. cbn [f_tok] in Ht. now apply Hfr in Hin.
      - rewrite lookup_set_other in Hf by assumption. eapply Hi; eauto. }
    repeat split; auto.
    intros q r Hin f n v Hf Hg. destruct (path_dec q p) as [->|Hne].
    - rewrite lookup_set_same in Hf. injection Hf as <-. cbn [f_tok] in Hg.
      apply st__get_tok in Hg. now apply Fd in Hin.
    - rewrite lookup_set_other in Hf by assumption. eapply Hdb; eauto.
  Qed.

  Lemma delete_inv w p : Inv w -> Inv (with_fs w (remove p (w_fs w))).
  Proof.
    intros [Hdb [Ha Hb]]. unfold Inv. cbn [with_fs w_fs w_db w_a w_b].
    assert (Hidx : forall idx, IdxInv (w_fs w) idx -> IdxInv (remove p (w_fs w)) idx).
    { intros idx Hi q e f n v Hin Hf Ht Hh. destruct (path_dec q p) as [->|Hne].
      - rewrite lookup_remove_same in Hf. discriminate.
      - rewrite lookup_remove_other in Hf by assumption. eapply Hi; eauto. }
    repeat split; auto.
    intros q r Hin f n v Hf Hg. destruct (path_dec q p) as [->|Hne].
    - rewrite lookup_remove_same in Hf. discriminate.
    - rewrite lookup_remove_other in Hf by assumption. eapply Hdb; eauto.
  Qed.

  (* ---------------------------------------------------------------- what a correct answer is *)
  Definition out_ok (w : world) (o : out) : Prop :=
    match o with
    | ONone | OErr _ => True
    | OGet local p a => forall n v, a = Some (n, v) -> local = true /\ hashes_to (w_fs w) p n v
    | OMany local l => forall p n v, In (p, Some (n, v)) l -> local = true /\ hashes_to (w_fs w) p n v
    | OHash local p alg v => forall x, v = Some x -> hashes_to (the_fs w local) p alg x
    | OHashes local alg l => forall p x, In (p, x) l -> hashes_to (the_fs w local) p alg x
    | OHashesDuring local alg l wp =>
        (* the file rewritten during the query may be described in either version; all the others are current *)
        forall p x, In (p, x) l -> p <> wp -> hashes_to (the_fs w local) p alg x
    | OHashDuring _ _ _ _ => True     (* the answer may describe either version of the rewritten file *)
    | OMd5 alg i =>
        IdxInv (w_fs w) i /\
        forall p e, In (p, e) i -> is_dir_entry e = false ->
                    exists v, i_hash e = Some (alg, v) /\ hashes_to (w_fs w) p alg v
    | OIndex i => IdxInv (w_fs w) i
    end.

  Lemma with_slot_inv w s i : Inv w -> IdxInv (w_fs w) i -> Inv (with_slot w s i).
  Proof. intros [Hdb [Ha Hb]] Hi. destruct s; unfold Inv; cbn; auto. Qed.

  Lemma with_db_inv w db : Inv w -> DbInv (w_fs w) db -> Inv (with_db w db).
  Proof. intros [Hdb [Ha Hb]] Hi. unfold Inv; cbn; auto. Qed.

  Lemma get_slot_inv w s : Inv w -> IdxInv (w_fs w) (get_slot w s).
  Proof. intros [Hdb [Ha Hb]]. destruct s; assumption. Qed.

  (* with walk-time tokens the rows a staging query records do not depend on what happens to the files
     between the hashing and the save: a write during the query is a write after the query *)
  Lemma during_walk_is_sequential db local fs ps alg infos wp fnew :
    get_hashes_during H AtWalk db local fs ps alg infos wp fnew = get_hashes H db local fs ps alg infos.
  Proof. reflexivity. Qed.

  Lemma hash_during_walk_is_sequential db local fs p alg i fnew :
    hash_file_during H AtWalk db local fs p alg i fnew = hash_file H db local fs p alg (Some i).
  Proof. reflexivity. Qed.

  Lemma step_inquery_single_is_sequential w local p alg i b t :
    fst (step H w (QHashFileW local p alg i b t)) = exec H w [QHashFile local p alg (Some i); Write p b t].
  Proof. reflexivity. Qed.

  Lemma step_inquery_is_sequential w local ps alg infos wp b t :
    fst (step H w (QGetHashesW local ps alg infos wp b t)) =
    exec H w [QGetHashes local ps alg infos; Write wp b t].
  Proof. reflexivity. Qed.

  Lemma step_inv w o : Inv w -> tick_ok w o ->
    Inv (fst (step H w o)) /\ out_ok (fst (step H w o)) (snd (step H w o)).
  Proof.
    intros HI Ht. destruct o; cbn [step tick_ok] in *.
    - (* Write *) split; [now apply mutate_inv|exact I].
    - (* Replace *) split; [now apply mutate_inv|exact I].
    - (* Create *) split; [now apply mutate_inv|exact I].
    - (* Touch *) destruct (lookup p (w_fs w)); cbn [fst snd]; (split; [|exact I]); [now apply mutate_inv|assumption].
    - (* Delete *) split; [now apply delete_inv|exact I].
    - (* MemPut *) split; [exact HI|exact I].
    - (* SaveForeign *) cbn [fst snd]. split; [|exact I]. apply with_db_inv; [assumption|].
      intros q x Hin. apply In_set in Hin as [[-> ->]|Hin]; [assumption|]. now apply (proj1 HI).
    - (* StSave *) destruct local; cbn [negb fst snd]; [|split; [assumption|exact I]].
      destruct (Ht eq_refl) as [Hc Hv].
      destruct (or_info info (w_fs w) p) as [i|] eqn:Ho; cbn [fst snd]; [|split; [assumption|exact I]].
      split; [|exact I]. apply with_db_inv; [assumption|]. destruct hi as [n v].
      apply st_save_inv; [exact (proj1 HI)|]. intros f Hf _. exact (Hv f Hf).
    - (* QGet *) cbn [fst snd]. split; [assumption|]. cbn [out_ok]. intros n v Hg.
      destruct local; [|discriminate]. split; [reflexivity|].
      eapply st_get_sound; eauto. exact (proj1 HI).
    - (* QGetMany *) cbn [fst snd]. split; [assumption|]. cbn [out_ok]. intros p n v Hin.
      rewrite get_many_is_map_get in Hin. apply in_map_iff in Hin as [k [[= -> Hg] _]].
      destruct local; [|discriminate]. split; [reflexivity|].
      eapply st_get_sound; eauto using infos_lookup_current. exact (proj1 HI).
    - (* QHashFile *) cbn [fst snd].
      assert (Hpre : local = true -> DbInv (the_fs w local) (w_db w) /\ info_current (the_fs w local) p info).
      { intros ->. split; [exact (proj1 HI)|now apply Ht]. }
      destruct (hash_file_sound (w_db w) local (the_fs w local) p alg info Hpre) as [H1 [H2 [H3 _]]].
      split.
      + apply with_db_inv; [assumption|]. destruct local; [now apply H1|rewrite H2 by reflexivity; exact (proj1 HI)].
      + cbn [out_ok]. destruct local; exact H3.
    - (* QGetHashes *) cbn [fst snd].
      assert (Hpre : local = true -> DbInv (the_fs w local) (w_db w) /\ infos_current (the_fs w local) infos).
      { intros ->. split; [exact (proj1 HI)|now apply Ht]. }
      destruct (get_hashes_sound (w_db w) local (the_fs w local) ps alg infos Hpre) as [H1 [H2 H3]].
      split.
      + apply with_db_inv; [assumption|]. destruct local; [now apply H1|rewrite H2 by reflexivity; exact (proj1 HI)].
      + destruct (fst (get_hashes H (w_db w) local (the_fs w local) ps alg infos)) as [k|l] eqn:E; [exact I|].
        cbn [out_ok]. destruct local; exact (proj2 (H3 l eq_refl)).
    - (* QGetHashesW: the query with walk-time tokens, then the write *)
      cbn [fst snd]. rewrite during_walk_is_sequential. destruct Ht as [Hc Hfr].
      assert (Hpre : local = true -> DbInv (the_fs w local) (w_db w) /\ infos_current (the_fs w local) infos).
      { intros ->. split; [exact (proj1 HI)|now apply Hc]. }
      destruct (get_hashes_sound (w_db w) local (the_fs w local) ps alg infos Hpre) as [H1 [H2 H3]].
      set (r := get_hashes H (w_db w) local (the_fs w local) ps alg infos) in *.
      assert (HI1 : Inv (with_db w (snd r))).
      { apply with_db_inv; [assumption|]. destruct local; [now apply H1|rewrite H2 by reflexivity; exact (proj1 HI)]. }
      split; [exact (mutate_inv (with_db w (snd r)) wp t b HI1 Hfr)|].
      destruct (fst r) as [k|l] eqn:E; [exact I|]. cbn [out_ok]. intros p x Hin Hne.
      destruct (proj2 (H3 l eq_refl) p x Hin) as [f [Hf Hx]]. exists f. split; [|exact Hx].
      destruct local; cbn [the_fs with_fs w_fs w_mem with_db] in *; [|exact Hf].
      now rewrite lookup_set_other.
    - (* QHashFileW: hash_file with the supplied info, then the write *)
      cbn [fst snd]. rewrite hash_during_walk_is_sequential. destruct Ht as [Hc Hfr].
      assert (Hpre : local = true -> DbInv (the_fs w local) (w_db w) /\ info_current (the_fs w local) p (Some i)).
      { intros ->. split; [exact (proj1 HI)|now apply Hc]. }
      destruct (hash_file_sound (w_db w) local (the_fs w local) p alg (Some i) Hpre) as [H1 [H2 _]].
      set (r := hash_file H (w_db w) local (the_fs w local) p alg (Some i)) in *.
      assert (HI1 : Inv (with_db w (snd r))).
      { apply with_db_inv; [assumption|]. destruct local; [now apply H1|rewrite H2 by reflexivity; exact (proj1 HI)]. }
      split; [exact (mutate_inv (with_db w (snd r)) p t b HI1 Hfr)|exact I].
    - (* IBuild *) cbn [fst snd]. split.
      + apply with_slot_inv; [assumption|apply idx_build_inv].
      + cbn [out_ok]. destruct s; cbn; apply idx_build_inv.
    - (* IMd5 *) cbn [fst snd].
      pose proof (idx_md5_spec (w_db w) (w_fs w) (get_slot w s) alg (proj1 HI)) as [Hdb' Hok].
      pose proof (idx_md5_inv (w_db w) (w_fs w) (get_slot w s) alg (proj1 HI) (get_slot_inv w s HI)) as Hinv.
      split.
      + apply with_slot_inv; [now apply with_db_inv|exact Hinv].
      + cbn [out_ok]. assert (Hfs : w_fs (with_slot (with_db w (snd (idx_md5 H (w_db w) (w_fs w) (get_slot w s) alg))) s
                                          (fst (idx_md5 H (w_db w) (w_fs w) (get_slot w s) alg))) = w_fs w)
          by (destruct s; reflexivity).
        rewrite Hfs. split; [exact Hinv|]. intros p e Hin Hd.
        destruct (Hok p e Hin) as [[Hd' _]|[_ [f [e0 [_ [Hf [_ [Hh _]]]]]]]]; [congruence|].
        eexists. split; [exact Hh|]. exists f. auto.
    - (* IUpdate *)
      destruct (idx_update (get_slot w s) (get_slot w (other s))) as [i|] eqn:Hu; cbn [fst snd]; [|split; [assumption|exact I]].
      pose proof (idx_update_inv _ _ _ _ (get_slot_inv w s HI) (get_slot_inv w (other s) HI) Hu) as Hi.
      split; [now apply with_slot_inv|]. cbn [out_ok]. destruct s; exact Hi.
  Qed.

  (* ---------------------------------------------------------------- every history *)
  Lemma run_app w h1 h2 : run H w (h1 ++ h2) = run H w h1 ++ run H (exec H w h1) h2.
  Proof.
    revert w. induction h1 as [|o h IH]; intros w; cbn [app run exec fold_left]; [reflexivity|].
    f_equal. apply IH.
  Qed.

  Theorem never_stale_from : forall h w, Inv w -> Ticks w h ->
    Forall (fun wo => out_ok (fst wo) (snd wo)) (run H w h) /\ Inv (exec H w h).
  Proof.
    induction h as [|o h IH]; intros w HI HT; cbn [run exec fold_left].
    - split; [constructor|assumption].
    - destruct HT as [Ht HT]. destruct (step_inv w o HI Ht) as [HI' Ho].
      destruct (IH _ HI' HT) as [Hf He]. split; [constructor; assumption|exact He].
  Qed.

  Theorem never_stale : forall h, Ticks empty_world h ->
    forall w o, In (w, o) (run H empty_world h) -> out_ok w o.
  Proof.
    intros h HT w o Hin. destruct (never_stale_from h empty_world Inv_empty HT) as [Hf _].
    rewrite Forall_forall in Hf. exact (Hf _ Hin).
  Qed.

  (* A write that strikes DURING a staging query (after the file was read for hashing, before the rows
     are saved): because the saved row is keyed by the token observed at walk time, the resulting world
     is the one of "query, then write"; the invariant holds in it and every later answer of every route,
     along every continuation satisfying Ticks, is right - the in-query write can never produce a stale hit. *)
  Theorem inquery_write_safe w local ps alg infos wp b t :
    Inv w -> tick_ok w (QGetHashesW local ps alg infos wp b t) ->
    let w' := fst (step H w (QGetHashesW local ps alg infos wp b t)) in
    w' = exec H w [QGetHashes local ps alg infos; Write wp b t] /\ Inv w' /\
    forall h, Ticks w' h -> Forall (fun wo => out_ok (fst wo) (snd wo)) (run H w' h).
  Proof.
    intros HI Ht w'. split; [reflexivity|]. destruct (step_inv w _ HI Ht) as [HI' _].
    split; [exact HI'|]. intros h HT. exact (proj1 (never_stale_from h w' HI' HT)).
  Qed.

  Theorem inquery_write_safe_single w local p alg i b t :
    Inv w -> tick_ok w (QHashFileW local p alg i b t) ->
    let w' := fst (step H w (QHashFileW local p alg i b t)) in
    w' = exec H w [QHashFile local p alg (Some i); Write p b t] /\ Inv w' /\
    forall h, Ticks w' h -> Forall (fun wo => out_ok (fst wo) (snd wo)) (run H w' h).
  Proof.
    intros HI Ht w'. split; [reflexivity|]. destruct (step_inv w _ HI Ht) as [HI' _].
    split; [exact HI'|]. intros h HT. exact (proj1 (never_stale_from h w' HI' HT)).
  Qed.

  (* the same for the executable form of the hypothesis *)
  Corollary never_stale_b : forall h, ticks_b H empty_world h = true ->
    forall w o, In (w, o) (run H empty_world h) -> out_ok w o.
  Proof. intros h Hb. apply never_stale. now apply ticks_b_sound. Qed.

  (* ---------------------------------------------------------------- foreign rows *)
  (* the effective name of the row differs from the one asked for, or the row is of a newer format,
     or not JSON, or the file system is not the local one: the lookup is not used as a hit and the
     answer is the digest of the bytes read now - whatever the row says (no invariant needed) *)
  Definition foreign (db : statedb) (local : bool) (p : path) (alg : name) : Prop :=
    local = false \/ lookup p db = Some Garbage \/
    exists e, lookup p db = Some (Row e) /\
              ((exists v, r_version e = Some v /\ HASH_VERSION < v) \/ eff_name e <> alg).

  Lemma foreign_no_hit db local fs p alg info : foreign db local p alg ->
    use_hit alg (st_get db local fs p info) = None.
  Proof.
    intros [->|[Hg|[e [He Hc]]]]; [reflexivity| |]; unfold st_get; destruct local; cbn [negb]; try reflexivity.
    - rewrite Hg. destruct (or_info info fs p); reflexivity.
    - rewrite He. destruct (or_info info fs p) as [i|]; [|reflexivity].
      destruct Hc as [[v [Hv Hlt]]|Hne].
      + now rewrite (st__get_newer e i v Hv Hlt).
      + destruct (st__get (Row e) i) as [[n x]|] eqn:Hg; [|reflexivity].
        apply st__get_name in Hg as [-> _]. cbn [use_hit].
        destruct (list_N_eqb (eff_name e) alg) eqn:E; [apply leqb_eq in E; contradiction|reflexivity].
  Qed.

  Lemma foreign_rehash db local fs p alg info : foreign db local p alg ->
    fst (hash_file H db local fs p alg info) =
    match lookup p fs with Some f => Some (H alg (f_bytes f)) | None => None end.
  Proof.
    intros Hf. unfold hash_file. rewrite (foreign_no_hit _ _ fs _ _ info Hf).
    destruct (lookup p fs); reflexivity.
  Qed.

  Lemma newer_no_hit db local fs p info e v : lookup p db = Some (Row e) -> r_version e = Some v ->
    HASH_VERSION < v -> st_get db local fs p info = None.
  Proof.
    intros He Hv Hlt. unfold st_get. destruct local; cbn [negb]; [|reflexivity]. rewrite He.
    destruct (or_info info fs p) as [i|]; [|reflexivity]. now apply (st__get_newer e i v).
  Qed.

  Lemma nonlocal_bypass db fs p alg info ks infos hi i :
    st_get db false fs p info = None /\
    st_get_many db false fs ks infos = map (fun k => (k, None)) ks /\
    st_save db false p hi i = db /\
    snd (hash_file H db false fs p alg info) = db.
  Proof.
    repeat split. unfold hash_file. cbn [st_get negb use_hit].
    destruct (lookup p fs); reflexivity.
  Qed.
End WithDigest.

(* ================================================================== the tie to the translated units
   (Gen/State.v, Gen/IDiff.v are regenerated from /repo on every run: if the source moves, these
   lemmas stop compiling and the check reports a broken proof obligation) *)
Module G := DvcData.Gen.State.
Module GT := DvcData.Gen.PyTypes.
Module GD := DvcData.Gen.IDiff.
Module PB := DvcData.Base.PyBase.

(* _checksum reads exactly ino, mtime, size; comparing two checksums is comparing the triples *)
Lemma tie_checksum_fields :
  G.checksum_fields = [[105;110;111]; [109;116;105;109;101]; [115;105;122;101]] /\
  forall a b, PB.list_eqb N.eqb (G.State_checksum a) (G.State_checksum b) = token_eqb a b.
Proof.
  split; [reflexivity|]. intros [a1 a2 a3] [b1 b2 b3]. unfold token_eqb. cbn.
  now rewrite andb_true_r, andb_assoc.
Qed.

Lemma tie_constants :
  HASH_VERSION = G.State_HASH_VERSION /\
  SQLITE_MAX_VARIABLE_NUMBER = G.HashesCache_SQLITE_MAX_VARIABLE_NUMBER /\
  G.State_nonlocal_guarded = [[103;101;116]; [103;101;116;95;109;97;110;121]; [115;97;118;101]; [115;97;118;101;95;109;97;110;121]].
Proof. repeat split. Qed.

(* a row of the model as the typed image of json_loads(raw) the generated State__get reads *)
Definition to_srow (e : row) : G.srow :=
  G.mk_srow (G.State_checksum (r_tok e)) (r_version e) (r_size e) [(r_alg e, PB.PVStr (r_val e))].
Definition raw_entry (r : raw) : option G.srow :=
  match r with Garbage => None | Row e => Some (to_srow e) end.
Definition hit_of (mh : GT.meta * GT.hashinfo) : option hashinfo :=
  match GT.hi_name (snd mh), GT.hi_value (snd mh) with
  | Some n, Some v => Some (n, v)
  | _, _ => None
  end.

(* the model's State._get IS the translated one *)
Lemma tie_State__get r i :
  st__get r i = match G.State__get (raw_entry r) i with Some mh => hit_of mh | None => None end.
Proof.
  destruct r as [|e]; [reflexivity|]. unfold G.State__get, raw_entry, to_srow. cbn [G.sr_checksum G.sr_version G.sr_size G.sr_hash_info].
  rewrite (proj2 tie_checksum_fields). cbn [st__get].
  destruct (token_eqb (r_tok e) i); cbn [negb]; [|reflexivity].
  destruct (r_version e) as [v|].
  - change G.State_HASH_VERSION with HASH_VERSION. destruct (HASH_VERSION <? v); reflexivity.
  - cbn. unfold md5_name. destruct (list_N_eqb (r_alg e) [109; 100; 53]); reflexivity.
Qed.

(* ... and the Meta it returns is the stat of the file as supplied *)
Lemma tie_State__get_meta r i m h : G.State__get (raw_entry r) i = Some (m, h) ->
  GT.m_inode m = Some (t_ino i) /\ GT.m_mtime m = Some (t_mtime i) /\ GT.m_size m = Some (t_size i).
Proof.
  destruct r as [|e]; [discriminate|]. unfold G.State__get, raw_entry, to_srow. cbn [G.sr_checksum G.sr_version G.sr_size G.sr_hash_info].
  destruct (negb _); [discriminate|]. destruct (r_version e) as [v|].
  - destruct (G.State_HASH_VERSION <? v); [discriminate|]. intros [= <- _]. cbn. auto.
  - intros [= <- _]. cbn. auto.
Qed.

Lemma islice_loop_batched {A} n : (1 <= n)%nat -> forall fuel (l : list A),
  islice_loop fuel n l = batched_fuel fuel n l.
Proof.
  intros Hn. induction fuel as [|f IH]; intros l; cbn [islice_loop batched_fuel]; [reflexivity|].
  destruct l as [|a r]; [now rewrite firstn_nil|].
  destruct n as [|m]; [lia|]. cbn [firstn]. now rewrite <- IH.
Qed.

Lemma tie_batched {A} n (l : list A) :
  G.batched_gen n l = if Nat.ltb n 1 then None else Some (batched n l).
Proof.
  unfold G.batched_gen, batched. destruct (Nat.ltb n 1) eqn:E; [reflexivity|].
  apply Nat.ltb_ge in E. now rewrite islice_loop_batched.
Qed.

(* Meta with its eq=False attributes (remote, is_link, destination, nlink) dropped *)
Definition meta_down (m : GT.meta) : meta :=
  {| m_isdir := GT.m_isdir m; m_size := GT.m_size m; m_nfiles := GT.m_nfiles m; m_isexec := GT.m_isexec m;
     m_version_id := GT.m_version_id m; m_etag := GT.m_etag m; m_checksum := GT.m_checksum m;
     m_md5 := GT.m_md5 m; m_inode := GT.m_inode m; m_mtime := GT.m_mtime m |}.

Lemma optN_eqb_gen a b : PB.opt_eqb N.eqb a b = optN_eqb a b.
Proof. destruct a, b; reflexivity. Qed.
Lemma optL_eqb_gen a b : PB.opt_eqb list_N_eqb a b = optL_eqb a b.
Proof. destruct a, b; reflexivity. Qed.

Lemma meta_eqb_gen a b : GT.meta_eqb a b = meta_eqb (meta_down a) (meta_down b).
Proof. unfold GT.meta_eqb, meta_eqb, meta_down. cbn. now rewrite !optN_eqb_gen, !optL_eqb_gen. Qed.

Definition dtyp_of (c : GD.ichange) : dtyp :=
  match c with
  | GD.ichange_ADD => ADD | GD.ichange_DELETE => DELETE | GD.ichange_UNCHANGED => UNCHANGED
  | _ => MODIFY
  end.

(* the model's _diff_meta IS the translated one (cmp_key = None, as update() calls it), for every
   value of the attributes that do not take part in Meta.__eq__ *)
Lemma tie_diff_meta old new :
  dtyp_of (GD.diff_meta old new None) = diff_meta (option_map meta_down old) (option_map meta_down new) /\
  (GD.diff_meta old new None = GD.ichange_UNCHANGED <->
   diff_meta (option_map meta_down old) (option_map meta_down new) = UNCHANGED).
Proof.
  destruct old as [a|], new as [b|]; cbn; try (split; [reflexivity|split; (discriminate || reflexivity)]).
  rewrite meta_eqb_gen. destruct (meta_eqb (meta_down a) (meta_down b)); cbn; split; try reflexivity; split; (discriminate || reflexivity).
Qed.

(* ================================================================== non-vacuity: concrete histories *)
Definition toyH (n : name) (b : bytes) : oid := n ++ 0 :: b.     (* an injective toy digest *)

(* each single-attribute change (mtime only, inode only, size only), every route, a lying row of a
   newer format, the index carriers, a deletion, the non-local file system *)
Definition ex_history : list op :=
  [ Create [0] [97] (T 10 100 1);
    Create [1] [120;13;10] (T 11 100 3);
    QHashFile true [0] md5_name None;                       (* miss: hashes, records *)
    QHashFile true [0] md5_name None;                       (* hit *)
    Write [0] [98] (T 10 101 1);                            (* same size, same inode: only the mtime moves *)
    QGet true [0] None;                                     (* no hit *)
    QHashFile true [0] md5_name (Some (T 10 101 1));        (* re-hashed, caller-supplied info *)
    QGet true [0] None;                                     (* hit after a mutation: the new digest *)
    Replace [0] [99] (T 12 101 1);                          (* only the inode moves *)
    QGetHashes true [[0]; [1]] md5_name [([0], T 12 101 1); ([1], T 11 100 3)];
    QGetMany true [[0]; [1]; [7;1]; [0]] [([1], T 11 100 3)];
    SaveForeign [1] (Row (R (Some 2) (T 11 100 3) 3 md5_name [102]));   (* newer format, and it lies *)
    QHashFile true [1] md5_name None;
    IBuild SA; IMd5 SA md5_name;
    Write [0] [100;100] (T 12 101 2);                       (* only the size moves *)
    IBuild SB; IUpdate SB; IMd5 SB md5_name;
    Delete [1]; QHashFile true [1] md5_name None;
    MemPut [0] [1]; QHashFile false [0] md5_name None ].

Definition outs (h : list op) : list out := map snd (run toyH empty_world h).

Example ex_history_ticks : ticks_b toyH empty_world ex_history = true.
Proof. vm_compute. reflexivity. Qed.

Example ex_history_Ticks : Ticks toyH empty_world ex_history.
Proof. apply ticks_b_sound. exact ex_history_ticks. Qed.

(* the hypotheses are met AND hits are really served, after mutations, with the new digest *)
Example ex_hit_after_mutation :
  nth 3 (outs ex_history) ONone = OHash true [0] md5_name (Some (toyH md5_name [97])) /\
  nth 5 (outs ex_history) ONone = OGet true [0] None /\
  nth 7 (outs ex_history) ONone = OGet true [0] (Some (md5_name, toyH md5_name [98])) /\
  nth 10 (outs ex_history) ONone =
    OMany true [([0], Some (md5_name, toyH md5_name [99])); ([1], Some (md5_name, toyH md5_name [120;13;10]));
                ([7;1], None); ([0], Some (md5_name, toyH md5_name [99]))] /\
  nth 12 (outs ex_history) ONone = OHash true [1] md5_name (Some (toyH md5_name [120;13;10])).
Proof. vm_compute. repeat split. Qed.

(* update() carried the hash of the untouched file 1 and not the one of the rewritten file 0 *)
Example ex_update_carries :
  match nth 17 (outs ex_history) ONone with
  | OIndex i => map (fun pe => (fst pe, i_hash (snd pe))) i =
                [([0], None); ([1], Some (md5_name, toyH md5_name [120;13;10]))]
  | _ => False
  end.
Proof. vm_compute. reflexivity. Qed.

(* the hypothesis is needed, and the model shows what happens without it: a write that keeps inode,
   mtime and size (a touch back to the recorded mtime) is answered from the cache - the stated
   assumption of the property, reproduced on the implementation by the harness probe "touch-back" *)
Definition ex_touch_back : list op :=
  [ Create [0] [97] (T 10 100 1); QHashFile true [0] md5_name None;
    Write [0] [98] (T 10 100 1); QHashFile true [0] md5_name None ].

Example ex_touch_back_outside_Ticks :
  ticks_b toyH empty_world ex_touch_back = false /\
  exists w o, In (w, o) (run toyH empty_world ex_touch_back) /\ ~ out_ok toyH w o.
Proof.
  split; [vm_compute; reflexivity|].
  eexists _, _. split.
  - cbn [ex_touch_back run]. right. right. right. left. reflexivity.
  - intros Hok. vm_compute in Hok. destruct (Hok _ eq_refl) as [f [Hf Hx]].
    injection Hf as <-. discriminate.
Qed.

(* a write during a staging query: file 0 is rewritten (same length, same inode, new mtime) after it
   was hashed and before the rows are saved; the row keeps the walk-time token, so the next lookup misses
   and re-hashes *)
Definition ex_inquery : list op :=
  [ Create [0] [97] (T 10 100 1); Create [1] [120] (T 11 100 1);
    QGetHashesW true [[0]; [1]] md5_name [([0], T 10 100 1); ([1], T 11 100 1)] [0] [98] (T 10 101 1);
    QGet true [0] None; QGet true [1] None;
    QHashFile true [0] md5_name None;
    QGetMany true [[0]; [1]] [];
    QGetHashes true [[0]; [1]] md5_name [([0], T 10 101 1); ([1], T 11 100 1)] ].

Example ex_inquery_ok :
  ticks_b toyH empty_world ex_inquery = true /\
  nth 3 (outs ex_inquery) ONone = OGet true [0] None /\
  nth 4 (outs ex_inquery) ONone = OGet true [1] (Some (md5_name, toyH md5_name [120])) /\
  nth 5 (outs ex_inquery) ONone = OHash true [0] md5_name (Some (toyH md5_name [98])) /\
  nth 6 (outs ex_inquery) ONone =
    OMany true [([0], Some (md5_name, toyH md5_name [98])); ([1], Some (md5_name, toyH md5_name [120]))].
Proof. vm_compute. repeat split. Qed.

(* ... whereas keying the saved row by a stat taken at SAVE time pairs the old digest with the new token:
   the table is unsound and the very next lookup is a stale hit.  (This is why _get_hashes must hand the
   walk-time info to save_many.) *)
Example ex_savetime_refuted :
  let fs := [([0], {| f_tok := T 10 100 1; f_bytes := [97] |})] in
  let fnew := {| f_tok := T 10 101 1; f_bytes := [98] |} in
  let fs' := set [0] fnew fs in
  let infos := [([0], T 10 100 1)] in
  let db_save := snd (get_hashes_during toyH AtSave [] true fs [[0]] md5_name infos [0] fnew) in
  let db_walk := snd (get_hashes_during toyH AtWalk [] true fs [[0]] md5_name infos [0] fnew) in
  st_get db_save true fs' [0] None = Some (md5_name, toyH md5_name [97]) /\
  ~ DbInv toyH fs' db_save /\
  st_get db_walk true fs' [0] None = None /\
  fst (hash_file toyH db_walk true fs' [0] md5_name None) = Some (toyH md5_name [98]).
Proof.
  cbn zeta. split; [vm_compute; reflexivity|]. split; [|split; vm_compute; reflexivity].
  intros Hdb.
  assert (Hin : In ([0], Row (R (Some 1) (T 10 101 1) 1 md5_name (toyH md5_name [97])))
                   (snd (get_hashes_during toyH AtSave [] true [([0], {| f_tok := T 10 100 1; f_bytes := [97] |})]
                           [[0]] md5_name [([0], T 10 100 1)] [0] {| f_tok := T 10 101 1; f_bytes := [98] |})))
    by (vm_compute; left; reflexivity).
  specialize (Hdb _ _ Hin {| f_tok := T 10 101 1; f_bytes := [98] |} md5_name (toyH md5_name [97]) eq_refl eq_refl).
  discriminate.
Qed.

(* the single-file route with caller-supplied info: file 0 is REPLACED after it was read, before state.save *)
Definition ex_inquery_single : list op :=
  [ Create [0] [97] (T 10 100 1);
    QHashFileW true [0] md5_name (T 10 100 1) [98;98] (T 12 101 2);
    QGet true [0] None; QHashFile true [0] md5_name None; QGetMany true [[0]] [] ].

Example ex_inquery_single_ok :
  ticks_b toyH empty_world ex_inquery_single = true /\
  nth 1 (outs ex_inquery_single) ONone = OHashDuring true [0] md5_name (Some (toyH md5_name [97])) /\
  nth 2 (outs ex_inquery_single) ONone = OGet true [0] None /\
  nth 3 (outs ex_inquery_single) ONone = OHash true [0] md5_name (Some (toyH md5_name [98;98])) /\
  nth 4 (outs ex_inquery_single) ONone = OMany true [([0], Some (md5_name, toyH md5_name [98;98]))].
Proof. vm_compute. repeat split. Qed.

(* a re-stat at save time (state.save without the caller's info) records (new token, old digest): stale hit *)
Example ex_savetime_single_refuted :
  let fs := [([0], {| f_tok := T 10 100 1; f_bytes := [97] |})] in
  let fnew := {| f_tok := T 12 101 2; f_bytes := [98;98] |} in
  let fs' := set [0] fnew fs in
  let db_save := snd (hash_file_during toyH AtSave [] true fs [0] md5_name (T 10 100 1) fnew) in
  let db_walk := snd (hash_file_during toyH AtWalk [] true fs [0] md5_name (T 10 100 1) fnew) in
  st_get db_save true fs' [0] None = Some (md5_name, toyH md5_name [97]) /\
  st_get db_walk true fs' [0] None = None /\
  fst (hash_file toyH db_walk true fs' [0] md5_name None) = Some (toyH md5_name [98;98]).
Proof. vm_compute. repeat split. Qed.

(* batches across the 999 boundary *)
Example ex_batched_lengths :
  map (@length path) (batched SQLITE_MAX_VARIABLE_NUMBER (range_paths 0 2001)) = [999; 999; 3]%nat /\
  map (@length path) (batched SQLITE_MAX_VARIABLE_NUMBER (range_paths 0 999)) = [999]%nat /\
  batched SQLITE_MAX_VARIABLE_NUMBER (@nil path) = [].
Proof. vm_compute. repeat split. Qed.

(* foreign rows: concrete instances of each disjunct *)
Example ex_foreign :
  let db := [([0], Row (R (Some 2) (T 1 1 1) 1 md5_name [102]));       (* newer format *)
             ([1], Row (R (Some 1) (T 1 1 1) 1 [115;104;97] [102]));   (* another algorithm *)
             ([2], Row (R None (T 1 1 1) 1 md5_name [102]));           (* 2.x row: md5 means md5-dos2unix *)
             ([3], Garbage)] in
  foreign db true [0] md5_name /\ foreign db true [1] md5_name /\ foreign db true [2] md5_name /\
  foreign db true [3] md5_name /\ foreign db false [1] [115;104;97] /\
  ~ foreign db true [2] md5_d2u_name.
Proof.
  cbn zeta. repeat split.
  - right. right. eexists. split; [reflexivity|]. left. exists 2. split; [reflexivity|reflexivity].
  - right. right. eexists. split; [reflexivity|]. right. discriminate.
  - right. right. eexists. split; [reflexivity|]. right. discriminate.
  - right. left. reflexivity.
  - left. reflexivity.
  - intros [Hl|[Hg|[e [He [[v [Hv _]]|Hne]]]]]; try discriminate.
    + injection He as <-. discriminate.
    + injection He as <-. apply Hne. reflexivity.
Qed.

(* ================================================================== statements as used by Properties/C13.v *)
Lemma get_many_chunks_concat db fs ks infos :
  st_get_many db true fs ks infos =
  flat_map (fun chunk => st_get_many db true fs chunk infos) (batched SQLITE_MAX_VARIABLE_NUMBER ks)
  /\ (forall c, In c (batched SQLITE_MAX_VARIABLE_NUMBER ks) -> (1 <= length c <= 999)%nat)
  /\ concat (batched SQLITE_MAX_VARIABLE_NUMBER ks) = ks.
Proof.
  destruct (get_many_chunks db fs ks infos) as [H1 H2]. split; [exact H1|]. split; [exact H2|].
  apply batched_concat. unfold SQLITE_MAX_VARIABLE_NUMBER. lia.
Qed.

Lemma foreign_spec H db local fs p alg info : foreign db local p alg ->
  use_hit alg (st_get db local fs p info) = None /\
  fst (hash_file H db local fs p alg info) =
    match lookup p fs with Some f => Some (H alg (f_bytes f)) | None => None end.
Proof. intros Hf. split; [now apply foreign_no_hit|now apply foreign_rehash]. Qed.

Lemma foreign_get_spec H db fs p alg info ks infos hi i :
  (forall local e v, lookup p db = Some (Row e) -> r_version e = Some v -> HASH_VERSION < v ->
                     st_get db local fs p info = None) /\
  st_get db false fs p info = None /\
  st_get_many db false fs ks infos = map (fun k => (k, None)) ks /\
  st_save db false p hi i = db /\
  snd (hash_file H db false fs p alg info) = db.
Proof.
  split; [intros; eapply newer_no_hit; eauto|]. apply (nonlocal_bypass H db fs p alg info ks infos hi i).
Qed.

Lemma tie_batched_999 (ks : list path) :
  G.batched_gen G.HashesCache_SQLITE_MAX_VARIABLE_NUMBER ks = Some (batched SQLITE_MAX_VARIABLE_NUMBER ks).
Proof. apply (tie_batched SQLITE_MAX_VARIABLE_NUMBER ks). Qed.

Lemma tie_diff_meta_unchanged old new :
  GD.diff_meta old new None = GD.ichange_UNCHANGED <->
  diff_meta (option_map meta_down old) (option_map meta_down new) = UNCHANGED.
Proof. apply tie_diff_meta. Qed.
