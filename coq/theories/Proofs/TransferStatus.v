(* status / compare_status (with and without the remote index): what the status phase
   guarantees about [new] and [missing], i.e. the hypotheses P1-P3 of TransferLoop.v. *)
From Coq Require Import NArith List Bool Lia.
From DvcData Require Import Base.Val Model.Transfer Proofs.TransferBase.
Import ListNotations.
Open Scope N_scope.

(* ---- well-formedness of one transfer (the quantifier of C04) ---- *)
(* directory listings are flat: they list file ids only (Tree objects are flat) *)
Definition flat_parse (i : t_in) : Prop :=
  forall b l f, t_parse i b = Some l -> In f l -> is_dir_oid f = false.
(* content addressing: two stores holding an object under the same id read the same listing *)
Definition agree (parse : bytes -> option (list oid)) (s1 s2 : store) : Prop :=
  forall D b1 b2, lookup D s1 = Some b1 -> lookup D s2 = Some b2 -> parse b1 = parse b2.
Definition coherent (i : t_in) : Prop :=
  agree (t_parse i) (status_cache i) (t_src i) /\ agree (t_parse i) (status_cache i) (t_dst i).
(* the destination index only knows objects that are in the destination (C12) - or it is stale
   in the way status() detects and repairs by clearing it: the query contains a directory and an
   indexed directory object has vanished from the destination (remote garbage collection removes
   directory objects together with files) *)
Definition ix_detected (i : t_in) (x : rindex) : Prop :=
  dedup (filter is_dir_oid (t_req i)) <> [] /\ forallb (has (t_dst i)) (ix_dirs x) = false.
Definition ix_sound (i : t_in) : Prop :=
  match t_dix i with
  | None => True
  | Some x => ix_detected i x \/ forall o, ix_has x o = true -> has (t_dst i) o = true
  end.
(* a truncated directory object (interrupted non-atomic upload) does not parse as a listing *)
Definition trunc_unparsable (i : t_in) : Prop :=
  forall o, is_dir_oid o = true -> t_parse i (t_trunc i o) = None.
(* the request lists every directory together with its files, or asks for expansion *)
Definition closed_request (i : t_in) : Prop :=
  t_shallow i = false \/
  (forall D l f, In D (t_req i) -> is_dir_oid D = true -> find_tree i D = Some l -> In f l -> In f (t_req i)).

Record wf (i : t_in) : Prop := {
  wf_bord : ord_ok (t_bord i);
  wf_dord : ord_ok (t_dord i);
  wf_flat : flat_parse i;
  wf_coh : coherent i;
  wf_closed : closed (t_parse i) (t_dst i);
  wf_ix : ix_sound i;
  wf_req : closed_request i;
  wf_trunc : trunc_unparsable i }.

(* ---- collect ---- *)
Lemma load_ok_inv parse s o l : load parse s o = LoadOk l -> exists b, lookup o s = Some b /\ parse b = Some l.
Proof.
  unfold load. destruct (lookup o s) as [b|]; [|discriminate].
  destruct (parse b) eqn:E; [|discriminate]. intros H; inversion H; subst. eauto.
Qed.

Lemma collect_spec parse cache sh : forall req h,
  collect parse cache sh req = inr h ->
  (forall o, In o req -> In o h) /\
  (forall o, In o h -> In o req \/
     (sh = false /\ exists D l, In D req /\ is_dir_oid D = true /\ load parse cache D = LoadOk l /\ In o l)) /\
  (sh = false -> forall D, In D req -> is_dir_oid D = true ->
     exists l, load parse cache D = LoadOk l /\ forall f, In f l -> In f h).
Proof.
  induction req as [|o r IH]; simpl; intros h H.
  - inversion H; subst. split; [intros o []|]. split; [intros o []|]. intros _ D [].
  - destruct (is_dir_oid o && negb sh) eqn:E.
    + apply andb_true_iff in E. destruct E as [Ed Es]. apply negb_true_iff in Es.
      destruct (load parse cache o) as [l| |] eqn:EL; try discriminate.
      destruct (collect parse cache sh r) as [k|acc] eqn:EC; [discriminate|].
      inversion H; subst h. destruct (IH acc eq_refl) as [A [B C]].
      split; [|split].
      * intros x [<-|Hx]; [left; auto|]. right. apply in_or_app. auto.
      * intros x [<-|Hx]; auto. apply in_app_or in Hx. destruct Hx as [Hx|Hx].
        -- right. split; auto. exists o, l. auto.
        -- destruct (B x Hx) as [H1|[H1 [D [l' [H2 H3]]]]]; auto.
           right. split; auto. exists D, l'. tauto.
      * intros Hs D [<-|HD] HDd.
        -- exists l. split; auto. intros f Hf. right. apply in_or_app. auto.
        -- destruct (C Hs D HD HDd) as [l' [H1 H2]]. exists l'. split; auto.
           intros f Hf. right. apply in_or_app. auto.
    + destruct (collect parse cache sh r) as [k|acc] eqn:EC; [discriminate|].
      inversion H; subst h. destruct (IH acc eq_refl) as [A [B C]].
      split; [|split].
      * intros x [<-|Hx]; [left; auto|]. right. auto.
      * intros x [<-|Hx]; auto. destruct (B x Hx) as [H1|[H1 [D [l' [H2 H3]]]]]; auto.
        right. split; auto. exists D, l'. tauto.
      * intros Hs D [<-|HD] HDd.
        -- rewrite HDd, Hs in E. discriminate.
        -- destruct (C Hs D HD HDd) as [l' [H1 H2]]. exists l'. split; auto.
           intros f Hf. right. auto.
Qed.

Lemma collect_agree parse c1 c2 sh : agree parse c1 c2 -> forall req h1 h2,
  collect parse c1 sh req = inr h1 -> collect parse c2 sh req = inr h2 -> h1 = h2.
Proof.
  intros Ha. induction req as [|o r IH]; simpl; intros h1 h2 H1 H2.
  - congruence.
  - destruct (is_dir_oid o && negb sh).
    + destruct (load parse c1 o) as [l1| |] eqn:E1; try discriminate.
      destruct (load parse c2 o) as [l2| |] eqn:E2; try discriminate.
      destruct (collect parse c1 sh r) as [|a1]; [discriminate|].
      destruct (collect parse c2 sh r) as [|a2]; [discriminate|].
      inversion H1; inversion H2; subst.
      apply load_ok_inv in E1. apply load_ok_inv in E2.
      destruct E1 as [b1 [L1 P1]]. destruct E2 as [b2 [L2 P2]].
      pose proof (Ha o b1 b2 L1 L2) as E. rewrite P1, P2 in E. inversion E; subst.
      now rewrite (IH a1 a2 eq_refl eq_refl).
    + destruct (collect parse c1 sh r) as [|a1]; [discriminate|].
      destruct (collect parse c2 sh r) as [|a2]; [discriminate|].
      inversion H1; inversion H2; subst. now rewrite (IH a1 a2 eq_refl eq_refl).
Qed.

(* ---- the index ---- *)
Lemma ix_has_update d l x o : ix_has (ix_update d l x) o = true -> In o l \/ o = d \/ ix_has x o = true.
Proof.
  unfold ix_has, ix_update. induction l as [|f r IH]; simpl.
  - destruct (list_N_eqb o d) eqn:E; auto. apply eqb_eq in E. auto.
  - destruct (list_N_eqb o f) eqn:E.
    + apply eqb_eq in E. auto.
    + intros H. destruct (IH H) as [H1|H1]; auto.
Qed.

Lemma indexed_loop_sound noop parse cache odb :
  closed parse odb -> agree parse cache odb ->
  forall dirs x1 y x2,
  indexed_loop noop parse cache dirs x1 = inr (y, x2) ->
  (forall d, In d dirs -> has odb d = true /\ is_dir_oid d = true) ->
  (forall o, ix_has x1 o = true -> has odb o = true) ->
  (forall o, In o y -> has odb o = true) /\ (forall o, ix_has x2 o = true -> has odb o = true).
Proof.
  intros Hcl Hag. induction dirs as [|d r IH]; simpl; intros x1 y x2 H Hd Hx.
  - inversion H; subst. split; [intros o []|auto].
  - destruct (load parse cache d) as [l| |] eqn:EL; try discriminate.
    + destruct (indexed_loop noop parse cache r (if noop || ix_has x1 d then x1 else ix_update d l x1))
        as [k|[y' x']] eqn:ER; [discriminate|]. inversion H; subst y x2.
      destruct (Hd d (or_introl eq_refl)) as [Hhd Hdd].
      assert (Hl : forall f, In f l -> has odb f = true).
      { apply load_ok_inv in EL. destruct EL as [bc [Lc Pc]].
        apply has_lookup in Hhd. destruct Hhd as [bo Lo].
        intros f Hf. apply (Hcl d l f); auto. unfold listing. rewrite Hdd, Lo.
        rewrite <- (Hag d bc bo Lc Lo). auto. }
      destruct (IH _ _ _ ER) as [A B].
      * intros; apply Hd; right; auto.
      * destruct (noop || ix_has x1 d); auto. intros o Ho. apply ix_has_update in Ho.
        destruct Ho as [Ho|[->|Ho]]; auto.
      * split; auto. intros o Ho. apply in_app_or in Ho. destruct Ho as [Ho|[<-|Ho]]; auto.
    + apply (IH _ _ _ H); auto.
Qed.

(* ---- status ---- *)
Lemma status_ix_spec noop parse odb cache ix sh req ex miss ix' :
  status_ix noop parse odb cache ix sh req = inr (ex, miss, ix') ->
  exists h0, collect parse cache sh req = inr h0 /\
    (forall o, In o ex \/ In o miss <-> In o h0) /\
    (forall o, In o miss -> has odb o = false) /\
    (closed parse odb -> agree parse cache odb ->
     (forall x, ix = Some x ->
        (dedup (filter is_dir_oid req) <> [] /\ forallb (has odb) (ix_dirs x) = false) \/
        forall o, ix_has x o = true -> has odb o = true) ->
     forall o, In o ex -> has odb o = true).
Proof.
  unfold status_ix. destruct (collect parse cache sh req) as [k|h0] eqn:EC; [discriminate|].
  intros H. exists h0. split; auto.
  destruct ix as [x|].
  - set (rdirs := dedup (filter is_dir_oid req)) in *.
    set (x1 := match rdirs with [] => x | _ :: _ => if forallb (has odb) (ix_dirs x) then x else [] end) in *.
    destruct (indexed_loop noop parse cache (filter (has odb) rdirs) x1) as [k|[y x2]] eqn:EL; [discriminate|].
    inversion H; subst ex miss ix'. clear H.
    split; [|split].
    + intros o. rewrite !in_app_iff, !filter_In, !negb_true_iff, !dedup_In.
      destruct (mem o y); destruct (ix_has x2 o); destruct (has odb o); intuition congruence.
    + intros o Ho. apply filter_In in Ho. destruct Ho as [_ Ho]. now apply negb_true_iff in Ho.
    + intros Hcl Hag Hx o Ho.
      assert (Hx1 : forall o, ix_has x1 o = true -> has odb o = true).
      { unfold x1. destruct (Hx x eq_refl) as [[Hne Hfb]|Hsd].
        - fold rdirs in Hne. destruct rdirs; [congruence|]. rewrite Hfb. intros o' H'. discriminate.
        - destruct rdirs; auto. destruct (forallb (has odb) (ix_dirs x)); auto. intros o' H'. discriminate. }
      destruct (indexed_loop_sound noop parse cache odb Hcl Hag _ _ _ _ EL) as [A B]; auto.
      { intros d Hd. apply filter_In in Hd. destruct Hd as [Hd1 Hd2]. split; auto.
        unfold rdirs in Hd1. apply (proj1 (dedup_In _ _)) in Hd1. apply filter_In in Hd1. tauto. }
      apply in_app_or in Ho. destruct Ho as [Ho|Ho].
      * apply filter_In in Ho. destruct Ho as [_ Ho]. apply mem_In in Ho. auto.
      * apply in_app_or in Ho. destruct Ho as [Ho|Ho].
        -- apply filter_In in Ho. destruct Ho as [_ Ho]. auto.
        -- apply filter_In in Ho. tauto.
  - inversion H; subst ex miss ix'. clear H. split; [|split].
    + intros o. rewrite !filter_In, !negb_true_iff, !dedup_In. destruct (has odb o); intuition congruence.
    + intros o Ho. apply filter_In in Ho. destruct Ho as [_ Ho]. now apply negb_true_iff in Ho.
    + intros _ _ _ o Ho. apply filter_In in Ho. tauto.
Qed.

(* ---- find_tree ---- *)
Lemma find_tree_cache i D l : load (t_parse i) (status_cache i) D = LoadOk l -> find_tree i D = Some l.
Proof.
  unfold find_tree, status_cache, load_ok. destruct (t_cache i) as [c|]; intros ->; auto.
Qed.

Lemma find_tree_src i D l l' :
  coherent i -> find_tree i D = Some l -> listing (t_parse i) (t_src i) D = Some l' -> l' = l.
Proof.
  intros [Ha _] HT HL. unfold listing in HL. destruct (is_dir_oid D); [|discriminate].
  destruct (lookup D (t_src i)) as [bs|] eqn:Ls; [|discriminate].
  unfold find_tree in HT. unfold status_cache in Ha.
  assert (Hsrc : load_ok (t_parse i) (t_src i) D = Some l -> l' = l).
  { unfold load_ok, load. rewrite Ls, HL. congruence. }
  destruct (t_cache i) as [c|]; auto.
  destruct (load_ok (t_parse i) c D) as [lc|] eqn:Ec; auto.
  inversion HT; subst lc. unfold load_ok in Ec.
  destruct (load (t_parse i) c D) as [l0| |] eqn:E0; try discriminate. inversion Ec; subst l0.
  apply load_ok_inv in E0. destruct E0 as [bc [Lc Pc]].
  rewrite (Ha D bc bs Lc Ls) in Pc. congruence.
Qed.

(* ---- compare_status establishes the preconditions of the directory loop ---- *)
Record Pre (i : t_in) (new missing : list oid) : Prop := {
  pre1 : forall o, In o new -> has (t_dst i) o = false;
  pre2 : forall D l f, In D new -> is_dir_oid D = true -> find_tree i D = Some l -> In f l ->
         is_dir_oid f = false /\ (has (t_dst i) f = true \/ In f new \/ In f missing);
  pre3 : forall D l l', find_tree i D = Some l -> listing (t_parse i) (t_src i) D = Some l' -> l' = l }.

(* the destination status does not invent objects *)
Definition status_sound (i : t_in) : Prop :=
  forall dex dmiss dix',
    status_ix (t_dnoop i) (t_parse i) (t_dst i) (status_cache i) (t_dix i) (t_shallow i) (t_req i) = inr (dex, dmiss, dix') ->
    forall o, In o dex -> has (t_dst i) o = true.

Lemma status_sound_noindex i : t_dix i = None -> status_sound i.
Proof.
  intros E dex dmiss dix' H o Ho.
  destruct (status_ix_spec _ _ _ _ _ _ _ _ _ _ H) as [hd [_ [_ [_ S]]]].
  unfold status_ix in H. rewrite E in H.
  destruct (collect (t_parse i) (status_cache i) (t_shallow i) (t_req i)); [discriminate|].
  inversion H; subst. apply filter_In in Ho. tauto.
Qed.
Lemma status_sound_index i :
  closed (t_parse i) (t_dst i) -> coherent i -> ix_sound i -> status_sound i.
Proof.
  intros Hcl [_ Hcd] Hix dex dmiss dix' H o Ho.
  destruct (status_ix_spec _ _ _ _ _ _ _ _ _ _ H) as [hd [_ [_ [_ S]]]].
  apply S; auto. intros x Ex. unfold ix_sound in Hix. rewrite Ex in Hix. auto.
Qed.

(* facts about the status answer that C11 needs as well *)
Record StatusFacts (i : t_in) (st : cmp) (sf_hashes : list oid) : Prop := {   (* sf_hashes: every id status looked at *)
  sf_req : forall o, In o (t_req i) -> In o sf_hashes;
  sf_cover : forall o, In o sf_hashes ->
             has (t_dst i) o = true \/ In o (c_new st) \/ In o (c_missing st);
  sf_new : forall o, In o (c_new st) -> In o sf_hashes /\ has (t_dst i) o = false;
  sf_missing : forall o, In o (c_missing st) -> has (t_dst i) o = false /\ has (t_src i) o = false }.

Lemma in_dec_oid (o : oid) l : In o l \/ ~ In o l.
Proof. destruct (mem o l) eqn:E; [left; now apply mem_In|right; now apply mem_nIn]. Qed.

Lemma compare_status_pre i st dix six :
  flat_parse i -> coherent i -> closed (t_parse i) (t_dst i) -> ix_sound i -> closed_request i ->
  compare_status i = inr (st, dix, six) -> Pre i (c_new st) (c_missing st).
Proof.
  intros Hflat Hcoh Hcl Hix Hreq. unfold compare_status.
  destruct (status_ix (t_dnoop i) (t_parse i) (t_dst i) (status_cache i) (t_dix i) (t_shallow i) (t_req i))
    as [k|[[dex dmiss] dix']] eqn:ED; [discriminate|].
  assert (HP3 : forall D l l', find_tree i D = Some l -> listing (t_parse i) (t_src i) D = Some l' -> l' = l).
  { intros D l l'. now apply find_tree_src. }
  destruct dmiss as [|m0 mr] eqn:Edm.
  - intros H. inversion H; subst. simpl. constructor; auto; intros; simpl in *; contradiction.
  - rewrite <- Edm in *.
    destruct (status_ix (t_snoop i) (t_parse i) (t_src i) (t_src i) (t_six i) (t_shallow i) (t_req i))
      as [k|[[sex smiss] six']] eqn:ES; [discriminate|].
    intros H. inversion H; subst st dix six. simpl. clear H.
    destruct (status_ix_spec _ _ _ _ _ _ _ _ _ _ ED) as [hd [Cd [Dcov [Dmiss Dsound]]]].
    destruct (status_ix_spec _ _ _ _ _ _ _ _ _ _ ES) as [hs [Cs [Scov [Smiss _]]]].
    destruct Hcoh as [Hcs Hcd].
    assert (Ehs : hd = hs) by (exact (collect_agree _ _ _ _ Hcs _ _ _ Cd Cs)). subst hs.
    assert (Dsound' : forall o, In o dex -> has (t_dst i) o = true).
    { apply Dsound; auto. intros x Ex. unfold ix_sound in Hix. rewrite Ex in Hix. auto. }
    destruct (collect_spec _ _ _ _ _ Cd) as [CA [CB CC]].
    constructor; auto.
    + intros o Ho. apply diff_In in Ho. destruct Ho as [H1 H2].
      assert (Hh : In o hd) by (apply Scov; auto).
      apply Dcov in Hh. destruct Hh as [Hh|Hh]; [contradiction|auto].
    + intros D l f HDn HDd HT Hf.
      assert (Hff : is_dir_oid f = false).
      { unfold find_tree in HT.
        assert (Hlo : forall s, load_ok (t_parse i) s D = Some l -> is_dir_oid f = false).
        { intros s Hs. unfold load_ok in Hs. destruct (load (t_parse i) s D) as [l0| |] eqn:E0; try discriminate.
          inversion Hs; subst l0. apply load_ok_inv in E0. destruct E0 as [b [_ Pb]]. eapply Hflat; eauto. }
        destruct (t_cache i) as [c|]; eauto.
        destruct (load_ok (t_parse i) c D) eqn:Ec; eauto. inversion HT; subst. eauto. }
      split; auto.
      apply diff_In in HDn. destruct HDn as [HDs HDx].
      assert (HDh : In D hd) by (apply Scov; auto).
      assert (HDr : In D (t_req i)).
      { destruct (CB D HDh) as [H|[_ [D' [l' [_ [_ [HL Hin]]]]]]]; auto.
        apply load_ok_inv in HL. destruct HL as [b [_ Pb]].
        rewrite (Hflat b l' D Pb Hin) in HDd. discriminate. }
      assert (Hfh : In f hd).
      { destruct (t_shallow i) eqn:Esh.
        - destruct Hreq as [Hreq|Hreq]; [congruence|]. apply CA. eapply Hreq; eauto.
        - destruct (CC eq_refl D HDr HDd) as [l' [HL Hin]].
          apply find_tree_cache in HL. rewrite HL in HT. inversion HT; subst l'. auto. }
      destruct (proj2 (Dcov f) Hfh) as [H|H]; [left; auto|].
      right. destruct (proj2 (Scov f) Hfh) as [H'|H'].
      * left. apply diff_In. split; auto. intros Hx. apply Dsound' in Hx. apply Dmiss in H. congruence.
      * right. apply inter_In. auto.
Qed.

Lemma find_tree_flat i D l f : flat_parse i -> find_tree i D = Some l -> In f l -> is_dir_oid f = false.
Proof.
  intros Hflat HT Hf. unfold find_tree in HT.
  assert (Hlo : forall s, load_ok (t_parse i) s D = Some l -> is_dir_oid f = false).
  { intros s Hs. unfold load_ok in Hs. destruct (load (t_parse i) s D) as [l0| |] eqn:E0; try discriminate.
    inversion Hs; subst l0. apply load_ok_inv in E0. destruct E0 as [b [_ Pb]]. eapply Hflat; eauto. }
  destruct (t_cache i) as [c|]; eauto.
  destruct (load_ok (t_parse i) c D) eqn:Ec; eauto. inversion HT; subst. eauto.
Qed.

Lemma compare_status_facts i st dix six :
  coherent i -> status_sound i ->
  compare_status i = inr (st, dix, six) -> exists h, StatusFacts i st h.
Proof.
  intros Hcoh Hsound. unfold compare_status.
  destruct (status_ix (t_dnoop i) (t_parse i) (t_dst i) (status_cache i) (t_dix i) (t_shallow i) (t_req i))
    as [k|[[dex dmiss] dix']] eqn:ED; [discriminate|].
  destruct (status_ix_spec _ _ _ _ _ _ _ _ _ _ ED) as [hd [Cd [Dcov [Dmiss _]]]].
  destruct (collect_spec _ _ _ _ _ Cd) as [CA [CB CC]].
  assert (Dsound' : forall o, In o dex -> has (t_dst i) o = true) by (intros o; eapply Hsound; eauto).
  destruct dmiss as [|m0 mr] eqn:Edm.
  - intros H. inversion H; subst. exists hd. constructor; simpl; auto; try (intros o []).
    intros o Ho. left. destruct (proj2 (Dcov o) Ho) as [H1|[]]. auto.
  - rewrite <- Edm in *.
    destruct (status_ix (t_snoop i) (t_parse i) (t_src i) (t_src i) (t_six i) (t_shallow i) (t_req i))
      as [k|[[sex smiss] six']] eqn:ES; [discriminate|].
    intros H. inversion H; subst st dix six. clear H.
    destruct (status_ix_spec _ _ _ _ _ _ _ _ _ _ ES) as [hs [Cs [Scov [Smiss _]]]].
    destruct Hcoh as [Hcs Hcd].
    assert (Ehs : hd = hs) by (exact (collect_agree _ _ _ _ Hcs _ _ _ Cd Cs)). subst hs.
    exists hd. constructor; simpl; auto.
    + intros o Ho.
      destruct (proj2 (Dcov o) Ho) as [H|H]; [left; auto|]. right.
      destruct (proj2 (Scov o) Ho) as [H'|H'].
      * left. apply diff_In. split; auto. intros Hx. apply Dsound' in Hx. apply Dmiss in H. congruence.
      * right. apply inter_In. auto.
    + intros o Ho. apply diff_In in Ho. destruct Ho as [H1 H2]. split; [apply Scov; auto|].
      assert (Hh : In o hd) by (apply Scov; auto).
      apply Dcov in Hh. destruct Hh as [Hh|Hh]; [contradiction|auto].
    + intros o Ho. apply inter_In in Ho. destruct Ho. split; auto.
Qed.
