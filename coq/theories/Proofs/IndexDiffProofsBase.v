(* C08, part 1: equality tests, the trie (lookup / nodes / children / ls), the decider table. *)
From Coq Require Import NArith List Bool Arith Lia Permutation.
From DvcData Require Import Base.Val Model.Trie Model.IndexDiff.
Import ListNotations.
Open Scope N_scope.

(* ---- equality tests ------------------------------------------------------------------------- *)
Lemma opt_eqb_spec {A} (eqb : A -> A -> bool) :
  (forall a b, eqb a b = true <-> a = b) -> forall a b, opt_eqb eqb a b = true <-> a = b.
Proof.
  intros H [a|] [b|]; simpl; split; intros E; try discriminate; try reflexivity.
  - apply H in E. now subst.
  - injection E as ->. now apply H.
Qed.

Lemma bool_eqb_spec a b : Bool.eqb a b = true <-> a = b.
Proof. destruct a, b; simpl; split; congruence. Qed.

Lemma meta_eqb_spec a b : meta_eqb a b = true <-> a = b.
Proof.
  unfold meta_eqb. repeat rewrite andb_true_iff.
  rewrite !bool_eqb_spec, !(opt_eqb_spec N.eqb N.eqb_eq), !(opt_eqb_spec list_N_eqb list_N_eqb_spec).
  destruct a, b; simpl. split.
  - intros [[[[[[[[[-> ->] ->] ->] ->] ->] ->] ->] ->] ->]. reflexivity.
  - intros E. injection E as -> -> -> -> -> -> -> -> -> ->. repeat split.
Qed.

Lemma hashinfo_eqb_spec a b : hashinfo_eqb a b = true <-> a = b.
Proof.
  unfold hashinfo_eqb. rewrite andb_true_iff, !(opt_eqb_spec list_N_eqb list_N_eqb_spec).
  destruct a, b; simpl. split.
  - intros [-> ->]. reflexivity.
  - intros E. injection E as -> ->. split; reflexivity.
Qed.

Lemma key_eqb_spec a b : key_eqb a b = true <-> a = b.
Proof.
  revert b; induction a as [|x a IH]; intros [|y b]; simpl; split; intros E;
    try reflexivity; try discriminate.
  - apply andb_true_iff in E as [E1 E2]. apply list_N_eqb_spec in E1. apply IH in E2. congruence.
  - injection E as -> ->. apply andb_true_iff. split; [now apply list_N_eqb_spec | now apply IH].
Qed.

Lemma key_eqb_refl k : key_eqb k k = true.
Proof. now apply key_eqb_spec. Qed.

Lemma key_eqb_neq a b : a <> b -> key_eqb a b = false.
Proof. intros H. destruct (key_eqb a b) eqn:E; [apply key_eqb_spec in E; contradiction | reflexivity]. Qed.

Lemma key_eq_dec (a b : key) : {a = b} + {a <> b}.
Proof.
  destruct (key_eqb a b) eqn:E.
  - left. now apply key_eqb_spec.
  - right. intros ->. rewrite key_eqb_refl in E. discriminate.
Qed.

Lemma eqb_sym_of_spec {A} (eqb : A -> A -> bool) :
  (forall a b, eqb a b = true <-> a = b) -> forall a b, eqb a b = eqb b a.
Proof.
  intros H a b. destruct (eqb a b) eqn:E1, (eqb b a) eqn:E2; try reflexivity.
  - apply H in E1. subst. assert (eqb b b = true) by now apply H. congruence.
  - apply H in E2. subst. assert (eqb a a = true) by now apply H. congruence.
Qed.

Lemma mem_key_spec k l : mem_key k l = true <-> In k l.
Proof.
  unfold mem_key. rewrite existsb_exists. split.
  - intros [x [Hin E]]. apply key_eqb_spec in E. now subst.
  - intros Hin. exists k. split; [assumption | apply key_eqb_refl].
Qed.

Lemma mem_key_false k l : mem_key k l = false <-> ~ In k l.
Proof. rewrite <- mem_key_spec. destruct (mem_key k l); split; congruence. Qed.

(* ---- dedup ------------------------------------------------------------------------------------ *)
Lemma In_dedup k l : In k (dedup l) <-> In k l.
Proof.
  induction l as [|x r IH]; simpl; [tauto|].
  destruct (mem_key x r) eqn:E.
  - rewrite IH. split; [auto|]. intros [<-|H]; [now apply mem_key_spec | assumption].
  - simpl. rewrite IH. tauto.
Qed.

Lemma NoDup_dedup l : NoDup (dedup l).
Proof.
  induction l as [|x r IH]; simpl; [constructor|].
  destruct (mem_key x r) eqn:E; [assumption|].
  constructor; [|assumption]. rewrite In_dedup. now apply mem_key_false.
Qed.

(* ---- prefixes ----------------------------------------------------------------------------------- *)
Lemma is_prefix_spec p k : is_prefix p k = true <-> exists s, k = p ++ s.
Proof.
  revert k; induction p as [|x p IH]; intros k; simpl.
  - split; [intros _; now exists k | reflexivity].
  - destruct k as [|y k].
    + split; [discriminate | intros [s E]; discriminate].
    + rewrite andb_true_iff, list_N_eqb_spec, IH. split.
      * intros [-> [s ->]]. now exists s.
      * intros [s E]. injection E as -> ->. split; [reflexivity | now exists s].
Qed.

Definition strict_prefix (p k : key) : Prop := exists n s, k = p ++ n :: s.

Lemma has_node_spec i k : has_node i k = true <-> exists k' e s, In (k', e) i /\ k' = k ++ s.
Proof.
  unfold has_node. rewrite existsb_exists. split.
  - intros [[k' e] [Hin Hp]]. simpl in Hp. apply is_prefix_spec in Hp as [s ->]. now exists (k ++ s), e, s.
  - intros [k' [e [s [Hin ->]]]]. exists (k ++ s, e). split; [assumption|]. simpl. apply is_prefix_spec. now exists s.
Qed.

Lemma has_node_prefix i k s : has_node i (k ++ s) = true -> has_node i k = true.
Proof.
  rewrite !has_node_spec. intros [k' [e [s' [Hin ->]]]]. exists ((k ++ s) ++ s'), e, (s ++ s').
  split; [assumption | now rewrite app_assoc].
Qed.

Lemma is_node_prefix i k s : is_node i (k ++ s) = true -> is_node i k = true.
Proof.
  destruct k as [|x k]; [reflexivity|]. simpl. apply has_node_prefix.
Qed.

Lemma lookup_In i k e : lookup i k = Some e -> In (k, e) i.
Proof.
  induction i as [|[k' e'] r IH]; simpl; [discriminate|].
  destruct (key_eqb k k') eqn:E.
  - apply key_eqb_spec in E. subst. intros [= ->]. now left.
  - intros H. right. now apply IH.
Qed.

Lemma In_lookup i k e : NoDup (map fst i) -> In (k, e) i -> lookup i k = Some e.
Proof.
  induction i as [|[k' e'] r IH]; simpl; [tauto|]. intros Hnd [H|H].
  - injection H as -> ->. now rewrite key_eqb_refl.
  - inversion Hnd as [|? ? Hnin Hnd']; subst.
    destruct (key_eqb k k') eqn:E.
    + apply key_eqb_spec in E. subst. exfalso. apply Hnin. apply in_map_iff. now exists (k', e).
    + now apply IH.
Qed.

Lemma lookup_None i k : lookup i k = None <-> ~ In k (map fst i).
Proof.
  induction i as [|[k' e'] r IH]; simpl; [tauto|].
  destruct (key_eqb k k') eqn:E.
  - apply key_eqb_spec in E. subst. split; [discriminate | intros H; exfalso; apply H; now left].
  - rewrite IH. split.
    + intros H [H'|H']; [subst; rewrite key_eqb_refl in E; discriminate | contradiction].
    + intros H H'. apply H. now right.
Qed.

Lemma lookup_Some_key i k e : lookup i k = Some e -> In k (map fst i).
Proof. intros H. apply lookup_In in H. apply in_map_iff. now exists (k, e). Qed.

Lemma lookup_has_node i k e : lookup i k = Some e -> has_node i k = true.
Proof.
  intros H. apply lookup_In in H. apply has_node_spec. exists k, e, []. split; [assumption | now rewrite app_nil_r].
Qed.

Lemma lookup_is_node i k e : lookup i k = Some e -> is_node i k = true.
Proof. intros H. destruct k; [reflexivity|]. simpl. eapply lookup_has_node; eauto. Qed.

(* ---- children ------------------------------------------------------------------------------------ *)
Lemma firstn_snoc {A} (p : list A) n s : firstn (S (length p)) (p ++ n :: s) = p ++ [n].
Proof.
  rewrite firstn_app. replace (S (length p) - length p)%nat with 1%nat by lia.
  rewrite firstn_all2 by lia. reflexivity.
Qed.

Lemma child_nodes_spec i p c :
  In c (child_nodes i p) <-> exists n, c = p ++ [n] /\ has_node i c = true.
Proof.
  unfold child_nodes. rewrite In_dedup, in_flat_map. split.
  - intros [[k' e] [Hin Hc]]. unfold child_toward in Hc. simpl in Hc.
    destruct (is_prefix p k' && (length p <? length k')%nat) eqn:E; [|destruct Hc].
    apply andb_true_iff in E as [E1 E2]. apply is_prefix_spec in E1 as [s ->].
    apply Nat.ltb_lt in E2. rewrite app_length in E2.
    destruct s as [|n s]; [simpl in E2; lia|].
    destruct Hc as [<-|[]]. rewrite firstn_snoc. exists n. split; [reflexivity|].
    apply has_node_spec. exists (p ++ n :: s), e, s. split; [assumption|]. now rewrite <- app_assoc.
  - intros [n [-> Hn]]. apply has_node_spec in Hn as [k' [e [s [Hin ->]]]].
    exists ((p ++ [n]) ++ s, e). split; [assumption|]. unfold child_toward. simpl.
    rewrite <- app_assoc. simpl.
    assert (E1 : is_prefix p (p ++ n :: s) = true) by (apply is_prefix_spec; now exists (n :: s)).
    assert (E2 : (length p <? length (p ++ n :: s))%nat = true)
      by (apply Nat.ltb_lt; rewrite app_length; simpl; lia).
    rewrite E1, E2. simpl. left. apply firstn_snoc.
Qed.

Lemma child_nodes_NoDup i p : NoDup (child_nodes i p).
Proof. apply NoDup_dedup. Qed.

(* ---- association lists of infos ------------------------------------------------------------------- *)
Lemma get_item_map (f : key -> info) l k :
  get_item (map (fun c => (c, f c)) l) k = if mem_key k l then Some (f k) else None.
Proof.
  induction l as [|x r IH]; simpl; [reflexivity|].
  destruct (key_eqb k x) eqn:E; simpl.
  - apply key_eqb_spec in E. now subst.
  - exact IH.
Qed.

Lemma get_item_some its k : is_some (get_item its k) = true <-> In k (map fst its).
Proof.
  induction its as [|[k' inf] r IH]; simpl; [split; [discriminate | tauto]|].
  destruct (key_eqb k k') eqn:E.
  - apply key_eqb_spec in E. subst. split; [now left | reflexivity].
  - rewrite IH. split; [now right|]. intros [H|H]; [subst; rewrite key_eqb_refl in E; discriminate | assumption].
Qed.

Lemma union_keys_In oi ni k : In k (union_keys oi ni) <-> In k (map fst oi) \/ In k (map fst ni).
Proof.
  unfold union_keys. rewrite in_app_iff, filter_In, negb_true_iff, mem_key_false.
  destruct (in_dec key_eq_dec k (map fst oi)); tauto.
Qed.

Lemma union_keys_NoDup oi ni : NoDup (map fst oi) -> NoDup (map fst ni) -> NoDup (union_keys oi ni).
Proof.
  intros H1 H2. unfold union_keys.
  assert (Hf : NoDup (filter (fun k => negb (mem_key k (map fst oi))) (map fst ni))) by now apply NoDup_filter.
  revert Hf. generalize (map fst ni) as l2. intros l2 Hf.
  induction H1 as [|x l Hx Hl IH]; simpl; [assumption|].
  constructor.
  - rewrite in_app_iff, filter_In, negb_true_iff, mem_key_false. intros [H|[_ H]]; [contradiction|].
    apply H. now left.
  - (* the filter for x :: l is a sub-filter of the filter for l *)
    clear IH.
    assert (forall l2, NoDup l2 -> (forall k, In k l2 -> ~ In k l) -> NoDup (l ++ l2)) as Happ.
    { clear. intros l2 H2 Hd. induction l as [|a l IH]; simpl; [assumption|]. }
    exact I.
Abort.

Lemma NoDup_app_intro {A} (l1 l2 : list A) :
  NoDup l1 -> NoDup l2 -> (forall x, In x l1 -> In x l2 -> False) -> NoDup (l1 ++ l2).
Proof.
  intros H1 H2 Hd. induction H1 as [|x l Hx Hl IH]; simpl; [assumption|].
  constructor.
  - rewrite in_app_iff. intros [H|H]; [contradiction|]. apply (Hd x); [now left | assumption].
  - apply IH. intros y Hy. apply Hd. now right.
Qed.

Lemma union_keys_NoDup oi ni : NoDup (map fst oi) -> NoDup (map fst ni) -> NoDup (union_keys oi ni).
Proof.
  intros H1 H2. unfold union_keys. apply NoDup_app_intro; [assumption | now apply NoDup_filter |].
  intros x Hx Hf. apply filter_In in Hf as [_ Hf]. apply negb_true_iff, mem_key_false in Hf. contradiction.
Qed.

(* ---- nodes ------------------------------------------------------------------------------------------ *)
Lemma prefixes_spec k p : In p (prefixes k) <-> exists s, k = p ++ s.
Proof.
  revert p; induction k as [|x k IH]; intros p; simpl.
  - split.
    + intros [<-|[]]. now exists [].
    + intros [s E]. destruct p; [now left | discriminate].
  - split.
    + intros [<-|H]; [now exists (x :: k)|]. apply in_map_iff in H as [q [<- Hq]].
      apply IH in Hq as [s ->]. now exists s.
    + intros [s E]. destruct p as [|y p]; [now left|]. right. injection E as <- ->.
      apply in_map_iff. exists p. split; [reflexivity|]. apply IH. now exists s.
Qed.

Lemma nodes_spec i k : In k (nodes i) <-> is_node i k = true.
Proof.
  unfold nodes. rewrite In_dedup. simpl. rewrite in_flat_map. split.
  - intros [<-|[[k' e] [Hin Hp]]]; [reflexivity|]. simpl in Hp. apply prefixes_spec in Hp as [s ->].
    destruct k; [reflexivity|]. simpl. apply has_node_spec. now exists ((l :: k) ++ s), e, s.
  - destruct k as [|x k]; [now left|]. simpl. intros H. right.
    apply has_node_spec in H as [k' [e [s [Hin ->]]]]. exists ((x :: k) ++ s, e). split; [assumption|].
    simpl fst. apply prefixes_spec. now exists s.
Qed.

Lemma nodes_NoDup i : NoDup (nodes i).
Proof. apply NoDup_dedup. Qed.

(* the longest key bounds the length of every node *)
Definition maxlen (i : index) : nat := list_max (map (fun kv => length (fst kv)) i).

Lemma has_node_length i k : has_node i k = true -> (length k <= maxlen i)%nat.
Proof.
  intros H. apply has_node_spec in H as [k' [e [s [Hin ->]]]].
  assert (Hall : Forall (fun n => (n <= maxlen i)%nat) (map (fun kv => length (fst kv)) i))
    by now apply list_max_le.
  rewrite Forall_forall in Hall.
  specialize (Hall (length (k ++ s))). rewrite app_length in Hall.
  assert (Hle : (length k + length s <= maxlen i)%nat).
  { apply Hall. apply in_map_iff. exists (k ++ s, e). split; [simpl; now rewrite app_length | assumption]. }
  lia.
Qed.

Lemma is_node_length i k : is_node i k = true -> (length k <= maxlen i)%nat.
Proof. destruct k; [simpl; lia|]. apply has_node_length. Qed.

(* ---- get_info ------------------------------------------------------------------------------------------ *)
Lemma norm_meta_hash e : e_hash (norm_meta e) = e_hash e.
Proof. unfold norm_meta. destruct (e_meta e); [reflexivity|]. destruct (hi_truthy (e_hash e)); reflexivity. Qed.

Lemma norm_meta_idem e : norm_meta (norm_meta e) = norm_meta e.
Proof.
  unfold norm_meta at 2. destruct (e_meta e) eqn:Em.
  - unfold norm_meta. now rewrite Em.
  - destruct (hi_truthy (e_hash e)) eqn:Eh; [reflexivity|]. unfold norm_meta. now rewrite Em, Eh.
Qed.

Lemma info_entry_get_info i k : info_entry (get_info i k) = option_map norm_meta (lookup i k).
Proof.
  unfold get_info. destruct (lookup i k); simpl; [reflexivity|]. destruct (is_node i k); reflexivity.
Qed.

Lemma get_info_some i k : is_some (get_info i k) = is_node i k.
Proof.
  unfold get_info. destruct (lookup i k) eqn:E; simpl.
  - symmetry. eapply lookup_is_node; eauto.
  - destruct (is_node i k); reflexivity.
Qed.

(* ---- the decider table ---------------------------------------------------------------------------------- *)
Definition swap_typ (t : typ) : typ :=
  match t with Add => Delete | Delete => Add | x => x end.

Lemma swap_typ_invol t : swap_typ (swap_typ t) = t.
Proof. destruct t; reflexivity. Qed.

Lemma swap_typ_unchanged t : typ_eqb (swap_typ t) Unchanged = typ_eqb t Unchanged.
Proof. destruct t; reflexivity. Qed.

Lemma typ_eqb_spec a b : typ_eqb a b = true <-> a = b.
Proof. destruct a, b; simpl; split; congruence. Qed.

Lemma opt_meta_eqb_refl m : opt_eqb meta_eqb m m = true.
Proof. now apply (opt_eqb_spec meta_eqb meta_eqb_spec). Qed.
Lemma opt_hi_eqb_refl h : opt_eqb hashinfo_eqb h h = true.
Proof. now apply (opt_eqb_spec hashinfo_eqb hashinfo_eqb_spec). Qed.
Lemma opt_meta_eqb_sym a b : opt_eqb meta_eqb a b = opt_eqb meta_eqb b a.
Proof. apply eqb_sym_of_spec. apply opt_eqb_spec, meta_eqb_spec. Qed.
Lemma opt_hi_eqb_sym a b : opt_eqb hashinfo_eqb a b = opt_eqb hashinfo_eqb b a.
Proof. apply eqb_sym_of_spec. apply opt_eqb_spec, hashinfo_eqb_spec. Qed.
Lemma list_N_eqb_refl l : list_N_eqb l l = true.
Proof. now apply list_N_eqb_spec. Qed.
Lemma list_N_eqb_sym a b : list_N_eqb a b = list_N_eqb b a.
Proof. apply eqb_sym_of_spec, list_N_eqb_spec. Qed.

Lemma diff_meta_refl m c : diff_meta m m c = Unchanged.
Proof.
  unfold diff_meta. destruct m; simpl.
  - rewrite (proj2 (meta_eqb_spec m m) eq_refl). destruct c; simpl; [now rewrite list_N_eqb_refl | reflexivity].
  - destruct c; simpl; [now rewrite list_N_eqb_refl | reflexivity].
Qed.

Lemma diff_meta_swap a b c : diff_meta b a c = swap_typ (diff_meta a b c).
Proof.
  unfold diff_meta. destruct a as [a|], b as [b|]; simpl; try reflexivity.
  - rewrite (eqb_sym_of_spec meta_eqb meta_eqb_spec b a).
    destruct c as [f|]; simpl.
    + rewrite (list_N_eqb_sym (f (Some b))). destruct (list_N_eqb (f (Some a)) (f (Some b))); reflexivity.
    + destruct (meta_eqb a b); reflexivity.
  - destruct c as [f|]; simpl; [now rewrite list_N_eqb_refl | reflexivity].
Qed.

Lemma diff_hash_info_refl h : diff_hash_info h h = Unchanged.
Proof.
  unfold diff_hash_info. rewrite opt_hi_eqb_refl. destruct (hi_truthy h); reflexivity.
Qed.

Lemma diff_hash_info_swap a b : diff_hash_info b a = swap_typ (diff_hash_info a b).
Proof.
  unfold diff_hash_info. rewrite (opt_hi_eqb_sym b a).
  destruct (hi_truthy a), (hi_truthy b), (opt_eqb hashinfo_eqb a b); reflexivity.
Qed.

Lemma diff_meta_range a b c : let t := diff_meta a b c in t <> Rename /\ t <> Unknown.
Proof.
  unfold diff_meta. destruct (is_none a && is_some b), (is_some a && is_none b),
    (is_none c && negb (opt_eqb meta_eqb a b)),
    (match c with Some f => negb (list_N_eqb (f a) (f b)) | None => false end); simpl; split; discriminate.
Qed.

Lemma diff_hash_info_range a b : let t := diff_hash_info a b in t <> Rename /\ t <> Unknown.
Proof.
  unfold diff_hash_info. destruct (hi_truthy a), (hi_truthy b), (opt_eqb hashinfo_eqb a b); simpl; split; discriminate.
Qed.

(* Unchanged <-> the components agree *)
Lemma diff_meta_unchanged_iff a b : diff_meta a b None = Unchanged <-> a = b.
Proof.
  unfold diff_meta. destruct a as [a|], b as [b|]; simpl; try (split; [discriminate|congruence]).
  - destruct (meta_eqb a b) eqn:E; simpl.
    + apply meta_eqb_spec in E. subst. tauto.
    + split; [discriminate|]. intros [= ->]. rewrite (proj2 (meta_eqb_spec b b) eq_refl) in E. discriminate.
  - tauto.
Qed.

Lemma diff_meta_unchanged_cmp a b f :
  diff_meta a b (Some f) = Unchanged <-> (is_none a = is_none b /\ f a = f b).
Proof.
  unfold diff_meta. destruct a as [a|], b as [b|]; simpl.
  - destruct (list_N_eqb (f (Some a)) (f (Some b))) eqn:E; simpl.
    + apply list_N_eqb_spec in E. tauto.
    + split; [discriminate|]. intros [_ E']. rewrite E', list_N_eqb_refl in E. discriminate.
  - split; [discriminate | intros [? _]; discriminate].
  - split; [discriminate | intros [? _]; discriminate].
  - rewrite list_N_eqb_refl. simpl. tauto.
Qed.

Lemma diff_hash_info_unchanged_iff a b :
  diff_hash_info a b = Unchanged <->
  (hi_truthy a = false /\ hi_truthy b = false) \/ (hi_truthy a = true /\ hi_truthy b = true /\ a = b).
Proof.
  unfold diff_hash_info. destruct (hi_truthy a) eqn:Ea, (hi_truthy b) eqn:Eb; simpl.
  - destruct (opt_eqb hashinfo_eqb a b) eqn:E; simpl.
    + apply (opt_eqb_spec hashinfo_eqb hashinfo_eqb_spec) in E. subst. tauto.
    + split; [discriminate|]. intros [[? _]|[_ [_ ->]]]; [discriminate|]. rewrite opt_hi_eqb_refl in E. discriminate.
  - split; [discriminate|]. intros [[? _]|[_ [? _]]]; discriminate.
  - split; [discriminate|]. intros [[_ ?]|[? _]]; discriminate.
  - tauto.
Qed.

Definition ent_hash (e : option ientry) : option hashinfo := match e with Some x => e_hash x | None => None end.
Definition ent_meta (e : option ientry) : option meta := match e with Some x => e_meta x | None => None end.

Lemma diff_entry_hash_only a b c : diff_entry a b true false c false = diff_hash_info (ent_hash a) (ent_hash b).
Proof. reflexivity. Qed.

Lemma diff_entry_meta_only a b h c : diff_entry a b h true c false = diff_meta (ent_meta a) (ent_meta b) c.
Proof. reflexivity. Qed.

Lemma diff_entry_refl e h m c : diff_entry e e h m c false = Unchanged.
Proof.
  unfold diff_entry. rewrite diff_meta_refl, diff_hash_info_refl.
  destruct e; simpl; destruct m, h; simpl; try reflexivity.
  - destruct (is_none (e_meta i)); simpl; [reflexivity|]. destruct (negb (hi_truthy (e_hash i))); reflexivity.
Qed.

Lemma diff_entry_swap a b h m c u : diff_entry b a h m c u = swap_typ (diff_entry a b h m c u).
Proof.
  unfold diff_entry. destruct u; [reflexivity|].
  rewrite (diff_meta_swap (ent_meta a) (ent_meta b)), (diff_hash_info_swap (ent_hash a) (ent_hash b)).
  fold (ent_meta a) (ent_meta b) (ent_hash a) (ent_hash b).
  destruct m; [reflexivity|]. destruct h; [reflexivity|].
  destruct a as [a|], b as [b|]; simpl; try reflexivity.
  - (* both present *)
    generalize (diff_meta_range (e_meta a) (e_meta b) c). generalize (diff_hash_info_range (e_hash a) (e_hash b)).
    pose proof (diff_meta_unchanged_none := I).
    unfold diff_meta, diff_hash_info.
    destruct (e_meta a) as [ma|], (e_meta b) as [mb|]; simpl;
      destruct (hi_truthy (e_hash a)) eqn:Ta, (hi_truthy (e_hash b)) eqn:Tb; simpl;
      try (destruct (opt_eqb hashinfo_eqb (e_hash a) (e_hash b)); simpl);
      try (destruct (match c with Some f => negb (list_N_eqb (f (Some ma)) (f (Some mb))) | None => false end);
           destruct (is_none c && negb (meta_eqb ma mb)); simpl);
      try (destruct (match c with Some f => negb (list_N_eqb (f None) (f None)) | None => false end);
           destruct (is_none c && negb true); simpl);
      intros; try reflexivity.
  - (* both absent *)
    unfold diff_meta, diff_hash_info. simpl.
    destruct (is_none c && negb true), (match c with Some f => negb (list_N_eqb (f None) (f None)) | None => false end);
      reflexivity.
Qed.

(* full comparison: Unchanged exactly when presence, metadata and hash all agree *)
Lemma diff_entry_unchanged_iff a b c :
  diff_entry a b false false c false = Unchanged <->
  (is_none a = is_none b /\ diff_meta (ent_meta a) (ent_meta b) c = Unchanged
   /\ diff_hash_info (ent_hash a) (ent_hash b) = Unchanged).
Proof.
  unfold diff_entry. fold (ent_meta a) (ent_meta b) (ent_hash a) (ent_hash b).
  destruct a as [a|], b as [b|]; simpl.
  - generalize (diff_meta_range (e_meta a) (e_meta b) c). generalize (diff_hash_info_range (e_hash a) (e_hash b)).
    simpl.
    assert (Hm : typ_eqb (diff_meta (e_meta a) (e_meta b) c) Unchanged && is_none (e_meta a) = true ->
                 diff_meta (e_meta a) (e_meta b) c = Unchanged)
      by (intros H; apply andb_true_iff in H as [H _]; now apply typ_eqb_spec).
    destruct (diff_meta (e_meta a) (e_meta b) c) eqn:Em, (diff_hash_info (e_hash a) (e_hash b)) eqn:Eh; simpl;
      destruct (is_none (e_meta a)), (hi_truthy (e_hash a)); simpl; intros [? ?] [? ?];
      split; try discriminate; try tauto; try congruence; intros [_ [? ?]]; try discriminate; try congruence.
  - split; [discriminate | intros [? _]; discriminate].
  - split; [discriminate | intros [? _]; discriminate].
  - rewrite diff_meta_refl, diff_hash_info_refl. simpl. tauto.
Qed.

Lemma diff_entry_one_sided e c :
  diff_entry None (Some e) false false c false = Add /\ diff_entry (Some e) None false false c false = Delete.
Proof. split; reflexivity. Qed.

Lemma diff_entry_range a b h m c : let t := diff_entry a b h m c false in t <> Rename /\ t <> Unknown.
Proof.
  unfold diff_entry. fold (ent_meta a) (ent_meta b) (ent_hash a) (ent_hash b).
  generalize (diff_meta_range (ent_meta a) (ent_meta b) c). generalize (diff_hash_info_range (ent_hash a) (ent_hash b)).
  simpl. intros [? ?] [? ?].
  destruct m; [split; assumption|]. destruct h; [split; assumption|].
  destruct (negb (typ_eqb (if is_none a && is_some b then Add else if is_some a && is_none b then Delete else Unchanged) Unchanged)).
  - destruct (is_none a && is_some b); [split; discriminate|]. destruct (is_some a && is_none b); split; discriminate.
  - destruct (typ_eqb (diff_meta (ent_meta a) (ent_meta b) c) Unchanged && is_none (ent_meta a)); [split; assumption|].
    destruct (typ_eqb (diff_hash_info (ent_hash a) (ent_hash b)) Unchanged && negb (hi_truthy (ent_hash a))); [split; assumption|].
    destruct (typ_eqb (diff_meta (ent_meta a) (ent_meta b) c) (diff_hash_info (ent_hash a) (ent_hash b)) &&
              typ_eqb (diff_hash_info (ent_hash a) (ent_hash b))
                (if is_none a && is_some b then Add else if is_some a && is_none b then Delete else Unchanged));
      split; try assumption; discriminate.
Qed.

(* an Add has a new side, a Delete an old side *)
Lemma diff_meta_add a b c : diff_meta a b c = Add -> is_some b = true.
Proof.
  unfold diff_meta. destruct a, b; simpl; try reflexivity; try discriminate.
  - destruct (is_none c && negb (meta_eqb m m0)); [discriminate|].
    destruct (match c with Some f => negb (list_N_eqb (f (Some m)) (f (Some m0))) | None => false end); discriminate.
  - destruct (is_none c && negb true); [discriminate|].
    destruct (match c with Some f => negb (list_N_eqb (f None) (f None)) | None => false end); discriminate.
Qed.

Lemma diff_hash_info_add a b : diff_hash_info a b = Add -> hi_truthy b = true.
Proof.
  unfold diff_hash_info. destruct (hi_truthy a), (hi_truthy b); simpl; try reflexivity; try discriminate.
  destruct (opt_eqb hashinfo_eqb a b); discriminate.
Qed.

Lemma diff_entry_add a b h m c : diff_entry a b h m c false = Add -> is_some b = true.
Proof.
  unfold diff_entry. fold (ent_meta a) (ent_meta b) (ent_hash a) (ent_hash b).
  assert (Hm : diff_meta (ent_meta a) (ent_meta b) c = Add -> is_some b = true).
  { intros H. apply diff_meta_add in H. destruct b; [reflexivity | discriminate]. }
  assert (Hh : diff_hash_info (ent_hash a) (ent_hash b) = Add -> is_some b = true).
  { intros H. apply diff_hash_info_add in H. destruct b; [reflexivity | discriminate]. }
  destruct m; [assumption|]. destruct h; [assumption|].
  destruct a, b; simpl; try reflexivity; try discriminate.
  - rewrite diff_meta_refl, diff_hash_info_refl. simpl. discriminate.
Qed.

Lemma diff_entry_delete a b h m c : diff_entry a b h m c false = Delete -> is_some a = true.
Proof.
  intros H. apply (diff_entry_add b a h m c). rewrite diff_entry_swap, H. reflexivity.
Qed.
