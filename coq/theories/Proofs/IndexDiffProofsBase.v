(* C08, part 1: equality tests, the trie (lookup / nodes / children / ls), and the
   characterisation table of the GENERATED deciders (Gen/IDiff.v). *)
From Coq Require Import NArith List Bool Arith Lia Permutation.
From DvcData Require Import Base.Val Base.PyBase Gen.PyTypes Gen.IDiff Model.Trie Model.IndexDiff.
Import ListNotations.
Open Scope N_scope.

(* ---- equality tests ------------------------------------------------------------------------- *)
Lemma opt_eqb_spec {A} (eqb : A -> A -> bool) :
  (forall a b, eqb a b = true <-> a = b) -> forall a b, opt_eqb eqb a b = true <-> a = b.
Proof.
  intros H [a|] [b|]; simpl; split; intros E; try discriminate; try reflexivity.
  - apply H in E. now subst.
  - injection E as ->. now apply H.
Qed.

Lemma bool_eqb_spec a b : Bool.eqb a b = true <-> a = b.
Proof. destruct a, b; simpl; split; congruence. Qed.

(* attrs equality looks at the eq=True fields only: it is equality of these projections *)
Definition meta_eqkey (m : meta) :=
  (m_isdir m, m_size m, m_nfiles m, m_isexec m, m_version_id m, m_etag m, m_checksum m, m_md5 m,
   m_inode m, m_mtime m).
Definition hashinfo_eqkey (h : hashinfo) := (hi_name h, hi_value h).

Lemma meta_eqb_spec a b : meta_eqb a b = true <-> meta_eqkey a = meta_eqkey b.
Proof.
  unfold meta_eqb, meta_eqkey. repeat rewrite andb_true_iff.
  rewrite !bool_eqb_spec, !(opt_eqb_spec N.eqb N.eqb_eq), !(opt_eqb_spec list_N_eqb list_N_eqb_spec).
  split.
  - intros [[[[[[[[[-> ->] ->] ->] ->] ->] ->] ->] ->] ->]. reflexivity.
  - intros E. injection E as -> -> -> -> -> -> -> -> -> ->. repeat split.
Qed.

Lemma hashinfo_eqb_spec a b : hashinfo_eqb a b = true <-> hashinfo_eqkey a = hashinfo_eqkey b.
Proof.
  unfold hashinfo_eqb, hashinfo_eqkey. rewrite andb_true_iff, !(opt_eqb_spec list_N_eqb list_N_eqb_spec).
  split.
  - intros [-> ->]. reflexivity.
  - intros E. injection E as -> ->. split; reflexivity.
Qed.

(* a boolean relation that is "equality of a projection" is an equivalence *)
Section ProjEq.
  Context {A K : Type} (eqb : A -> A -> bool) (pr : A -> K).
  Hypothesis Hspec : forall a b, eqb a b = true <-> pr a = pr b.
  Lemma proj_eqb_refl a : eqb a a = true.
  Proof. now apply Hspec. Qed.
  Lemma proj_eqb_sym a b : eqb a b = eqb b a.
  Proof.
    destruct (eqb a b) eqn:E1, (eqb b a) eqn:E2; try reflexivity.
    - apply Hspec in E1. symmetry in E1. apply Hspec in E1. congruence.
    - apply Hspec in E2. symmetry in E2. apply Hspec in E2. congruence.
  Qed.
  Lemma proj_eqb_trans a b c : eqb a b = true -> eqb b c = true -> eqb a c = true.
  Proof. rewrite !Hspec. congruence. Qed.
End ProjEq.

Definition opt_pr {A K} (pr : A -> K) (o : option A) : option K := option_map pr o.
Lemma opt_eqb_proj {A K} (eqb : A -> A -> bool) (pr : A -> K) :
  (forall a b, eqb a b = true <-> pr a = pr b) ->
  forall a b, opt_eqb eqb a b = true <-> opt_pr pr a = opt_pr pr b.
Proof.
  intros H [a|] [b|]; simpl; split; intros E; try discriminate; try reflexivity.
  - apply H in E. now rewrite E.
  - injection E as E. now apply H.
Qed.

Definition opt_meta_eqb_spec := opt_eqb_proj meta_eqb meta_eqkey meta_eqb_spec.
Definition opt_hi_eqb_spec := opt_eqb_proj hashinfo_eqb hashinfo_eqkey hashinfo_eqb_spec.

Lemma opt_meta_eqb_refl m : opt_eqb meta_eqb m m = true.
Proof. exact (proj_eqb_refl _ _ opt_meta_eqb_spec m). Qed.
Lemma opt_hi_eqb_refl h : opt_eqb hashinfo_eqb h h = true.
Proof. exact (proj_eqb_refl _ _ opt_hi_eqb_spec h). Qed.
Lemma opt_meta_eqb_sym a b : opt_eqb meta_eqb a b = opt_eqb meta_eqb b a.
Proof. exact (proj_eqb_sym _ _ opt_meta_eqb_spec a b). Qed.
Lemma opt_hi_eqb_sym a b : opt_eqb hashinfo_eqb a b = opt_eqb hashinfo_eqb b a.
Proof. exact (proj_eqb_sym _ _ opt_hi_eqb_spec a b). Qed.
Lemma opt_hi_eqb_trans a b c :
  opt_eqb hashinfo_eqb a b = true -> opt_eqb hashinfo_eqb b c = true -> opt_eqb hashinfo_eqb a c = true.
Proof. exact (proj_eqb_trans _ _ opt_hi_eqb_spec a b c). Qed.

Lemma list_eqb_spec {A} (eqb : A -> A -> bool) :
  (forall a b, eqb a b = true <-> a = b) -> forall a b, list_eqb eqb a b = true <-> a = b.
Proof.
  intros H a. induction a as [|x a IH]; intros [|y b]; simpl; split; intros E;
    try reflexivity; try discriminate.
  - apply andb_true_iff in E as [E1 E2]. apply H in E1. apply IH in E2. congruence.
  - injection E as -> ->. apply andb_true_iff. split; [now apply H | now apply IH].
Qed.

Lemma key_eqb_spec (a b : key) : key_eqb a b = true <-> a = b.
Proof. apply list_eqb_spec, list_N_eqb_spec. Qed.

Lemma key_eqb_refl k : key_eqb k k = true.
Proof. now apply key_eqb_spec. Qed.

Lemma key_eqb_neq a b : a <> b -> key_eqb a b = false.
Proof. intros H. destruct (key_eqb a b) eqn:E; [apply key_eqb_spec in E; contradiction | reflexivity]. Qed.

Lemma key_eq_dec (a b : key) : {a = b} + {a <> b}.
Proof.
  destruct (key_eqb a b) eqn:E.
  - left. now apply key_eqb_spec.
  - right. intros ->. rewrite key_eqb_refl in E. discriminate.
Qed.

Lemma eqb_sym_of_spec {A} (eqb : A -> A -> bool) :
  (forall a b, eqb a b = true <-> a = b) -> forall a b, eqb a b = eqb b a.
Proof.
  intros H a b. destruct (eqb a b) eqn:E1, (eqb b a) eqn:E2; try reflexivity.
  - apply H in E1. subst. assert (eqb b b = true) by now apply H. congruence.
  - apply H in E2. subst. assert (eqb a a = true) by now apply H. congruence.
Qed.

Lemma mem_key_spec k l : mem_key k l = true <-> In k l.
Proof.
  unfold mem_key. rewrite existsb_exists. split.
  - intros [x [Hin E]]. apply key_eqb_spec in E. now subst.
  - intros Hin. exists k. split; [assumption | apply key_eqb_refl].
Qed.

Lemma mem_key_false k l : mem_key k l = false <-> ~ In k l.
Proof. rewrite <- mem_key_spec. destruct (mem_key k l); split; congruence. Qed.

(* ---- dedup ------------------------------------------------------------------------------------ *)
Lemma In_dedup k l : In k (dedup l) <-> In k l.
Proof.
  induction l as [|x r IH]; simpl; [tauto|].
  destruct (mem_key x r) eqn:E.
  - rewrite IH. split; [auto|]. intros [<-|H]; [now apply mem_key_spec | assumption].
  - simpl. rewrite IH. tauto.
Qed.

Lemma NoDup_dedup l : NoDup (dedup l).
Proof.
  induction l as [|x r IH]; simpl; [constructor|].
  destruct (mem_key x r) eqn:E; [assumption|].
  constructor; [|assumption]. rewrite In_dedup. now apply mem_key_false.
Qed.

(* ---- prefixes ----------------------------------------------------------------------------------- *)
Lemma is_prefix_spec p k : is_prefix p k = true <-> exists s, k = p ++ s.
Proof.
  revert k; induction p as [|x p IH]; intros k; simpl.
  - split; [intros _; now exists k | reflexivity].
  - destruct k as [|y k].
    + split; [discriminate | intros [s E]; discriminate].
    + rewrite andb_true_iff, list_N_eqb_spec, IH. split.
      * intros [-> [s ->]]. now exists s.
      * intros [s E]. injection E as -> ->. split; [reflexivity | now exists s].
Qed.

Definition strict_prefix (p k : key) : Prop := exists n s, k = p ++ n :: s.

Lemma has_node_spec i k : has_node i k = true <-> exists k' e s, In (k', e) i /\ k' = k ++ s.
Proof.
  unfold has_node. rewrite existsb_exists. split.
  - intros [[k' e] [Hin Hp]]. simpl in Hp. apply is_prefix_spec in Hp as [s ->]. now exists (k ++ s), e, s.
  - intros [k' [e [s [Hin ->]]]]. exists (k ++ s, e). split; [assumption|]. simpl. apply is_prefix_spec. now exists s.
Qed.

Lemma has_node_prefix i k s : has_node i (k ++ s) = true -> has_node i k = true.
Proof.
  rewrite !has_node_spec. intros [k' [e [s' [Hin ->]]]]. exists ((k ++ s) ++ s'), e, (s ++ s').
  split; [assumption | now rewrite app_assoc].
Qed.

Lemma is_node_prefix i k s : is_node i (k ++ s) = true -> is_node i k = true.
Proof.
  destruct k as [|x k]; [reflexivity|]. exact (has_node_prefix i (x :: k) s).
Qed.

Lemma lookup_In i k e : lookup i k = Some e -> In (k, e) i.
Proof.
  induction i as [|[k' e'] r IH]; simpl; [discriminate|].
  destruct (key_eqb k k') eqn:E.
  - apply key_eqb_spec in E. subst. intros [= ->]. now left.
  - intros H. right. now apply IH.
Qed.

Lemma In_lookup i k e : NoDup (map fst i) -> In (k, e) i -> lookup i k = Some e.
Proof.
  induction i as [|[k' e'] r IH]; simpl; [tauto|]. intros Hnd [H|H].
  - injection H as -> ->. now rewrite key_eqb_refl.
  - inversion Hnd as [|? ? Hnin Hnd']; subst.
    destruct (key_eqb k k') eqn:E.
    + apply key_eqb_spec in E. subst. exfalso. apply Hnin. apply in_map_iff. now exists (k', e).
    + now apply IH.
Qed.

Lemma lookup_None i k : lookup i k = None <-> ~ In k (map fst i).
Proof.
  induction i as [|[k' e'] r IH]; simpl; [tauto|].
  destruct (key_eqb k k') eqn:E.
  - apply key_eqb_spec in E. subst. split; [discriminate | intros H; exfalso; apply H; now left].
  - rewrite IH. split.
    + intros H [H'|H']; [subst; rewrite key_eqb_refl in E; discriminate | contradiction].
    + intros H H'. apply H. now right.
Qed.

Lemma lookup_Some_key i k e : lookup i k = Some e -> In k (map fst i).
Proof. intros H. apply lookup_In in H. apply in_map_iff. now exists (k, e). Qed.

Lemma lookup_has_node i k e : lookup i k = Some e -> has_node i k = true.
Proof.
  intros H. apply lookup_In in H. apply has_node_spec. exists k, e, []. split; [assumption | now rewrite app_nil_r].
Qed.

Lemma lookup_is_node i k e : lookup i k = Some e -> is_node i k = true.
Proof. intros H. destruct k; [reflexivity|]. simpl. eapply lookup_has_node; eauto. Qed.

(* ---- children ------------------------------------------------------------------------------------ *)
Lemma firstn_snoc {A} (p : list A) n s : firstn (S (length p)) (p ++ n :: s) = p ++ [n].
Proof.
  rewrite firstn_app. replace (S (length p) - length p)%nat with 1%nat by lia.
  rewrite firstn_all2 by lia. reflexivity.
Qed.

Lemma child_nodes_spec i p c :
  In c (child_nodes i p) <-> exists n, c = p ++ [n] /\ has_node i c = true.
Proof.
  unfold child_nodes. rewrite In_dedup, in_flat_map. split.
  - intros [[k' e] [Hin Hc]]. unfold child_toward in Hc. cbn [fst] in Hc.
    destruct (is_prefix p k' && (length p <? length k')%nat) eqn:E; [|destruct Hc].
    apply andb_true_iff in E as [E1 E2]. apply is_prefix_spec in E1 as [s ->].
    apply Nat.ltb_lt in E2. rewrite app_length in E2.
    destruct s as [|n s]; [simpl in E2; lia|].
    destruct Hc as [<-|[]]. rewrite firstn_snoc. exists n. split; [reflexivity|].
    apply has_node_spec. exists (p ++ n :: s), e, s. split; [assumption|]. now rewrite <- app_assoc.
  - intros [n [-> Hn]]. apply has_node_spec in Hn as [k' [e [s [Hin ->]]]].
    exists ((p ++ [n]) ++ s, e). split; [assumption|]. unfold child_toward. cbn [fst].
    rewrite <- app_assoc. cbn [app].
    assert (E1 : is_prefix p (p ++ n :: s) = true) by (apply is_prefix_spec; now exists (n :: s)).
    assert (E2 : (length p <? length (p ++ n :: s))%nat = true)
      by (apply Nat.ltb_lt; rewrite app_length; simpl; lia).
    rewrite E1, E2. simpl. left. apply firstn_snoc.
Qed.

Lemma child_nodes_NoDup i p : NoDup (child_nodes i p).
Proof. apply NoDup_dedup. Qed.

(* ---- association lists of infos ------------------------------------------------------------------- *)
Lemma get_item_map (f : key -> info) l k :
  get_item (map (fun c => (c, f c)) l) k = if mem_key k l then Some (f k) else None.
Proof.
  induction l as [|x r IH]; simpl; [reflexivity|].
  destruct (key_eqb k x) eqn:E; simpl.
  - apply key_eqb_spec in E. now subst.
  - exact IH.
Qed.

Lemma get_item_some its k : is_some (get_item its k) = true <-> In k (map fst its).
Proof.
  induction its as [|[k' inf] r IH]; simpl; [split; [discriminate | tauto]|].
  destruct (key_eqb k k') eqn:E.
  - apply key_eqb_spec in E. subst. split; [now left | reflexivity].
  - rewrite IH. split; [now right|]. intros [H|H]; [subst; rewrite key_eqb_refl in E; discriminate | assumption].
Qed.

Lemma union_keys_In oi ni k : In k (union_keys oi ni) <-> In k (map fst oi) \/ In k (map fst ni).
Proof.
  unfold union_keys. rewrite in_app_iff, filter_In, negb_true_iff, mem_key_false.
  destruct (in_dec key_eq_dec k (map fst oi)); tauto.
Qed.

Lemma NoDup_app_intro {A} (l1 l2 : list A) :
  NoDup l1 -> NoDup l2 -> (forall x, In x l1 -> In x l2 -> False) -> NoDup (l1 ++ l2).
Proof.
  intros H1 H2 Hd. induction H1 as [|x l Hx Hl IH]; simpl; [assumption|].
  constructor.
  - rewrite in_app_iff. intros [H|H]; [contradiction|]. apply (Hd x); [now left | assumption].
  - apply IH. intros y Hy. apply Hd. now right.
Qed.

Lemma union_keys_NoDup oi ni : NoDup (map fst oi) -> NoDup (map fst ni) -> NoDup (union_keys oi ni).
Proof.
  intros H1 H2. unfold union_keys. apply NoDup_app_intro; [assumption | now apply NoDup_filter |].
  intros x Hx Hf. apply filter_In in Hf as [_ Hf]. apply negb_true_iff, mem_key_false in Hf. contradiction.
Qed.

(* ---- nodes ------------------------------------------------------------------------------------------ *)
Lemma prefixes_spec k p : In p (prefixes k) <-> exists s, k = p ++ s.
Proof.
  revert p; induction k as [|x k IH]; intros p; simpl.
  - split.
    + intros [<-|[]]. now exists [].
    + intros [s E]. destruct p; [now left | discriminate].
  - split.
    + intros [<-|H]; [now exists (x :: k)|]. apply in_map_iff in H as [q [<- Hq]].
      apply IH in Hq as [s ->]. now exists s.
    + intros [s E]. destruct p as [|y p]; [now left|]. right. injection E as <- ->.
      apply in_map_iff. exists p. split; [reflexivity|]. apply IH. now exists s.
Qed.

Lemma nodes_spec i k : In k (nodes i) <-> is_node i k = true.
Proof.
  unfold nodes. rewrite In_dedup. simpl. rewrite in_flat_map. split.
  - intros [<-|[[k' e] [Hin Hp]]]; [reflexivity|]. simpl in Hp. apply prefixes_spec in Hp as [s ->].
    destruct k as [|x k]; [reflexivity|]. simpl. apply has_node_spec. now exists ((x :: k) ++ s), e, s.
  - destruct k as [|x k]; [now left|]. simpl. intros H. right.
    apply has_node_spec in H as [k' [e [s [Hin ->]]]]. exists ((x :: k) ++ s, e). split; [assumption|].
    simpl fst. apply prefixes_spec. now exists s.
Qed.

Lemma nodes_NoDup i : NoDup (nodes i).
Proof. apply NoDup_dedup. Qed.

(* the longest key bounds the length of every node *)
Definition maxlen (i : index) : nat := list_max (map (fun kv => length (fst kv)) i).

Lemma has_node_length i k : has_node i k = true -> (length k <= maxlen i)%nat.
Proof.
  intros H. apply has_node_spec in H as [k' [e [s [Hin ->]]]].
  assert (Hall : Forall (fun n => (n <= maxlen i)%nat) (map (fun kv => length (fst kv)) i))
    by now apply list_max_le.
  rewrite Forall_forall in Hall.
  specialize (Hall (length (k ++ s))). rewrite app_length in Hall.
  assert (Hle : (length k + length s <= maxlen i)%nat).
  { apply Hall. apply in_map_iff. exists (k ++ s, e). split; [simpl; now rewrite app_length | assumption]. }
  lia.
Qed.

Lemma is_node_length i k : is_node i k = true -> (length k <= maxlen i)%nat.
Proof. destruct k; [simpl; lia|]. apply has_node_length. Qed.

(* ---- get_info ------------------------------------------------------------------------------------------ *)
Lemma norm_meta_hash e : e_hash_info (norm_meta e) = e_hash_info e.
Proof. unfold norm_meta. destruct (e_meta e); [reflexivity|]. destruct (hi_truthy (e_hash_info e)); reflexivity. Qed.

Lemma norm_meta_idem e : norm_meta (norm_meta e) = norm_meta e.
Proof.
  unfold norm_meta. destruct (e_meta e) eqn:Em.
  - now rewrite Em.
  - destruct (hi_truthy (e_hash_info e)) eqn:Eh; cbn; [reflexivity | now rewrite Em, Eh].
Qed.

Lemma info_entry_get_info i k : info_entry (get_info i k) = option_map norm_meta (lookup i k).
Proof.
  unfold get_info. destruct (lookup i k); simpl; [reflexivity|]. destruct (is_node i k); reflexivity.
Qed.

Lemma get_info_some i k : is_some (get_info i k) = is_node i k.
Proof.
  unfold get_info. destruct (lookup i k) eqn:E; simpl.
  - symmetry. eapply lookup_is_node; eauto.
  - destruct (is_node i k); reflexivity.
Qed.

(* ---- the decider table: the GENERATED deciders equal their readable specification ----------------- *)
Definition ent_hash (e : option ientry) : option hashinfo := match e with Some x => e_hash_info x | None => None end.
Definition ent_meta (e : option ientry) : option meta := match e with Some x => e_meta x | None => None end.

Definition spec_diff_meta (old new : option meta) (cmp : cmp_key) : typ :=
  match old, new with
  | None, Some _ => Add
  | Some _, None => Delete
  | _, _ => match cmp with
            | None => if opt_eqb meta_eqb old new then Unchanged else Modify
            | Some f => if N.eqb (f old) (f new) then Unchanged else Modify
            end
  end.

Definition spec_diff_hash_info (old new : option hashinfo) : typ :=
  match hi_truthy old, hi_truthy new with
  | false, true => Add
  | true, false => Delete
  | true, true => if opt_eqb hashinfo_eqb old new then Unchanged else Modify
  | false, false => Unchanged
  end.

Definition spec_diff_entry (old new : option ientry) (hash_only meta_only : bool) (cmp : cmp_key)
           (unknown : bool) : typ :=
  if unknown then Unknown else
  let md := spec_diff_meta (ent_meta old) (ent_meta new) cmp in
  let hd := spec_diff_hash_info (ent_hash old) (ent_hash new) in
  if meta_only then md else
  if hash_only then hd else
  match old, new with
  | None, Some _ => Add
  | Some _, None => Delete
  | None, None => Unchanged
  | Some a, Some b =>
      if is_none (e_meta a) && is_none (e_meta b) then hd
      else if negb (hi_truthy (e_hash_info a)) && negb (hi_truthy (e_hash_info b)) then md
      else if typ_eqb md Unchanged && typ_eqb hd Unchanged then Unchanged else Modify
  end.

Ltac break_ifs := repeat match goal with |- context [if ?b then _ else _] => destruct b eqn:? end.
Ltac atoms := repeat match goal with
  | |- context [N.eqb ?a ?b] => destruct (N.eqb a b) eqn:?
  | |- context [meta_eqb ?a ?b] => destruct (meta_eqb a b) eqn:?
  | |- context [hashinfo_eqb ?a ?b] => destruct (hashinfo_eqb a b) eqn:?
  end.
Ltac fin := try reflexivity; try (cbn in *; congruence);
  try (match goal with H : N.eqb ?x ?x = false |- _ => rewrite N.eqb_refl in H; discriminate end).

Lemma diff_meta_table old new c : diff_meta old new c = spec_diff_meta old new c.
Proof.
  destruct old, new, c; cbn; try reflexivity; break_ifs; fin.
Qed.

Lemma diff_hash_info_table old new : diff_hash_info old new = spec_diff_hash_info old new.
Proof.
  destruct old as [[n [[|x v]|] o]|], new as [[n' [[|x' v']|] o']|]; cbn; try reflexivity;
    break_ifs; fin.
Qed.

Lemma diff_entry_table old new h m c u : diff_entry old new h m c u = spec_diff_entry old new h m c u.
Proof.
  unfold diff_entry, spec_diff_entry. cbv zeta.
  fold (ent_meta old) (ent_meta new) (ent_hash old) (ent_hash new).
  rewrite !diff_meta_table, !diff_hash_info_table.
  destruct u; [reflexivity|]. destruct m; [reflexivity|]. destruct h; [reflexivity|].
  destruct old as [a|], new as [b|]; cbn [ent_meta ent_hash ichange_eqb negb]; try reflexivity.
  - unfold spec_diff_meta, spec_diff_hash_info, hi_truthy.
    destruct (e_meta a) as [ma|], (e_meta b) as [mb|], c as [f|];
    destruct (e_hash_info a) as [[na [[|xa va]|] oa]|], (e_hash_info b) as [[nb [[|xb vb]|] ob]|];
      unfold typ_eqb; cbn; try reflexivity; atoms; cbn; fin.
  - unfold spec_diff_meta, spec_diff_hash_info, hi_truthy; cbn. destruct c; cbn; break_ifs; fin.
Qed.

(* ---- consequences of the table ------------------------------------------------------------------ *)
Definition swap_typ (t : typ) : typ :=
  match t with Add => Delete | Delete => Add | x => x end.

Lemma swap_typ_invol t : swap_typ (swap_typ t) = t.
Proof. destruct t; reflexivity. Qed.

Lemma swap_typ_unchanged t : typ_eqb (swap_typ t) Unchanged = typ_eqb t Unchanged.
Proof. destruct t; reflexivity. Qed.

Lemma typ_eqb_spec a b : typ_eqb a b = true <-> a = b.
Proof. destruct a, b; simpl; split; congruence. Qed.

Lemma spec_diff_meta_refl m c : spec_diff_meta m m c = Unchanged.
Proof.
  unfold spec_diff_meta. destruct m, c; try rewrite N.eqb_refl; try rewrite opt_meta_eqb_refl; reflexivity.
Qed.

Lemma spec_diff_meta_swap a b c : spec_diff_meta b a c = swap_typ (spec_diff_meta a b c).
Proof.
  unfold spec_diff_meta. rewrite (opt_meta_eqb_sym b a).
  destruct a as [a|], b as [b|], c as [f|]; try reflexivity;
    try (rewrite (N.eqb_sym (f _) (f _))); break_ifs; reflexivity.
Qed.

Lemma spec_diff_hash_info_refl h : spec_diff_hash_info h h = Unchanged.
Proof. unfold spec_diff_hash_info. rewrite opt_hi_eqb_refl. destruct (hi_truthy h); reflexivity. Qed.

Lemma spec_diff_hash_info_swap a b : spec_diff_hash_info b a = swap_typ (spec_diff_hash_info a b).
Proof.
  unfold spec_diff_hash_info. rewrite (opt_hi_eqb_sym b a).
  destruct (hi_truthy a), (hi_truthy b), (opt_eqb hashinfo_eqb a b); reflexivity.
Qed.

Lemma spec_diff_meta_range a b c : let t := spec_diff_meta a b c in t <> Rename /\ t <> Unknown.
Proof. unfold spec_diff_meta. destruct a, b, c; break_ifs; split; discriminate. Qed.

Lemma spec_diff_hash_info_range a b : let t := spec_diff_hash_info a b in t <> Rename /\ t <> Unknown.
Proof. unfold spec_diff_hash_info. break_ifs; split; discriminate. Qed.

(* Unchanged <-> the components agree (attrs equality = equality of the eq=True fields) *)
Lemma diff_meta_unchanged_iff a b : diff_meta a b None = Unchanged <-> opt_eqb meta_eqb a b = true.
Proof.
  rewrite diff_meta_table. unfold spec_diff_meta.
  destruct a as [a|], b as [b|]; cbn; try (split; [discriminate|congruence]).
  - destruct (meta_eqb a b); split; congruence.
  - tauto.
Qed.

Lemma diff_meta_unchanged_cmp a b f :
  diff_meta a b (Some f) = Unchanged <-> (is_none a = is_none b /\ f a = f b).
Proof.
  rewrite diff_meta_table. unfold spec_diff_meta. destruct a as [a|], b as [b|]; cbn.
  - destruct (N.eqb_spec (f (Some a)) (f (Some b))); split; try tauto; try discriminate.
  - split; [discriminate | intros [? _]; discriminate].
  - split; [discriminate | intros [? _]; discriminate].
  - rewrite N.eqb_refl. tauto.
Qed.

Lemma diff_hash_info_unchanged_iff a b :
  diff_hash_info a b = Unchanged <->
  (hi_truthy a = false /\ hi_truthy b = false) \/
  (hi_truthy a = true /\ hi_truthy b = true /\ opt_eqb hashinfo_eqb a b = true).
Proof.
  rewrite diff_hash_info_table. unfold spec_diff_hash_info.
  destruct (hi_truthy a), (hi_truthy b); try destruct (opt_eqb hashinfo_eqb a b); split; try tauto; try discriminate;
    intros [[? ?]|[? [? ?]]]; discriminate.
Qed.

Lemma diff_entry_hash_only a b c : diff_entry a b true false c false = diff_hash_info (ent_hash a) (ent_hash b).
Proof. now rewrite diff_entry_table, diff_hash_info_table. Qed.

Lemma diff_entry_meta_only a b h c : diff_entry a b h true c false = diff_meta (ent_meta a) (ent_meta b) c.
Proof. now rewrite diff_entry_table, diff_meta_table. Qed.

Lemma diff_entry_unknown a b h m c : diff_entry a b h m c true = Unknown.
Proof. now rewrite diff_entry_table. Qed.

Lemma diff_entry_refl e h m c : diff_entry e e h m c false = Unchanged.
Proof.
  rewrite diff_entry_table. unfold spec_diff_entry. rewrite spec_diff_meta_refl, spec_diff_hash_info_refl.
  destruct e; cbn; destruct m, h; cbn; try reflexivity. break_ifs; reflexivity.
Qed.

Lemma diff_entry_swap a b h m c u : diff_entry b a h m c u = swap_typ (diff_entry a b h m c u).
Proof.
  rewrite !diff_entry_table. unfold spec_diff_entry. destruct u; [reflexivity|].
  rewrite (spec_diff_meta_swap (ent_meta a) (ent_meta b)), (spec_diff_hash_info_swap (ent_hash a) (ent_hash b)).
  cbv zeta. destruct m; [reflexivity|]. destruct h; [reflexivity|].
  destruct a as [a|], b as [b|]; cbn [ent_meta ent_hash]; try reflexivity.
  rewrite !swap_typ_unchanged.
  rewrite (andb_comm (is_none (e_meta b))), (andb_comm (negb (hi_truthy (e_hash_info b)))).
  break_ifs; reflexivity.
Qed.

(* full comparison: Unchanged exactly when presence, metadata and hash all agree *)
Lemma diff_entry_unchanged_iff a b c :
  diff_entry a b false false c false = Unchanged <->
  (is_none a = is_none b /\ diff_meta (ent_meta a) (ent_meta b) c = Unchanged
   /\ diff_hash_info (ent_hash a) (ent_hash b) = Unchanged).
Proof.
  rewrite diff_entry_table, diff_meta_table, diff_hash_info_table. unfold spec_diff_entry. cbv zeta.
  destruct a as [a|], b as [b|]; cbn [ent_meta ent_hash is_none].
  - destruct (is_none (e_meta a) && is_none (e_meta b)) eqn:E1.
    + apply andb_true_iff in E1 as [Ea Eb]. destruct (e_meta a), (e_meta b); try discriminate.
      rewrite spec_diff_meta_refl. tauto.
    + destruct (negb (hi_truthy (e_hash_info a)) && negb (hi_truthy (e_hash_info b))) eqn:E2.
      * apply andb_true_iff in E2 as [Ea Eb]. apply negb_true_iff in Ea, Eb.
        unfold spec_diff_hash_info. rewrite Ea, Eb. tauto.
      * destruct (spec_diff_meta (e_meta a) (e_meta b) c), (spec_diff_hash_info (e_hash_info a) (e_hash_info b));
          cbn; split; try tauto; try discriminate; intros [_ [? ?]]; discriminate.
  - split; [discriminate | intros [? _]; discriminate].
  - split; [discriminate | intros [? _]; discriminate].
  - rewrite spec_diff_meta_refl, spec_diff_hash_info_refl. tauto.
Qed.

Lemma diff_entry_one_sided e c :
  diff_entry None (Some e) false false c false = Add /\ diff_entry (Some e) None false false c false = Delete.
Proof. rewrite !diff_entry_table. split; reflexivity. Qed.

Lemma diff_entry_range a b h m c : let t := diff_entry a b h m c false in t <> Rename /\ t <> Unknown.
Proof.
  cbv zeta. rewrite diff_entry_table. unfold spec_diff_entry. cbv zeta.
  pose proof (spec_diff_meta_range (ent_meta a) (ent_meta b) c) as Hm.
  pose proof (spec_diff_hash_info_range (ent_hash a) (ent_hash b)) as Hh. cbv zeta in Hm, Hh.
  destruct m; [assumption|]. destruct h; [assumption|].
  destruct a, b; cbn [ent_meta ent_hash] in *; try (split; discriminate).
  break_ifs; try assumption; split; discriminate.
Qed.

(* an Add has a new side, a Delete an old side *)
Lemma diff_entry_add a b h m c : diff_entry a b h m c false = Add -> is_some b = true.
Proof.
  rewrite diff_entry_table. unfold spec_diff_entry. cbv zeta.
  destruct b as [b|]; [reflexivity|]. cbn [ent_meta ent_hash].
  assert (Hm : spec_diff_meta (ent_meta a) None c <> Add).
  { unfold spec_diff_meta. destruct (ent_meta a), c; break_ifs; discriminate. }
  assert (Hh : spec_diff_hash_info (ent_hash a) None <> Add).
  { unfold spec_diff_hash_info. cbn. break_ifs; discriminate. }
  destruct m; [contradiction|]. destruct h; [contradiction|]. destruct a; discriminate.
Qed.

Lemma diff_entry_delete a b h m c : diff_entry a b h m c false = Delete -> is_some a = true.
Proof.
  intros H. apply (diff_entry_add b a h m c). rewrite diff_entry_swap, H. reflexivity.
Qed.

(* ---- packaged for Properties/C08.v ------------------------------------------------------------------- *)
Lemma decider_table :
  (forall old new c, diff_meta old new c = spec_diff_meta old new c) /\
  (forall old new, diff_hash_info old new = spec_diff_hash_info old new) /\
  (forall old new h m c u, diff_entry old new h m c u = spec_diff_entry old new h m c u).
Proof. repeat split; intros; [apply diff_meta_table | apply diff_hash_info_table | apply diff_entry_table]. Qed.

Lemma decider_props :
  (forall e h m c, diff_entry e e h m c false = Unchanged) /\
  (forall a b h m c u, diff_entry b a h m c u = swap_typ (diff_entry a b h m c u)) /\
  (forall a b c, diff_entry a b false false c false = Unchanged <->
     (is_none a = is_none b /\ diff_meta (ent_meta a) (ent_meta b) c = Unchanged /\
      diff_hash_info (ent_hash a) (ent_hash b) = Unchanged)) /\
  (forall a b, diff_meta a b None = Unchanged <-> opt_eqb meta_eqb a b = true) /\
  (forall a b f, diff_meta a b (Some f) = Unchanged <-> (is_none a = is_none b /\ f a = f b)) /\
  (forall a b, diff_hash_info a b = Unchanged <->
     (hi_truthy a = false /\ hi_truthy b = false) \/
     (hi_truthy a = true /\ hi_truthy b = true /\ opt_eqb hashinfo_eqb a b = true)) /\
  (forall a b c, diff_entry a b true false c false = diff_hash_info (ent_hash a) (ent_hash b)) /\
  (forall a b h c, diff_entry a b h true c false = diff_meta (ent_meta a) (ent_meta b) c) /\
  (forall a b h m c, diff_entry a b h m c false <> Rename /\ diff_entry a b h m c false <> Unknown) /\
  (forall a b h m c, (diff_entry a b h m c false = Add -> is_some b = true) /\
                     (diff_entry a b h m c false = Delete -> is_some a = true)).
Proof.
  split; [intros; apply diff_entry_refl|].
  split; [intros; apply diff_entry_swap|].
  split; [intros; apply diff_entry_unchanged_iff|].
  split; [intros; apply diff_meta_unchanged_iff|].
  split; [intros; apply diff_meta_unchanged_cmp|].
  split; [intros; apply diff_hash_info_unchanged_iff|].
  split; [intros; apply diff_entry_hash_only|].
  split; [intros; apply diff_entry_meta_only|].
  split; [intros a b h m c; apply (diff_entry_range a b h m c)|].
  intros; split; [apply diff_entry_add | apply diff_entry_delete].
Qed.
