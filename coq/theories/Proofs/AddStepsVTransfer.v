(* Scenario theorems, third part: transfers with per-call verification (vtransfer_prog, mt_loop with
   v = true) and hardlink transfers (ltransfer_prog): the generated programs are valid traces from any
   store satisfying inv, hence crash-safe at every prefix, and their re-run converges. *)
From Coq Require Import NArith List Bool Lia.
From DvcData Require Import Base.Val Model.AddSteps Proofs.AddStepsProofs Proofs.AddStepsProgs Proofs.AddStepsRecover Proofs.AddStepsVerify Proofs.AddStepsRecoverVerify Proofs.AddStepsMulti Proofs.AddStepsMultiRecover Proofs.AddStepsVMulti.
Import ListNotations.
Open Scope N_scope.

Section VT.
  Variable bytes : Type.
  Variable H : bytes -> oid.
  Variable kids : bytes -> list oid.
  Variable empty : bytes.
  Variable part : bytes -> bytes.
  Hypothesis kids_empty : kids empty = [].

  Notation astep := (astep_ bytes).
  Notation world := (world bytes).
  Notation obj := (obj bytes).
  Notation run := (run bytes empty).
  Notation valid_trace := (valid_trace bytes H kids empty).
  Notation named_ok := (named_ok bytes H).
  Notation named_ok_b := (named_ok_b bytes H).
  Notation inv := (inv bytes H kids).
  Notation crash_inv := (crash_inv bytes H kids).
  Notation crash := (crash bytes).
  Notation G := (G bytes).
  Notation step_oid := (step_oid bytes).
  Notation absent := (absent bytes).
  Notation heal_prog := (heal_prog bytes H empty).
  Notation vadd_prog := (vadd_prog bytes H empty part).
  Notation mem_vadd_prog := (mem_vadd_prog bytes H empty).
  Notation mem_add_prog := (mem_add_prog bytes).
  Notation ladd_prog := (ladd_prog bytes).
  Notation vtransfer_prog := (vtransfer_prog bytes H empty part).
  Notation ltransfer_prog := (ltransfer_prog bytes H empty part).
  Notation mt_loop := (mt_loop bytes H kids empty part).
  Notation mtransfer_prog := (mtransfer_prog bytes H kids empty part).
  Notation kids_ok := (kids_ok bytes H kids).
  Notation store_eq := (store_eq bytes).
  Notation good := (good bytes H).
  Notation files_ok := (files_ok bytes H).
  Notation dir_ok := (dir_ok bytes H kids).
  Notation requested := (requested bytes).
  Notation mrequested := (mrequested bytes).

  (* ---- the common shape: existence query ++ files phase ++ directory phase ---- *)
  Lemma transfer_assemble qs files d w (fa : world -> list astep) (fb : world -> list astep) :
    inv w -> G w -> files_ok files -> dir_ok files d -> requested files d qs ->
    let p1 := heal_prog qs w in let w1 := run p1 w in
    let new := filter (absent w1) files in
    let a := fa w1 in let w2 := run a w1 in
    (inv w1 -> G w1 ->
     (forall it, In it new -> (named_ok_b (fst it) (snd it) = true /\ is_dir (fst it) = false) /\ obj w1 (fst it) = None) ->
     valid_trace a w1 = true /\ G w2 /\ (forall it, In it new -> good w2 (fst it)) /\
     (forall o, ~ In o (map fst new) -> obj w2 o = obj w1 o) /\
     (forall s, In s a -> forall o, step_oid s = Some o -> In o (map fst new))) ->
    (absent w2 d = true -> inv w2 -> G w2 -> kids_ok w2 (snd d) = true ->
     valid_trace (fb w2) w2 = true /\ G (run (fb w2) w2) /\ good (run (fb w2) w2) (fst d) /\
     (forall o, o <> fst d -> obj (run (fb w2) w2) o = obj w2 o) /\
     (forall s, In s (fb w2) -> forall o, step_oid s = Some o -> o = fst d)) ->
    (absent w2 d = false -> fb w2 = []) ->
    let p := p1 ++ a ++ fb w2 in let w' := run p w in
    valid_trace p w = true /\ G w' /\
    (forall o, In o qs -> good w' o) /\
    (forall o, ~ In o qs -> obj w' o = obj w o) /\
    (forall s, In s p -> forall o, step_oid s = Some o -> In o qs).
  Proof.
    intros Hinv HG Hf Hd Hq p1 w1 new a w2 Ha Hb Hb0 p w'. subst p w'.
    destruct (heal_prog_valid bytes H kids empty kids_empty qs w Hinv HG)
      as [Hv1 [Hinv1 [HG1 [Hh1 [Hfr1 [Hnone1 Hoid1]]]]]].
    fold p1 in Hv1, Hinv1, HG1, Hh1, Hfr1, Hnone1, Hoid1. fold w1 in Hinv1, HG1, Hh1, Hfr1, Hnone1.
    assert (Hnew : forall it, In it new -> In it files /\ obj w1 (fst it) = None).
    { intros it Hi. apply filter_In in Hi as [Hi Hab]. split; [exact Hi | now apply (absent_none bytes)]. }
    destruct (Ha Hinv1 HG1 (fun it Hi => conj (Hf it (proj1 (Hnew it Hi))) (proj2 (Hnew it Hi))))
      as [Hv2 [HG2 [Hg2n [Hfr2 Hoid2]]]].
    assert (Hinv2 : inv w2) by (apply (run_inv bytes H kids empty kids_empty a w1 Hinv1 Hv2)).
    assert (Hsub : forall o, In o (map fst new) -> In o (map fst files) /\ obj w1 o = None).
    { intros o Hin. apply in_map_iff in Hin as [it [<- Hi]]. destruct (Hnew it Hi). split; [now apply in_map | auto]. }
    assert (Hg2 : forall it, In it files -> good w2 (fst it)).
    { intros it Hi. destruct (absent w1 it) eqn:Ea.
      - apply Hg2n. apply filter_In. auto.
      - apply (absent_false bytes) in Ea as [f Ho].
        destruct (Hh1 (fst it) f) as [Hn Hp]; [apply Hq; right; now apply in_map | exact Ho |].
        exists f. split; [|auto]. rewrite Hfr2; [exact Ho|].
        intros Hin. apply Hsub in Hin as [_ Hnone]. congruence. }
    pose proof (dir_not_file bytes H files d Hf (proj1 (proj2 Hd))) as Hdn.
    assert (Hd2 : obj w2 (fst d) = obj w1 (fst d)).
    { apply Hfr2. intros Hin. apply Hdn. now apply Hsub. }
    assert (Hp3 : valid_trace (fb w2) w2 = true /\ G (run (fb w2) w2) /\ good (run (fb w2) w2) (fst d) /\
                  (forall o, o <> fst d -> obj (run (fb w2) w2) o = obj w2 o) /\
                  (forall s, In s (fb w2) -> forall o, step_oid s = Some o -> o = fst d)).
    { destruct (absent w2 d) eqn:Ea.
      - apply (Hb eq_refl Hinv2 HG2). apply (kids_ok_good bytes H kids w2 files d Hd Hg2).
      - rewrite (Hb0 eq_refl). simpl. apply (absent_false bytes) in Ea as [f Ho].
        split; [reflexivity|]. split; [exact HG2|]. split; [|split; [auto | intros s []]].
        rewrite Hd2 in Ho. destruct (Hh1 (fst d) f) as [Hn Hp]; [apply Hq; now left | exact Ho |].
        exists f. rewrite Hd2. auto. }
    destruct Hp3 as [Hv3 [HG3 [Hg3 [Hfr3 Hoid3]]]].
    rewrite !run_app. fold w1. fold w2.
    split; [|split; [|split; [|split]]].
    - apply valid_app; [exact Hv1|]. apply valid_app; [exact Hv2 | exact Hv3].
    - exact HG3.
    - intros o Hin. apply Hq in Hin as [->|Hin]; [exact Hg3|].
      apply in_map_iff in Hin as [it [He Hi]]. subst o.
      destruct (Hg2 it Hi) as [f [Ho Hr]]. exists f. split; [|exact Hr].
      rewrite Hfr3; [exact Ho|]. intros He. apply Hdn. rewrite <- He. now apply in_map.
    - intros o Hn. rewrite Hfr3, Hfr2, Hfr1; auto.
      + intros Hin. apply Hn. apply Hq. right. now apply Hsub.
      + intros ->. apply Hn. apply Hq. now left.
    - intros s Hs o Ho. apply in_app_or in Hs as [Hs|Hs]; [eapply Hoid1; eauto|].
      apply in_app_or in Hs as [Hs|Hs].
      + apply Hq. right. apply (Hsub o). eapply Hoid2; eauto.
      + apply Hq. left. eapply Hoid3; eauto.
  Qed.

  (* ---- transfer(..., verify=True) ---- *)
  Theorem vtransfer_prog_valid mem t qs files d w :
    inv w -> G w -> files_ok files -> dir_ok files d -> requested files d qs ->
    let p := vtransfer_prog mem t qs files d w in let w' := run p w in
    valid_trace p w = true /\ G w' /\
    (forall o, In o qs -> good w' o) /\
    (forall o, ~ In o qs -> obj w' o = obj w o) /\
    (forall s, In s p -> forall o, step_oid s = Some o -> In o qs).
  Proof.
    intros Hinv HG Hf Hd Hq.
    set (fa := fun w1 : world => match filter (absent w1) files with [] => [] | new => vadd_prog false t new w1 end).
    set (fb := fun (a : list astep) (w2 : world) =>
                 if absent w2 d then (if mem then mem_vadd_prog (t + n_ren bytes a) d w2
                                      else vadd_prog false (t + n_ren bytes a) [d] w2) else []).
    pose proof (transfer_assemble qs files d w fa (fb (fa (run (heal_prog qs w) w))) Hinv HG Hf Hd Hq) as HA.
    cbv zeta in HA. apply HA; clear HA.
    - intros Hinv1 HG1. unfold fa.
      destruct (filter (absent (run (heal_prog qs w) w)) files) as [|x r] eqn:E; intros Hnew;
        destruct (vadd_absent_valid bytes H kids empty part kids_empty t _ _ Hinv1 HG1 Hnew)
          as [Hv [_ [HG2 [Hg [Hfr Hoid]]]]];
        (split; [exact Hv|]; split; [exact HG2|]; split; [exact Hg|]; split; [exact Hfr | exact Hoid]).
    - intros Ea Hinv2 HG2 Hk. unfold fb. rewrite Ea.
      pose proof (dir_not_kid bytes H kids files d Hf Hd) as Hnk.
      set (ta := t + n_ren bytes (fa (run (heal_prog qs w) w))).
      destruct mem.
      + destruct (mem_vadd_prog_valid bytes H kids empty kids_empty ta d _ Hinv2 HG2 (proj1 Hd) Hk Hnk)
          as [Hv [_ [HG3 [Hg [Hfr Hoid]]]]].
        split; [exact Hv|]. split; [exact HG3|]. split; [exact Hg|]. split; [exact Hfr | exact Hoid].
      + destruct (vadd_dir_valid bytes H kids empty part kids_empty ta d _ Hinv2 HG2
                    (absent_none bytes _ _ Ea) (proj1 Hd) Hk Hnk) as [Hv [_ [HG3 [Hg [Hfr Hoid]]]]].
        split; [exact Hv|]. split; [exact HG3|]. split; [exact Hg|]. split; [exact Hfr | exact Hoid].
    - intros Ea. unfold fb. rewrite Ea. reflexivity.
  Qed.

  Theorem vtransfer_prefix_crash_inv mem t qs files d w n :
    inv w -> G w -> files_ok files -> dir_ok files d -> requested files d qs ->
    crash_inv (crash (run (firstn n (vtransfer_prog mem t qs files d w)) w)).
  Proof.
    intros Hinv HG Hf Hd Hq.
    destruct (vtransfer_prog_valid mem t qs files d w Hinv HG Hf Hd Hq) as [Hv _].
    now apply valid_prefix_crash_inv.
  Qed.

  (* ---- transfer(..., hardlink=True) ---- *)
  Theorem ltransfer_prog_valid t qs files d w :
    inv w -> G w -> files_ok files -> dir_ok files d -> requested files d qs ->
    let p := ltransfer_prog t qs files d w in let w' := run p w in
    valid_trace p w = true /\ G w' /\
    (forall o, In o qs -> good w' o) /\
    (forall o, ~ In o qs -> obj w' o = obj w o) /\
    (forall s, In s p -> forall o, step_oid s = Some o -> In o qs).
  Proof.
    intros Hinv HG Hf Hd Hq.
    set (fa := fun w1 : world => match filter (absent w1) files with [] => [] | new => ladd_prog false t new w1 end).
    set (fb := fun (w1 w2 : world) =>
                 if absent w2 d then mem_add_prog (t + nlen (filter (absent w1) files)) d w2 else []).
    pose proof (transfer_assemble qs files d w fa (fb (run (heal_prog qs w) w)) Hinv HG Hf Hd Hq) as HA.
    cbv zeta in HA. apply HA; clear HA.
    - intros Hinv1 HG1. unfold fa.
      destruct (filter (absent (run (heal_prog qs w) w)) files) as [|x r] eqn:E; intros Hnew;
        apply (ladd_absent_valid bytes H kids empty t _ _ HG1 Hnew).
    - intros Ea Hinv2 HG2 Hk. unfold fb. rewrite Ea.
      apply (mem_add_prog_valid bytes H kids empty (t + nlen (filter (absent (run (heal_prog qs w) w)) files)) d _
               HG2 (proj1 Hd) Hk).
      intros f Ho. rewrite (absent_none bytes _ _ Ea) in Ho. discriminate.
    - intros Ea. unfold fb. rewrite Ea. reflexivity.
  Qed.

  Theorem ltransfer_prefix_crash_inv t qs files d w n :
    inv w -> G w -> files_ok files -> dir_ok files d -> requested files d qs ->
    crash_inv (crash (run (firstn n (ltransfer_prog t qs files d w)) w)).
  Proof.
    intros Hinv HG Hf Hd Hq.
    destruct (ltransfer_prog_valid t qs files d w Hinv HG Hf Hd Hq) as [Hv _].
    now apply valid_prefix_crash_inv.
  Qed.

  (* ---- one verified transfer() over several directories sharing files ---- *)
  Theorem mtransfer_v_prog_valid mem t qs ds forder w :
    inv w -> G w -> files_ok forder -> (forall d, In d ds -> dir_ok forder d) ->
    NoDup (map fst ds) -> mrequested forder ds qs ->
    let p := mtransfer_prog true mem t qs ds forder w in let w' := run p w in
    valid_trace p w = true /\ G w' /\
    (forall o, In o qs -> good w' o) /\
    (forall o, ~ In o qs -> obj w' o = obj w o) /\
    (forall s, In s p -> forall o, step_oid s = Some o -> In o qs).
  Proof.
    intros Hinv HG Hf Hds Hnd Hq p w'. subst p w'. unfold AddSteps.mtransfer_prog, seq2.
    destruct (heal_prog_valid bytes H kids empty kids_empty qs w Hinv HG)
      as [Hv1 [Hinv1 [HG1 [Hh1 [Hfr1 [Hnone1 Hoid1]]]]]].
    set (p1 := heal_prog qs w) in *. set (w1 := run p1 w) in *.
    set (nds := filter (absent w1) ds). set (newf := filter (absent w1) forder).
    assert (Hgood1 : forall o f, In o qs -> obj w1 o = Some f -> good w1 o).
    { intros o f Hin Ho. destruct (Hh1 o f Hin Ho). exists f. auto. }
    assert (Hnds : forall d, In d nds -> In d ds /\ obj w1 (fst d) = None).
    { intros d Hi. apply filter_In in Hi as [Hi Ha]. split; [exact Hi | now apply (absent_none bytes)]. }
    assert (Hnewf : forall it, In it newf -> In it forder /\ obj w1 (fst it) = None).
    { intros it Hi. apply filter_In in Hi as [Hi Ha]. split; [exact Hi | now apply (absent_none bytes)]. }
    assert (Hcov : forall o, In o (map fst forder) -> good w1 o \/ In o (map fst newf)).
    { intros o Hin. apply in_map_iff in Hin as [it [<- Hi]]. destruct (absent w1 it) eqn:Ea.
      - right. apply in_map. apply filter_In. auto.
      - left. apply (absent_false bytes) in Ea as [f Ho]. apply (Hgood1 _ f); [|exact Ho].
        apply Hq. right. now apply in_map. }
    destruct (mt_loop_valid_v bytes H kids empty part kids_empty mem forder nds newf t w1 Hinv1 HG1 Hf
                (fun d Hi => Hds d (proj1 (Hnds d Hi))) (NoDup_map_filter fst _ ds Hnd)
                Hnewf Hcov (fun d Hi => proj2 (Hnds d Hi)))
      as [Hv2 [_ [HG2 [Hgf [Hgd [Hfr2 Hoid2]]]]]].
    set (p2 := mt_loop true mem t nds newf w1) in *.
    rewrite run_app.
    assert (Hsubf : forall o, In o (map fst newf) -> In o (map fst forder) /\ obj w1 o = None).
    { intros o Hin. apply in_map_iff in Hin as [it [<- Hi]]. destruct (Hnewf it Hi). split; [now apply in_map | auto]. }
    assert (Hsubd : forall o, In o (map fst nds) -> In o (map fst ds) /\ obj w1 o = None).
    { intros o Hin. apply in_map_iff in Hin as [d [<- Hi]]. destruct (Hnds d Hi). split; [now apply in_map | auto]. }
    split; [|split; [|split; [|split]]].
    - apply valid_app; assumption.
    - exact HG2.
    - intros o Hin. apply Hq in Hin as [Hin|Hin]; [|now apply Hgf].
      apply in_map_iff in Hin as [d [<- Hi]]. destruct (absent w1 d) eqn:Ea.
      + apply Hgd. apply filter_In. auto.
      + apply (absent_false bytes) in Ea as [f Ho].
        assert (Hg : good w1 (fst d)) by (apply (Hgood1 _ f); [apply Hq; left; now apply in_map | exact Ho]).
        destruct Hg as [g [Hog Hr]]. exists g. split; [|exact Hr]. rewrite Hfr2; [exact Hog| |].
        * intros Hin. apply Hsubf in Hin as [_ Hn]. congruence.
        * intros Hin. apply Hsubd in Hin as [_ Hn]. congruence.
    - intros o Hn. rewrite Hfr2.
      + apply Hfr1. exact Hn.
      + intros Hin. apply Hn. apply Hq. right. now apply Hsubf.
      + intros Hin. apply Hn. apply Hq. left. now apply Hsubd.
    - intros s Hs o Ho. apply in_app_or in Hs as [Hs|Hs]; [eapply Hoid1; eauto|].
      apply Hq. destruct (Hoid2 s Hs o Ho) as [Hin|Hin]; [right; now apply Hsubf | left; now apply Hsubd].
  Qed.

  Theorem mtransfer_v_prefix_crash_inv mem t qs ds forder w n :
    inv w -> G w -> files_ok forder -> (forall d, In d ds -> dir_ok forder d) ->
    NoDup (map fst ds) -> mrequested forder ds qs ->
    crash_inv (crash (run (firstn n (mtransfer_prog true mem t qs ds forder w)) w)).
  Proof.
    intros Hinv HG Hf Hds Hnd Hq.
    destruct (mtransfer_v_prog_valid mem t qs ds forder w Hinv HG Hf Hds Hnd Hq) as [Hv _].
    now apply valid_prefix_crash_inv.
  Qed.

  (* ---- recovery ---- *)
  Hypothesis H_inj : forall b b', base (H b) = base (H b') -> b = b'.

  (* a generic statement: two programs with the "requested set" post-conditions *)
  Definition post (qs : list oid) (p : list astep) (w : world) : Prop :=
    valid_trace p w = true /\ G (run p w) /\
    (forall o, In o qs -> good (run p w) o) /\
    (forall o, ~ In o qs -> obj (run p w) o = obj w o) /\
    (forall s, In s p -> forall o, step_oid s = Some o -> In o qs).

  Lemma recover_post qs qs' (P : world -> list astep) (P' : world -> list astep) w0 n :
    inv w0 -> (forall o, In o qs <-> In o qs') ->
    post qs (P w0) w0 ->
    (forall wc, inv wc -> G wc -> post qs' (P' wc) wc) ->
    let p0 := P w0 in
    let wc := crash (run (firstn n p0) w0) in
    let p1 := P' wc in
    valid_trace p1 wc = true /\
    (forall m, crash_inv (crash (run (firstn m p1) wc))) /\
    store_eq (run p1 wc) (run p0 w0) /\
    (forall o, In o qs -> good (run p1 wc) o).
  Proof.
    intros Hinv Hqq [Hv0 [_ [Hg0 [Hfr0 Hoid0]]]] HP' p0 wc p1.
    assert (Hinvc : inv wc).
    { apply inv_crash. apply (valid_prefix_inv bytes H kids empty kids_empty p0 w0 Hinv Hv0). }
    destruct (HP' wc Hinvc eq_refl) as [Hv1 [_ [Hg1 [Hfr1 _]]]].
    fold p1 in Hv1, Hg1, Hfr1.
    destruct (recover_from_posts bytes H kids empty kids_empty H_inj (fun o => In o qs) p0 w0 n p1
                (in_dec_or qs) Hinv Hv0 Hg0 Hfr0 Hoid0 Hv1) as [_ [Hc He]].
    - intros o Hin. apply Hg1. now apply Hqq.
    - intros o Hn. apply Hfr1. intros Hin. apply Hn. now apply Hqq.
    - split; [exact Hv1|]. split; [exact Hc|]. split; [exact He|].
      intros o Hin. apply Hg1. now apply Hqq.
  Qed.

  Lemma requested_iff files d qs qs' : requested files d qs -> requested files d qs' -> forall o, In o qs <-> In o qs'.
  Proof. intros Hq Hq' o. rewrite (Hq o), (Hq' o). reflexivity. Qed.

  Theorem vtransfer_recover mem t t' qs qs' files d w0 n :
    inv w0 -> G w0 -> files_ok files -> dir_ok files d -> requested files d qs -> requested files d qs' ->
    let p0 := vtransfer_prog mem t qs files d w0 in
    let wc := crash (run (firstn n p0) w0) in
    let p1 := vtransfer_prog mem t' qs' files d wc in
    valid_trace p1 wc = true /\
    (forall m, crash_inv (crash (run (firstn m p1) wc))) /\
    store_eq (run p1 wc) (run p0 w0) /\
    (forall o, In o qs -> good (run p1 wc) o).
  Proof.
    intros Hinv HG Hf Hd Hq Hq'.
    apply (recover_post qs qs' (vtransfer_prog mem t qs files d) (vtransfer_prog mem t' qs' files d) w0 n Hinv
             (requested_iff files d qs qs' Hq Hq')).
    - now apply vtransfer_prog_valid.
    - intros wc Hi Hg. now apply vtransfer_prog_valid.
  Qed.

  Theorem ltransfer_recover t t' qs qs' files d w0 n :
    inv w0 -> G w0 -> files_ok files -> dir_ok files d -> requested files d qs -> requested files d qs' ->
    let p0 := ltransfer_prog t qs files d w0 in
    let wc := crash (run (firstn n p0) w0) in
    let p1 := ltransfer_prog t' qs' files d wc in
    valid_trace p1 wc = true /\
    (forall m, crash_inv (crash (run (firstn m p1) wc))) /\
    store_eq (run p1 wc) (run p0 w0) /\
    (forall o, In o qs -> good (run p1 wc) o).
  Proof.
    intros Hinv HG Hf Hd Hq Hq'.
    apply (recover_post qs qs' (ltransfer_prog t qs files d) (ltransfer_prog t' qs' files d) w0 n Hinv
             (requested_iff files d qs qs' Hq Hq')).
    - now apply ltransfer_prog_valid.
    - intros wc Hi Hg. now apply ltransfer_prog_valid.
  Qed.

  Theorem mtransfer_v_recover mem t t' qs qs' ds ds' forder forder' w0 n :
    inv w0 -> G w0 ->
    files_ok forder -> (forall d, In d ds -> dir_ok forder d) -> NoDup (map fst ds) -> mrequested forder ds qs ->
    files_ok forder' -> (forall d, In d ds' -> dir_ok forder' d) -> NoDup (map fst ds') -> mrequested forder' ds' qs' ->
    (forall o, In o qs <-> In o qs') ->
    let p0 := mtransfer_prog true mem t qs ds forder w0 in
    let wc := crash (run (firstn n p0) w0) in
    let p1 := mtransfer_prog true mem t' qs' ds' forder' wc in
    valid_trace p1 wc = true /\
    (forall m, crash_inv (crash (run (firstn m p1) wc))) /\
    store_eq (run p1 wc) (run p0 w0) /\
    (forall o, In o qs -> good (run p1 wc) o).
  Proof.
    intros Hinv HG Hf Hds Hnd Hq Hf' Hds' Hnd' Hq' Hqq.
    apply (recover_post qs qs' (mtransfer_prog true mem t qs ds forder) (mtransfer_prog true mem t' qs' ds' forder')
             w0 n Hinv Hqq).
    - now apply mtransfer_v_prog_valid.
    - intros wc Hi Hg. now apply mtransfer_v_prog_valid.
  Qed.
End VT.
