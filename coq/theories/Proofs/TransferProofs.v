(* C04 and C11: the theorems about transfer(), assembled from the status phase
   (TransferStatus.v) and the directory loop (TransferLoop.v). *)
From Coq Require Import NArith List Bool Lia.
From DvcData Require Import Base.Val Model.Transfer Proofs.TransferBase Proofs.TransferStatus Proofs.TransferLoop.
Import ListNotations.
Open Scope N_scope.

Definition dst_after (i : t_in) : store := w_dst (final_world i).

Lemma dst_after_eq i : dst_after i = apply_dst (t_src i) (o_events (transfer i)) (t_dst i).
Proof. unfold dst_after, final_world. now rewrite apply_events_dst. Qed.
Lemma killed_dst_eq i n :
  w_dst (killed_world i n) = apply_dst (t_src i) (firstn n (o_events (transfer i))) (t_dst i).
Proof. unfold killed_world. now rewrite apply_events_dst. Qed.

(* the quantifier of C11: arbitrary destination and request *)
Record wf11 (i : t_in) : Prop := {
  w_bord : ord_ok (t_bord i);
  w_dord : ord_ok (t_dord i);
  w_flat : flat_parse i;
  w_coh : coherent i;
  w_sound : status_sound i }.

Lemma wf_wf11 i : wf i -> wf11 i.
Proof.
  intros [A B C D E F G H]. constructor; auto. now apply status_sound_index.
Qed.

(* ---- the shape of one run ---- *)
Lemma transfer_inv i :
  (exists k, compare_status i = inl k /\ o_status (transfer i) = None /\
             o_events (transfer i) = [] /\ o_outcome (transfer i) = TErr k) \/
  (exists st dix six, compare_status i = inr (st, dix, six) /\ o_status (transfer i) = Some st /\
     ((c_new st = [] /\ o_events (transfer i) = [] /\ o_outcome (transfer i) = TOk [] []) \/
      (c_new st <> [] /\
       o_events (transfer i) = fst (do_transfer i (c_new st) (c_missing st)) /\
       o_outcome (transfer i) =
         match snd (do_transfer i (c_new st) (c_missing st)) with
         | None => TErr 10
         | Some fl => TOk (diff (c_new st) fl) fl
         end))).
Proof.
  unfold transfer. destruct (compare_status i) as [k|[[st dix] six]] eqn:EC.
  - left. exists k. auto.
  - right. exists st, dix, six. split; auto.
    destruct (c_new st) as [|n0 nr] eqn:En; simpl.
    + split; auto.
    + rewrite <- En. destruct (do_transfer i (c_new st) (c_missing st)) as [evs [fl|]] eqn:ED; simpl;
        (split; auto; right; split; [rewrite En; discriminate|auto]).
Qed.

Lemma transfer_DT (S : Prop) i st dix six :
  wf11 i -> (S -> closed (t_parse i) (t_dst i) /\ ix_sound i /\ closed_request i /\ trunc_unparsable i) ->
  compare_status i = inr (st, dix, six) ->
  DT S i (c_new st) (c_missing st)
     (fst (do_transfer i (c_new st) (c_missing st))) (snd (do_transfer i (c_new st) (c_missing st))).
Proof.
  intros [Hb Hd Hf Hc Hs] HS EC.
  destruct (compare_status_facts i st dix six Hc Hs EC) as [h SF].
  apply do_transfer_spec; auto.
  - intros o Ho. now apply (sf_new _ _ _ SF).
  - intros D l f. now apply find_tree_flat.
  - intros HS' D l f HDn HDd HT Hfl. destruct (HS HS') as [H1 [H2 [H3 _]]].
    destruct (compare_status_pre i st dix six Hf Hc H1 H2 H3 EC) as [_ P2 _].
    destruct (P2 D l f HDn HDd HT Hfl). auto.
  - intros D l l'. now apply find_tree_src.
  - intros HS'. destruct (HS HS') as [_ [_ [_ H4]]]. exact H4.
Qed.

Lemma transfer_safe (S : Prop) i :
  wf11 i -> (S -> closed (t_parse i) (t_dst i) /\ ix_sound i /\ closed_request i /\ trunc_unparsable i) ->
  safe S i (t_dst i) (o_events (transfer i)).
Proof.
  intros Hw HS. destruct (transfer_inv i) as [[k [_ [_ [E _]]]]|[st [dix [six [EC [_ [[_ [E _]]|[_ [E _]]]]]]]]];
    rewrite E; simpl; auto.
  apply (dt_safe _ _ _ _ _ _ (transfer_DT S i st dix six Hw HS EC)).
Qed.

(* ====================================================================================== *)
(* C04 *)

Lemma closed_Inv i : closed (t_parse i) (t_dst i) -> Inv i (t_dst i).
Proof.
  intros Hcl D l f HD Hf. pose proof (Hcl D l f HD Hf) as H. split; auto.
  unfold stable. now rewrite H.
Qed.

Lemma wf_strict i : wf i -> True ->
  closed (t_parse i) (t_dst i) /\ ix_sound i /\ closed_request i /\ trunc_unparsable i.
Proof. intros [A B C D E F G H] _. auto. Qed.

(* stronger than closure: every file listed by a directory object that is present was there
   before the transfer or arrived whole ([stable]) - never a truncated leftover of a failed
   non-atomic upload, never an object that verification is about to remove *)
Theorem prefix_intact : forall i n, wf i -> Inv i (w_dst (killed_world i n)).
Proof.
  intros i n Hw. rewrite killed_dst_eq.
  apply (safe_Inv True); auto.
  - apply closed_Inv. apply (wf_closed _ Hw).
  - apply safe_firstn. apply transfer_safe; [now apply wf_wf11|now apply wf_strict].
Qed.

Theorem prefix_closed : forall i n, wf i -> closed (t_parse i) (w_dst (killed_world i n)).
Proof.
  intros i n Hw. rewrite killed_dst_eq. apply Inv_closed.
  apply (safe_Inv True); auto.
  - apply closed_Inv. apply (wf_closed _ Hw).
  - apply safe_firstn. apply transfer_safe; [now apply wf_wf11|now apply wf_strict].
Qed.

Theorem final_closed : forall i, wf i -> closed (t_parse i) (dst_after i).
Proof.
  intros i Hw. rewrite dst_after_eq.
  rewrite <- (firstn_all (o_events (transfer i))). rewrite <- killed_dst_eq. now apply prefix_closed.
Qed.

(* the prefixes the harness imposes (abort right after the n-th upload attempt) are prefixes *)
Lemma upto_put_prefix : forall evs n, exists m, upto_put n evs = firstn m evs.
Proof.
  induction evs as [|e r IH]; intros n.
  - exists O. destruct n; reflexivity.
  - destruct n as [|n]; [exists O; reflexivity|].
    destruct e as [o ok|o pb|o|d fs|]; simpl.
    + destruct (IH n) as [m Hm]. exists (Datatypes.S m). simpl. now rewrite Hm.
    + destruct (IH n) as [m Hm]. exists (Datatypes.S m). simpl. now rewrite Hm.
    + destruct (IH (Datatypes.S n)) as [m Hm]. exists (Datatypes.S m). simpl. simpl in Hm. now rewrite Hm.
    + destruct (IH (Datatypes.S n)) as [m Hm]. exists (Datatypes.S m). simpl. simpl in Hm. now rewrite Hm.
    + destruct (IH (Datatypes.S n)) as [m Hm]. exists (Datatypes.S m). simpl. simpl in Hm. now rewrite Hm.
Qed.

Theorem upto_put_closed : forall i n, wf i ->
  closed (t_parse i) (apply_dst (t_src i) (upto_put n (o_events (transfer i))) (t_dst i)).
Proof.
  intros i n Hw. destruct (upto_put_prefix (o_events (transfer i)) n) as [m ->].
  rewrite <- killed_dst_eq. now apply prefix_closed.
Qed.

Lemma find_tree_src_some i D l b :
  coherent i -> find_tree i D = Some l -> lookup D (t_src i) = Some b -> t_parse i b = Some l.
Proof.
  intros [Ha _] HT Ls. unfold find_tree in HT. unfold status_cache in Ha.
  assert (Hsrc : load_ok (t_parse i) (t_src i) D = Some l -> t_parse i b = Some l).
  { unfold load_ok, load. rewrite Ls. destruct (t_parse i b); congruence. }
  destruct (t_cache i) as [c|]; auto.
  destruct (load_ok (t_parse i) c D) as [lc|] eqn:Ec; auto.
  inversion HT; subst lc. unfold load_ok in Ec.
  destruct (load (t_parse i) c D) as [l0| |] eqn:E0; try discriminate. inversion Ec; subst l0.
  apply load_ok_inv in E0. destruct E0 as [bc [Lc Pc]].
  rewrite <- (Ha D bc b Lc Ls). auto.
Qed.

(* what a successful run looks like *)
Lemma outcome_ok i tr fl :
  o_outcome (transfer i) = TOk tr fl ->
  exists st dix six, compare_status i = inr (st, dix, six) /\ o_status (transfer i) = Some st /\
    ((c_new st = [] /\ tr = [] /\ fl = [] /\ o_events (transfer i) = []) \/
     (c_new st <> [] /\ snd (do_transfer i (c_new st) (c_missing st)) = Some fl /\
      tr = diff (c_new st) fl /\
      o_events (transfer i) = fst (do_transfer i (c_new st) (c_missing st)))).
Proof.
  intros HO. destruct (transfer_inv i) as [[k [_ [_ [_ E]]]]|[st [dix [six [EC [ES [[En [Ee Eo]]|[En [Ee Eo]]]]]]]]].
  - congruence.
  - exists st, dix, six. split; auto. split; auto. left. rewrite Eo in HO. inversion HO; subst. auto.
  - exists st, dix, six. split; auto. split; auto. right. rewrite Eo in HO.
    destruct (snd (do_transfer i (c_new st) (c_missing st))) as [fl'|]; [|discriminate].
    inversion HO; subst. auto.
Qed.

Theorem withheld : forall i st tr fl D l f,
  wf i -> o_status (transfer i) = Some st -> o_outcome (transfer i) = TOk tr fl ->
  In D (c_new st) -> is_dir_oid D = true -> find_tree i D = Some l -> In f l ->
  has (dst_after i) f = false ->
  (has (dst_after i) D = false \/ exists b, In (Partial D b) (o_events (transfer i))) /\
  (In D fl \/ exists g, In g l /\ In g (c_missing st)).
Proof.
  intros i st tr fl D l f Hw HS HO HDn HDd HT Hf Hfa.
  destruct (outcome_ok i tr fl HO) as [st' [dix [six [EC [HS' Hcase]]]]].
  rewrite HS in HS'. inversion HS'; subst st'. clear HS'.
  destruct Hcase as [[En _]|[En [Esnd [Etr Eev]]]]; [rewrite En in HDn; contradiction|].
  pose proof (transfer_DT True i st dix six (wf_wf11 i Hw) (wf_strict i Hw) EC) as HDT.
  assert (HnoD : has (dst_after i) D = false \/ exists b, In (Partial D b) (o_events (transfer i))).
  { destruct (has (dst_after i) D) eqn:EhD; auto.
    apply has_lookup in EhD. destruct EhD as [b Lb].
    pose proof Lb as Lb'. rewrite dst_after_eq in Lb'. apply apply_dst_origin in Lb'.
    destruct Lb' as [Lb'|[Lsrc|HP]]; [exfalso| exfalso |right; eauto].
    - destruct (compare_status_facts i st dix six (w_coh _ (wf_wf11 i Hw)) (w_sound _ (wf_wf11 i Hw)) EC) as [h SF].
      destruct (sf_new _ _ _ SF D HDn) as [_ Hn]. apply has_false in Hn. congruence.
    - pose proof (find_tree_src_some i D l b (wf_coh _ Hw) HT Lsrc) as Pb.
      assert (Hcl : closed (t_parse i) (dst_after i)) by now apply final_closed.
      assert (HL : listing (t_parse i) (dst_after i) D = Some l) by (unfold listing; now rewrite HDd, Lb).
      rewrite (Hcl D l f HL Hf) in Hfa. discriminate. }
  split; auto.
  destruct (dt_dirs _ _ _ _ _ _ HDT fl D l Esnd HDn HDd HT) as [[Hdl H]|[[H _]|H]]; auto.
  exfalso. rewrite <- Eev, <- dst_after_eq in H.
  (* D delivered and present: its bytes are the source's, so it would list f *)
  apply has_lookup in H. destruct H as [b Lb].
  pose proof Lb as Lb'. rewrite dst_after_eq in Lb'. apply apply_dst_origin in Lb'.
  destruct Lb' as [Lb'|[Lsrc|HP]].
  - destruct (compare_status_facts i st dix six (w_coh _ (wf_wf11 i Hw)) (w_sound _ (wf_wf11 i Hw)) EC) as [h SF].
    destruct (sf_new _ _ _ SF D HDn) as [_ Hn]. apply has_false in Hn. congruence.
  - pose proof (find_tree_src_some i D l b (wf_coh _ Hw) HT Lsrc) as Pb.
    assert (Hcl : closed (t_parse i) (dst_after i)) by now apply final_closed.
    assert (HL : listing (t_parse i) (dst_after i) D = Some l) by (unfold listing; now rewrite HDd, Lb).
    rewrite (Hcl D l f HL Hf) in Hfa. discriminate.
  - rewrite Eev in HP. apply (do_transfer_partial i _ _ (wf_bord _ Hw)) in HP. congruence.
Qed.

Lemma delivered_src i o : delivered i o = true -> has (t_src i) o = true.
Proof.
  unfold delivered, upload_ok. intros H. apply andb_true_iff in H. destruct H as [H _].
  apply andb_true_iff in H. tauto.
Qed.
Lemma delivered_faultfree i o : (forall x, t_fails i x = false) ->
  delivered i o = has (t_src i) o && negb (t_verify i && t_corrupt i o).
Proof.
  intros Hf. unfold delivered, dropped, upload_ok, part_written. rewrite Hf. simpl.
  destruct (has (t_src i) o), (t_verify i), (t_corrupt i o); reflexivity.
Qed.

(* a round whose uploads all succeed completes the destination: every requested object whose
   upload can succeed ([delivered]: in the source, not rejected by verification) arrives; a
   directory arrives when each listed file is there already or can be delivered. *)
Theorem retry : forall i tr fl,
  wf i -> o_outcome (transfer i) = TOk tr fl ->
  (forall f, In f (t_req i) -> is_dir_oid f = false -> delivered i f = true -> has (dst_after i) f = true) /\
  (forall D l, In D (t_req i) -> is_dir_oid D = true -> delivered i D = true -> find_tree i D = Some l ->
     (forall f, In f l -> has (t_dst i) f = true \/ delivered i f = true) -> has (dst_after i) D = true).
Proof.
  intros i tr fl Hw HO.
  destruct (outcome_ok i tr fl HO) as [st [dix [six [EC [HS Hcase]]]]].
  pose proof (wf_wf11 i Hw) as Hw1.
  destruct (compare_status_facts i st dix six (w_coh _ Hw1) (w_sound _ Hw1) EC) as [h SF].
  pose proof (transfer_DT True i st dix six Hw1 (wf_strict i Hw) EC) as HDT.
  assert (Hd0 : forall o, has (t_dst i) o = true -> has (dst_after i) o = true).
  { intros o Ho. rewrite dst_after_eq. destruct Hcase as [[_ [_ [_ Ee]]]|[_ [_ [_ Ee]]]]; rewrite Ee; simpl; auto.
    now apply (dt_d0 _ _ _ _ _ _ HDT). }
  assert (Hmiss : forall o, In o (c_missing st) -> delivered i o = true -> False).
  { intros o Ho Hd. apply delivered_src in Hd. destruct (sf_missing _ _ _ SF o Ho). congruence. }
  split.
  - intros f Hr Hff Hd.
    destruct (sf_cover _ _ _ SF f (sf_req _ _ _ SF f Hr)) as [H|[H|H]]; auto.
    + destruct Hcase as [[En _]|[En [Esnd [Etr Eev]]]]; [rewrite En in H; contradiction|].
      rewrite dst_after_eq, Eev.
      destruct (dt_files _ _ _ _ _ _ HDT fl f Esnd H Hff) as [H'|[_ H']]; auto.
      destruct (dt_failed _ _ _ _ _ _ HDT fl f Esnd H') as [_ [H''|H'']]; congruence.
    + exfalso. eauto.
  - intros D l Hr HDd Hd HT Hent.
    destruct (sf_cover _ _ _ SF D (sf_req _ _ _ SF D Hr)) as [H|[H|H]]; auto.
    + destruct Hcase as [[En _]|[En [Esnd [Etr Eev]]]]; [rewrite En in H; contradiction|].
      rewrite dst_after_eq, Eev.
      destruct (dt_dirs _ _ _ _ _ _ HDT fl D l Esnd H HDd HT) as [[_ H']|[[_ [H'|[g [Hg1 [Hg2 Hg3]]]]]|[g [Hg1 Hg2]]]]; auto.
      * congruence.
      * destruct (Hent g Hg1); congruence.
      * exfalso. destruct (Hent g Hg1) as [Hx|Hx]; [|eauto].
        destruct (sf_missing _ _ _ SF g Hg2). congruence.
    + exfalso. eauto.
Qed.

(* the retry after ANY first round (aborted anywhere, any failures), without index: the
   destination the first round leaves is a legal start of the next round *)
Lemma agree_after parse c src d evs :
  (forall o b, ~ In (Partial o b) evs) ->
  agree parse c src -> agree parse c d -> agree parse c (apply_dst src evs d).
Proof.
  intros HP H1 H2 D b1 b2 L1 L2. apply apply_dst_origin in L2. destruct L2 as [L2|[L2|L2]]; eauto.
  exfalso. eapply HP; eauto.
Qed.
Lemma In_firstn {A} (x : A) l : forall n, In x (firstn n l) -> In x l.
Proof.
  induction l as [|y r IH]; intros [|n]; simpl; try tauto. intros [H|H]; eauto.
Qed.

Theorem retry_wf : forall i1 n i2,
  wf i1 ->
  t_src i2 = t_src i1 -> t_cache i2 = t_cache i1 -> t_parse i2 = t_parse i1 ->
  t_req i2 = t_req i1 -> t_shallow i2 = t_shallow i1 ->
  t_dst i2 = w_dst (killed_world i1 n) -> t_dix i2 = None ->
  ord_ok (t_bord i2) -> ord_ok (t_dord i2) -> trunc_unparsable i2 ->
  (forall o b, ~ In (Partial o b) (o_events (transfer i1))) ->      (* atomic uploads in the first round *)
  wf i2.
Proof.
  intros i1 n i2 Hw Es Ec Ep Er Esh Ed Ex Hb Hd Htr Hat.
  assert (Hft : forall D, find_tree i2 D = find_tree i1 D).
  { intros D. unfold find_tree. now rewrite Es, Ec, Ep. }
  assert (Hsc : status_cache i2 = status_cache i1) by (unfold status_cache; now rewrite Es, Ec).
  constructor; auto.
  - intros b l f. rewrite Ep. apply (wf_flat _ Hw).
  - destruct (wf_coh _ Hw) as [A B]. unfold coherent. rewrite Hsc, Es, Ep, Ed. split; auto.
    rewrite killed_dst_eq. apply agree_after; auto.
    intros o b H. apply In_firstn in H. now apply (Hat o b).
  - rewrite Ep, Ed. now apply prefix_closed.
  - unfold ix_sound. now rewrite Ex.
  - destruct (wf_req _ Hw) as [H|H]; [left; congruence|right].
    intros D l f. rewrite Er, Hft. apply H.
Qed.

(* ====================================================================================== *)
(* C11 *)

Theorem partition : forall i st tr fl,
  wf11 i -> o_status (transfer i) = Some st -> o_outcome (transfer i) = TOk tr fl ->
  (forall o, In o (c_new st) <-> In o tr \/ In o fl) /\ (forall o, In o tr -> ~ In o fl).
Proof.
  intros i st tr fl Hw HS HO.
  destruct (outcome_ok i tr fl HO) as [st' [dix [six [EC [HS' Hcase]]]]].
  rewrite HS in HS'. inversion HS'; subst st'. clear HS'.
  destruct Hcase as [[En [-> [-> _]]]|[En [Esnd [-> Eev]]]].
  - rewrite En. split; [intros o; simpl; tauto|intros o []].
  - pose proof (transfer_DT False i st dix six Hw (fun F : False => match F with end) EC) as HDT.
    split.
    + intros o. rewrite diff_In. split.
      * intros H. destruct (in_dec_oid o fl); auto.
      * intros [[H _]|H]; auto. now destruct (dt_failed _ _ _ _ _ _ HDT fl o Esnd H).
    + intros o H. apply diff_In in H. tauto.
Qed.

(* no requested directory of [new] lists a file that is missing on both sides - the
   complement of the recorded finding C11:transferred-but-absent:dir-with-file-missing-on-both-sides *)
Definition no_dir_missing (i : t_in) (st : cmp) : Prop :=
  forall D l g, In D (c_new st) -> is_dir_oid D = true -> find_tree i D = Some l -> In g l ->
                ~ In g (c_missing st).

Theorem transferred_present : forall i st tr fl o,
  wf11 i -> o_status (transfer i) = Some st -> o_outcome (transfer i) = TOk tr fl ->
  no_dir_missing i st -> In o tr ->
  has (dst_after i) o = true /\ lookup o (dst_after i) = lookup o (t_src i).
Proof.
  intros i st tr fl o Hw HS HO Hnm Ho.
  destruct (outcome_ok i tr fl HO) as [st' [dix [six [EC [HS' Hcase]]]]].
  rewrite HS in HS'. inversion HS'; subst st'. clear HS'.
  destruct Hcase as [[En [-> _]]|[En [Esnd [-> Eev]]]]; [destruct Ho|].
  pose proof (transfer_DT False i st dix six Hw (fun F : False => match F with end) EC) as HDT.
  destruct (compare_status_facts i st dix six (w_coh _ Hw) (w_sound _ Hw) EC) as [h SF].
  apply diff_In in Ho. destruct Ho as [Hn Hnf].
  assert (Hh : delivered i o = true /\ has (dst_after i) o = true).
  { rewrite dst_after_eq, Eev. destruct (is_dir_oid o) eqn:Ed.
    - destruct (dt_trees _ _ _ _ _ _ HDT fl o Esnd Hn Ed) as [l HT].
      destruct (dt_dirs _ _ _ _ _ _ HDT fl o l Esnd Hn Ed HT) as [H|[[H _]|[g [Hg1 Hg2]]]].
      + exact H.
      + exfalso. exact (Hnf H).
      + exfalso. exact (Hnm o l g Hn Ed HT Hg1 Hg2).
    - destruct (dt_files _ _ _ _ _ _ HDT fl o Esnd Hn Ed) as [H|H]; [exfalso; exact (Hnf H)|exact H]. }
  destruct Hh as [Hdl Hh]. split; auto.
  apply has_lookup in Hh. destruct Hh as [b Lb]. rewrite Lb.
  rewrite dst_after_eq in Lb. apply apply_dst_origin in Lb. destruct Lb as [Lb|[Lb|Lb]]; auto.
  - destruct (sf_new _ _ _ SF o Hn) as [_ H]. apply has_false in H. congruence.
  - (* a truncated leftover under o would mean its upload failed *)
    rewrite Eev in Lb. apply (do_transfer_partial i _ _ (w_bord _ Hw)) in Lb. congruence.
Qed.

(* an upload that left a truncated object under the final name is reported failed *)
Theorem partial_failed : forall i st tr fl o b,
  wf11 i -> o_status (transfer i) = Some st -> o_outcome (transfer i) = TOk tr fl ->
  no_dir_missing i st -> In (Partial o b) (o_events (transfer i)) -> In o fl /\ ~ In o tr.
Proof.
  intros i st tr fl o b Hw HS HO Hnm HP.
  destruct (outcome_ok i tr fl HO) as [st' [dix [six [EC [HS' Hcase]]]]].
  rewrite HS in HS'. inversion HS'; subst st'. clear HS'.
  destruct Hcase as [[En [_ [_ Ee]]]|[En [Esnd [-> Eev]]]]; [rewrite Ee in HP; destruct HP|].
  pose proof (transfer_DT False i st dix six Hw (fun F : False => match F with end) EC) as HDT.
  rewrite Eev in HP.
  pose proof (do_transfer_partial i _ _ (w_bord _ Hw) o b HP) as Hnd.
  assert (Hn : In o (c_new st)) by (apply (dt_oid _ _ _ _ _ _ HDT _ o HP); reflexivity).
  assert (Hf : In o fl).
  { destruct (is_dir_oid o) eqn:Ed.
    - destruct (dt_trees _ _ _ _ _ _ HDT fl o Esnd Hn Ed) as [l HT].
      destruct (dt_dirs _ _ _ _ _ _ HDT fl o l Esnd Hn Ed HT) as [[H _]|[[H _]|[g [Hg1 Hg2]]]]; auto.
      + congruence.
      + exfalso. exact (Hnm o l g Hn Ed HT Hg1 Hg2).
    - destruct (dt_files _ _ _ _ _ _ HDT fl o Esnd Hn Ed) as [H|[H _]]; auto. congruence. }
  split; auto. intros Ht. apply diff_In in Ht. tauto.
Qed.

Theorem absent_reported : forall i st tr fl o,
  wf11 i -> o_status (transfer i) = Some st -> o_outcome (transfer i) = TOk tr fl ->
  no_dir_missing i st -> In o (t_req i) -> has (dst_after i) o = false ->
  In o fl \/ In o (c_missing st).
Proof.
  intros i st tr fl o Hw HS HO Hnm Hr Ha.
  destruct (outcome_ok i tr fl HO) as [st' [dix [six [EC [HS' Hcase]]]]].
  rewrite HS in HS'. inversion HS'; subst st'. clear HS'.
  destruct (compare_status_facts i st dix six (w_coh _ Hw) (w_sound _ Hw) EC) as [h SF].
  destruct (sf_cover _ _ _ SF o (sf_req _ _ _ SF o Hr)) as [H|[H|H]]; auto.
  - exfalso. rewrite dst_after_eq in Ha.
    destruct Hcase as [[_ [_ [_ Ee]]]|[_ [_ [_ Ee]]]]; rewrite Ee in Ha; simpl in Ha; [congruence|].
    pose proof (transfer_DT False i st dix six Hw (fun F : False => match F with end) EC) as HDT.
    rewrite (dt_d0 _ _ _ _ _ _ HDT o H) in Ha. discriminate.
  - destruct (in_dec_oid o fl) as [Hf|Hf]; auto. exfalso.
    assert (Ht : In o tr).
    { destruct (partition i st tr fl Hw HS HO) as [P _]. destruct (proj1 (P o) H); auto. contradiction. }
    destruct (transferred_present i st tr fl o Hw HS HO Hnm Ht). congruence.
Qed.

Theorem no_resend : forall i o,
  wf11 i -> has (t_dst i) o = true ->
  (forall e, In e (o_events (transfer i)) -> ev_oid e <> Some o) /\
  lookup o (dst_after i) = lookup o (t_dst i) /\
  (forall tr fl, o_outcome (transfer i) = TOk tr fl -> ~ In o tr /\ ~ In o fl).
Proof.
  intros i o Hw Ho.
  assert (Hev : forall e, In e (o_events (transfer i)) -> ev_oid e <> Some o).
  { destruct (transfer_inv i) as [[k [_ [_ [E _]]]]|[st [dix [six [EC [_ [[_ [E _]]|[_ [E _]]]]]]]]];
      rewrite E; try (intros e []).
    pose proof (transfer_DT False i st dix six Hw (fun F : False => match F with end) EC) as HDT.
    destruct (compare_status_facts i st dix six (w_coh _ Hw) (w_sound _ Hw) EC) as [h SF].
    intros e He Hx. apply (dt_oid _ _ _ _ _ _ HDT e o He) in Hx.
    destruct (sf_new _ _ _ SF o Hx). congruence. }
  split; auto. split.
  - rewrite dst_after_eq. now apply apply_dst_untouched.
  - intros tr fl HO.
    destruct (outcome_ok i tr fl HO) as [st [dix [six [EC [HS Hcase]]]]].
    destruct (partition i st tr fl Hw HS HO) as [P _].
    destruct (compare_status_facts i st dix six (w_coh _ Hw) (w_sound _ Hw) EC) as [h SF].
    assert (Hn : ~ In o (c_new st)).
    { intros H. destruct (sf_new _ _ _ SF o H). congruence. }
    split; intros H; apply Hn; apply P; auto.
Qed.

Theorem src_untouched : forall i n,
  w_src (killed_world i n) = t_src i /\ w_src (final_world i) = t_src i.
Proof.
  intros i n. unfold killed_world, final_world. now rewrite !apply_events_src.
Qed.

(* ====================================================================================== *)
(* Non-vacuity and the recorded finding: concrete runs *)

Definition f1 : oid := [102; 49].
Definition f2 : oid := [102; 50].
Definition d1 : oid := [100; 49; 46; 100; 105; 114].
Definition d2 : oid := [100; 50; 46; 100; 105; 114].
Definition ex_parse (b : bytes) : option (list oid) :=
  if list_N_eqb b [1] then Some [f1; f2] else if list_N_eqb b [2] then Some [f2] else None.

Definition ex_in (src : store) (req fails : list oid) (verify : bool) : t_in :=
  {| t_src := src; t_dst := []; t_cache := None; t_parse := ex_parse;
     t_corrupt := fun _ => false; t_req := req; t_shallow := false; t_verify := verify;
     t_dix := None; t_six := None; t_dnoop := false; t_snoop := false; t_fails := fun o => mem o fails;
     t_part := fun _ => false; t_trunc := fun _ => [];
     t_dord := fun l => l; t_bord := fun l => l |}.

Lemma ex_wf src req fails verify : wf (ex_in src req fails verify).
Proof.
  constructor; unfold flat_parse, coherent, ix_sound, closed_request, status_cache, trunc_unparsable; simpl.
  - intros l o; tauto.
  - intros l o; tauto.
  - intros b l f H Hf. revert H. unfold ex_parse.
    destruct (list_N_eqb b [1]);
      [intros H; inversion H; subst; simpl in Hf; destruct Hf as [<-|[<-|[]]]; reflexivity|].
    destruct (list_N_eqb b [2]);
      [intros H; inversion H; subst; simpl in Hf; destruct Hf as [<-|[]]; reflexivity|discriminate].
  - split; intros D b1 b2 H1 H2; simpl in *; [congruence|discriminate].
  - intros D l f H. unfold listing in H. simpl in H. destruct (is_dir_oid D); discriminate.
  - exact I.
  - left. reflexivity.
  - intros o _. reflexivity.
Qed.

(* two directories share f2, whose upload fails: both are withheld and reported, f1 arrives *)
Definition ex1 : t_in :=
  ex_in [(f1, [11]); (f2, [12]); (d1, [1]); (d2, [2])] [d1; d2] [f2] false.
Example ex1_wf : wf ex1.
Proof. apply ex_wf. Qed.
Example ex1_run :
  o_outcome (transfer ex1) = TOk [f1] [d2; f2; d1; f2] /\
  map fst (dst_after ex1) = [f1] /\
  length (o_events (transfer ex1)) = 3%nat.
Proof. vm_compute. auto. Qed.
(* the fault-free retry on what ex1 left behind completes the destination *)
Definition ex1_retry : t_in :=
  {| t_src := t_src ex1; t_dst := dst_after ex1; t_cache := None; t_parse := ex_parse;
     t_corrupt := fun _ => false; t_req := t_req ex1; t_shallow := false; t_verify := false;
     t_dix := None; t_six := None; t_dnoop := false; t_snoop := false; t_fails := fun _ => false;
     t_part := fun _ => false; t_trunc := fun _ => [];
     t_dord := fun l => l; t_bord := fun l => l |}.
Example ex1_retry_wf : wf ex1_retry.
Proof.
  apply (retry_wf ex1 (length (o_events (transfer ex1))) ex1_retry ex1_wf); try reflexivity.
  - intros l o; simpl; tauto.
  - intros l o; simpl; tauto.
  - intros o _. reflexivity.
  - intros o b H. vm_compute in H. repeat (destruct H as [H|H]; [discriminate|]). exact H.
Qed.
Example ex1_retry_run :
  exists tr, o_outcome (transfer ex1_retry) = TOk tr [] /\
  forallb (has (dst_after ex1_retry)) [f1; f2; d1; d2] = true.
Proof. eexists. vm_compute. split; reflexivity. Qed.

(* the recorded finding: d1 lists f2, which is missing on both sides; d1 is withheld (C04 holds)
   but reported as transferred, not failed *)
Definition ex_known : t_in := ex_in [(f1, [11]); (d1, [1])] [d1] [] false.
Example ex_known_wf : wf ex_known.
Proof. apply ex_wf. Qed.
Example ex_known_run :
  o_outcome (transfer ex_known) = TOk [d1; f1] [] /\ has (dst_after ex_known) d1 = false /\
  option_map c_missing (o_status (transfer ex_known)) = Some [f2].
Proof. vm_compute. auto. Qed.

(* the full statements of C11 (without the restriction to [no_dir_missing]) *)
Definition transferred_present_full : Prop :=
  forall i st tr fl o, wf i -> o_status (transfer i) = Some st -> o_outcome (transfer i) = TOk tr fl ->
    In o tr -> has (dst_after i) o = true.
Definition absent_reported_full : Prop :=
  forall i st tr fl o, wf i -> o_status (transfer i) = Some st -> o_outcome (transfer i) = TOk tr fl ->
    In o (t_req i) -> has (dst_after i) o = false -> In o fl \/ In o (c_missing st).

Theorem transferred_present_refuted : ~ transferred_present_full.
Proof.
  intros H.
  assert (E : has (dst_after ex_known) d1 = true).
  { eapply (H ex_known _ [d1; f1] [] d1 ex_known_wf); [vm_compute; reflexivity|vm_compute; reflexivity|].
    left. reflexivity. }
  vm_compute in E. discriminate.
Qed.
Theorem absent_reported_refuted : ~ absent_reported_full.
Proof.
  intros H.
  assert (E : In d1 ([] : list oid) \/ In d1 [f2]).
  { eapply (H ex_known {| c_ok := []; c_missing := [f2]; c_new := [d1; f1]; c_deleted := [] |}
              [d1; f1] [] d1 ex_known_wf); try (vm_compute; reflexivity).
    left. reflexivity. }
  destruct E as [[]|[E|[]]]. discriminate.
Qed.
(* the witness does not satisfy the restriction, and is the only way out *)
Example ex_known_has_missing :
  ~ no_dir_missing ex_known {| c_ok := []; c_missing := [f2]; c_new := [d1; f1]; c_deleted := [] |}.
Proof.
  intros H. apply (H d1 [f1; f2] f2); simpl; auto; try (vm_compute; reflexivity).
Qed.
(* and the restricted theorems are not vacuous: ex1 satisfies their hypotheses *)
Example ex1_no_dir_missing : forall st, o_status (transfer ex1) = Some st -> no_dir_missing ex1 st.
Proof.
  intros st H. vm_compute in H. inversion H; subst. intros D l g _ _ _ _ [].
Qed.

(* C11's quantifier is wider than C04's: a destination that is not empty, a shallow request of a
   directory without its files, a corrupt source object rejected by verification (a Drop event) *)
Definition ex_open : t_in :=
  {| t_src := [(f1, [11]); (f2, [12]); (d1, [1])]; t_dst := [(f1, [11])]; t_cache := None;
     t_parse := ex_parse; t_corrupt := fun o => list_N_eqb o f2; t_req := [d1; f2];
     t_shallow := true; t_verify := true; t_dix := None; t_six := None; t_dnoop := false; t_snoop := false;
     t_fails := fun _ => false; t_part := fun _ => false; t_trunc := fun _ => [];
     t_dord := fun l => l; t_bord := fun l => l |}.
Example ex_open_wf11 : wf11 ex_open.
Proof.
  constructor; unfold flat_parse, coherent, status_cache; simpl.
  - intros l o; tauto.
  - intros l o; tauto.
  - apply (wf_flat _ (ex_wf [] [] [] false)).
  - split; intros D b1 b2 H1 H2; [congruence|].
    simpl in H2.
    match type of H2 with context [list_N_eqb D ?x] => destruct (list_N_eqb D x) eqn:E end; [|discriminate].
    apply eqb_eq in E. subst D. vm_compute in H1. inversion H1; inversion H2; reflexivity.
  - apply status_sound_noindex. reflexivity.
Qed.
Example ex_open_run :
  o_outcome (transfer ex_open) = TOk [] [d1; f2] /\
  filter is_store_event (o_events (transfer ex_open)) = [Put f2 true; Drop f2] /\
  map fst (dst_after ex_open) = [f1].
Proof. vm_compute. auto. Qed.

(* a non-atomic upload: f2's upload fails after truncated bytes [7] were written under f2; d1
   lists f2 and is withheld; f2 is reported failed although an object sits under its name *)
Definition ex_part : t_in :=
  {| t_src := [(f1, [11]); (f2, [12]); (d1, [1])]; t_dst := []; t_cache := None; t_parse := ex_parse;
     t_corrupt := fun _ => false; t_req := [d1]; t_shallow := false; t_verify := false;
     t_dix := None; t_six := None; t_dnoop := false; t_snoop := false; t_fails := fun o => list_N_eqb o f2;
     t_part := fun _ => true; t_trunc := fun _ => [7];
     t_dord := fun l => l; t_bord := fun l => l |}.
Example ex_part_wf : wf ex_part.
Proof.
  pose proof (ex_wf [(f1, [11]); (f2, [12]); (d1, [1])] [d1] [] false) as [A B C D E F G H].
  constructor; auto.
Qed.
Example ex_part_run :
  o_events (transfer ex_part) = [Put f1 true; Partial f2 [7]; SrcIndexClear] /\
  o_outcome (transfer ex_part) = TOk [f1] [d1; f2] /\
  lookup f2 (dst_after ex_part) = Some [7] /\ has (dst_after ex_part) d1 = false.
Proof. vm_compute. auto. Qed.

(* fetch direction over a source that is NOT closed: the source holds d1 but lost f2; with a
   source index (here the no-op one) status never probes f2 ("directory exists => files exist"),
   f2 is classified new, its upload fails (nothing to read), d1 is withheld and both are failed.
   [wf] asks nothing of the source or of the source index. *)
Definition ex_fetch : t_in :=
  {| t_src := [(f1, [11]); (d1, [1])]; t_dst := []; t_cache := None; t_parse := ex_parse;
     t_corrupt := fun _ => false; t_req := [d1]; t_shallow := false; t_verify := false;
     t_dix := None; t_six := Some []; t_dnoop := false; t_snoop := true;
     t_fails := fun _ => false; t_part := fun _ => false; t_trunc := fun _ => [];
     t_dord := fun l => l; t_bord := fun l => l |}.
Example ex_fetch_wf : wf ex_fetch.
Proof.
  pose proof (ex_wf [(f1, [11]); (d1, [1])] [d1] [] false) as [A B C D E F G H].
  constructor; auto.
Qed.
Example ex_fetch_run :
  option_map c_new (o_status (transfer ex_fetch)) = Some [d1; f1; f2] /\
  filter is_store_event (o_events (transfer ex_fetch)) = [Put f1 true; Put f2 false] /\
  o_outcome (transfer ex_fetch) = TOk [f1] [d1; f2] /\ has (dst_after ex_fetch) d1 = false.
Proof. vm_compute. auto. Qed.

(* a stale destination index that status() detects: the remote was garbage-collected (d1 and its
   files f1, f2 are gone) but the index still remembers them; the next push asks for d2 = [f2].
   An indexed directory object has vanished and the query contains a directory, so the index is
   cleared, f2 is found missing and uploaded BEFORE d2 ([ix_detected], the left branch of
   [ix_sound]).  Without that validation f2 would be answered from the index and d2 go up alone. *)
Definition ex_stale : t_in :=
  {| t_src := [(f2, [12]); (d2, [2])]; t_dst := []; t_cache := None; t_parse := ex_parse;
     t_corrupt := fun _ => false; t_req := [d2]; t_shallow := false; t_verify := false;
     t_dix := Some [(f1, false); (f2, false); (d1, true)]; t_six := None;
     t_dnoop := false; t_snoop := false;
     t_fails := fun _ => false; t_part := fun _ => false; t_trunc := fun _ => [];
     t_dord := fun l => l; t_bord := fun l => l |}.
Example ex_stale_wf : wf ex_stale.
Proof.
  pose proof (ex_wf [(f2, [12]); (d2, [2])] [d2] [] false) as [A B C D E F G H].
  constructor; auto. left. split; [discriminate|reflexivity].
Qed.
Example ex_stale_run :
  filter is_store_event (o_events (transfer ex_stale)) = [Put f2 true; Put d2 true] /\
  o_outcome (transfer ex_stale) = TOk [d2; f2] [] /\
  option_map (map fst) (w_dix (final_world ex_stale)) = Some [f2; d2].
Proof. vm_compute. auto. Qed.

(* a sharing chain A -f- B -g- C, the upload of f fails, processing order A, B, C: A and B are
   withheld (B although f failed "with A"), B's own file g is still uploaded - B had claimed it -
   and therefore C, which shares g, is complete and delivered *)
Definition f3 : oid := [102; 51].
Definition f4 : oid := [102; 52].
Definition d3 : oid := [100; 51; 46; 100; 105; 114].
Definition ch_parse (b : bytes) : option (list oid) :=
  if list_N_eqb b [1] then Some [f1; f2]            (* A = d1 : a=f1, f=f2 *)
  else if list_N_eqb b [2] then Some [f2; f3]       (* B = d2 : f=f2, g=f3 *)
  else if list_N_eqb b [3] then Some [f3; f4]       (* C = d3 : g=f3, c=f4 *)
  else None.
Definition ex_chain : t_in :=
  {| t_src := [(f1, [11]); (f2, [12]); (f3, [13]); (f4, [14]); (d1, [1]); (d2, [2]); (d3, [3])];
     t_dst := []; t_cache := None; t_parse := ch_parse; t_corrupt := fun _ => false;
     t_req := [d1; d2; d3]; t_shallow := false; t_verify := false;
     t_dix := None; t_six := None; t_dnoop := false; t_snoop := false;
     t_fails := fun o => list_N_eqb o f2; t_part := fun _ => false; t_trunc := fun _ => [];
     t_dord := fun l => l; t_bord := fun l => l |}.
Example ex_chain_wf : wf ex_chain.
Proof.
  constructor; unfold flat_parse, coherent, ix_sound, closed_request, status_cache, trunc_unparsable; simpl.
  - intros l o; tauto.
  - intros l o; tauto.
  - intros b l f H Hf. revert H. unfold ch_parse.
    repeat (match goal with |- context [if ?c then _ else _] => destruct c end;
            [intros H; inversion H; subst; simpl in Hf; destruct Hf as [<-|[<-|[]]]; reflexivity|]).
    discriminate.
  - split; intros D b1 b2 H1 H2; simpl in *; [congruence|discriminate].
  - intros D l f H. unfold listing in H. simpl in H. destruct (is_dir_oid D); discriminate.
  - exact I.
  - left. reflexivity.
  - intros o _. reflexivity.
Qed.
Example ex_chain_run :
  filter is_store_event (o_events (transfer ex_chain)) =
    [Put f1 true; Put f2 false; Put f3 true; Put f4 true; Put d3 true] /\
  (exists tr, o_outcome (transfer ex_chain) = TOk tr [d2; f2; d1; f2]) /\
  forallb (has (dst_after ex_chain)) [f1; f3; f4; d3] = true /\
  has (dst_after ex_chain) d1 = false /\ has (dst_after ex_chain) d2 = false.
Proof. vm_compute. repeat split; eauto. Qed.
