From Coq Require Import NArith List Bool Lia.
From DvcData Require Import Base.Val Model.Gc.
Import ListNotations.
Open Scope N_scope.

Lemma mem_spec o l : mem o l = true <-> In o l.
Proof.
  unfold mem. rewrite existsb_exists. split.
  - intros [x [Hin Heq]]. apply list_N_eqb_spec in Heq. now subst.
  - intros Hin. exists o. split; [assumption | now apply list_N_eqb_spec].
Qed.

(* The specification of "used": independent of the accumulator loop. *)
Definition Used (i : gc_in) (o : oid) : Prop :=
  exists value, In (g_alg i, value) (g_used i) /\
    (o = value \/
     (g_shallow i = false /\ is_dir_oid value = true /\
      exists l, load (g_trees i) value = LoadOk l /\ In o l)).

Definition UsedIn alg shallow ld (used : list (list N * oid)) (o : oid) : Prop :=
  exists value, In (alg, value) used /\
    (o = value \/
     (shallow = false /\ is_dir_oid value = true /\ exists l, ld value = LoadOk l /\ In o l)).

Lemma used_hashes_spec alg shallow ld used : forall acc u,
  used_hashes alg shallow ld used acc = inr u ->
  forall o, In o u <-> (In o acc \/ UsedIn alg shallow ld used o).
Proof.
  induction used as [|[name value] r IH]; intros acc u H o; cbn [used_hashes] in H.
  - injection H as <-. split; [auto|]. intros [Hin|[v [[] _]]]; assumption.
  - destruct (list_N_eqb name alg) eqn:En; cbn [negb] in H.
    + apply list_N_eqb_spec in En. subst name.
      destruct (is_dir_oid value && negb shallow) eqn:Ed.
      * apply andb_true_iff in Ed as [Ed Es]. apply negb_true_iff in Es.
        destruct (ld value) as [l| |] eqn:El; try discriminate.
        rewrite (IH _ _ H o). split.
        -- intros [Hin|[v [Hv Hc]]].
           ++ apply in_app_or in Hin as [Hin|[Hin|Hin]].
              ** right. exists value. split; [now left|]. right. repeat split; auto. now exists l.
              ** right. exists value. split; [now left|]. now left.
              ** now left.
           ++ right. exists v. split; [now right|exact Hc].
        -- intros [Hin|[v [[Hv|Hv] Hc]]].
           ++ left. apply in_or_app. right. now right.
           ++ injection Hv as <-. left. destruct Hc as [->|[_ [_ [l' [El' Hin]]]]].
              ** apply in_or_app. right. now left.
              ** rewrite El in El'. injection El' as <-. apply in_or_app. now left.
           ++ right. exists v. split; assumption.
      * rewrite (IH _ _ H o). split.
        -- intros [[Hin|Hin]|[v [Hv Hc]]].
           ++ right. exists value. split; [now left|]. now left.
           ++ now left.
           ++ right. exists v. split; [now right|exact Hc].
        -- intros [Hin|[v [[Hv|Hv] Hc]]].
           ++ left. now right.
           ++ injection Hv as <-. destruct Hc as [->|[Hs [Hd _]]].
              ** left. now left.
              ** rewrite Hs, Hd in Ed. discriminate.
           ++ right. exists v. split; assumption.
    + assert (Hne : name <> alg).
      { intros ->. assert (list_N_eqb alg alg = true) by now apply list_N_eqb_spec. congruence. }
      rewrite (IH _ _ H o). split.
      * intros [Hin|[v [Hv Hc]]]; [now left|]. right. exists v. split; [now right|exact Hc].
      * intros [Hin|[v [[Hv|Hv] Hc]]]; [now left| |].
        -- injection Hv as Hn _. congruence.
        -- right. exists v. split; assumption.
Qed.

Lemma used_hashes_Used i u :
  used_hashes (g_alg i) (g_shallow i) (load (g_trees i)) (g_used i) [] = inr u ->
  forall o, In o u <-> Used i o.
Proof.
  intros H o. rewrite (used_hashes_spec _ _ _ _ _ _ H o). unfold Used, UsedIn. split.
  - intros [[]|H']; exact H'.
  - intros H'. now right.
Qed.

Lemma filter_length_split {A} (p : A -> bool) (l : list A) :
  (length (filter p l) + length (filter (fun x => negb (p x)) l) = length l)%nat.
Proof. induction l as [|a l IH]; simpl; [reflexivity|]. destruct (p a); simpl; lia. Qed.

(* --- the statements of C06 --- *)

Lemma gc_readonly i : g_ro i = true -> gc i = GcErr 1.
Proof. intros H. unfold gc. now rewrite H. Qed.

Lemma gc_errors i k : gc i = GcErr k ->
  (k = 1 /\ g_ro i = true) \/
  (g_ro i = false /\ g_shallow i = false /\ (k = 2 \/ k = 3)).
Proof.
  unfold gc. destruct (g_ro i); [intros H; injection H as <-; now left|].
  intros H. right. split; [reflexivity|].
  destruct (used_hashes _ _ _ _ _) as [k'|u] eqn:E; [|discriminate]. injection H as ->.
  revert E. generalize (@nil oid). induction (g_used i) as [|[name value] r IH]; intros acc E; cbn [used_hashes] in E.
  - discriminate.
  - destruct (negb (list_N_eqb name (g_alg i))); [now apply IH in E|].
    destruct (is_dir_oid value && negb (g_shallow i)) eqn:Ed; [|now apply IH in E].
    apply andb_true_iff in Ed as [_ Es]. apply negb_true_iff in Es.
    destruct (load (g_trees i) value); [now apply IH in E| |]; injection E as <-; auto.
Qed.

(* exactness: what is left is the store filtered by "used" (order and multiplicity
   preserved), the count is the number of store objects that are not used *)
Lemma gc_exact i n s' : gc i = GcOk n s' ->
  exists usedb : oid -> bool,
    (forall o, usedb o = true <-> Used i o) /\
    n = N.of_nat (length (filter (fun o => negb (usedb o)) (g_store i))) /\
    s' = (if g_dry i then g_store i else filter usedb (g_store i)).
Proof.
  unfold gc. destruct (g_ro i); [discriminate|].
  destruct (used_hashes _ _ _ _ _) as [k|u] eqn:E; [discriminate|].
  intros H. injection H as <- <-. exists (fun o => mem o u). split; [|split; reflexivity].
  intros o. rewrite mem_spec. now apply used_hashes_Used.
Qed.

Lemma gc_keeps i n s' o : gc i = GcOk n s' -> Used i o -> In o (g_store i) -> In o s'.
Proof.
  intros H Hu Hin. destruct (gc_exact _ _ _ H) as [ub [Hub [_ ->]]].
  destruct (g_dry i); [assumption|]. apply filter_In. split; [assumption|now apply Hub].
Qed.

Lemma gc_removes i n s' o : gc i = GcOk n s' -> g_dry i = false -> ~ Used i o -> ~ In o s'.
Proof.
  intros H Hd Hnu Hin. destruct (gc_exact _ _ _ H) as [ub [Hub [_ ->]]]. rewrite Hd in Hin.
  apply filter_In in Hin as [_ Hin]. now apply Hub in Hin.
Qed.

Lemma gc_no_invention i n s' o : gc i = GcOk n s' -> In o s' -> In o (g_store i).
Proof.
  intros H Hin. destruct (gc_exact _ _ _ H) as [ub [_ [_ ->]]].
  destruct (g_dry i); [assumption|]. now apply filter_In in Hin as [Hin _].
Qed.

Lemma gc_count i n s' : gc i = GcOk n s' -> g_dry i = false ->
  (N.to_nat n + length s' = length (g_store i))%nat.
Proof.
  intros H Hd. destruct (gc_exact _ _ _ H) as [ub [_ [-> ->]]]. rewrite Hd.
  rewrite Nnat.Nat2N.id. pose proof (filter_length_split ub (g_store i)). lia.
Qed.

Lemma gc_dry i n s' : gc i = GcOk n s' -> g_dry i = true -> s' = g_store i.
Proof.
  intros H Hd. destruct (gc_exact _ _ _ H) as [ub [_ [_ ->]]]. now rewrite Hd.
Qed.

(* dry and real runs report the same count *)
Lemma gc_dry_count i n s' n2 s2 :
  gc i = GcOk n s' ->
  gc {| g_store := g_store i; g_alg := g_alg i; g_ro := g_ro i; g_used := g_used i;
        g_trees := g_trees i; g_cache_alg := g_cache_alg i; g_shallow := g_shallow i;
        g_dry := negb (g_dry i) |} = GcOk n2 s2 ->
  n = n2.
Proof.
  unfold gc; cbn. destruct (g_ro i); [discriminate|].
  destruct (used_hashes _ _ _ _ _); [discriminate|]. intros H1 H2.
  injection H1 as <- _. injection H2 as <- _. reflexivity.
Qed.

(* --- the container in which `used` is handed over does not matter ---
   gc() takes Iterable[HashInfo]: a list, a set (any iteration order, duplicates collapsed),
   a generator.  Two inputs that differ only in g_used, with the same MEMBERS, that both
   succeed, give the same count and the same store. *)
Definition with_used (i : gc_in) (u : list (list N * oid)) : gc_in :=
  {| g_store := g_store i; g_alg := g_alg i; g_ro := g_ro i; g_used := u;
     g_trees := g_trees i; g_cache_alg := g_cache_alg i; g_shallow := g_shallow i; g_dry := g_dry i |}.

Lemma filter_ext_bool {A} (p q : A -> bool) (l : list A) :
  (forall x, p x = true <-> q x = true) -> filter p l = filter q l.
Proof.
  intros H. apply filter_ext. intros x. specialize (H x).
  destruct (p x), (q x); try reflexivity; destruct H as [H1 H2];
    [now specialize (H1 eq_refl)|now specialize (H2 eq_refl)].
Qed.

Lemma gc_used_set i u2 n1 s1 n2 s2 :
  (forall x, In x (g_used i) <-> In x u2) ->
  gc i = GcOk n1 s1 -> gc (with_used i u2) = GcOk n2 s2 -> n1 = n2 /\ s1 = s2.
Proof.
  intros Hm H1 H2.
  destruct (gc_exact _ _ _ H1) as [b1 [Hb1 [-> ->]]].
  destruct (gc_exact _ _ _ H2) as [b2 [Hb2 [-> ->]]]. cbn [with_used g_store g_dry].
  assert (Hbb : forall o, b1 o = true <-> b2 o = true).
  { intros o. rewrite Hb1, Hb2. unfold Used. cbn [with_used g_used g_alg g_shallow g_trees].
    split; intros [v [Hin Hc]]; exists v; (split; [now apply Hm|exact Hc]). }
  split.
  - f_equal. f_equal. apply filter_ext_bool. intros o. rewrite !negb_true_iff.
    specialize (Hbb o). destruct (b1 o), (b2 o); try tauto; destruct Hbb as [Ha Hb];
      [now specialize (Ha eq_refl)|now specialize (Hb eq_refl)].
  - destruct (g_dry i); [reflexivity|]. now apply filter_ext_bool.
Qed.

(* whether gc succeeds does not depend on the order either: it fails (not read-only) exactly
   when some used directory object of the store's algorithm cannot be loaded in expanding mode *)
Lemma used_hashes_fails alg shallow ld used : forall acc,
  (exists k, used_hashes alg shallow ld used acc = inl k) <->
  (shallow = false /\ exists v, In (alg, v) used /\ is_dir_oid v = true /\
                               (ld v = LoadMissing \/ ld v = LoadCorrupt)).
Proof.
  induction used as [|[name value] r IH]; intros acc; cbn [used_hashes].
  - split; [intros [k H]; discriminate|intros [_ [v [[] _]]]].
  - destruct (list_N_eqb name alg) eqn:En; cbn [negb].
    + apply list_N_eqb_spec in En. subst name.
      destruct (is_dir_oid value && negb shallow) eqn:Ed.
      * apply andb_true_iff in Ed as [Ed Es]. apply negb_true_iff in Es.
        destruct (ld value) as [l| |] eqn:El.
        -- rewrite IH. split.
           ++ intros [Hs [v [Hin Hv]]]. split; [exact Hs|]. exists v. split; [now right|exact Hv].
           ++ intros [Hs [v [[Hin|Hin] [Hd Hl]]]].
              ** injection Hin as <-. rewrite El in Hl. destruct Hl; discriminate.
              ** split; [exact Hs|]. exists v. auto.
        -- split; [|intros _; now exists 2].
           intros _. split; [exact Es|]. exists value. split; [now left|]. auto.
        -- split; [|intros _; now exists 3].
           intros _. split; [exact Es|]. exists value. split; [now left|]. auto.
      * rewrite IH. split.
        -- intros [Hs [v [Hin Hv]]]. split; [exact Hs|]. exists v. split; [now right|exact Hv].
        -- intros [Hs [v [[Hin|Hin] [Hd Hl]]]].
           ++ injection Hin as <-. rewrite Hd, Hs in Ed. discriminate.
           ++ split; [exact Hs|]. exists v. auto.
    + assert (Hne : name <> alg).
      { intros ->. assert (list_N_eqb alg alg = true) by now apply list_N_eqb_spec. congruence. }
      rewrite IH. split.
      * intros [Hs [v [Hin Hv]]]. split; [exact Hs|]. exists v. split; [now right|exact Hv].
      * intros [Hs [v [[Hin|Hin] Hv]]].
        -- injection Hin as Hn _. congruence.
        -- split; [exact Hs|]. exists v. auto.
Qed.

Definition LoadFails (i : gc_in) : Prop :=
  g_shallow i = false /\ exists v, In (g_alg i, v) (g_used i) /\ is_dir_oid v = true /\
    (load (g_trees i) v = LoadMissing \/ load (g_trees i) v = LoadCorrupt).

Lemma gc_ok_iff i : (exists n s', gc i = GcOk n s') <-> (g_ro i = false /\ ~ LoadFails i).
Proof.
  unfold gc, LoadFails. destruct (g_ro i).
  - split; [intros [n [s' H]]; discriminate|intros [H _]; discriminate].
  - pose proof (used_hashes_fails (g_alg i) (g_shallow i) (load (g_trees i)) (g_used i) []) as Hf.
    destruct (used_hashes _ _ _ _ _) as [k|u].
    + split; [intros [n [s' H]]; discriminate|].
      intros [_ Hn]. exfalso. apply Hn. apply Hf. now exists k.
    + split; [|intros _; eauto].
      intros _. split; [reflexivity|]. intros Hl. apply Hf in Hl as [k Hk]. discriminate.
Qed.

Lemma gc_ok_used_set i u2 :
  (forall x, In x (g_used i) <-> In x u2) ->
  (exists n s', gc i = GcOk n s') <-> (exists n s', gc (with_used i u2) = GcOk n s').
Proof.
  intros Hm. rewrite !gc_ok_iff. unfold LoadFails. cbn [with_used g_ro g_shallow g_alg g_used g_trees].
  split; intros [Hr Hn]; (split; [exact Hr|]); intros [Hs [v [Hin Hv]]]; apply Hn;
    (split; [exact Hs|]); exists v; (split; [now apply Hm|exact Hv]).
Qed.

(* --- the size of the store does not matter ---
   The decision on an object depends on the object and on `used`, never on the rest of the
   store: gc over a store s1 ++ s2 is gc over s1 and gc over s2 put together (counts add, the
   remaining stores concatenate).  In particular any paging / batching of the scan at any
   size is sound with respect to the model, and there is no threshold in it. *)
Definition with_store (i : gc_in) (s : list oid) : gc_in :=
  {| g_store := s; g_alg := g_alg i; g_ro := g_ro i; g_used := g_used i;
     g_trees := g_trees i; g_cache_alg := g_cache_alg i; g_shallow := g_shallow i; g_dry := g_dry i |}.

Lemma gc_store_app i s1 s2 n s' :
  g_store i = s1 ++ s2 -> gc i = GcOk n s' ->
  exists n1 k1 n2 k2,
    gc (with_store i s1) = GcOk n1 k1 /\ gc (with_store i s2) = GcOk n2 k2 /\
    n = n1 + n2 /\ s' = k1 ++ k2.
Proof.
  unfold gc. cbn [with_store g_store g_alg g_ro g_used g_trees g_shallow g_dry].
  intros Hs. rewrite Hs. destruct (g_ro i); [discriminate|].
  destruct (used_hashes _ _ _ _ _) as [k|u]; [discriminate|].
  intros H. injection H as <- <-. do 4 eexists. split; [reflexivity|]. split; [reflexivity|].
  rewrite !filter_app, app_length. split; [lia|]. now destruct (g_dry i).
Qed.

(* --- the algorithm of cache_odb does not matter ---
   Which identifiers count as used is decided by the algorithm of the store being collected;
   cache_odb (omitted / same algorithm / another algorithm) only supplies the listings.  Two
   inputs that differ only in the cache's algorithm name have the same result, and an id
   whose name is the cache's but not the store's algorithm protects nothing (gc_other_alg). *)
Definition with_cache_alg (i : gc_in) (a : option (list N)) : gc_in :=
  {| g_store := g_store i; g_alg := g_alg i; g_ro := g_ro i; g_used := g_used i;
     g_trees := g_trees i; g_cache_alg := a; g_shallow := g_shallow i; g_dry := g_dry i |}.

Lemma gc_cache_alg_irrelevant i a : gc (with_cache_alg i a) = gc i.
Proof. reflexivity. Qed.

(* the used ids of another algorithm than the collected store's (in particular the cache's)
   can be dropped from `used` without changing anything, error kinds included *)
Lemma used_hashes_other_alg alg shallow ld used : forall acc,
  used_hashes alg shallow ld (filter (fun p => list_N_eqb (fst p) alg) used) acc
  = used_hashes alg shallow ld used acc.
Proof.
  induction used as [|[name value] r IH]; intros acc; [reflexivity|].
  cbn [filter fst]. destruct (list_N_eqb name alg) eqn:En.
  - cbn [used_hashes]. rewrite En. cbn [negb].
    destruct (is_dir_oid value && negb shallow); [|apply IH].
    destruct (ld value); [apply IH|reflexivity|reflexivity].
  - cbn [used_hashes]. rewrite En. cbn [negb]. apply IH.
Qed.

Lemma gc_other_alg i :
  gc (with_used i (filter (fun p => list_N_eqb (fst p) (g_alg i)) (g_used i))) = gc i.
Proof.
  unfold gc. cbn [with_used g_store g_alg g_ro g_used g_trees g_shallow g_dry].
  now rewrite used_hashes_other_alg.
Qed.

(* non-vacuity: a concrete store where everything interesting happens *)
Definition ex_dir : oid := [97; 97] ++ dot_dir.
Definition ex_in (shallow dry : bool) : gc_in :=
  {| g_store := [[1;1]; [2;2]; ex_dir; [3;3]; [4;4] ++ dot_dir];
     g_alg := [109]; g_ro := false;
     g_used := [([109], ex_dir); ([120], [3;3]); ([109], [9;9])];
     g_trees := [(ex_dir, Some [[1;1]; [7;7]])]; g_cache_alg := None;
     g_shallow := shallow; g_dry := dry |}.
Example gc_example_expand : gc (ex_in false false) = GcOk 3 [[1;1]; ex_dir].
Proof. vm_compute. reflexivity. Qed.
Example gc_example_shallow : gc (ex_in true false) = GcOk 4 [ex_dir].
Proof. vm_compute. reflexivity. Qed.
Example gc_example_dry : gc (ex_in false true) = GcOk 3 (g_store (ex_in false true)).
Proof. vm_compute. reflexivity. Qed.

(* non-vacuity of the container / size statements *)
Definition ex_used2 : list (list N * oid) :=
  [([109], [9;9]); ([109], ex_dir); ([120], [3;3]); ([109], ex_dir)].   (* reordered, a duplicate *)
Example gc_example_used_set :
  (forall x, In x (g_used (ex_in false false)) <-> In x ex_used2) /\
  gc (with_used (ex_in false false) ex_used2) = GcOk 3 [[1;1]; ex_dir].
Proof.
  split; [|vm_compute; reflexivity].
  intros x. unfold ex_used2. cbn [ex_in g_used In]. tauto.
Qed.
Example gc_example_store_app :
  g_store (ex_in false true) = [[1;1]; [2;2]] ++ [ex_dir; [3;3]; [4;4] ++ dot_dir] /\
  gc (with_store (ex_in false true) [[1;1]; [2;2]]) = GcOk 1 [[1;1]; [2;2]] /\
  gc (with_store (ex_in false true) [ex_dir; [3;3]; [4;4] ++ dot_dir])
    = GcOk 2 [ex_dir; [3;3]; [4;4] ++ dot_dir].
Proof. repeat split; vm_compute; reflexivity. Qed.
Example gc_example_load_fails :
  LoadFails (with_used (ex_in false false) [([109], [4;4] ++ dot_dir)]) /\
  gc (with_used (ex_in false false) [([109], [4;4] ++ dot_dir)]) = GcErr 2.
Proof.
  split; [|vm_compute; reflexivity]. split; [reflexivity|]. exists ([4;4] ++ dot_dir).
  split; [now left|]. split; [vm_compute; reflexivity|]. left. vm_compute. reflexivity.
Qed.

(* the literal helper of the harness: "0016fe09121c5befad0e28f817995156" (leading zeros kept) *)
Example oid_hex32_example : oid_hex32 0x0016fe09121c5befad0e28f817995156 =
  [48;48;49;54;102;101;48;57;49;50;49;99;53;98;101;102;97;100;48;101;50;56;102;56;49;55;57;57;53;49;53;54].
Proof. vm_compute. reflexivity. Qed.

(* mixed algorithms: an md5-dos2unix ("x") cache beside an "m" store; the id of the cache's
   algorithm protects nothing, the ids of the store's algorithm do *)
Example gc_example_cache_alg :
  gc (with_cache_alg (ex_in false false) (Some [120])) = GcOk 3 [[1;1]; ex_dir] /\
  filter (fun p => list_N_eqb (fst p) [109]) (g_used (ex_in false false)) = [([109], ex_dir); ([109], [9;9])].
Proof. split; vm_compute; reflexivity. Qed.
