From Coq Require Import NArith List Bool Lia.
From DvcData Require Import Base.Val Model.Gc.
Import ListNotations.
Open Scope N_scope.

Lemma mem_spec o l : mem o l = true <-> In o l.
Proof.
  unfold mem. rewrite existsb_exists. split.
  - intros [x [Hin Heq]]. apply list_N_eqb_spec in Heq. now subst.
  - intros Hin. exists o. split; [assumption | now apply list_N_eqb_spec].
Qed.

(* The specification of "used": independent of the accumulator loop. *)
Definition Used (i : gc_in) (o : oid) : Prop :=
  exists value, In (g_alg i, value) (g_used i) /\
    (o = value \/
     (g_shallow i = false /\ is_dir_oid value = true /\
      exists l, load (g_trees i) value = LoadOk l /\ In o l)).

Definition UsedIn alg shallow ld (used : list (list N * oid)) (o : oid) : Prop :=
  exists value, In (alg, value) used /\
    (o = value \/
     (shallow = false /\ is_dir_oid value = true /\ exists l, ld value = LoadOk l /\ In o l)).

Lemma used_hashes_spec alg shallow ld used : forall acc u,
  used_hashes alg shallow ld used acc = inr u ->
  forall o, In o u <-> (In o acc \/ UsedIn alg shallow ld used o).
Proof.
  induction used as [|[name value] r IH]; intros acc u H o; cbn [used_hashes] in H.
  - injection H as <-. split; [auto|]. intros [Hin|[v [[] _]]]; assumption.
  - destruct (list_N_eqb name alg) eqn:En; cbn [negb] in H.
    + apply list_N_eqb_spec in En. subst name.
      destruct (is_dir_oid value && negb shallow) eqn:Ed.
      * apply andb_true_iff in Ed as [Ed Es]. apply negb_true_iff in Es.
        destruct (ld value) as [l| |] eqn:El; try discriminate.
        rewrite (IH _ _ H o). split.
        -- intros [Hin|[v [Hv Hc]]].
           ++ apply in_app_or in Hin as [Hin|[Hin|Hin]].
              ** right. exists value. split; [now left|]. right. repeat split; auto. now exists l.
              ** right. exists value. split; [now left|]. now left.
              ** now left.
           ++ right. exists v. split; [now right|exact Hc].
        -- intros [Hin|[v [[Hv|Hv] Hc]]].
           ++ left. apply in_or_app. right. now right.
           ++ injection Hv as <-. left. destruct Hc as [->|[_ [_ [l' [El' Hin]]]]].
              ** apply in_or_app. right. now left.
              ** rewrite El in El'. injection El' as <-. apply in_or_app. now left.
           ++ right. exists v. split; assumption.
      * rewrite (IH _ _ H o). split.
        -- intros [[Hin|Hin]|[v [Hv Hc]]].
           ++ right. exists value. split; [now left|]. now left.
           ++ now left.
           ++ right. exists v. split; [now right|exact Hc].
        -- intros [Hin|[v [[Hv|Hv] Hc]]].
           ++ left. now right.
           ++ injection Hv as <-. destruct Hc as [->|[Hs [Hd _]]].
              ** left. now left.
              ** rewrite Hs, Hd in Ed. discriminate.
           ++ right. exists v. split; assumption.
    + assert (Hne : name <> alg).
      { intros ->. assert (list_N_eqb alg alg = true) by now apply list_N_eqb_spec. congruence. }
      rewrite (IH _ _ H o). split.
      * intros [Hin|[v [Hv Hc]]]; [now left|]. right. exists v. split; [now right|exact Hc].
      * intros [Hin|[v [[Hv|Hv] Hc]]]; [now left| |].
        -- injection Hv as Hn _. congruence.
        -- right. exists v. split; assumption.
Qed.

Lemma used_hashes_Used i u :
  used_hashes (g_alg i) (g_shallow i) (load (g_trees i)) (g_used i) [] = inr u ->
  forall o, In o u <-> Used i o.
Proof.
  intros H o. rewrite (used_hashes_spec _ _ _ _ _ _ H o). unfold Used, UsedIn. split.
  - intros [[]|H']; exact H'.
  - intros H'. now right.
Qed.

Lemma filter_length_split {A} (p : A -> bool) (l : list A) :
  (length (filter p l) + length (filter (fun x => negb (p x)) l) = length l)%nat.
Proof. induction l as [|a l IH]; simpl; [reflexivity|]. destruct (p a); simpl; lia. Qed.

(* --- the statements of C06 --- *)

Lemma gc_readonly i : g_ro i = true -> gc i = GcErr 1.
Proof. intros H. unfold gc. now rewrite H. Qed.

Lemma gc_errors i k : gc i = GcErr k ->
  (k = 1 /\ g_ro i = true) \/
  (g_ro i = false /\ g_shallow i = false /\ (k = 2 \/ k = 3)).
Proof.
  unfold gc. destruct (g_ro i); [intros H; injection H as <-; now left|].
  intros H. right. split; [reflexivity|].
  destruct (used_hashes _ _ _ _ _) as [k'|u] eqn:E; [|discriminate]. injection H as ->.
  revert E. generalize (@nil oid). induction (g_used i) as [|[name value] r IH]; intros acc E; cbn [used_hashes] in E.
  - discriminate.
  - destruct (negb (list_N_eqb name (g_alg i))); [now apply IH in E|].
    destruct (is_dir_oid value && negb (g_shallow i)) eqn:Ed; [|now apply IH in E].
    apply andb_true_iff in Ed as [_ Es]. apply negb_true_iff in Es.
    destruct (load (g_trees i) value); [now apply IH in E| |]; injection E as <-; auto.
Qed.

(* exactness: what is left is the store filtered by "used" (order and multiplicity
   preserved), the count is the number of store objects that are not used *)
Lemma gc_exact i n s' : gc i = GcOk n s' ->
  exists usedb : oid -> bool,
    (forall o, usedb o = true <-> Used i o) /\
    n = N.of_nat (length (filter (fun o => negb (usedb o)) (g_store i))) /\
    s' = (if g_dry i then g_store i else filter usedb (g_store i)).
Proof.
  unfold gc. destruct (g_ro i); [discriminate|].
  destruct (used_hashes _ _ _ _ _) as [k|u] eqn:E; [discriminate|].
  intros H. injection H as <- <-. exists (fun o => mem o u). split; [|split; reflexivity].
  intros o. rewrite mem_spec. now apply used_hashes_Used.
Qed.

Lemma gc_keeps i n s' o : gc i = GcOk n s' -> Used i o -> In o (g_store i) -> In o s'.
Proof.
  intros H Hu Hin. destruct (gc_exact _ _ _ H) as [ub [Hub [_ ->]]].
  destruct (g_dry i); [assumption|]. apply filter_In. split; [assumption|now apply Hub].
Qed.

Lemma gc_removes i n s' o : gc i = GcOk n s' -> g_dry i = false -> ~ Used i o -> ~ In o s'.
Proof.
  intros H Hd Hnu Hin. destruct (gc_exact _ _ _ H) as [ub [Hub [_ ->]]]. rewrite Hd in Hin.
  apply filter_In in Hin as [_ Hin]. now apply Hub in Hin.
Qed.

Lemma gc_no_invention i n s' o : gc i = GcOk n s' -> In o s' -> In o (g_store i).
Proof.
  intros H Hin. destruct (gc_exact _ _ _ H) as [ub [_ [_ ->]]].
  destruct (g_dry i); [assumption|]. now apply filter_In in Hin as [Hin _].
Qed.

Lemma gc_count i n s' : gc i = GcOk n s' -> g_dry i = false ->
  (N.to_nat n + length s' = length (g_store i))%nat.
Proof.
  intros H Hd. destruct (gc_exact _ _ _ H) as [ub [_ [-> ->]]]. rewrite Hd.
  rewrite Nnat.Nat2N.id. pose proof (filter_length_split ub (g_store i)). lia.
Qed.

Lemma gc_dry i n s' : gc i = GcOk n s' -> g_dry i = true -> s' = g_store i.
Proof.
  intros H Hd. destruct (gc_exact _ _ _ H) as [ub [_ [_ ->]]]. now rewrite Hd.
Qed.

(* dry and real runs report the same count *)
Lemma gc_dry_count i n s' n2 s2 :
  gc i = GcOk n s' ->
  gc {| g_store := g_store i; g_alg := g_alg i; g_ro := g_ro i; g_used := g_used i;
        g_trees := g_trees i; g_shallow := g_shallow i; g_dry := negb (g_dry i) |} = GcOk n2 s2 ->
  n = n2.
Proof.
  unfold gc; cbn. destruct (g_ro i); [discriminate|].
  destruct (used_hashes _ _ _ _ _); [discriminate|]. intros H1 H2.
  injection H1 as <- _. injection H2 as <- _. reflexivity.
Qed.

(* non-vacuity: a concrete store where everything interesting happens *)
Definition ex_dir : oid := [97; 97] ++ dot_dir.
Definition ex_in (shallow dry : bool) : gc_in :=
  {| g_store := [[1;1]; [2;2]; ex_dir; [3;3]; [4;4] ++ dot_dir];
     g_alg := [109]; g_ro := false;
     g_used := [([109], ex_dir); ([120], [3;3]); ([109], [9;9])];
     g_trees := [(ex_dir, Some [[1;1]; [7;7]])];
     g_shallow := shallow; g_dry := dry |}.
Example gc_example_expand : gc (ex_in false false) = GcOk 3 [[1;1]; ex_dir].
Proof. vm_compute. reflexivity. Qed.
Example gc_example_shallow : gc (ex_in true false) = GcOk 4 [ex_dir].
Proof. vm_compute. reflexivity. Qed.
Example gc_example_dry : gc (ex_in false true) = GcOk 3 (g_store (ex_in false true)).
Proof. vm_compute. reflexivity. Qed.
