From Coq Require Import NArith List Bool Lia ZifyNat ZifyN.
From DvcData Require Import Base.Val Base.PyBase Gen.GcDecisions Model.Gc.
Import ListNotations.
Open Scope N_scope.

Lemma mem_spec o l : mem o l = true <-> In o l.
Proof.
  unfold mem. rewrite existsb_exists. split.
  - intros [x [Hin Heq]]. apply list_N_eqb_spec in Heq. now subst.
  - intros Hin. exists o. split; [assumption | now apply list_N_eqb_spec].
Qed.

(* ============================================================================================
   The model (Model/Gc.v: gc) is assembled from the decisions GENERATED from gc.py
   (Gen/GcDecisions.v).  This block ties them to the flat, hand-written reading of gc() that
   every theorem below is proved about.  All of it is recomputed against the regenerated file
   on every run: an edit of gc() that survives the fail-closed shape check changes a generated
   definition, and the corresponding tie lemma / gc_eq stops compiling.
   ============================================================================================ *)

(* --- tie lemmas: each generated decision is the one the flat model makes --- *)
Lemma tie_read_only_guard ro dry sh : GcDecisions.read_only_refused ro dry sh = ro.
Proof. reflexivity. Qed.   (* tested on odb.read_only alone: independent of dry / shallow *)
Lemma tie_guard_first : hd_error GcDecisions.phases = Some GcDecisions.PhGuard.
Proof. reflexivity. Qed.
Lemma tie_phases : GcDecisions.phases =
  [GcDecisions.PhGuard; GcDecisions.PhCacheDefault; GcDecisions.PhUsed; GcDecisions.PhIsDirHelper;
   GcDecisions.PhScan; GcDecisions.PhRemove; GcDecisions.PhReturn].
Proof. reflexivity. Qed.
(* the algorithm filter compares with the COLLECTED store's hash_name, not with cache_odb's *)
Lemma tie_used_skip name alg calg dry sh :
  GcDecisions.used_skip name alg calg dry sh = negb (list_N_eqb name alg).
Proof. reflexivity. Qed.
Lemma tie_expand isdir dry sh : GcDecisions.expand isdir dry sh = isdir && negb sh.
Proof. reflexivity. Qed.
Lemma tie_tree_source : GcDecisions.tree_source = GcDecisions.FromCache.   (* Tree.load(cache_odb, ...) *)
Proof. reflexivity. Qed.
Lemma tie_scan_source : GcDecisions.scan_source = GcDecisions.ScanOdb.     (* odb.all() *)
Proof. reflexivity. Qed.
Lemma tie_scan_skip b dry sh : GcDecisions.scan_skip b dry sh = b.          (* oid in used_hashes => skip *)
Proof. reflexivity. Qed.
Lemma tie_scan_target d dry sh :
  GcDecisions.scan_target d dry sh = if d then GcDecisions.DirPaths else GcDecisions.FilePaths.
Proof. reflexivity. Qed.
Lemma tie_removal_lists : GcDecisions.removal_lists = [GcDecisions.DirPaths; GcDecisions.FilePaths].
Proof. reflexivity. Qed.
Lemma tie_counted ne dry sh : GcDecisions.counted ne dry sh = ne.           (* counted dry or not *)
Proof. reflexivity. Qed.
Lemma tie_removed ne dry sh : GcDecisions.removed ne dry sh = ne && negb dry.  (* BOTH lists: not dry *)
Proof. reflexivity. Qed.
Lemma tie_defaults : GcDecisions.default_shallow = true /\ GcDecisions.default_dry = false.
Proof. split; reflexivity. Qed.
Lemma tie_dir_suffix : GcDecisions.dir_suffix = dot_dir.
Proof. reflexivity. Qed.
Lemma is_dir_oid_spec o : is_dir_oid o = ends_with o dot_dir.
Proof. destruct o; reflexivity. Qed.
Lemma is_dir_hash_spec o : GcDecisions.is_dir_hash o = is_dir_oid o.   (* scan test = HashInfo.isdir *)
Proof. destruct o; reflexivity. Qed.

(* --- the flat reading of gc() (the hand-written model of the earlier rounds) --- *)
Fixpoint used_hashes_flat (alg : list N) (shallow : bool) (ld : oid -> load_res)
         (used : list (list N * oid)) (acc : list oid) : N + list oid :=
  match used with
  | [] => inr acc
  | (name, value) :: r =>
      if negb (list_N_eqb name alg) then used_hashes_flat alg shallow ld r acc
      else
        let acc1 := value :: acc in
        if is_dir_oid value && negb shallow then
          match ld value with
          | LoadOk l => used_hashes_flat alg shallow ld r (l ++ acc1)
          | LoadMissing => inl 2
          | LoadCorrupt => inl 3
          end
        else used_hashes_flat alg shallow ld r acc1
  end.

Definition gc_flat (i : gc_in) : gc_out :=
  if g_ro i then GcErr 1 else
  match used_hashes_flat (g_alg i) (g_shallow i) (load (g_trees i)) (g_used i) [] with
  | inl k => GcErr k
  | inr u =>
      let unused := filter (fun o => negb (mem o u)) (g_store i) in
      let kept := filter (fun o => mem o u) (g_store i) in
      GcOk (N.of_nat (length unused)) (if g_dry i then g_store i else kept)
  end.

Lemma used_hashes_eq alg calg sh dry ld used : forall acc,
  used_hashes alg calg sh dry ld used acc = used_hashes_flat alg sh ld used acc.
Proof.
  induction used as [|[name value] r IH]; intros acc; [reflexivity|].
  cbn [used_hashes used_hashes_flat]. rewrite tie_used_skip, tie_expand.
  destruct (negb (list_N_eqb name alg)); [apply IH|].
  destruct (is_dir_oid value && negb sh); [|apply IH].
  destruct (ld value); [apply IH|reflexivity|reflexivity].
Qed.

Lemma bool_eq_iff (a b : bool) : (a = true <-> b = true) -> a = b.
Proof. destruct a, b; intros [H1 H2]; try reflexivity; [now specialize (H1 eq_refl)|now specialize (H2 eq_refl)]. Qed.

Lemma filter_all_true {A} (l : list A) : filter (fun _ => true) l = l.
Proof. induction l as [|a l IH]; cbn; [reflexivity|now rewrite IH]. Qed.

Lemma filter_split_length {A} (p : A -> bool) (l : list A) :
  (length (filter p l) + length (filter (fun x => negb (p x)) l) = length l)%nat.
Proof. induction l as [|a l IH]; simpl; [reflexivity|]. destruct (p a); simpl; lia. Qed.

Lemma count_step (l : list oid) a :
  (if GcDecisions.nonempty l then a + N.of_nat (length l) else a) = a + N.of_nat (length l).
Proof. destruct l; cbn [GcDecisions.nonempty PyBase.truthy_list PyBase.is_nil negb length]; [|reflexivity]. cbn. lia. Qed.

Lemma in_nonempty {A} (x : A) l : In x l -> GcDecisions.nonempty l = true.
Proof. destruct l; [intros []|reflexivity]. Qed.

(* gc, assembled from the generated decisions, IS the flat function *)
Lemma gc_eq i : gc i = gc_flat i.
Proof.
  unfold gc, gc_flat. rewrite tie_read_only_guard, used_hashes_eq.
  destruct (g_ro i); [reflexivity|].
  destruct (used_hashes_flat _ _ _ _ _) as [k|u]; [reflexivity|].
  rewrite tie_removal_lists. cbn [map pick_paths fold_left].
  set (unused := filter (fun o => negb (GcDecisions.scan_skip (mem o u) (g_dry i) (g_shallow i))) (g_store i)).
  set (to_dirs := fun o : oid => match GcDecisions.scan_target (GcDecisions.is_dir_hash o) (g_dry i) (g_shallow i) with
                                 | GcDecisions.DirPaths => true | GcDecisions.FilePaths => false end).
  set (dirs := filter to_dirs unused). set (files := filter (fun o => negb (to_dirs o)) unused).
  f_equal.
  - rewrite !tie_counted, !count_step.
    pose proof (filter_split_length to_dirs unused) as Hl. fold dirs files in Hl.
    change (0 + N.of_nat (length dirs) + N.of_nat (length files) = N.of_nat (length unused)).
    lia.
  - destruct (g_dry i) eqn:Ed.
    + etransitivity; [|apply filter_all_true]. apply filter_ext_in. intros x Hx.
      cbn [existsb]. rewrite !tie_removed. cbn [negb]. now rewrite !andb_false_r.
    + apply filter_ext_in. intros x Hx.
      cbn [existsb]. rewrite !tie_removed, tie_scan_skip, orb_false_r. cbn [negb].
      rewrite !andb_true_r. destruct (mem x u) eqn:Em; [reflexivity|]. cbn [negb andb].
      assert (Hun : In x unused).
      { subst unused. apply filter_In. split; [exact Hx|]. now rewrite tie_scan_skip, Em. }
      destruct (to_dirs x) eqn:Et.
      * assert (Hd : In x dirs) by (subst dirs; apply filter_In; split; assumption).
        unfold to_dirs in Et. destruct (GcDecisions.scan_target _ _ _); [|discriminate].
        cbn [paths_list_eqb pick_paths andb orb].
        change (negb (GcDecisions.nonempty dirs || false) = false). now rewrite (in_nonempty _ _ Hd).
      * assert (Hf : In x files) by (subst files; apply filter_In; split; [assumption|now rewrite Et]).
        unfold to_dirs in Et. destruct (GcDecisions.scan_target _ _ _); [discriminate|].
        cbn [paths_list_eqb pick_paths andb orb].
        change (negb (GcDecisions.nonempty files) = false). now rewrite (in_nonempty _ _ Hf).
Qed.

(* all source decisions in one statement (Properties/C06.v: C06_generated_decisions) *)
Lemma gc_generated_decisions :
  (* the read-only guard is the first statement and looks at odb.read_only only (not at dry) *)
  hd_error GcDecisions.phases = Some GcDecisions.PhGuard /\
  (forall ro dry sh, GcDecisions.read_only_refused ro dry sh = ro) /\
  (* the algorithm filter compares hash_info.name with the COLLECTED store's hash_name *)
  (forall name alg calg dry sh, GcDecisions.used_skip name alg calg dry sh = negb (list_N_eqb name alg)) /\
  (* expansion: isdir and not shallow, listings loaded from cache_odb *)
  (forall isdir dry sh, GcDecisions.expand isdir dry sh = isdir && negb sh) /\
  GcDecisions.tree_source = GcDecisions.FromCache /\
  (* the scan walks the collected store, skips exactly the used ids, partitions by the .dir suffix *)
  GcDecisions.scan_source = GcDecisions.ScanOdb /\
  (forall b dry sh, GcDecisions.scan_skip b dry sh = b) /\
  (forall d dry sh, GcDecisions.scan_target d dry sh = if d then GcDecisions.DirPaths else GcDecisions.FilePaths) /\
  GcDecisions.dir_suffix = dot_dir /\
  (* both lists are counted when non-empty, dry or not, and removed only when not dry *)
  GcDecisions.removal_lists = [GcDecisions.DirPaths; GcDecisions.FilePaths] /\
  (forall ne dry sh, GcDecisions.counted ne dry sh = ne) /\
  (forall ne dry sh, GcDecisions.removed ne dry sh = ne && negb dry) /\
  (* defaults of the keyword parameters *)
  GcDecisions.default_shallow = true /\ GcDecisions.default_dry = false.
Proof. repeat split. Qed.

(* The specification of "used": independent of the accumulator loop. *)
Definition Used (i : gc_in) (o : oid) : Prop :=
  exists value, In (g_alg i, value) (g_used i) /\
    (o = value \/
     (g_shallow i = false /\ is_dir_oid value = true /\
      exists l, load (g_trees i) value = LoadOk l /\ In o l)).

Definition UsedIn alg shallow ld (used : list (list N * oid)) (o : oid) : Prop :=
  exists value, In (alg, value) used /\
    (o = value \/
     (shallow = false /\ is_dir_oid value = true /\ exists l, ld value = LoadOk l /\ In o l)).

Lemma used_hashes_spec alg shallow ld used : forall acc u,
  used_hashes_flat alg shallow ld used acc = inr u ->
  forall o, In o u <-> (In o acc \/ UsedIn alg shallow ld used o).
Proof.
  induction used as [|[name value] r IH]; intros acc u H o; cbn [used_hashes_flat] in H.
  - injection H as <-. split; [auto|]. intros [Hin|[v [[] _]]]; assumption.
  - destruct (list_N_eqb name alg) eqn:En; cbn [negb] in H.
    + apply list_N_eqb_spec in En. subst name.
      destruct (is_dir_oid value && negb shallow) eqn:Ed.
      * apply andb_true_iff in Ed as [Ed Es]. apply negb_true_iff in Es.
        destruct (ld value) as [l| |] eqn:El; try discriminate.
        rewrite (IH _ _ H o). split.
        -- intros [Hin|[v [Hv Hc]]].
           ++ apply in_app_or in Hin as [Hin|[Hin|Hin]].
              ** right. exists value. split; [now left|]. right. repeat split; auto. now exists l.
              ** right. exists value. split; [now left|]. now left.
              ** now left.
           ++ right. exists v. split; [now right|exact Hc].
        -- intros [Hin|[v [[Hv|Hv] Hc]]].
           ++ left. apply in_or_app. right. now right.
           ++ injection Hv as <-. left. destruct Hc as [->|[_ [_ [l' [El' Hin]]]]].
              ** apply in_or_app. right. now left.
              ** rewrite El in El'. injection El' as <-. apply in_or_app. now left.
           ++ right. exists v. split; assumption.
      * rewrite (IH _ _ H o). split.
        -- intros [[Hin|Hin]|[v [Hv Hc]]].
           ++ right. exists value. split; [now left|]. now left.
           ++ now left.
           ++ right. exists v. split; [now right|exact Hc].
        -- intros [Hin|[v [[Hv|Hv] Hc]]].
           ++ left. now right.
           ++ injection Hv as <-. destruct Hc as [->|[Hs [Hd _]]].
              ** left. now left.
              ** rewrite Hs, Hd in Ed. discriminate.
           ++ right. exists v. split; assumption.
    + assert (Hne : name <> alg).
      { intros ->. assert (list_N_eqb alg alg = true) by now apply list_N_eqb_spec. congruence. }
      rewrite (IH _ _ H o). split.
      * intros [Hin|[v [Hv Hc]]]; [now left|]. right. exists v. split; [now right|exact Hc].
      * intros [Hin|[v [[Hv|Hv] Hc]]]; [now left| |].
        -- injection Hv as Hn _. congruence.
        -- right. exists v. split; assumption.
Qed.

Lemma used_hashes_Used i u :
  used_hashes_flat (g_alg i) (g_shallow i) (load (g_trees i)) (g_used i) [] = inr u ->
  forall o, In o u <-> Used i o.
Proof.
  intros H o. rewrite (used_hashes_spec _ _ _ _ _ _ H o). unfold Used, UsedIn. split.
  - intros [[]|H']; exact H'.
  - intros H'. now right.
Qed.

Lemma filter_length_split {A} (p : A -> bool) (l : list A) :
  (length (filter p l) + length (filter (fun x => negb (p x)) l) = length l)%nat.
Proof. induction l as [|a l IH]; simpl; [reflexivity|]. destruct (p a); simpl; lia. Qed.

(* --- the statements of C06 --- *)

Lemma gc_readonly i : g_ro i = true -> gc i = GcErr 1.
Proof. intros H. rewrite gc_eq. unfold gc_flat. now rewrite H. Qed.

Lemma gc_errors i k : gc i = GcErr k ->
  (k = 1 /\ g_ro i = true) \/
  (g_ro i = false /\ g_shallow i = false /\ (k = 2 \/ k = 3)).
Proof.
  rewrite gc_eq. unfold gc_flat. destruct (g_ro i); [intros H; injection H as <-; now left|].
  intros H. right. split; [reflexivity|].
  destruct (used_hashes_flat _ _ _ _ _) as [k'|u] eqn:E; [|discriminate]. injection H as ->.
  revert E. generalize (@nil oid). induction (g_used i) as [|[name value] r IH]; intros acc E; cbn [used_hashes_flat] in E.
  - discriminate.
  - destruct (negb (list_N_eqb name (g_alg i))); [now apply IH in E|].
    destruct (is_dir_oid value && negb (g_shallow i)) eqn:Ed; [|now apply IH in E].
    apply andb_true_iff in Ed as [_ Es]. apply negb_true_iff in Es.
    destruct (load (g_trees i) value); [now apply IH in E| |]; injection E as <-; auto.
Qed.

(* exactness: what is left is the store filtered by "used" (order and multiplicity
   preserved), the count is the number of store objects that are not used *)
Lemma gc_exact i n s' : gc i = GcOk n s' ->
  exists usedb : oid -> bool,
    (forall o, usedb o = true <-> Used i o) /\
    n = N.of_nat (length (filter (fun o => negb (usedb o)) (g_store i))) /\
    s' = (if g_dry i then g_store i else filter usedb (g_store i)).
Proof.
  rewrite gc_eq. unfold gc_flat. destruct (g_ro i); [discriminate|].
  destruct (used_hashes_flat _ _ _ _ _) as [k|u] eqn:E; [discriminate|].
  intros H. injection H as <- <-. exists (fun o => mem o u). split; [|split; reflexivity].
  intros o. rewrite mem_spec. now apply used_hashes_Used.
Qed.

Lemma gc_keeps i n s' o : gc i = GcOk n s' -> Used i o -> In o (g_store i) -> In o s'.
Proof.
  intros H Hu Hin. destruct (gc_exact _ _ _ H) as [ub [Hub [_ ->]]].
  destruct (g_dry i); [assumption|]. apply filter_In. split; [assumption|now apply Hub].
Qed.

Lemma gc_removes i n s' o : gc i = GcOk n s' -> g_dry i = false -> ~ Used i o -> ~ In o s'.
Proof.
  intros H Hd Hnu Hin. destruct (gc_exact _ _ _ H) as [ub [Hub [_ ->]]]. rewrite Hd in Hin.
  apply filter_In in Hin as [_ Hin]. now apply Hub in Hin.
Qed.

Lemma gc_no_invention i n s' o : gc i = GcOk n s' -> In o s' -> In o (g_store i).
Proof.
  intros H Hin. destruct (gc_exact _ _ _ H) as [ub [_ [_ ->]]].
  destruct (g_dry i); [assumption|]. now apply filter_In in Hin as [Hin _].
Qed.

Lemma gc_count i n s' : gc i = GcOk n s' -> g_dry i = false ->
  (N.to_nat n + length s' = length (g_store i))%nat.
Proof.
  intros H Hd. destruct (gc_exact _ _ _ H) as [ub [_ [-> ->]]]. rewrite Hd.
  rewrite Nnat.Nat2N.id. pose proof (filter_length_split ub (g_store i)). lia.
Qed.

Lemma gc_dry i n s' : gc i = GcOk n s' -> g_dry i = true -> s' = g_store i.
Proof.
  intros H Hd. destruct (gc_exact _ _ _ H) as [ub [_ [_ ->]]]. now rewrite Hd.
Qed.

(* dry and real runs report the same count *)
Lemma gc_dry_count i n s' n2 s2 :
  gc i = GcOk n s' ->
  gc {| g_store := g_store i; g_alg := g_alg i; g_ro := g_ro i; g_used := g_used i;
        g_trees := g_trees i; g_cache_alg := g_cache_alg i; g_shallow := g_shallow i;
        g_dry := negb (g_dry i) |} = GcOk n2 s2 ->
  n = n2.
Proof.
  rewrite !gc_eq. unfold gc_flat; cbn. destruct (g_ro i); [discriminate|].
  destruct (used_hashes_flat _ _ _ _ _); [discriminate|]. intros H1 H2.
  injection H1 as <- _. injection H2 as <- _. reflexivity.
Qed.

(* --- the container in which `used` is handed over does not matter ---
   gc() takes Iterable[HashInfo]: a list, a set (any iteration order, duplicates collapsed),
   a generator.  Two inputs that differ only in g_used, with the same MEMBERS, that both
   succeed, give the same count and the same store. *)
Definition with_used (i : gc_in) (u : list (list N * oid)) : gc_in :=
  {| g_store := g_store i; g_alg := g_alg i; g_ro := g_ro i; g_used := u;
     g_trees := g_trees i; g_cache_alg := g_cache_alg i; g_shallow := g_shallow i; g_dry := g_dry i |}.

Lemma filter_ext_bool {A} (p q : A -> bool) (l : list A) :
  (forall x, p x = true <-> q x = true) -> filter p l = filter q l.
Proof.
  intros H. apply filter_ext. intros x. specialize (H x).
  destruct (p x), (q x); try reflexivity; destruct H as [H1 H2];
    [now specialize (H1 eq_refl)|now specialize (H2 eq_refl)].
Qed.

Lemma gc_used_set i u2 n1 s1 n2 s2 :
  (forall x, In x (g_used i) <-> In x u2) ->
  gc i = GcOk n1 s1 -> gc (with_used i u2) = GcOk n2 s2 -> n1 = n2 /\ s1 = s2.
Proof.
  intros Hm H1 H2.
  destruct (gc_exact _ _ _ H1) as [b1 [Hb1 [-> ->]]].
  destruct (gc_exact _ _ _ H2) as [b2 [Hb2 [-> ->]]]. cbn [with_used g_store g_dry].
  assert (Hbb : forall o, b1 o = true <-> b2 o = true).
  { intros o. rewrite Hb1, Hb2. unfold Used. cbn [with_used g_used g_alg g_shallow g_trees].
    split; intros [v [Hin Hc]]; exists v; (split; [now apply Hm|exact Hc]). }
  split.
  - f_equal. f_equal. apply filter_ext_bool. intros o. rewrite !negb_true_iff.
    specialize (Hbb o). destruct (b1 o), (b2 o); try tauto; destruct Hbb as [Ha Hb];
      [now specialize (Ha eq_refl)|now specialize (Hb eq_refl)].
  - destruct (g_dry i); [reflexivity|]. now apply filter_ext_bool.
Qed.

(* whether gc succeeds does not depend on the order either: it fails (not read-only) exactly
   when some used directory object of the store's algorithm cannot be loaded in expanding mode *)
Lemma used_hashes_fails alg shallow ld used : forall acc,
  (exists k, used_hashes_flat alg shallow ld used acc = inl k) <->
  (shallow = false /\ exists v, In (alg, v) used /\ is_dir_oid v = true /\
                               (ld v = LoadMissing \/ ld v = LoadCorrupt)).
Proof.
  induction used as [|[name value] r IH]; intros acc; cbn [used_hashes_flat].
  - split; [intros [k H]; discriminate|intros [_ [v [[] _]]]].
  - destruct (list_N_eqb name alg) eqn:En; cbn [negb].
    + apply list_N_eqb_spec in En. subst name.
      destruct (is_dir_oid value && negb shallow) eqn:Ed.
      * apply andb_true_iff in Ed as [Ed Es]. apply negb_true_iff in Es.
        destruct (ld value) as [l| |] eqn:El.
        -- rewrite IH. split.
           ++ intros [Hs [v [Hin Hv]]]. split; [exact Hs|]. exists v. split; [now right|exact Hv].
           ++ intros [Hs [v [[Hin|Hin] [Hd Hl]]]].
              ** injection Hin as <-. rewrite El in Hl. destruct Hl; discriminate.
              ** split; [exact Hs|]. exists v. auto.
        -- split; [|intros _; now exists 2].
           intros _. split; [exact Es|]. exists value. split; [now left|]. auto.
        -- split; [|intros _; now exists 3].
           intros _. split; [exact Es|]. exists value. split; [now left|]. auto.
      * rewrite IH. split.
        -- intros [Hs [v [Hin Hv]]]. split; [exact Hs|]. exists v. split; [now right|exact Hv].
        -- intros [Hs [v [[Hin|Hin] [Hd Hl]]]].
           ++ injection Hin as <-. rewrite Hd, Hs in Ed. discriminate.
           ++ split; [exact Hs|]. exists v. auto.
    + assert (Hne : name <> alg).
      { intros ->. assert (list_N_eqb alg alg = true) by now apply list_N_eqb_spec. congruence. }
      rewrite IH. split.
      * intros [Hs [v [Hin Hv]]]. split; [exact Hs|]. exists v. split; [now right|exact Hv].
      * intros [Hs [v [[Hin|Hin] Hv]]].
        -- injection Hin as Hn _. congruence.
        -- split; [exact Hs|]. exists v. auto.
Qed.

Definition LoadFails (i : gc_in) : Prop :=
  g_shallow i = false /\ exists v, In (g_alg i, v) (g_used i) /\ is_dir_oid v = true /\
    (load (g_trees i) v = LoadMissing \/ load (g_trees i) v = LoadCorrupt).

Lemma gc_ok_iff i : (exists n s', gc i = GcOk n s') <-> (g_ro i = false /\ ~ LoadFails i).
Proof.
  rewrite gc_eq. unfold gc_flat, LoadFails. destruct (g_ro i).
  - split; [intros [n [s' H]]; discriminate|intros [H _]; discriminate].
  - pose proof (used_hashes_fails (g_alg i) (g_shallow i) (load (g_trees i)) (g_used i) []) as Hf.
    destruct (used_hashes_flat _ _ _ _ _) as [k|u].
    + split; [intros [n [s' H]]; discriminate|].
      intros [_ Hn]. exfalso. apply Hn. apply Hf. now exists k.
    + split; [|intros _; eauto].
      intros _. split; [reflexivity|]. intros Hl. apply Hf in Hl as [k Hk]. discriminate.
Qed.

Lemma gc_ok_used_set i u2 :
  (forall x, In x (g_used i) <-> In x u2) ->
  (exists n s', gc i = GcOk n s') <-> (exists n s', gc (with_used i u2) = GcOk n s').
Proof.
  intros Hm. rewrite !gc_ok_iff. unfold LoadFails. cbn [with_used g_ro g_shallow g_alg g_used g_trees].
  split; intros [Hr Hn]; (split; [exact Hr|]); intros [Hs [v [Hin Hv]]]; apply Hn;
    (split; [exact Hs|]); exists v; (split; [now apply Hm|exact Hv]).
Qed.

(* --- the size of the store does not matter ---
   The decision on an object depends on the object and on `used`, never on the rest of the
   store: gc over a store s1 ++ s2 is gc over s1 and gc over s2 put together (counts add, the
   remaining stores concatenate).  In particular any paging / batching of the scan at any
   size is sound with respect to the model, and there is no threshold in it. *)
Definition with_store (i : gc_in) (s : list oid) : gc_in :=
  {| g_store := s; g_alg := g_alg i; g_ro := g_ro i; g_used := g_used i;
     g_trees := g_trees i; g_cache_alg := g_cache_alg i; g_shallow := g_shallow i; g_dry := g_dry i |}.

Lemma gc_store_app i s1 s2 n s' :
  g_store i = s1 ++ s2 -> gc i = GcOk n s' ->
  exists n1 k1 n2 k2,
    gc (with_store i s1) = GcOk n1 k1 /\ gc (with_store i s2) = GcOk n2 k2 /\
    n = n1 + n2 /\ s' = k1 ++ k2.
Proof.
  rewrite !gc_eq. unfold gc_flat. cbn [with_store g_store g_alg g_ro g_used g_trees g_shallow g_dry].
  intros Hs. rewrite Hs. destruct (g_ro i); [discriminate|].
  destruct (used_hashes_flat _ _ _ _ _) as [k|u]; [discriminate|].
  intros H. injection H as <- <-. do 4 eexists. split; [reflexivity|]. split; [reflexivity|].
  rewrite !filter_app, app_length. split; [lia|]. now destruct (g_dry i).
Qed.

(* --- the algorithm of cache_odb does not matter ---
   Which identifiers count as used is decided by the algorithm of the store being collected;
   cache_odb (omitted / same algorithm / another algorithm) only supplies the listings.  Two
   inputs that differ only in the cache's algorithm name have the same result, and an id
   whose name is the cache's but not the store's algorithm protects nothing (gc_other_alg). *)
Definition with_cache_alg (i : gc_in) (a : option (list N)) : gc_in :=
  {| g_store := g_store i; g_alg := g_alg i; g_ro := g_ro i; g_used := g_used i;
     g_trees := g_trees i; g_cache_alg := a; g_shallow := g_shallow i; g_dry := g_dry i |}.

Lemma gc_cache_alg_irrelevant i a : gc (with_cache_alg i a) = gc i.
Proof. rewrite !gc_eq. reflexivity. Qed.

(* the used ids of another algorithm than the collected store's (in particular the cache's)
   can be dropped from `used` without changing anything, error kinds included *)
Lemma used_hashes_other_alg alg shallow ld used : forall acc,
  used_hashes_flat alg shallow ld (filter (fun p => list_N_eqb (fst p) alg) used) acc
  = used_hashes_flat alg shallow ld used acc.
Proof.
  induction used as [|[name value] r IH]; intros acc; [reflexivity|].
  cbn [filter fst]. destruct (list_N_eqb name alg) eqn:En.
  - cbn [used_hashes_flat]. rewrite En. cbn [negb].
    destruct (is_dir_oid value && negb shallow); [|apply IH].
    destruct (ld value); [apply IH|reflexivity|reflexivity].
  - cbn [used_hashes_flat]. rewrite En. cbn [negb]. apply IH.
Qed.

Lemma gc_other_alg i :
  gc (with_used i (filter (fun p => list_N_eqb (fst p) (g_alg i)) (g_used i))) = gc i.
Proof.
  rewrite !gc_eq. unfold gc_flat. cbn [with_used g_store g_alg g_ro g_used g_trees g_shallow g_dry].
  now rewrite used_hashes_other_alg.
Qed.

(* non-vacuity: a concrete store where everything interesting happens *)
Definition ex_dir : oid := [97; 97] ++ dot_dir.
Definition ex_in (shallow dry : bool) : gc_in :=
  {| g_store := [[1;1]; [2;2]; ex_dir; [3;3]; [4;4] ++ dot_dir];
     g_alg := [109]; g_ro := false;
     g_used := [([109], ex_dir); ([120], [3;3]); ([109], [9;9])];
     g_trees := [(ex_dir, Some [[1;1]; [7;7]])]; g_cache_alg := None;
     g_shallow := shallow; g_dry := dry |}.
Example gc_example_expand : gc (ex_in false false) = GcOk 3 [[1;1]; ex_dir].
Proof. vm_compute. reflexivity. Qed.
Example gc_example_shallow : gc (ex_in true false) = GcOk 4 [ex_dir].
Proof. vm_compute. reflexivity. Qed.
Example gc_example_dry : gc (ex_in false true) = GcOk 3 (g_store (ex_in false true)).
Proof. vm_compute. reflexivity. Qed.

(* non-vacuity of the container / size statements *)
Definition ex_used2 : list (list N * oid) :=
  [([109], [9;9]); ([109], ex_dir); ([120], [3;3]); ([109], ex_dir)].   (* reordered, a duplicate *)
Example gc_example_used_set :
  (forall x, In x (g_used (ex_in false false)) <-> In x ex_used2) /\
  gc (with_used (ex_in false false) ex_used2) = GcOk 3 [[1;1]; ex_dir].
Proof.
  split; [|vm_compute; reflexivity].
  intros x. unfold ex_used2. cbn [ex_in g_used In]. tauto.
Qed.
Example gc_example_store_app :
  g_store (ex_in false true) = [[1;1]; [2;2]] ++ [ex_dir; [3;3]; [4;4] ++ dot_dir] /\
  gc (with_store (ex_in false true) [[1;1]; [2;2]]) = GcOk 1 [[1;1]; [2;2]] /\
  gc (with_store (ex_in false true) [ex_dir; [3;3]; [4;4] ++ dot_dir])
    = GcOk 2 [ex_dir; [3;3]; [4;4] ++ dot_dir].
Proof. repeat split; vm_compute; reflexivity. Qed.
Example gc_example_load_fails :
  LoadFails (with_used (ex_in false false) [([109], [4;4] ++ dot_dir)]) /\
  gc (with_used (ex_in false false) [([109], [4;4] ++ dot_dir)]) = GcErr 2.
Proof.
  split; [|vm_compute; reflexivity]. split; [reflexivity|]. exists ([4;4] ++ dot_dir).
  split; [now left|]. split; [vm_compute; reflexivity|]. left. vm_compute. reflexivity.
Qed.

(* the literal helper of the harness: "0016fe09121c5befad0e28f817995156" (leading zeros kept) *)
Example oid_hex32_example : oid_hex32 0x0016fe09121c5befad0e28f817995156 =
  [48;48;49;54;102;101;48;57;49;50;49;99;53;98;101;102;97;100;48;101;50;56;102;56;49;55;57;57;53;49;53;54].
Proof. vm_compute. reflexivity. Qed.

(* mixed algorithms: an md5-dos2unix ("x") cache beside an "m" store; the id of the cache's
   algorithm protects nothing, the ids of the store's algorithm do *)
Example gc_example_cache_alg :
  gc (with_cache_alg (ex_in false false) (Some [120])) = GcOk 3 [[1;1]; ex_dir] /\
  filter (fun p => list_N_eqb (fst p) [109]) (g_used (ex_in false false)) = [([109], ex_dir); ([109], [9;9])].
Proof. split; vm_compute; reflexivity. Qed.
