(* RoundTripTie.v - the add steps of Model/RoundTrip.v ARE HashFileDB.add and add_update_tree as the
   translator reads them from /repo on every run (Gen/DbAdd.v, unit "dbadd").

   The model's store step is [st_add] / [st_add_all]: an object that is there is left alone, an
   absent one is appended.  Here the store is extended with what the real add also does - the set of
   write-protected object ids and the rows of the one hash-state transaction - and [g_add]
   interprets the GENERATED decisions over that world: the effective verify flag, guard / iteration /
   swallowed exceptions of the pre-add check, the flags super().add is given, body / iteration /
   handlers of the post loop, the state transaction.  Nothing in [g_add] is specific to the model.
   The tie theorems show that, for the calls the round trip makes -
     _build_files / index.save :  odb.add(paths, fs, oids, hardlink=False)      (signature defaults)
     add_update_tree           :  the generated tree_add_* flags
     transfer._add             :  dest.add(..., verify=False, hardlink=False, check_exists=False) on
                                  the ids compare_status found to be new (absent, pairwise distinct)
   on a store built without a `verify` setting - [g_add] computes exactly [st_add_all] / [st_add],
   protects every distinct requested id and records every distinct requested id.  An edit of the
   source (protect made conditional, the pre-add check no longer gated on the flag, a handler
   dropped, check_exists not forwarded, add_update_tree linking or verifying, a second transaction
   ...) either fails the translation or changes a generated definition and breaks these proofs.

   [tie_transfer_needs_absent] shows why transfer must hand only NEW ids to that add: with
   check_exists=False an id that is present is overwritten. *)
From Coq Require Import NArith List Bool.
From DvcData Require Import Base.Val Base.MD5 Base.Json Model.Listing Model.RoundTrip Gen.DbAdd.
From DvcData Require Import Proofs.RoundTripBase Proofs.RoundTripProofs.
Import ListNotations.
Open Scope N_scope.

Record aworld := { a_store : store; a_prot : list (list N); a_rows : list (list N) }.

Definition with_store (w : aworld) (s : store) : aworld :=
  {| a_store := s; a_prot := a_prot w; a_rows := a_rows w |}.
Definition protect (w : aworld) (o : list N) : aworld :=
  {| a_store := a_store w; a_prot := a_prot w ++ [o]; a_rows := a_rows w |}.

(* first occurrences, in order: the keys of the oid -> path dict *)
Fixpoint dedup_oids (l : list (list N)) : list (list N) :=
  match l with
  | [] => []
  | o :: r => o :: filter (fun x => negb (list_N_eqb x o)) (dedup_oids r)
  end.

Definition iter_oids (it : oid_iter) (req : list (list N)) : list (list N) :=
  match it with OidsGiven => req | OidsDistinct => dedup_oids req end.

Definition st_del (o : list N) (s : store) : store := filter (fun ob => negb (list_N_eqb o (fst ob))) s.

(* super().add with check_exists=False: written whether or not it is there *)
Fixpoint st_put (ob : list N * bytes) (s : store) : store :=
  match s with
  | [] => [ob]
  | (o', b') :: r => if list_N_eqb (fst ob) o' then ob :: r else (o', b') :: st_put ob r
  end.

Section Tie.
(* "the object is named by its digest" - what check(o, check_hash=True) decides *)
Variable valid : list N * bytes -> bool.

Definition check (w : aworld) (o : list N) : aworld * option exc :=
  match st_get o (a_store w) with
  | None => (w, Some ExcFileNotFound)
  | Some b => if valid (o, b) then (protect w o, None)
              else (with_store w (st_del o (a_store w)), Some ExcObjectFormat)
  end.

Definition swallowed (e : exc) : bool := existsb (exc_eqb e) pre_swallows.

Fixpoint g_pre_loop (w : aworld) (ks : list (list N)) : aworld * bool :=
  match ks with
  | [] => (w, false)
  | k :: r => let '(w', e) := check w k in
              match e with
              | Some ex => if swallowed ex then g_pre_loop w' r else (w', true)
              | None => g_pre_loop w' r
              end
  end.
Definition g_pre (vfy : bool) (w : aworld) (req : list (list N)) : aworld * bool :=
  if pre_runs vfy && pre_check_hash then g_pre_loop w (iter_oids pre_over req) else (w, false).

Fixpoint g_acts (acts : list post_act) (w : aworld) (k : list N) : aworld * bool :=
  match acts with
  | [] => (w, false)
  | PCheck _ :: r =>
      let '(w', e) := check w k in
      match e with
      | Some ex => match post_handler ex with Some _ => (w', false) | None => (w', true) end
      | None => g_acts r w' k
      end
  | PProtect :: r => g_acts r (protect w k) k
  end.
Fixpoint g_post (acts : list post_act) (w : aworld) (ks : list (list N)) : aworld * bool :=
  match ks with
  | [] => (w, false)
  | k :: r => let '(w', esc) := g_acts acts w k in if esc then (w', true) else g_post acts w' r
  end.

Definition g_save (w : aworld) (req : list (list N)) : aworld :=
  match save_value with
  | SaveOid => {| a_store := a_store w; a_prot := a_prot w; a_rows := a_rows w ++ iter_oids save_over req |}
  end.

(* the copies of an add whose sources are bytes (work space files, the in-memory staging file
   system): a link is never asked for - [None] if it were *)
Definition cp (objs : list (list N * bytes)) (hardlink chk : bool) (s : store) : option store :=
  if hardlink then None
  else Some (if chk then st_add_all objs s else fold_left (fun s ob => st_put ob s) objs s).

(* HashFileDB.add; the boolean: an exception escaped *)
Definition g_add (percall : option bool) (store_vfy hardlink chk : bool)
           (objs : list (list N * bytes)) (w : aworld) : option (aworld * bool) :=
  let vfy := eff_verify percall store_vfy in
  let req := map fst objs in
  let '(w0, esc) := g_pre vfy w req in
  if esc then Some (w0, true)
  else match cp objs (copy_hardlink hardlink) (copy_check_exists chk) (a_store w0) with
       | None => None
       | Some s1 =>
           let '(w2, esc2) := g_post (post_body vfy) (with_store w0 s1) (iter_oids post_over req) in
           if esc2 then Some (w2, true) else Some (g_save w2 req, false)
       end.

(* this model's stores are built without a `verify` setting *)
Definition model_store_verify : bool := store_verify None.

(* what the model says an add does to the extended world *)
Definition model_add (objs : list (list N * bytes)) (w : aworld) : aworld :=
  {| a_store := st_add_all objs (a_store w);
     a_prot := a_prot w ++ dedup_oids (map fst objs);
     a_rows := a_rows w ++ dedup_oids (map fst objs) |}.

(* ---------------------------------------------------------------- lemmas *)
Lemma g_post_protect w ks :
  g_post [PProtect] w ks =
  ({| a_store := a_store w; a_prot := a_prot w ++ ks; a_rows := a_rows w |}, false).
Proof.
  revert w. induction ks as [|k r IH]; intro w; cbn [g_post g_acts].
  - destruct w. simpl. now rewrite app_nil_r.
  - rewrite IH. unfold protect. simpl. now rewrite <- app_assoc.
Qed.

Lemma st_put_absent ob s : st_get (fst ob) s = None -> st_put ob s = st_add ob s.
Proof.
  intros Hn. unfold st_add. rewrite Hn. induction s as [|[o' b'] r IH]; [reflexivity|].
  simpl in *. destruct (list_N_eqb (fst ob) o'); [discriminate|]. now rewrite IH.
Qed.

Lemma put_all_absent objs : forall s,
  NoDup (map fst objs) -> (forall ob, In ob objs -> st_get (fst ob) s = None) ->
  fold_left (fun s ob => st_put ob s) objs s = st_add_all objs s.
Proof.
  induction objs as [|ob r IH]; intros s Hnd Habs; [reflexivity|].
  unfold st_add_all. simpl. rewrite st_put_absent by (apply Habs; now left).
  inversion Hnd as [|? ? Hni Hnd']; subst. apply IH; [exact Hnd'|].
  intros ob' Hi. rewrite st_get_add. rewrite (Habs ob') by now right.
  destruct ob as [o b]. simpl. rewrite list_N_eqb_false; [reflexivity|].
  intros E. apply Hni. simpl. rewrite <- E. apply (in_map fst). exact Hi.
Qed.

(* ---------------------------------------------------------------- the ties *)
Lemma add_order_tie :
  add_order = [SEffVerify; SNormalise; SPre; SCopy; SPaths; SPost; SSave; SReturn].
Proof. reflexivity. Qed.

(* an add that does not verify, with check_exists on: _build_files, index.save, add_update_tree *)
Lemma g_add_plain percall store_vfy objs w :
  eff_verify percall store_vfy = false ->
  g_add percall store_vfy false true objs w = Some (model_add objs w, false).
Proof.
  intros Hv. unfold g_add. rewrite Hv. cbn [g_pre pre_runs andb].
  unfold cp, copy_hardlink, copy_check_exists, post_body. cbn [app].
  unfold post_over. cbn [iter_oids]. rewrite g_post_protect. unfold g_save, save_value, save_over, model_add.
  cbn [iter_oids with_store a_store a_prot a_rows]. reflexivity.
Qed.

(* _build_files / index.save: odb.add(paths, fs, oids, hardlink=False), everything else by default *)
Theorem tie_add_default objs w :
  g_add None model_store_verify false add_default_check_exists objs w = Some (model_add objs w, false).
Proof. apply g_add_plain. reflexivity. Qed.

(* add_update_tree: no hardlink, the store's default verification, check_exists by default: the
   directory object is added keep-first, protected and recorded *)
Theorem tie_tree_add dirobj w :
  g_add tree_add_percall_verify model_store_verify tree_add_hardlink tree_add_check_exists [dirobj] w =
  Some ({| a_store := st_add dirobj (a_store w);
           a_prot := a_prot w ++ [fst dirobj]; a_rows := a_rows w ++ [fst dirobj] |}, false).
Proof.
  unfold tree_add_hardlink, tree_add_check_exists, add_default_check_exists.
  rewrite g_add_plain by reflexivity. reflexivity.
Qed.

(* transfer._add: verify=False, hardlink=False, check_exists=False, on ids that are absent from the
   destination and pairwise distinct (status.new): the same as the keep-first add *)
Theorem tie_transfer_add store_vfy objs w :
  NoDup (map fst objs) -> (forall ob, In ob objs -> st_get (fst ob) (a_store w) = None) ->
  g_add (Some false) store_vfy false false objs w = Some (model_add objs w, false).
Proof.
  intros Hnd Habs. unfold g_add. cbn [eff_verify g_pre pre_runs andb].
  unfold cp, copy_hardlink, copy_check_exists, post_body. cbn [app].
  unfold post_over. cbn [iter_oids]. rewrite g_post_protect. unfold g_save, save_value, save_over, model_add.
  cbn [iter_oids with_store a_store a_prot a_rows]. rewrite put_all_absent by assumption. reflexivity.
Qed.

(* ... and that restriction is needed: handed an id that is present, that add overwrites it *)
Theorem tie_transfer_needs_absent :
  exists objs w, g_add (Some false) false false false objs w <> Some (model_add objs w, false).
Proof.
  exists [([1], [2])], {| a_store := [([1], [3])]; a_prot := []; a_rows := [] |}.
  vm_compute. intros E. discriminate.
Qed.

(* the whole store step of [stage_from]: the file objects, then the directory object *)
Theorem tie_stage_store (Hd : bytes -> list N) s0 t :
  let files_objs := objs_of Hd (files t) in
  let dirobj := (digestH Hd (built_tree Hd t), as_bytes false (built_tree Hd t)) in
  let w0 := {| a_store := s0; a_prot := []; a_rows := [] |} in
  match g_add None model_store_verify false add_default_check_exists files_objs w0 with
  | Some (w1, false) =>
      g_add tree_add_percall_verify model_store_verify tree_add_hardlink tree_add_check_exists [dirobj] w1 =
      Some ({| a_store := st_add dirobj (st_add_all files_objs s0);
               a_prot := dedup_oids (map fst files_objs) ++ [fst dirobj];
               a_rows := dedup_oids (map fst files_objs) ++ [fst dirobj] |}, false)
  | _ => False
  end.
Proof.
  cbv zeta. rewrite tie_add_default. rewrite tie_tree_add. reflexivity.
Qed.

End Tie.

(* the verifying path of the generated decisions, on a toy digest (an object is valid when its bytes
   spell its name): a corrupt object under a requested id is dropped by the pre-add check
   (ObjectFormatError swallowed), re-copied, checked again and protected; a requested id whose source
   bytes are themselves corrupt is dropped by the post check and reported, not raised *)
Definition toy_valid (ob : list N * bytes) : bool := list_N_eqb (fst ob) (snd ob).

Example verifying_add_heals :
  g_add toy_valid (Some true) false false true [([1], [1]); ([2], [2])]
        {| a_store := [([1], [9])]; a_prot := []; a_rows := [] |}
  = Some ({| a_store := [([1], [1]); ([2], [2])]; a_prot := [[1]; [1]; [2]; [2]]; a_rows := [[1]; [2]] |}, false).
Proof. vm_compute. reflexivity. Qed.

Example verifying_add_reports_corrupt_source :
  g_add toy_valid (Some true) false false true [([1], [7])] {| a_store := []; a_prot := []; a_rows := [] |}
  = Some ({| a_store := []; a_prot := []; a_rows := [[1]] |}, false).
Proof. vm_compute. reflexivity. Qed.
