(* C01 - the two digest hypotheses of Proofs/StoreOpsProofs.v hold for the executable digest
   H_exec (Gallina MD5 / MD5 after dos2unix / SHA-256), so the invariant theorems hold for the very
   function the correspondence check evaluates; plus the non-vacuity examples. *)
From Coq Require Import NArith List Bool Lia.
From DvcData Require Import Base.Val Base.MD5 Base.Json Model.Listing Model.StoreOps Proofs.StoreOpsProofs.
Import ListNotations.
Open Scope N_scope.

(* ------------------------------------------------------------------ a digest never ends in ".dir" *)
Lemma hex_not_dir l : Forall (fun c => is_lower_hex c = true) l -> is_dir_oid l = false.
Proof.
  intros Hf. unfold is_dir_oid.
  destruct (rev l) as [|c r] eqn:E; [reflexivity|].
  assert (Hc : is_lower_hex c = true).
  { rewrite Forall_forall in Hf. apply Hf. apply in_rev. rewrite E. now left. }
  destruct (N.eq_dec c 114) as [->|Hn]; [discriminate Hc|].
  destruct c as [|p]; [reflexivity|].
  do 7 (destruct p as [p|p|]; try reflexivity); exfalso; apply Hn; reflexivity.
Qed.

Lemma hex_bytes_are_hex l : Forall (fun b => b < 256) l ->
  Forall (fun c => is_lower_hex c = true) (flat_map hex_byte l).
Proof.
  induction 1 as [|b l Hb _ IH]; simpl; [constructor|].
  constructor; [|constructor; [|exact IH]]; apply hexd_is_hex.
  - apply N.div_lt_upper_bound; [discriminate|]. exact Hb.
  - apply N.mod_lt. discriminate.
Qed.

Lemma be_bytes_lt n x : Forall (fun b => b < 256) (be_bytes n x).
Proof.
  induction n; simpl; constructor; auto. apply N.mod_lt. discriminate.
Qed.

Lemma sha256_hex_is_hex msg : Forall (fun c => is_lower_hex c = true) (sha256_hex msg).
Proof.
  unfold sha256_hex. apply hex_bytes_are_hex. unfold sha256_raw.
  destruct (sha_blocks _ _ _) as [[[[[[[a b] c] d] e] f] g] h].
  repeat (apply Forall_app; split); apply be_bytes_lt.
Qed.

Lemma H_exec_not_dir a b : is_dir_oid (H_exec a b) = false.
Proof.
  apply hex_not_dir. destruct a; simpl; [apply md5_hex_is_hex|apply md5_hex_is_hex|apply sha256_hex_is_hex].
Qed.

(* ------------------------------------------------------------------ json.dumps prints no CR *)
Definition nocr (l : list N) : Prop := Forall (fun c => c <> 13) l.

Lemma nocr_app a b : nocr a -> nocr b -> nocr (a ++ b).
Proof. intros. apply Forall_app. now split. Qed.
Lemma nocr_cons c l : c <> 13 -> nocr l -> nocr (c :: l).
Proof. intros. now constructor. Qed.

Lemma hexd_ge n : 48 <= hexd n.
Proof. unfold hexd. destruct (n <? 10); lia. Qed.

Lemma nocr_hexd n : hexd n <> 13.
Proof. pose proof (hexd_ge n). lia. Qed.

Lemma nocr_esc_u u : nocr (esc_u u).
Proof. unfold esc_u, hex4. repeat (apply nocr_cons; [try apply nocr_hexd; discriminate|]). constructor. Qed.

Lemma nocr_esc_char c : nocr (esc_char c).
Proof.
  unfold esc_char.
  repeat match goal with
         | |- nocr (if ?x =? ?y then _ else _) => destruct (x =? y)
         | |- nocr [_; _] => apply nocr_cons; [discriminate|apply nocr_cons; [discriminate|constructor]]
         end.
  destruct ((32 <=? c) && (c <=? 126)) eqn:E.
  - apply andb_true_iff in E as [E1 _]. apply N.leb_le in E1.
    apply nocr_cons; [lia|constructor].
  - destruct (c <? 65536); [apply nocr_esc_u|]. apply nocr_app; apply nocr_esc_u.
Qed.

Lemma nocr_flat_map {A} (f : A -> list N) l : (forall x, nocr (f x)) -> nocr (flat_map f l).
Proof. intros Hf. induction l; simpl; [constructor|]. apply nocr_app; auto. Qed.

Lemma nocr_print_string s : nocr (print_string s).
Proof.
  unfold print_string. apply nocr_cons; [discriminate|]. apply nocr_app.
  - apply nocr_flat_map. apply nocr_esc_char.
  - apply nocr_cons; [discriminate|constructor].
Qed.

Lemma nocr_uint d : nocr (uint_chars d).
Proof. induction d; simpl; try constructor; try discriminate; assumption. Qed.

Lemma nocr_print_val v : nocr (print_val v).
Proof.
  destruct v as [s|n|[|]]; simpl.
  - apply nocr_print_string.
  - apply nocr_uint.
  - unfold txt_true. repeat (apply nocr_cons; [discriminate|]). constructor.
  - unfold txt_false. repeat (apply nocr_cons; [discriminate|]). constructor.
Qed.

Lemma nocr_print_sep {A} (f : A -> list N) l : (forall x, nocr (f x)) -> nocr (print_sep f l).
Proof.
  intros Hf. induction l as [|x r IH]; simpl; [constructor|].
  destruct r as [|y r']; [apply Hf|].
  apply nocr_app; [apply Hf|]. apply nocr_cons; [discriminate|]. apply nocr_cons; [discriminate|]. exact IH.
Qed.

Lemma nocr_print_member m : nocr (print_member m).
Proof.
  unfold print_member. apply nocr_app; [apply nocr_print_string|].
  apply nocr_cons; [discriminate|]. apply nocr_cons; [discriminate|]. apply nocr_print_val.
Qed.

Lemma nocr_print_obj o : nocr (print_obj o).
Proof.
  unfold print_obj. apply nocr_cons; [discriminate|]. apply nocr_app.
  - apply nocr_print_sep. apply nocr_print_member.
  - apply nocr_cons; [discriminate|constructor].
Qed.

Lemma nocr_json_dumps d : nocr (json_dumps d).
Proof.
  unfold json_dumps, print_doc. apply nocr_cons; [discriminate|]. apply nocr_app.
  - apply nocr_print_sep. apply nocr_print_obj.
  - apply nocr_cons; [discriminate|constructor].
Qed.

Lemma dos2unix_nocr l : nocr l -> dos2unix l = l.
Proof.
  induction 1 as [|c r Hc _ IH]; [reflexivity|].
  simpl. destruct r as [|d r']; [reflexivity|].
  assert (E : (c =? 13) = false) by (apply N.eqb_neq; exact Hc).
  rewrite E. simpl. f_equal. exact IH.
Qed.

Lemma d2u_norm_nocr l : nocr l -> d2u_norm l = l.
Proof.
  intros Hl. unfold d2u_norm. destruct l as [|c r]; [reflexivity|].
  destruct (istextblock _); [now apply dos2unix_nocr|reflexivity].
Qed.

Lemma H_exec_d2u_listing t : H_exec Md5D2U (as_bytes false t) = H_exec Md5 (as_bytes false t).
Proof. unfold H_exec. rewrite d2u_norm_nocr; [reflexivity|]. unfold as_bytes. apply nocr_json_dumps. Qed.

(* ------------------------------------------------------------------ C01 for the executed model *)
Theorem C01_step_exec st o :
  Inv H_exec st -> WfOp H_exec st o -> keeps_class o -> Inv H_exec (step H_exec st o).
Proof. apply C01_step; [apply H_exec_not_dir|apply H_exec_d2u_listing]. Qed.

Theorem C01_history_exec cfg ops n :
  WfHist H_exec (init_state cfg) ops -> KeepsClass ops ->
  Inv H_exec (fold_left (step H_exec) (firstn n ops) (init_state cfg)).
Proof. apply C01_history; [apply H_exec_not_dir|apply H_exec_d2u_listing]. Qed.

Theorem C01_history_checked_exec cfg ops n :
  wf_hist_b H_exec (init_state cfg) ops = true -> forallb keeps_class_b ops = true ->
  Inv H_exec (fold_left (step H_exec) (firstn n ops) (init_state cfg)).
Proof. apply C01_history_checked; [apply H_exec_not_dir|apply H_exec_d2u_listing]. Qed.

Theorem C01_history_leftover_checked_exec cfg ops n :
  wf_hist_b H_exec (init_state cfg) ops = true ->
  InvE H_exec (leftover_hist H_exec (init_state cfg) (firstn n ops) lempty)
       (fold_left (step H_exec) (firstn n ops) (init_state cfg)).
Proof. apply C01_history_leftover_checked; [apply H_exec_not_dir|apply H_exec_d2u_listing]. Qed.

(* ------------------------------------------------------------------ non-vacuity *)
(* a concrete history: stage a nested tree with dos2unix twins into a local md5-dos2unix store,
   save an index into a base md5 store, transfer, migrate into sha256 with hard links *)
Definition ex_cfg : list (cls * alg) := [(Local, Md5D2U); (Base, Md5D2U); (Local, Sha256)].
Definition k_a : key := [[97]].
Definition k_sb : key := [[115]; [98]].
Definition ex_ops : list op :=
  [ OStage 0 (WDir [(k_a, [120; 13; 10; 121]); (k_sb, [120; 10; 121])]);
    OSaveIndex 1 [[[115]]] [(k_sb, [65], H_exec Md5D2U [65])];
    OTransfer 0 1 [H_exec Md5D2U [120; 10; 121]] false false;
    OAdd 2 [66] (H_exec Sha256 [66]);
    OMigrate 1 2 [] true ].

(* the hypotheses of C01_history are satisfiable by it ... *)
Example ex_wf_b : wf_hist_b H_exec (init_state ex_cfg) ex_ops = true.
Proof. vm_compute. reflexivity. Qed.
Example ex_wf : WfHist H_exec (init_state ex_cfg) ex_ops.
Proof. apply wf_hist_b_sound. exact ex_wf_b. Qed.

(* ... and it is not trivial: it ends with 2, 3 and 4 objects in the three stores (the twins
   x CR LF y / x LF y share one md5-dos2unix name) *)
Example ex_sizes :
  map (fun s => length (s_objs s)) (st_stores (run H_exec (init_state ex_cfg) ex_ops)) = [2; 3; 4]%nat.
Proof. vm_compute. reflexivity. Qed.

Example ex_inv : Inv H_exec (run H_exec (init_state ex_cfg) ex_ops).
Proof. apply (C01_history_exec ex_cfg ex_ops (length ex_ops)); [exact ex_wf|]. simpl. tauto. Qed.

(* leftovers: a directory filled through the generic class and reopened under the local class.
   Its two objects are leftovers; a truthful add of one of them covers it (it becomes read-only),
   the other one stays unprotected - so Inv itself fails while the invariant with leftovers holds *)
Definition ex_re_cfg : list (cls * alg) := [(Base, Md5)].
Definition ex_re_ops : list op :=
  [ OStage 0 (WDir [(k_a, [65])]); OReopen 0 Local; OAdd 0 [65] (H_exec Md5 [65]) ].
Example ex_re_wf : wf_hist_b H_exec (init_state ex_re_cfg) ex_re_ops = true.
Proof. vm_compute. reflexivity. Qed.
Example ex_re_modes :
  map (fun s => map (fun p => o_mode (snd p)) (s_objs s))
      (st_stores (run H_exec (init_state ex_re_cfg) ex_re_ops)) = [[mode_ro; mode_rw]].
Proof. vm_compute. reflexivity. Qed.
Example ex_re_not_inv : ~ Inv H_exec (run H_exec (init_state ex_re_cfg) ex_re_ops).
Proof. apply viol_b_sound. vm_compute. reflexivity. Qed.
Example ex_re_invE :
  InvE H_exec (leftover_hist H_exec (init_state ex_re_cfg) ex_re_ops lempty)
       (run H_exec (init_state ex_re_cfg) ex_re_ops).
Proof. apply (C01_history_leftover_checked_exec ex_re_cfg ex_re_ops 3). exact ex_re_wf. Qed.

(* Inv is not trivially true: a store holding content under a name that is not its digest
   (what an untruthful external add - excluded by WfOp - leaves behind) violates it *)
Definition ex_bad : state := step H_exec (init_state [(Base, Md5)]) (OAdd 0 [66] (H_exec Md5 [65])).
Example ex_inv_discriminates : ~ Inv H_exec ex_bad.
Proof.
  intros HI.
  remember (H_exec Md5 [65]) as k eqn:Ek.
  assert (E : ex_bad = {| st_stores := [{| s_cls := Base; s_alg := Md5;
                      s_objs := [(k, {| o_bytes := [66]; o_mode := mode_rw; o_ino := 1 |})] |}];
                          st_next := 2 |}) by (subst k; vm_compute; reflexivity).
  rewrite E in HI.
  destruct (HI O _ k {| o_bytes := [66]; o_mode := mode_rw; o_ino := 1 |} eq_refl) as [Hn _].
  - cbn [alookup s_objs]. rewrite list_N_eqb_refl. reflexivity.
  - unfold named_ok in Hn. cbn [o_bytes s_alg] in Hn. subst k.
    rewrite H_exec_not_dir in Hn. vm_compute in Hn. discriminate Hn.
Qed.

(* and the mode clause is not trivially true either: a local store with an unprotected object
   (the name does not matter for this clause) *)
Example ex_mode_discriminates :
  ~ Inv H_exec {| st_stores := [{| s_cls := Local; s_alg := Md5;
                    s_objs := [([97], {| o_bytes := [65]; o_mode := mode_rw; o_ino := 1 |})] |}];
                  st_next := 2 |}.
Proof.
  intros HI.
  destruct (HI O _ [97] {| o_bytes := [65]; o_mode := mode_rw; o_ino := 1 |} eq_refl eq_refl) as [_ Hm].
  specialize (Hm eq_refl). discriminate Hm.
Qed.

(* WfOp is needed: directory staging on a sha256 store (build()'s legacy external-output path,
   _build_external_tree_info) files the listing under its md5 name in the sha256 store and then
   fails; the faithful model does the same (and the harness's malformed stream shows the real code
   agreeing byte for byte).  It is outside the property's quantifier (DESIGN section 6, C01, "not
   covered"); wf_op_b rejects the operation. *)
Definition ex_sha_dir : list op := [OStage 0 (WDir [(k_a, [65])])].
Example ex_sha_dir_not_wf : wf_hist_b H_exec (init_state [(Local, Sha256)]) ex_sha_dir = false.
Proof. vm_compute. reflexivity. Qed.
Theorem C01_wfop_needed :
  exists cfg ops, Inv H_exec (init_state cfg) /\ ~ Inv H_exec (run H_exec (init_state cfg) ops).
Proof.
  exists [(Local, Sha256)], ex_sha_dir. split; [apply C01_init|].
  apply viol_b_sound. vm_compute. reflexivity.
Qed.

(* ------------------------------------------------------------------ verifying transfers *)
Lemma stem_nodot l r : Forall (fun c => c <> 46) l -> stem (l ++ r) = match r with 46 :: _ => l | _ => l ++ stem r end.
Proof.
  induction 1 as [|c l Hc _ IH]; simpl.
  - destruct r as [|d r']; [reflexivity|]. simpl. destruct (d =? 46) eqn:E.
    + apply N.eqb_eq in E. subst d. reflexivity.
    + destruct d as [|p]; [reflexivity|]. do 6 (destruct p as [p|p|]; try reflexivity); discriminate E.
  - assert (E : (c =? 46) = false) by (apply N.eqb_neq; exact Hc). rewrite E, IH.
    destruct r as [|d r']; [reflexivity|]. destruct d as [|p]; [reflexivity|].
    do 6 (destruct p as [p|p|]; try reflexivity).
Qed.

Lemma hex_nodot l : Forall (fun c => is_lower_hex c = true) l -> Forall (fun c => c <> 46) l.
Proof. intros Hf. eapply Forall_impl; [|exact Hf]. intros c Hc ->. discriminate Hc. Qed.

Lemma H_exec_hex a b : Forall (fun c => is_lower_hex c = true) (H_exec a b).
Proof. destruct a; simpl; [apply md5_hex_is_hex|apply md5_hex_is_hex|apply sha256_hex_is_hex]. Qed.

Lemma stem_H_exec a b : stem (H_exec a b) = H_exec a b.
Proof.
  pose proof (stem_nodot (H_exec a b) [] (hex_nodot _ (H_exec_hex a b))) as E.
  rewrite app_nil_r in E. rewrite E. simpl. now rewrite app_nil_r.
Qed.

(* in a state satisfying the invariant every store has its stems right, so
   C01_verifying_transfer_partial applies to every destination of a reachable state - and goes on
   applying to it after objects of OTHER stores have rotted *)
Lemma InvE_StemP_exec E st j : InvE H_exec E st -> StemP H_exec st j [].
Proof.
  intros HI s k o Hs Ho. left. destruct (HI j s k o Hs Ho) as [Hn _].
  unfold named_ok in Hn. unfold stem_ok. rewrite stem_H_exec.
  destruct (is_dir_oid k).
  - destruct Hn as [-> _]. pose proof (stem_nodot (H_exec (s_alg s) (o_bytes o)) dot_dir (hex_nodot _ (H_exec_hex _ _))) as E0.
    simpl in E0. now rewrite E0.
  - rewrite Hn. now rewrite stem_H_exec.
Qed.

(* example: a remote object rots; the verifying fetch lets in neither it nor the directory that
   lists it, the clean file arrives *)
Definition ex_rot_cfg : list (cls * alg) := [(Base, Md5); (Local, Md5)].
Definition ex_rot_dir : oid := dir_oid_of H_exec (listing_of Md5 [(k_a, H_exec Md5 [65]); (k_sb, H_exec Md5 [66])]).
Definition ex_rot_ops : list op :=
  [ OStage 0 (WDir [(k_a, [65]); (k_sb, [66])]);
    ORot 0 (H_exec Md5 [66]) [114];
    OTransfer 0 1 [ex_rot_dir] false true ].
Example ex_rot_result :
  map (fun s => length (s_objs s)) (st_stores (run H_exec (init_state ex_rot_cfg) ex_rot_ops)) = [3; 1]%nat
  /\ viol_b H_exec (run H_exec (init_state ex_rot_cfg) ex_rot_ops) = true      (* the rotten source *)
  /\ store_viol_b H_exec (nth 1 (st_stores (run H_exec (init_state ex_rot_cfg) ex_rot_ops))
                             {| s_cls := Base; s_alg := Md5; s_objs := [] |}) = false.
Proof. vm_compute. repeat split; reflexivity. Qed.
(* the same transfer without verify lets the rotten object in *)
Example ex_rot_noverify :
  store_viol_b H_exec (nth 1 (st_stores (run H_exec (init_state ex_rot_cfg)
                          [ OStage 0 (WDir [(k_a, [65]); (k_sb, [66])]); ORot 0 (H_exec Md5 [66]) [114];
                            OTransfer 0 1 [ex_rot_dir] false false ]))
                             {| s_cls := Base; s_alg := Md5; s_objs := [] |}) = true.
Proof. vm_compute. reflexivity. Qed.

Theorem C01_verifying_transfer_exec E st src dst ids sh :
  InvE H_exec E st -> StemP H_exec (step H_exec st (OTransfer src dst ids sh true)) dst [].
Proof. intros HI. apply C01_verifying_transfer_partial. now apply InvE_StemP_exec with E. Qed.
