(* Tie between the hand-written model Model/Listing.v and Gen/Tree.v, the definitions the translator
   (translator/treeunit.py) regenerates from hashfile/tree.py on every run: the model EQUALS the
   generated functions, and the C03 theorems are restated over the generated functions.  An edit of
   tree.py that stays inside the translator's shapes but changes a decision (merge order of the
   per-entry dict, renaming constants, which bytes are hashed, the suffix, sort_keys, the separator of
   from_list, the slots of add) changes Gen/Tree.v and breaks a lemma of this file. *)
From Coq Require Import NArith List Bool Permutation.
From DvcData Require Import Base.Val Base.MD5 Base.Json Model.Listing Model.ListingHist Gen.Tree.
From DvcData Require Import Proofs.ListingSort Proofs.ListingProofs Proofs.JsonProofs Proofs.ListingInj.
Import ListNotations.
Open Scope N_scope.

Lemma tie_param_relpath : s_relpath = g_param_relpath.
Proof. reflexivity. Qed.

(* Tree.add: the dict store of the model, and the cached trie is always dropped (so that a query
   is a function of the current dict: Model/ListingHist.v) *)
Lemma tie_add k m h t : g_add k m h t = add {| e_key := k; e_meta := m; e_hash := h |} t.
Proof. reflexivity. Qed.
Lemma tie_add_entry e t : g_add (e_key e) (e_meta e) (e_hash e) t = add e t.
Proof. destruct e. reflexivity. Qed.
Lemma tie_add_drops_trie : g_add_drops_trie = true.
Proof. reflexivity. Qed.

Lemma tie_hi_to_dict h : hi_to_dict h = g_hi_to_dict h.
Proof.
  destruct h as [[n v]|]; [|reflexivity]. unfold hi_to_dict, hash_emit, g_hi_to_dict.
  destruct v as [|c v]; [reflexivity|]. cbn [is_nil orb].
  change [109; 100; 53; 45; 100; 111; 115; 50; 117; 110; 105; 120] with s_md5_dos2unix.
  destruct (list_N_eqb n s_md5_dos2unix); [reflexivity|].
  destruct n; reflexivity.
Qed.

Lemma tie_entry_dict b e : entry_dict b e = g_entry_dict b e.
Proof. unfold entry_dict, g_entry_dict. now rewrite tie_hi_to_dict. Qed.

Lemma dict_get_set k v d : dict_get k (dict_set k v d) = Some v.
Proof.
  induction d as [|[k' v'] r IH]; cbn [dict_set dict_get].
  - now rewrite list_N_eqb_refl.
  - destruct (list_N_eqb k k') eqn:E; cbn [dict_get]; rewrite ?E; [now rewrite list_N_eqb_refl | exact IH].
Qed.

Lemma g_sort_key_entry b e : g_sort_key (g_entry_dict b e) = relpath (e_key e).
Proof. unfold g_sort_key, g_entry_dict. now rewrite dict_get_set. Qed.

(* sorting the built dicts on their "relpath" item = sorting the entries on the joined path *)
Theorem tie_as_list b t : as_list b t = g_as_list b t.
Proof.
  unfold as_list, g_as_list, sort_entries.
  rewrite (map_ext _ _ (tie_entry_dict b)). symmetry. apply sort_by_map.
  intros x y. unfold g_dict_leb, entry_leb. now rewrite !g_sort_key_entry.
Qed.

Theorem tie_as_bytes b t : as_bytes b t = g_as_bytes b t.
Proof. unfold as_bytes, g_as_bytes. now rewrite tie_as_list. Qed.

Lemma tie_as_bytes_default : g_as_bytes_default = false.
Proof. reflexivity. Qed.

(* the identifier is md5 of the meta-free bytes + ".dir", whatever with_meta *)
Theorem tie_digest b t : g_digest b t = digest t.
Proof. unfold g_digest, digest. now rewrite <- tie_as_bytes. Qed.

Theorem tie_digest_obj b t oid content : digest_obj b t = Some (oid, content) -> oid = g_digest b t.
Proof.
  unfold digest_obj. destruct (as_bytes_res b t); [|discriminate]. intros [= <- _]. now rewrite tie_digest.
Qed.

Lemma tie_key_of_relpath s : key_of_relpath s = g_key_of_relpath s.
Proof. reflexivity. Qed.

(* one iteration of Tree.from_list (hash_name = "" is not a hash name: Python takes the else branch) *)
Lemma tie_from_list_entry hn o : hn <> Some [] -> from_list_entry hn o = g_from_list_entry hn o.
Proof.
  intros H. unfold from_list_entry, g_from_list_entry. rewrite <- tie_param_relpath.
  destruct (dict_get s_relpath o) as [[rp|n|b]|]; try reflexivity.
  destruct hn as [[|c r]|]; [contradiction| |]; reflexivity.
Qed.

(* the loop of Tree.from_list over the generated pieces *)
Fixpoint g_from_list_go (hn : option (list N)) (d : jdoc) (t : tree) : fl_res :=
  match d with
  | [] => FlOk t
  | o :: r => match g_from_list_entry hn o with
              | inl e => g_from_list_go hn r (g_add (e_key e) (e_meta e) (e_hash e) t)
              | inr c => FlErr c
              end
  end.
Definition g_from_bytes (hn : option (list N)) (raw : list N) : fl_res :=
  match parse_doc raw with Some d => g_from_list_go hn d [] | None => FlErr 3 end.

Lemma tie_from_list_go hn d : hn <> Some [] -> forall t, from_list_go hn d t = g_from_list_go hn d t.
Proof.
  intros H. induction d as [|o r IH]; intros t; [reflexivity|].
  cbn [from_list_go g_from_list_go]. rewrite <- (tie_from_list_entry hn o H).
  destruct (from_list_entry hn o) as [e|c]; [|reflexivity]. rewrite tie_add_entry. apply IH.
Qed.

Theorem tie_from_bytes hn raw : hn <> Some [] -> from_bytes hn raw = g_from_bytes hn raw.
Proof.
  intros H. unfold from_bytes, g_from_bytes, from_list. destruct (parse_doc raw); [|reflexivity].
  now apply tie_from_list_go.
Qed.

(* ------------------------------------------------------------------ C03 over the generated functions *)
Theorem gen_canonical t t' :
  NoDupRelpaths t -> Permutation (map obs t) (map obs t') -> g_as_bytes false t = g_as_bytes false t'.
Proof. rewrite <- !tie_as_bytes. apply as_bytes_obs. Qed.

Theorem gen_perm b t t' :
  KeysOk t -> NoDupKeys t -> Permutation t t' ->
  g_as_bytes b t = g_as_bytes b t' /\ g_digest b t = g_digest b t'.
Proof.
  intros Hk Hn P. rewrite <- !tie_as_bytes, !tie_digest. split; [now apply as_bytes_perm | now apply digest_perm].
Qed.

Theorem gen_meta_blind b b' f t : g_digest b (map (set_meta f) t) = g_digest b' t.
Proof. rewrite !tie_digest. apply digest_meta_blind. Qed.

Theorem gen_inj t t' :
  Wf t -> Wf t' -> g_as_bytes false t = g_as_bytes false t' -> Permutation (map obs t) (map obs t').
Proof. rewrite <- !tie_as_bytes. apply as_bytes_inj. Qed.

Theorem gen_roundtrip t : Wf t -> NoDupKeys t ->
  exists t', g_from_bytes None (g_as_bytes false t) = FlOk t' /\
    map obs t' = sorted_obs t /\ Permutation (map obs t') (map obs t) /\
    g_as_bytes false t' = g_as_bytes false t /\ g_digest false t' = g_digest false t.
Proof.
  intros Hw Hn. destruct (from_bytes_as_bytes t Hw Hn) as (t' & H1 & H2 & H3 & H4 & H5).
  exists t'. rewrite <- tie_from_bytes by discriminate. rewrite <- !tie_as_bytes, !tie_digest.
  now repeat split.
Qed.

(* ------------------------------------------------------------------ Tree.load *)
(* json.load, the format check (every list is accepted), the legacy hash_name, from_list *)
Definition g_load (odb_name : list N) (hash_name : option (list N)) (raw : list N) : fl_res :=
  g_from_bytes (g_load_hash_name odb_name hash_name) raw.

(* the empty listing "[]" re-loads to the empty tree from every store *)
Theorem gen_load_empty odb_name : g_load odb_name None (g_as_bytes false []) = FlOk [].
Proof.
  unfold g_load, g_load_hash_name.
  destruct (list_N_eqb odb_name _); reflexivity.
Qed.

Theorem gen_load_roundtrip t : Wf t -> NoDupKeys t ->
  exists t', g_load s_md5 None (g_as_bytes false t) = FlOk t' /\
    map obs t' = sorted_obs t /\ Permutation (map obs t') (map obs t) /\
    g_as_bytes false t' = g_as_bytes false t /\ g_digest false t' = g_digest false t.
Proof. exact (gen_roundtrip t). Qed.

(* a legacy md5-dos2unix store *)
Theorem gen_load_roundtrip_d2u t : Wf t -> NoDupKeys t ->
  (forall e, In e t -> md5_valued (obs e)) ->
  exists t', g_load s_md5_dos2unix None (g_as_bytes false t) = FlOk t' /\
    map obs t' = sorted_obs t /\ Permutation (map obs t') (map obs t) /\
    g_as_bytes false t' = g_as_bytes false t /\ g_digest false t' = g_digest false t.
Proof.
  intros Hw Hn Hm. destruct (from_bytes_as_bytes_d2u t Hw Hn Hm) as (t' & H1 & H2 & H3 & H4 & H5).
  exists t'. unfold g_load. change (g_load_hash_name s_md5_dos2unix None) with (Some s_md5_dos2unix).
  rewrite <- tie_from_bytes by discriminate. rewrite <- !tie_as_bytes, !tie_digest.
  now repeat split.
Qed.
