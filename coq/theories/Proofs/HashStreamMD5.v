(* C14: the digest made concrete for MD5.  The theorems keep the digest abstract; this file only
   instantiates H with the Gallina RFC 1321 MD5 (Base/MD5.v) so that the correspondence run can
   compare the model's digest with hashlib's hexdigest literally, and puts Base/MD5.v into the
   dependency cone of Properties/C14.v. *)
From Coq Require Import NArith ZArith List.
From DvcData Require Import Base.Val Base.PyBase Base.PyStream Base.MD5 Gen.Hash Model.HashStream.
Import ListNotations.
Open Scope N_scope.

Definition md5_fobj (name : list N) (chunk : Z) (content cuts : list N) : val :=
  match fobj_md5 name chunk content cuts with
  | DriveOk s _ => VB (digest md5_hex s)
  | _ => VL []
  end.

(* md5("abc") = 900150983cd24fb0d6963f7d28e17f72, read in chunks of 2 *)
Example md5_fobj_abc :
  md5_fobj s_md5 2 [97; 98; 99] [] =
  VB [57;48;48;49;53;48;57;56;51;99;100;50;52;102;98;48;100;54;57;54;51;102;55;100;50;56;101;49;55;102;55;50].
Proof. vm_compute. reflexivity. Qed.

(* the legacy name: "a\r\nb" digests like "a\nb" under the plain MD5 *)
Example md5_fobj_legacy :
  md5_fobj s_md5_dos2unix 512 [97; 13; 10; 98] [] = md5_fobj s_md5 512 [97; 10; 98] [].
Proof. vm_compute. reflexivity. Qed.
