(* Basic facts about the list-sets, stores and events of Model/Transfer.v, and the
   step-invariant machinery used by C04 (closure of the destination under every prefix). *)
From Coq Require Import NArith List Bool Lia.
From DvcData Require Import Base.Val Model.Transfer.
Import ListNotations.
Open Scope N_scope.

(* ---- ids ---- *)
Lemma eqb_eq a b : list_N_eqb a b = true <-> a = b.
Proof. apply list_N_eqb_spec. Qed.
Lemma eqb_refl a : list_N_eqb a a = true.
Proof. now apply eqb_eq. Qed.
Lemma eqb_neq a b : list_N_eqb a b = false <-> a <> b.
Proof.
  split.
  - intros H E. apply eqb_eq in E. congruence.
  - intros H. destruct (list_N_eqb a b) eqn:E; auto. apply eqb_eq in E. contradiction.
Qed.
Lemma eqb_sym a b : list_N_eqb a b = list_N_eqb b a.
Proof.
  destruct (list_N_eqb a b) eqn:E.
  - apply eqb_eq in E. subst. now rewrite eqb_refl.
  - apply eqb_neq in E. symmetry. apply eqb_neq. congruence.
Qed.

Lemma mem_In o l : mem o l = true <-> In o l.
Proof.
  unfold mem. rewrite existsb_exists. split.
  - intros [x [H1 H2]]. apply eqb_eq in H2. now subst.
  - intros H. exists o. split; auto. apply eqb_refl.
Qed.
Lemma mem_nIn o l : mem o l = false <-> ~ In o l.
Proof.
  rewrite <- mem_In. destruct (mem o l); split; intros; try congruence.
Qed.
Lemma dedup_In o l : In o (dedup l) <-> In o l.
Proof.
  induction l as [|x r IH]; simpl; [tauto|].
  destruct (mem x r) eqn:E.
  - rewrite IH. apply mem_In in E. split; auto. intros [->|H]; auto.
  - simpl. rewrite IH. tauto.
Qed.
Lemma inter_In o a b : In o (inter a b) <-> In o a /\ In o b.
Proof. unfold inter. rewrite filter_In, mem_In. tauto. Qed.
Lemma diff_In o a b : In o (diff a b) <-> In o a /\ ~ In o b.
Proof. unfold diff. rewrite filter_In, negb_true_iff, mem_nIn. tauto. Qed.

Lemma filter_nil {A} (f : A -> bool) l : filter f l = [] -> forall x, In x l -> f x = false.
Proof.
  induction l as [|y r IH]; simpl; intros H x Hx; [contradiction|].
  destruct (f y) eqn:E; [discriminate|]. destruct Hx as [->|Hx]; auto.
Qed.
Lemma existsb_false {A} (f : A -> bool) l : existsb f l = false -> forall x, In x l -> f x = false.
Proof.
  intros H x Hx. destruct (f x) eqn:E; auto.
  assert (existsb f l = true) by (apply existsb_exists; eauto). congruence.
Qed.

Lemma is_file_dir o : is_file_oid o = true <-> is_dir_oid o = false.
Proof. unfold is_file_oid. apply negb_true_iff. Qed.

(* ---- order oracles ---- *)
Definition ord_ok (f : list oid -> list oid) : Prop := forall l o, In o (f l) <-> In o l.

Lemma by_priority_ok p : ord_ok (by_priority p).
Proof.
  intros l o. unfold by_priority. rewrite in_app_iff, !filter_In, mem_In, negb_true_iff, mem_nIn.
  split.
  - tauto.
  - intros H. destruct (mem o p) eqn:E.
    + left. apply mem_In in E. tauto.
    + right. apply mem_nIn in E. tauto.
Qed.

(* ---- stores ---- *)
Lemma has_lookup s o : has s o = true <-> exists b, lookup o s = Some b.
Proof. unfold has. destruct (lookup o s); split; eauto; try discriminate. intros [b H]; discriminate. Qed.
Lemma has_false s o : has s o = false <-> lookup o s = None.
Proof. unfold has. destruct (lookup o s); split; congruence. Qed.

Lemma lookup_put x o b s : lookup x (put o b s) = if list_N_eqb x o then Some b else lookup x s.
Proof. reflexivity. Qed.
Lemma lookup_del x o s : lookup x (del o s) = if list_N_eqb x o then None else lookup x s.
Proof.
  unfold del. induction s as [|[k v] r IH]; simpl.
  - now destruct (list_N_eqb x o).
  - destruct (list_N_eqb o k) eqn:E; simpl.
    + apply eqb_eq in E. subst k. destruct (list_N_eqb x o) eqn:E2; auto.
    + destruct (list_N_eqb x k) eqn:E2; auto.
      apply eqb_eq in E2. subst k. rewrite eqb_sym in E. now rewrite E.
Qed.

Lemma step_dst_lookup src e d x :
  lookup x (step_dst src e d) =
  match e with
  | Put o true => if list_N_eqb x o then (match lookup o src with Some b => Some b | None => lookup x d end)
                  else lookup x d
  | Partial o b => if list_N_eqb x o then Some b else lookup x d
  | Drop o => if list_N_eqb x o then None else lookup x d
  | _ => lookup x d
  end.
Proof.
  destruct e as [o [|]|o pb|o|d' fs|]; simpl; auto.
  - destruct (lookup o src) eqn:E.
    + apply lookup_put.
    + now destruct (list_N_eqb x o).
  - apply lookup_del.
Qed.

Lemma apply_dst_app src a b d : apply_dst src (a ++ b) d = apply_dst src b (apply_dst src a d).
Proof. revert d. induction a as [|e r IH]; simpl; auto. Qed.

(* where the bytes of an object in the destination come from *)
Lemma apply_dst_origin src evs : forall d x b,
  lookup x (apply_dst src evs d) = Some b ->
  lookup x d = Some b \/ lookup x src = Some b \/ In (Partial x b) evs.
Proof.
  induction evs as [|e r IH]; simpl; intros d x b H; auto.
  apply IH in H. destruct H as [H|[H|H]]; auto.
  rewrite step_dst_lookup in H.
  destruct e as [o [|]|o pb|o|d' fs|]; auto.
  - destruct (list_N_eqb x o) eqn:E; auto. apply eqb_eq in E. subst o.
    destruct (lookup x src); auto.
  - destruct (list_N_eqb x o) eqn:E; auto. apply eqb_eq in E. subst o. inversion H; subst. auto.
  - destruct (list_N_eqb x o); auto. discriminate.
Qed.

(* an object stays as long as it is not dropped *)
Lemma apply_dst_keeps src evs : forall d f,
  (forall o, In (Drop o) evs -> o <> f) -> has d f = true -> has (apply_dst src evs d) f = true.
Proof.
  induction evs as [|e r IH]; simpl; intros d f Hd H; auto.
  apply IH; [intros o Ho; apply Hd; auto|].
  apply has_lookup in H. destruct H as [b H]. apply has_lookup.
  rewrite step_dst_lookup.
  destruct e as [o [|]|o pb|o|d' fs|]; eauto.
  - destruct (list_N_eqb f o); eauto. destruct (lookup o src); eauto.
  - destruct (list_N_eqb f o); eauto.
  - destruct (list_N_eqb f o) eqn:E; eauto. apply eqb_eq in E. subst o.
    exfalso. apply (Hd f); auto.
Qed.

(* an untouched object keeps its binding *)
Definition ev_oid (e : event) : option oid :=
  match e with Put o _ => Some o | Partial o _ => Some o | Drop o => Some o | _ => None end.
Lemma apply_dst_untouched src evs : forall d x,
  (forall e, In e evs -> ev_oid e <> Some x) -> lookup x (apply_dst src evs d) = lookup x d.
Proof.
  induction evs as [|e r IH]; simpl; intros d x H; auto.
  rewrite IH by (intros e' He'; apply H; auto).
  rewrite step_dst_lookup.
  assert (He : ev_oid e <> Some x) by (apply H; auto).
  destruct e as [o [|]|o pb|o|d' fs|]; auto; simpl in He.
  - destruct (list_N_eqb x o) eqn:E; auto. apply eqb_eq in E. congruence.
  - destruct (list_N_eqb x o) eqn:E; auto. apply eqb_eq in E. congruence.
  - destruct (list_N_eqb x o) eqn:E; auto. apply eqb_eq in E. congruence.
Qed.

(* ---- the world ---- *)
Lemma apply_events_src evs : forall w, w_src (apply_events evs w) = w_src w.
Proof. induction evs as [|e r IH]; simpl; intros w; auto. rewrite IH. now destruct e. Qed.
Lemma apply_events_dst evs : forall w, w_dst (apply_events evs w) = apply_dst (w_src w) evs (w_dst w).
Proof.
  induction evs as [|e r IH]; simpl; intros w; auto. rewrite IH.
  destruct e as [o ok|o pb|o|d' fs|]; simpl; auto.
Qed.

(* ---- directory listings, closure ---- *)
Definition listing (parse : bytes -> option (list oid)) (s : store) (D : oid) : option (list oid) :=
  if is_dir_oid D then match lookup D s with Some b => parse b | None => None end else None.

(* C04: a directory object present in the store implies every file it lists *)
Definition closed (parse : bytes -> option (list oid)) (s : store) : Prop :=
  forall D l f, listing parse s D = Some l -> In f l -> has s f = true.

(* ---- the invariant carried through the events of one transfer ---- *)
(* an object that the transfer will never remove: it was there before, or its upload is
   going to succeed and to survive verification *)
Definition stable (i : t_in) (o : oid) : bool := has (t_dst i) o || delivered i o.

Definition Inv (i : t_in) (d : store) : Prop :=
  forall D l f, listing (t_parse i) d D = Some l -> In f l -> has d f = true /\ stable i f = true.

(* [S]: "strict" - the directory condition is demanded only when S holds (S := True for C04;
   C11 reuses the accounting with S := False, for destinations and requests that are not closed) *)
Section Safe.
Variable S : Prop.

Definition ev_ok (i : t_in) (d : store) (e : event) : Prop :=
  match e with
  | Put o true => S -> forall l f, listing (t_parse i) (t_src i) o = Some l -> In f l ->
                              has d f = true /\ stable i f = true
  | Partial o b => S -> is_dir_oid o = true -> t_parse i b = None   (* a truncated listing does not parse *)
  | Drop o => stable i o = false
  | _ => True
  end.

Fixpoint safe (i : t_in) (d : store) (evs : list event) : Prop :=
  match evs with
  | [] => True
  | e :: r => ev_ok i d e /\ safe i (step_dst (t_src i) e d) r
  end.

Lemma Inv_closed i d : Inv i d -> closed (t_parse i) d.
Proof. intros H D l f HD Hf. now destruct (H D l f HD Hf). Qed.

Lemma Inv_step i d e : S -> Inv i d -> ev_ok i d e -> Inv i (step_dst (t_src i) e d).
Proof.
  intros HS HI He D l f HD Hf.
  unfold listing in HD. destruct (is_dir_oid D) eqn:ED; [|discriminate].
  rewrite step_dst_lookup in HD.
  assert (Hmono : forall x, has d x = true -> x <> match e with Drop o => o | _ => x ++ [0] end ->
                            has (step_dst (t_src i) e d) x = true).
  { intros x Hx Hne. apply has_lookup in Hx. destruct Hx as [bx Hx]. apply has_lookup.
    rewrite step_dst_lookup. destruct e as [o [|]|o pb|o|d' fs|]; eauto.
    - destruct (list_N_eqb x o); eauto. destruct (lookup o (t_src i)); eauto.
    - destruct (list_N_eqb x o); eauto.
    - destruct (list_N_eqb x o) eqn:E; eauto. apply eqb_eq in E. congruence. }
  assert (Hold : (match lookup D d with Some b => t_parse i b | None => None end) = Some l ->
                 has d f = true /\ stable i f = true).
  { intros H. apply (HI D l f); auto. unfold listing. now rewrite ED. }
  assert (Hne : forall x : oid, x <> x ++ [0]).
  { intros x E. apply (f_equal (@length N)) in E. rewrite app_length in E. simpl in E. lia. }
  destruct e as [o [|]|o pb|o|d' fs|]; simpl in He.
  - destruct (list_N_eqb D o) eqn:E.
    + apply eqb_eq in E. subst o. destruct (lookup D (t_src i)) as [b|] eqn:EL.
      * assert (HL : listing (t_parse i) (t_src i) D = Some l) by (unfold listing; now rewrite ED, EL).
        destruct (He HS l f HL Hf) as [H1 H2]. split; auto.
      * destruct (Hold HD) as [H1 H2]. split; auto.
    + destruct (Hold HD) as [H1 H2]. split; auto.
  - destruct (Hold HD) as [H1 H2]. split; auto.
  - destruct (list_N_eqb D o) eqn:E.
    + apply eqb_eq in E. subst o. rewrite (He HS ED) in HD. discriminate.
    + destruct (Hold HD) as [H1 H2]. split; auto.
  - destruct (list_N_eqb D o) eqn:E; [discriminate|].
    destruct (Hold HD) as [H1 H2]. split; auto. apply Hmono; auto.
    intros ->. congruence.
  - destruct (Hold HD) as [H1 H2]. split; auto.
  - destruct (Hold HD) as [H1 H2]. split; auto.
Qed.

Lemma safe_app i a : forall b d, safe i d (a ++ b) <-> safe i d a /\ safe i (apply_dst (t_src i) a d) b.
Proof.
  induction a as [|e r IH]; simpl; intros b d; [tauto|]. rewrite IH. tauto.
Qed.
Lemma safe_firstn i evs : forall n d, safe i d evs -> safe i d (firstn n evs).
Proof.
  induction evs as [|e r IH]; intros [|n] d H; simpl; auto.
  destruct H as [H1 H2]. split; auto.
Qed.
Lemma safe_Inv i evs : S -> forall d, Inv i d -> safe i d evs -> Inv i (apply_dst (t_src i) evs d).
Proof.
  intros HS. induction evs as [|e r IH]; simpl; intros d HI H; auto.
  destruct H as [H1 H2]. apply IH; auto. now apply Inv_step.
Qed.
(* a stable object that is present stays present along safe events *)
Lemma safe_has i evs d f :
  safe i d evs -> has d f = true -> stable i f = true -> has (apply_dst (t_src i) evs d) f = true.
Proof.
  intros Hs Hh Hst. apply apply_dst_keeps; auto.
  intros o Ho ->. revert d Hs Hh. induction evs as [|e r IH]; simpl; intros d Hs Hh; [contradiction|].
  destruct Hs as [H1 H2]. destruct Ho as [->|Ho].
  - simpl in H1. congruence.
  - apply (IH Ho (step_dst (t_src i) e d)); auto.
    apply has_lookup in Hh. destruct Hh as [b Hb]. apply has_lookup. rewrite step_dst_lookup.
    destruct e as [o [|]|o pb|o|d' fs|]; eauto.
    + destruct (list_N_eqb f o); eauto. destruct (lookup o (t_src i)); eauto.
    + destruct (list_N_eqb f o); eauto.
    + simpl in H1. destruct (list_N_eqb f o) eqn:E; eauto. apply eqb_eq in E. subst o. congruence.
Qed.
Lemma safe_Drop_unstable i evs : forall d o, safe i d evs -> In (Drop o) evs -> stable i o = false.
Proof.
  induction evs as [|e r IH]; simpl; intros d o Hs Ho; [contradiction|].
  destruct Hs as [H1 H2]. destruct Ho as [->|Ho]; eauto.
Qed.

(* ev_ok only grows with the store *)
Lemma ev_ok_mono i d d' e :
  (forall x, has d x = true -> has d' x = true) -> ev_ok i d e -> ev_ok i d' e.
Proof.
  intros Hm. destruct e as [o [|]|o pb|o|dd fs|]; simpl; auto.
  intros H HS l f HL Hf. destruct (H HS l f HL Hf). split; auto.
Qed.
Lemma attempt_mono i o d x : has d x = true -> has (step_dst (t_src i) (attempt i o) d) x = true.
Proof.
  intros H. apply has_lookup in H. destruct H as [b H]. apply has_lookup. rewrite step_dst_lookup.
  unfold attempt. destruct (upload_ok i o).
  - destruct (list_N_eqb x o); eauto. destruct (lookup o (t_src i)); eauto.
  - destruct (part_written i o); eauto. destruct (list_N_eqb x o); eauto.
Qed.

(* one _add batch *)
Lemma safe_add i batch d :
  (forall o, In o (t_bord i batch) -> ev_ok i d (attempt i o)) ->
  (forall o, In o (t_bord i batch) -> dropped i o = true -> stable i o = false) ->
  safe i d (add_events i batch).
Proof.
  unfold add_events. set (B := t_bord i batch). clearbody B. intros HP HD.
  apply safe_app. split.
  - revert d HP. induction B as [|o r IH]; simpl; intros d HP; auto. split.
    + apply HP; left; reflexivity.
    + apply IH.
      * intros o' H1 H2. apply HD; [right; exact H1|exact H2].
      * intros o' Ho'. eapply ev_ok_mono; [|apply HP; right; exact Ho']. intros x. apply attempt_mono.
  - generalize (apply_dst (t_src i) (map (attempt i) B) d). intros d'.
    assert (H : forall o, In o (filter (dropped i) B) -> stable i o = false).
    { intros o Ho. apply filter_In in Ho. destruct Ho. apply HD; auto. }
    revert d' H. induction (filter (dropped i) B) as [|o r IH]; simpl; intros d' H; auto.
Qed.

End Safe.

Lemma delivered_not_dropped i o : delivered i o = true -> dropped i o = false.
Proof. unfold delivered. intros H. apply andb_true_iff in H. destruct H as [_ H]. now apply negb_true_iff in H. Qed.
Lemma delivered_upload i o : delivered i o = true -> upload_ok i o = true.
Proof. unfold delivered. intros H. apply andb_true_iff in H. tauto. Qed.
Lemma dropped_not_delivered i o : dropped i o = true -> delivered i o = false.
Proof. unfold delivered. intros ->. apply andb_false_r. Qed.

Lemma attempt_cases i x :
  (attempt i x = Put x true /\ upload_ok i x = true) \/
  (attempt i x = Partial x (t_trunc i x) /\ upload_ok i x = false /\ part_written i x = true) \/
  (attempt i x = Put x false /\ upload_ok i x = false).
Proof.
  unfold attempt. destruct (upload_ok i x); auto. destruct (part_written i x); auto.
Qed.
Lemma add_events_In_Put i batch o ok :
  ord_ok (t_bord i) -> In (Put o ok) (add_events i batch) -> In o batch /\ ok = upload_ok i o.
Proof.
  intros Ho H. unfold add_events in H. apply in_app_or in H. destruct H as [H|H].
  - apply in_map_iff in H. destruct H as [x [E Hx]].
    destruct (attempt_cases i x) as [[E1 E2]|[[E1 [E2 E3]]|[E1 E2]]]; rewrite E1 in E; inversion E; subst;
      (split; [now apply Ho|auto]).
  - apply in_map_iff in H. destruct H as [x [E Hx]]. discriminate.
Qed.
Lemma add_events_In_Partial i batch o b :
  ord_ok (t_bord i) -> In (Partial o b) (add_events i batch) ->
  In o batch /\ upload_ok i o = false /\ part_written i o = true.
Proof.
  intros Ho H. unfold add_events in H. apply in_app_or in H. destruct H as [H|H].
  - apply in_map_iff in H. destruct H as [x [E Hx]].
    destruct (attempt_cases i x) as [[E1 E2]|[[E1 [E2 E3]]|[E1 E2]]]; rewrite E1 in E; inversion E; subst.
    split; [now apply Ho|auto].
  - apply in_map_iff in H. destruct H as [x [E Hx]]. discriminate.
Qed.
Lemma add_events_In_Drop i batch o :
  ord_ok (t_bord i) -> In (Drop o) (add_events i batch) -> In o batch /\ dropped i o = true.
Proof.
  intros Ho H. unfold add_events in H. apply in_app_or in H. destruct H as [H|H].
  - apply in_map_iff in H. destruct H as [x [E Hx]].
    destruct (attempt_cases i x) as [[E1 E2]|[[E1 [E2 E3]]|[E1 E2]]]; rewrite E1 in E; discriminate.
  - apply in_map_iff in H. destruct H as [x [E Hx]]. inversion E; subst.
    apply filter_In in Hx. destruct Hx. split; auto. now apply Ho.
Qed.
Lemma add_events_oid i batch e x :
  ord_ok (t_bord i) -> In e (add_events i batch) -> ev_oid e = Some x -> In x batch.
Proof.
  intros Ho H Hx. destruct e as [o ok|o pb|o|dd fs|]; simpl in Hx; try discriminate; inversion Hx; subst.
  - now apply add_events_In_Put in H.
  - now apply add_events_In_Partial in H.
  - now apply add_events_In_Drop in H.
Qed.
Lemma add_failed_In i batch o :
  ord_ok (t_bord i) -> (In o (add_failed i batch) <-> In o batch /\ delivered i o = false).
Proof.
  intros Ho. unfold add_failed. rewrite filter_In, negb_true_iff. now rewrite (Ho batch o).
Qed.

(* a delivered member of the batch is present afterwards *)
Lemma add_events_has i batch d o :
  ord_ok (t_bord i) -> In o batch -> delivered i o = true ->
  has (apply_dst (t_src i) (add_events i batch) d) o = true.
Proof.
  intros Ho Hin Hd. unfold add_events. rewrite apply_dst_app.
  apply apply_dst_keeps.
  - intros x Hx ->. apply in_map_iff in Hx. destruct Hx as [y [E Hy]]. inversion E; subst.
    apply filter_In in Hy. destruct Hy as [_ Hy]. apply delivered_not_dropped in Hd. congruence.
  - apply Ho in Hin. revert d. induction (t_bord i batch) as [|y r IH]; simpl; intros d; [contradiction|].
    destruct Hin as [->|Hin].
    + apply apply_dst_keeps.
      * intros x Hx. apply in_map_iff in Hx. destruct Hx as [z [E _]].
        destruct (attempt_cases i z) as [[E1 E2]|[[E1 [E2 E3]]|[E1 E2]]]; rewrite E1 in E; discriminate.
      * unfold attempt. rewrite (delivered_upload _ _ Hd). simpl.
        assert (Hs : has (t_src i) o = true).
        { unfold delivered, upload_ok in Hd. apply andb_true_iff in Hd. destruct Hd as [Hd _].
          apply andb_true_iff in Hd. tauto. }
        apply has_lookup in Hs. destruct Hs as [b Hb]. rewrite Hb.
        apply has_lookup. exists b. rewrite lookup_put. now rewrite eqb_refl.
    + apply IH; auto.
Qed.
