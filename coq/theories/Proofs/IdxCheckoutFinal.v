(* Proofs about Model/IdxCheckout.v, part 4: convergence of compare + apply with delete=True and the
   empty second compare. *)
From Coq Require Import NArith List Bool Lia PeanoNat.
From DvcData Require Import Base.Val Base.PyBase Gen.PyTypes Gen.IDiff Model.IdxCheckout.
From DvcData Require Import Proofs.IdxCheckoutProofs Proofs.IdxCheckoutConverge Proofs.IdxCheckoutPhases.
Import ListNotations.
Open Scope N_scope.

(* ---- prefixes, once more ---------------------------------------------------------------------------- *)
Lemma list_N_eqb_refl x : list_N_eqb x x = true.
Proof. now apply list_N_eqb_spec. Qed.

Lemma In_prefixes_iff q : forall k, In q (prefixes k) <-> q <> [] /\ is_prefix q k = true.
Proof.
  split; [intros H; apply prefixes_is_prefix in H; tauto|].
  revert q. induction k as [|x k IH]; intros q [NE P].
  - destruct q; [congruence|discriminate].
  - destruct q as [|y q]; [congruence|]. simpl in P. apply andb_true_iff in P as [E P].
    apply list_N_eqb_spec in E. subst y. simpl. destruct q as [|z q]; [now left|].
    right. apply in_map. apply IH. split; [discriminate|auto].
Qed.

Lemma strict_prefix_removelast q : forall k, strict_prefix q k = true -> is_prefix q (removelast k) = true.
Proof.
  induction q as [|y q IH]; intros k H; [reflexivity|].
  destruct k as [|x k]; [apply strict_prefix_length in H; simpl in H; lia|].
  pose proof (strict_prefix_length _ _ H) as L. unfold strict_prefix in H. apply andb_true_iff in H as [P _].
  simpl in P. apply andb_true_iff in P as [E P]. destruct k as [|x2 k].
  - destruct q; simpl in L; [lia|discriminate].
  - change (removelast (x :: x2 :: k)) with (x :: removelast (x2 :: k)). cbn [is_prefix]. rewrite E. cbn [andb].
    apply IH. unfold strict_prefix. rewrite P. apply Nat.ltb_lt. simpl in *. lia.
Qed.
Lemma In_prefixes_parent_iff q k : q <> [] -> strict_prefix q k = true -> In q (prefixes (parent k)).
Proof. intros NE P. apply In_prefixes_iff. split; auto. now apply strict_prefix_removelast. Qed.

Lemma is_prefix_same_length p : forall k, is_prefix p k = true -> length p = length k -> p = k.
Proof.
  induction p as [|x p IH]; intros [|y k] H L; simpl in *; try discriminate; auto.
  apply andb_true_iff in H as [E H]. apply list_N_eqb_spec in E. subst. f_equal. apply IH; auto.
Qed.
Lemma is_prefix_cases p k : is_prefix p k = true -> p = k \/ strict_prefix p k = true.
Proof.
  intros H. pose proof (is_prefix_length _ _ H) as L.
  destruct (Nat.eq_dec (length p) (length k)) as [E|NE].
  - left. now apply is_prefix_same_length.
  - right. unfold strict_prefix. rewrite H. apply Nat.ltb_lt. lia.
Qed.

Lemma under_some_spec k l : under_some k l = true <-> exists k', In k' l /\ In k (prefixes k').
Proof.
  unfold under_some. rewrite existsb_exists. split; intros [k' [H1 H2]]; exists k'; split; auto; now apply mem_key_spec.
Qed.

Lemma assoc_c_In l : forall k c, NoDup (map fst l) -> In (k, c) l -> assoc_c l k = Some c.
Proof.
  induction l as [|[k1 c1] l IH]; intros k c ND H; [destruct H|]. simpl. inversion ND; subst.
  destruct H as [E|H].
  - injection E as -> ->. now rewrite key_eqb_refl.
  - destruct (key_eqb k k1) eqn:E; [|now apply IH].
    apply key_eqb_spec in E. subst. exfalso. apply H2. apply in_map_iff. exists (k1, c). auto.
Qed.
Lemma assoc_c_notin l : forall k, ~ In k (map fst l) -> assoc_c l k = None.
Proof.
  induction l as [|[k1 c1] l IH]; intros k H; simpl; auto.
  destruct (key_eqb k k1) eqn:E.
  - apply key_eqb_spec in E. subst. exfalso. apply H. now left.
  - apply IH. intros X. apply H. now right.
Qed.

Lemma nil_of_notin {A} (l : list A) : (forall x, ~ In x l) -> l = [].
Proof. destruct l; auto. intros H. exfalso. apply (H a). now left. Qed.

Lemma rm_keeps_none k' (w : ws) k : lookup w k = None -> lookup (rm k' w) k = None.
Proof.
  intros H. unfold rm. destruct (lookup w k') as [[]|].
  2: { rewrite (lookup_filter_keys (fun k0 => negb (is_prefix k' k0))), H. now destruct (negb (is_prefix k' k)). }
  all: rewrite lookup_remove, H; now destruct (key_eqb k' k).
Qed.
Lemma rmdir_keeps_none k' (w : ws) k : lookup w k = None -> lookup (rmdir k' w) k = None.
Proof.
  intros H. unfold rmdir. destruct (lookup w k') as [[]|]; auto. destruct (has_child k' w); auto.
  rewrite lookup_remove, H. now destruct (key_eqb k' k).
Qed.
Lemma fold_keeps_none (f : key -> ws -> ws) l :
  (forall k' w k, lookup w k = None -> lookup (f k' w) k = None) ->
  forall w k, lookup w k = None -> lookup (fold_left (fun w k => f k w) l w) k = None.
Proof. intros Hf. induction l; intros w k H; simpl; auto. Qed.

Section Converge.
  Variables (lt : link) (avail : list bytes) (tr : trees) (order odc : list key) (w : ws) (t : target).
  Let t' := fst (expand tr t).
  Let p := compare false true w tr t.
  Hypothesis Hw : ws_ok w.
  Hypothesis Ht : tgt_ok t'.
  Hypothesis Hroot : t_file (lookup t' []) = false.
  Hypothesis Hnf : snd (expand tr t) = [].
  Hypothesis Hav : forall k x c, lookup t' k = Some (TFile x c) -> exists c0, c = Some c0 /\ mem_bytes c0 avail = true.

  Let DC := DCl odc p.
  Let L := files_create (fst p).
  Let PL := map (fun kc : key * option bytes => parent (fst kc)) L.
  Let W3 := ws3 odc p w.
  Let W3' := fold_left (fun w k => makedirs k w) PL W3.

  Lemma In_DC k : In k DC <-> dc (lookup w k) (lookup t' k) = true.
  Proof. unfold DC, DCl, p. rewrite reorder_In_iff, dirs_create_nofail by exact Hnf. apply In_dirs_create_raw. Qed.
  Lemma In_L k c : In (k, c) L <-> fc (lookup w k) (lookup t' k) = true /\ c = t_content (lookup t' k).
  Proof. apply In_files_create. Qed.

  (* a directory of the target: an entry, or an implicit node *)
  Definition dirnode (q : key) : Prop :=
    t_dir (lookup t' q) = true \/ exists k2, lookup t' k2 <> None /\ strict_prefix q k2 = true.
  Lemma dirnode_cases q : dirnode q -> t_dir (lookup t' q) = true \/ (lookup t' q = None /\ has_node t' q = true).
  Proof.
    intros [D|[k2 [N P]]]; auto.
    pose proof (Ht _ N _ P) as F. assert (HN : has_node t' q = true) by (apply has_node_spec; eauto).
    destruct (lookup t' q) as [[]|]; simpl in *; auto; discriminate.
  Qed.
  Lemma not_dirnode k : t_file (lookup t' k) = true \/ (lookup t' k = None /\ has_node t' k = false) -> ~ dirnode k.
  Proof.
    intros H D. apply dirnode_cases in D. destruct H as [F|[N HN]], D as [D|[N2 HN2]];
      destruct (lookup t' k) as [[]|]; simpl in *; congruence.
  Qed.

  Lemma DC_dirnode k' q : In k' DC -> In q (prefixes k') -> dirnode q.
  Proof.
    intros I P. apply In_DC in I. unfold dc in I. apply andb_true_iff in I as [D _].
    apply In_prefixes_iff in P as [_ P]. destruct (is_prefix_cases _ _ P) as [->|S]; [now left|].
    right. exists k'. split; auto. destruct (lookup t' k'); [discriminate|discriminate].
  Qed.
  Lemma PL_dirnode k' q : In k' PL -> In q (prefixes k') -> dirnode q.
  Proof.
    intros I P. unfold PL in I. apply in_map_iff in I as [[k2 c] [<- I]]. cbn [fst] in P.
    apply In_prefixes_parent in P as [S _]. apply In_L in I as [F _]. right. exists k2. split; auto.
    unfold fc in F. destruct (lookup t' k2); [discriminate|discriminate].
  Qed.

  Definition Mid (W : ws) : Prop := forall k, k <> [] ->
    match lookup t' k with
    | Some (TDir _ _) => lookup W k = Some Dir
    | Some (TFile x c) => lookup W k = if same_file (lookup w k) (Some (TFile x c)) then lookup w k else None
    | None => if has_node t' k then lookup W k = Some Dir \/ lookup W k = None else lookup W k = None
    end.

  Lemma no_under l k : (forall k' q, In k' l -> In q (prefixes k') -> dirnode q) -> ~ dirnode k -> under_some k l = false.
  Proof.
    intros H N. destruct (under_some k l) eqn:U; auto. apply under_some_spec in U as [k' [I P]].
    exfalso. apply N. eapply H; eauto.
  Qed.

  Lemma mid3 : Mid W3.
  Proof.
    intros k NE. unfold W3, ws3. rewrite makedirs_fold_spec. fold DC. unfold p.
    rewrite (delete_phase w tr t Hw Ht k NE). fold t'. fold p.
    destruct (lookup t' k) as [[x c|h lz]|] eqn:T.
    - assert (U : under_some k DC = false).
      { apply no_under; [apply DC_dirnode|]. apply not_dirnode. rewrite T. now left. }
      destruct (Hav _ _ _ T) as [c0 [-> A]].
      rewrite U. destruct (lookup w k) as [[b xo sho| |]|] eqn:O; unfold fd, dd; simpl; try congruence.
      destruct (list_N_eqb b c0); simpl; auto.
    - assert (U : o_dir (lookup w k) = false -> under_some k DC = true).
      { intros OD. apply under_some_spec. exists k. split; [|now apply In_prefixes_self].
        apply In_DC. rewrite T. unfold dc. simpl. now rewrite OD. }
      destruct (lookup w k) as [[b xo sho| |]|] eqn:O; unfold fd, dd; simpl; try congruence.
      + rewrite U; auto.
      + rewrite U; auto.
      + rewrite U; auto.
    - destruct (has_node t' k) eqn:HN.
      + destruct (lookup w k) as [[b xo sho| |]|] eqn:O; unfold fd, dd; simpl; try congruence; auto;
          destruct (under_some k DC); auto.
      + assert (U : under_some k DC = false).
        { apply no_under; [apply DC_dirnode|]. apply not_dirnode. rewrite T. right. auto. }
        rewrite U. destruct (lookup w k) as [[b xo sho| |]|] eqn:O; unfold fd, dd; simpl; try congruence; auto.
  Qed.

  (* _create_dirs meets no obstruction *)
  Lemma cd3_ok : cd3 odc p w = (W3, false).
  Proof.
    unfold cd3, W3, ws3. apply create_dirs_ok. intros k q Ik Iq.
    pose proof (DC_dirnode _ _ Ik Iq) as D. apply dirnode_cases in D.
    assert (NE : q <> []) by (apply In_prefixes_iff in Iq; tauto).
    unfold clear_at. unfold p. rewrite (delete_phase w tr t Hw Ht q NE). fold t'.
    destruct D as [D|[N HN]].
    - destruct (lookup t' q) as [[|h lz]|] eqn:T; simpl in D; try discriminate.
      destruct (lookup w q) as [[b xo sho| |]|] eqn:O; unfold fd, dd; simpl; auto.
    - rewrite N, HN. destruct (lookup w q) as [[b xo sho| |]|] eqn:O; unfold fd, dd; simpl; auto.
  Qed.

  Lemma mid_makedirs l W : Mid W -> (forall k' q, In k' l -> In q (prefixes k') -> dirnode q) ->
    Mid (fold_left (fun w k => makedirs k w) l W).
  Proof.
    intros M H k NE. specialize (M k NE). rewrite makedirs_fold_spec.
    destruct (lookup W k) as [n|] eqn:E; [exact M|].
    destruct (under_some k l) eqn:U.
    - apply under_some_spec in U as [k' [I P]]. pose proof (dirnode_cases _ (H _ _ I P)) as [D|[N HN]].
      + destruct (lookup t' k) as [[]|]; simpl in D; try discriminate; auto.
      + rewrite N, HN. now left.
    - exact M.
  Qed.

  Lemma mid3' : Mid W3'.
  Proof. unfold W3'. apply mid_makedirs; [apply mid3 | apply PL_dirnode]. Qed.

  Lemma strict_is_prefix a b : strict_prefix a b = true -> is_prefix a b = true.
  Proof. unfold strict_prefix. intros H. now apply andb_true_iff in H as [H _]. Qed.

  Lemma parents_dir k' c q : In (k', c) L -> In q (prefixes (parent k')) -> lookup W3' q = Some Dir.
  Proof.
    intros I P. assert (IP : In (parent k') PL) by (unfold PL; apply in_map_iff; exists (k', c); auto).
    assert (NE : q <> []) by (apply In_prefixes_iff in P; tauto).
    unfold W3'. rewrite makedirs_fold_spec.
    assert (U : under_some q PL = true) by (apply under_some_spec; eauto).
    rewrite U. destruct (lookup W3 q) as [n|] eqn:E; auto.
    pose proof (mid3 q NE) as M. destruct (dirnode_cases q (PL_dirnode _ _ IP P)) as [D|[N HN]].
    - destruct (lookup t' q) as [[]|]; simpl in D; try discriminate. congruence.
    - rewrite N, HN in M. destruct M; congruence.
  Qed.

  Lemma implicit_dir k : k <> [] -> lookup t' k = None -> has_node t' k = true -> lookup W3' k = Some Dir.
  Proof.
    intros NE T HN. pose proof (mid3' k NE) as M. rewrite T, HN in M. destruct M as [M|E]; auto. exfalso.
    unfold W3' in E. rewrite makedirs_fold_spec in E.
    destruct (lookup W3 k) eqn:E3; [discriminate|]. destruct (under_some k PL) eqn:U1; [discriminate|].
    unfold W3, ws3 in E3. rewrite makedirs_fold_spec in E3. fold DC in E3.
    destruct (lookup (ws2 p w) k) eqn:E2; [discriminate|]. destruct (under_some k DC) eqn:U2; [discriminate|].
    unfold p in E2. rewrite (delete_phase w tr t Hw Ht k NE) in E2. fold t' in E2. rewrite T, HN in E2.
    destruct Hw as [Hpc _].
    apply has_node_spec in HN as [k2 [P N2]].
    assert (O2 : lookup w k2 = None).
    { destruct (lookup w k2) eqn:O2; auto. exfalso.
      assert (X : lookup w k2 <> None) by congruence. rewrite (Hpc _ X _ P NE) in E2.
      unfold fd, dd in E2. simpl in E2. discriminate. }
    assert (IK : In k (prefixes k2)) by (apply In_prefixes_iff; split; auto; now apply strict_is_prefix).
    destruct (lookup t' k2) as [[x c|h lz]|] eqn:T2; [| |congruence].
    - assert (I : In (k2, c) L) by (apply In_L; rewrite T2, O2; auto).
      assert (U : under_some k PL = true).
      { apply under_some_spec. exists (parent k2). split; [unfold PL; apply in_map_iff; exists (k2, c); auto|].
        now apply In_prefixes_parent_iff. }
      congruence.
    - assert (I : In k2 DC) by (apply In_DC; rewrite T2, O2; auto).
      assert (U : under_some k DC = true) by (apply under_some_spec; eauto). congruence.
  Qed.

  Lemma L_entry k c : In (k, c) L ->
    exists x c0, lookup t' k = Some (TFile x (Some c0)) /\ c = Some c0 /\ mem_bytes c0 avail = true /\
                 same_file (lookup w k) (Some (TFile x (Some c0))) = false /\ k <> [].
  Proof.
    intros I. apply In_L in I as [F ->]. unfold fc in F. apply andb_true_iff in F as [TF S].
    destruct (lookup t' k) as [[x c|]|] eqn:T; try discriminate.
    destruct (Hav _ _ _ T) as [c0 [-> A]]. exists x, c0. repeat split; auto.
    - now apply negb_true_iff in S.
    - intros ->. rewrite T in Hroot. discriminate.
  Qed.

  Lemma map_fst_sel {B} (g : key -> bool) (h : key -> B) l :
    map fst (flat_map (fun k => if g k then [(k, h k)] else []) l) = flat_map (fun k => if g k then [k] else []) l.
  Proof. induction l as [|x l IH]; simpl; auto. rewrite map_app, IH. now destruct (g x). Qed.

  Lemma L_NoDup : NoDup (map fst L).
  Proof. unfold L, p. rewrite files_create_acts, map_fst_sel. apply sel_NoDup, dedup_NoDup. Qed.

  Lemma w4_eq : ws4 lt avail odc p w = fold_left (cf_step lt avail) L (W3', []).
  Proof.
    unfold ws4. fold L. rewrite cd3_ok. cbn [fst]. rewrite create_files_eq. f_equal. f_equal.
    rewrite make_parents_all; auto.
    intros [k c] I. destruct (L_entry _ _ I) as [x [c0 [_ [-> [A _]]]]]. unfold to_transfer. cbn [snd].
    destruct lt; auto.
  Qed.

  Lemma w4_spec :
    snd (ws4 lt avail odc p w) = [] /\
    forall k, lookup (fst (ws4 lt avail odc p w)) k =
              match assoc_c L k with
              | Some (Some c0) => Some (File c0 false (shares lt c0))
              | _ => lookup W3' k
              end.
  Proof.
    rewrite w4_eq. apply (create_fold_spec lt avail L (W3', [])).
    - apply L_NoDup.
    - intros k' c I. destruct (L_entry _ _ I) as [x [c0 [T [-> [A [S NE]]]]]]. exists c0. cbn [fst].
      repeat split; auto.
      + pose proof (mid3' k' NE) as M. rewrite T, S in M. exact M.
      + intros q Hq. eapply parents_dir; eauto.
    - intros k' c q I Hq Hin. apply in_map_iff in Hin as [[q0 cq] [E Iq]]. simpl in E. subst q0.
      destruct (L_entry _ _ Iq) as [x [c0 [T _]]].
      assert (IP : In (parent k') PL) by (unfold PL; apply in_map_iff; exists (k', c); auto).
      apply (not_dirnode q); [rewrite T; now left|]. eapply PL_dirnode; eauto.
  Qed.

  (* the workspace after the creation phases, before chmod *)
  Definition at4 (o : option node) (ow : option node) (te : option tentry) (hn : bool) : Prop :=
    match te with
    | Some (TFile x c) => exists c0, c = Some c0 /\
        o = if same_file ow (Some (TFile x (Some c0))) then ow else Some (File c0 false (shares lt c0))
    | Some (TDir _ _) => o = Some Dir
    | None => o = if hn then Some Dir else None
    end.

  Lemma w4_at k : k <> [] -> at4 (lookup (fst (ws4 lt avail odc p w)) k) (lookup w k) (lookup t' k) (has_node t' k).
  Proof.
    intros NE. destruct w4_spec as [_ S]. rewrite S. pose proof (mid3' k NE) as M. unfold at4.
    destruct (lookup t' k) as [[x c|h lz]|] eqn:T.
    - destruct (Hav _ _ _ T) as [c0 [-> A]]. exists c0. split; auto.
      destruct (same_file (lookup w k) (Some (TFile x (Some c0)))) eqn:SF.
      + rewrite assoc_c_notin; auto. intros I. apply in_map_iff in I as [[k0 c] [E I]]. simpl in E. subst k0.
        apply In_L in I as [F _]. rewrite T in F. unfold fc in F. rewrite SF in F. simpl in F. discriminate.
      + rewrite (assoc_c_In L k (Some c0)); auto; [apply L_NoDup|].
        apply In_L. rewrite T. unfold fc. rewrite SF. auto.
    - rewrite assoc_c_notin; auto. intros I. apply in_map_iff in I as [[k0 c] [E I]]. simpl in E. subst k0.
      destruct (L_entry _ _ I) as [x [c0 [T2 _]]]. congruence.
    - rewrite assoc_c_notin.
      + destruct (has_node t' k) eqn:HN; auto. now apply implicit_dir.
      + intros I. apply in_map_iff in I as [[k0 c] [E I]]. simpl in E. subst k0.
        destruct (L_entry _ _ I) as [x [c0 [T2 _]]]. congruence.
  Qed.

  Let W4 := fst (ws4 lt avail odc p w).
  Let CH := reorder order (files_chmod (fst p)).

  Lemma In_CH k : In k CH <-> fch (lookup w k) (lookup t' k) = true.
  Proof. unfold CH. rewrite reorder_In_iff. apply In_files_chmod. Qed.

  Lemma tfile_nonroot k x c : lookup t' k = Some (TFile x c) -> k <> [].
  Proof. intros T ->. rewrite T in Hroot. discriminate. Qed.

  Lemma CH_files k : In k CH -> o_file (lookup W4 k) = true.
  Proof.
    intros I. apply In_CH in I. unfold fch in I. apply andb_true_iff in I as [TF _].
    destruct (lookup t' k) as [[x c|]|] eqn:T; try discriminate.
    pose proof (w4_at k (tfile_nonroot _ _ _ T)) as A. rewrite T in A. destruct A as [c0 [-> A]].
    unfold W4. rewrite A. destruct (same_file (lookup w k) (Some (TFile x (Some c0)))) eqn:S; auto.
    destruct (lookup w k) as [[]|]; simpl in S; try discriminate. reflexivity.
  Qed.

  (* what the target asks of one path (exec bit in the property's direction) *)
  Definition conv_at (o : option node) (te : option tentry) (hn : bool) : Prop :=
    match te with
    | Some (TFile x c) => exists c0 x' sh, c = Some c0 /\ o = Some (File c0 x' sh) /\ (x = true -> x' = true)
    | Some (TDir _ _) => o = Some Dir
    | None => o = if hn then Some Dir else None
    end.

  Lemma root_none : lookup W4 [] = None.
  Proof.
    destruct w4_spec as [_ S]. unfold W4. rewrite S.
    assert (A : assoc_c L [] = None).
    { apply assoc_c_notin. intros I. apply in_map_iff in I as [[k0 c] [E I]]. simpl in E. subst k0.
      destruct (L_entry _ _ I) as [x [c0 [_ [_ [_ [_ NE]]]]]]. congruence. }
    rewrite A.
    assert (U : forall l, under_some [] l = false).
    { intros l. destruct (under_some [] l) eqn:U; auto. apply under_some_spec in U as [k' [_ P]].
      apply In_prefixes_iff in P as [NE _]. congruence. }
    unfold W3'. rewrite makedirs_fold_spec, U. unfold W3, ws3. rewrite makedirs_fold_spec, U.
    assert (Z : lookup (ws2 p w) [] = None).
    { unfold ws2. apply (fold_keeps_none rmdir); [apply rmdir_keeps_none|].
      unfold ws1. apply (fold_keeps_none rm); [apply rm_keeps_none|]. apply Hw. }
    now rewrite Z.
  Qed.

  Theorem converges :
    let o := checkout lt true avail tr order odc w t in
    o_errs o = [] /\ o_raised o = false /\
    (forall k, k <> [] -> conv_at (lookup (o_ws o) k) (lookup t' k) (has_node t' k)) /\
    lookup (o_ws o) [] = None.
  Proof.
    cbv zeta. unfold checkout. fold p.
    destruct (chmod_files_spec CH W4 CH_files) as [R [LE X]].
    assert (R3 : snd (cd3 odc p w) = false) by (now rewrite cd3_ok).
    repeat split.
    - rewrite apply_errs by exact R3. destruct w4_spec as [E _]. rewrite E, app_nil_r.
      unfold p. rewrite compare_eq. cbn [snd]. now rewrite Hnf.
    - rewrite apply_raised by exact R3. exact R.
    - intros k NE. rewrite apply_ws by exact R3. fold CH. fold W4. specialize (LE k).
      pose proof (w4_at k NE) as A. fold W4 in A. unfold at4 in A. unfold conv_at.
      destruct (lookup t' k) as [[x c|h lz]|] eqn:T.
      + destruct A as [c0 [-> A]]. exists c0.
        destruct (same_file (lookup w k) (Some (TFile x (Some c0)))) eqn:S.
        * destruct (lookup w k) as [[b xo sho| |]|] eqn:O; simpl in S; try discriminate.
          apply list_N_eqb_spec in S. subst b. rewrite A in LE.
          destruct (lookup (fst (chmod_files CH W4)) k) as [[b' x' sh'| |]|] eqn:E5; simpl in LE; try tauto.
          destruct LE as [<- [<- Hx]]. exists x', sho. repeat split; auto. intros ->.
          destruct (fch (lookup w k) (lookup t' k)) eqn:F.
          -- apply In_CH, X in F. rewrite E5 in F. simpl in F. destruct x'; auto; destruct F.
          -- rewrite O, T in F. unfold fch in F. simpl in F.
             replace (list_N_eqb c0 c0) with true in F by (symmetry; apply list_N_eqb_refl).
             destruct xo; simpl in F; auto; discriminate.
        * rewrite A in LE.
          destruct (lookup (fst (chmod_files CH W4)) k) as [[b' x' sh'| |]|] eqn:E5; simpl in LE; try tauto.
          destruct LE as [<- [<- Hx]]. exists x', (shares lt c0). repeat split; auto. intros ->.
          assert (F : fch (lookup w k) (lookup t' k) = true) by (rewrite T; unfold fch; rewrite S; auto).
          apply In_CH, X in F. rewrite E5 in F. simpl in F. destruct x'; auto; destruct F.
      + rewrite A in LE. destruct (lookup (fst (chmod_files CH W4)) k) as [[]|]; simpl in LE; tauto || auto.
      + rewrite A in LE. destruct (has_node t' k);
          destruct (lookup (fst (chmod_files CH W4)) k) as [[]|]; simpl in LE; tauto || auto.
    - rewrite apply_ws by exact R3. fold CH. fold W4. specialize (LE []). rewrite root_none in LE.
      destruct (lookup (fst (chmod_files CH W4)) []) as [[]|]; simpl in LE; tauto || auto.
  Qed.

  (* ---- the second compare ---------------------------------------------------------------------------- *)
  Theorem fixpoint :
    let o := checkout lt true avail tr order odc w t in
    let p2 := fst (compare false true (o_ws o) tr t) in
    files_delete p2 = [] /\ dirs_delete p2 = [] /\ files_create p2 = [] /\ forall k, In k (dirs_create p2) -> k = [].
  Proof.
    cbv zeta. destruct converges as [_ [_ [C R]]]. cbv zeta in C, R.
    set (w' := o_ws (checkout lt true avail tr order odc w t)) in *.
    assert (K : forall k, match lookup t' k with
                          | Some (TFile x c) => same_file (lookup w' k) (lookup t' k) = true
                          | Some (TDir _ _) => k <> [] -> lookup w' k = Some Dir
                          | None => lookup w' k = (if has_node t' k then Some Dir else None) \/ lookup w' k = None
                          end).
    { intros k. destruct (key_eq_dec k []) as [->|NE].
      - destruct (lookup t' []) as [[]|] eqn:T.
        + rewrite ?T in Hroot. simpl in Hroot. discriminate.
        + congruence.
        + right. exact R.
      - specialize (C k NE). unfold conv_at in C. destruct (lookup t' k) as [[x c|]|] eqn:T; auto.
        destruct C as [c0 [x' [sh [-> [-> _]]]]]. simpl. apply list_N_eqb_refl. }
    repeat split.
    - apply nil_of_notin. intros k I. apply In_files_delete in I. fold t' in I. specialize (K k).
      unfold fd in I. destruct (lookup t' k) as [[x c|]|] eqn:T.
      + destruct (lookup w' k) as [[]|]; simpl in K, I; try discriminate. rewrite K in I. discriminate.
      + destruct (key_eq_dec k []) as [->|NE]; [rewrite R in I; discriminate|]. rewrite (K NE) in I. discriminate.
      + destruct K as [K|K]; rewrite K in I; [destruct (has_node t' k)|]; discriminate.
    - apply nil_of_notin. intros k I. apply In_dirs_delete in I. fold t' in I. specialize (K k).
      unfold dd in I. destruct (lookup t' k) as [[x c|]|] eqn:T.
      + destruct (lookup w' k) as [[]|]; simpl in K; try discriminate; discriminate.
      + now rewrite andb_false_r in I.
      + destruct K as [K|K]; rewrite K in I; [destruct (has_node t' k)|]; discriminate.
    - apply nil_of_notin. intros [k c] I. apply In_files_create in I as [I _]. fold t' in I. specialize (K k).
      unfold fc in I. destruct (lookup t' k) as [[x c'|]|] eqn:T; try discriminate.
      rewrite K in I. discriminate.
    - intros k I. apply In_dirs_create in I. fold t' in I. specialize (K k).
      destruct (key_eq_dec k []) as [->|NE]; auto. exfalso.
      unfold dc in I. destruct (lookup t' k) as [[x c'|]|] eqn:T; try discriminate.
      rewrite (K NE) in I. discriminate.
  Qed.
End Converge.

(* ---- non-vacuity: the hypotheses of converges/fixpoint on concrete non-trivial states ------------------- *)
(* workspace ex2_ws (a/b/c, a/x/, d/e, k);  target of FILE ENTRIES ONLY: a/b (was a directory), p/q/x (parents
   implicit and absent), k (unchanged) *)
Definition ex3_target : target :=
  [([[97]; [98]], TFile true (Some [9])); ([[112]; [113]; [120]], TFile false (Some [3])); ([[107]], TFile false (Some [3]))].

Ltac enum_keys H := apply lookup_In_keys in H; simpl in H; repeat (destruct H as [<-|H]); try contradiction.
Ltac enum_prefixes P := apply strict_prefix_In in P; simpl in P; repeat (destruct P as [<-|P]); try contradiction.

Example ex3_hyps :
  ws_ok ex2_ws /\ tgt_ok (fst (expand [] ex3_target)) /\ t_file (lookup (fst (expand [] ex3_target)) []) = false /\
  snd (expand [] ex3_target) = [] /\
  (forall k x c, lookup (fst (expand [] ex3_target)) k = Some (TFile x c) -> exists c0, c = Some c0 /\ mem_bytes c0 [[9]; [3]] = true).
Proof.
  split; [exact ex2_ws_ok|]. split; [|split; [reflexivity|split; [reflexivity|]]].
  - intros k H p P. enum_keys H; enum_prefixes P; reflexivity.
  - intros k x c H. apply lookup_In in H. simpl in H.
    repeat (destruct H as [H|H]); try contradiction; injection H as <- <- <-; eexists; split; reflexivity.
Qed.
Example ex3_run :
  let o := checkout Symlink true [[9]; [3]] [] [] [] ex2_ws ex3_target in
  lookup (o_ws o) [[97]; [98]] = Some (File [9] true true) /\ lookup (o_ws o) [[112]; [113]] = Some Dir /\
  lookup (o_ws o) [[112]; [113]; [120]] = Some (File [3] false true) /\ lookup (o_ws o) [[100]] = None /\
  lookup (o_ws o) [[97]; [120]] = None /\ o_errs o = [].
Proof. repeat split; vm_compute; reflexivity. Qed.

(* a lazily loaded directory object d = {e, f/g} next to an explicit file *)
Definition ex4_target : target := [([[100]], TDir (Some [1]) true); ([[107]], TFile true (Some [3]))].
Definition ex4_trees : trees := [([1], [([[101]], [69]); ([[102]; [103]], [70])])].
Example ex4_hyps :
  tgt_ok (fst (expand ex4_trees ex4_target)) /\ snd (expand ex4_trees ex4_target) = [] /\
  lookup (fst (expand ex4_trees ex4_target)) [[100]; [102]] = Some (TDir None false).
Proof.
  split; [|split; reflexivity].
  intros k H p P. enum_keys H; enum_prefixes P; reflexivity.
Qed.

(* ---- workspaces with broken links -------------------------------------------------------------------------- *)
(* k (file), a/ with a/b -> broken link and a/c (file), old/ with old/x -> broken link, z -> broken link;
   target (file entries): a/b = [9] (a broken link sits there), k.  The links outside the target and the
   directory that holds only a broken link must go, the one at a/b is replaced. *)
Definition ex5_ws : ws :=
  [([[107]], File [3] false false); ([[97]], Dir); ([[97]; [98]], Dangling); ([[97]; [99]], File [1] false false);
   ([[111]], Dir); ([[111]; [120]], Dangling); ([[122]], Dangling)].
Definition ex5_target : target := [([[97]; [98]], TFile false (Some [9])); ([[107]], TFile false (Some [3]))].
Example ex5_hyps : ws_ok ex5_ws /\ tgt_ok (fst (expand [] ex5_target)).
Proof.
  split.
  - split; [|reflexivity]. intros k H p P NE. enum_keys H; enum_prefixes P; reflexivity.
  - intros k H p P. enum_keys H; enum_prefixes P; reflexivity.
Qed.
Example ex5_run :
  let o := checkout Hardlink true [[9]; [3]] [] [] [] ex5_ws ex5_target in
  o_ws o = [([[97]; [98]], File [9] false true); ([[107]], File [3] false false); ([[97]], Dir)] /\
  o_errs o = [] /\ o_raised o = false.
Proof. repeat split; vm_compute; reflexivity. Qed.

(* a broken link at a/b, a lazily loaded directory object at a that lists b/c: the inner directory a/b gets an
   entry without hash and _diff_entry says ADD; since /repo 8d3fac7 the link is deleted first and the checkout
   converges (before, os.makedirs raised FileExistsError out of apply) *)
Definition ex6_ws : ws := [([[97]], Dir); ([[97]; [98]], Dangling)].
Definition ex6_trees : trees := [([1], [([[98]; [99]], [65])])].
Definition ex6_target : target := [([[97]], TDir (Some [1]) true)].
Example ex6_hyps : ws_ok ex6_ws /\ tgt_ok (fst (expand ex6_trees ex6_target)) /\ snd (expand ex6_trees ex6_target) = [].
Proof.
  split; [|split; [|reflexivity]].
  - split; [|reflexivity]. intros k H p P NE. enum_keys H; enum_prefixes P; reflexivity.
  - intros k H p P. enum_keys H; enum_prefixes P; reflexivity.
Qed.
Example ex6_run :
  let o := checkout Copy true [[65]] ex6_trees [] [] ex6_ws ex6_target in
  o_dirs_raised o = false /\ lookup (o_ws o) [[97]; [98]] = Some Dir /\
  lookup (o_ws o) [[97]; [98]; [99]] = Some (File [65] false false) /\ o_errs o = [].
Proof. repeat split; vm_compute; reflexivity. Qed.
