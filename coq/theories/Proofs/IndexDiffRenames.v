(* C08, part 4: `_detect_renames` - pairs share a non-empty hash, nothing is lost or duplicated,
   no pairable addition and deletion are left over. *)
From Coq Require Import NArith List Bool Arith Lia Permutation.
From DvcData Require Import Base.Val Base.PyBase Gen.PyTypes Gen.IDiff Model.Trie Model.IndexDiff Proofs.IndexDiffProofsBase.
Import ListNotations.

Definition mk_rename (p : change * change) : change :=
  {| c_typ := Rename; c_old := c_old (fst p); c_new := c_new (snd p) |}.
Definition dhash (d : change) : option hashinfo := side_hash (c_old d).
Definition ahash (a : change) : option hashinfo := side_hash (c_new a).
Definition same_hash (d a : change) : bool := opt_eqb hashinfo_eqb (dhash d) (ahash a).

(* a (deletion, addition) pair that may be reported as a rename *)
Definition good_pair (p : change * change) : Prop :=
  hi_truthy (ahash (snd p)) = true /\ same_hash (fst p) (snd p) = true.

Lemma sort_by_perm {A} (leb : A -> A -> bool) l : Permutation (sort_by leb l) l.
Proof.
  unfold sort_by. induction l as [|x l IH]; simpl; [constructor|].
  etransitivity; [|apply perm_skip, IH].
  generalize (fold_right (insert_by leb) [] l). clear. intros m.
  induction m as [|y m IHm]; simpl; [repeat constructor|].
  destruct (leb x y); [apply Permutation_refl|].
  etransitivity; [apply perm_skip, IHm | apply perm_swap].
Qed.

(* the queue of a hash is first-in first-out: the first remaining deletion with that hash is taken *)
Lemma take_first_some h dels d r : take_first h dels = Some (d, r) ->
  exists l1 l2, dels = l1 ++ d :: l2 /\ r = l1 ++ l2 /\
                opt_eqb hashinfo_eqb (dhash d) h = true /\
                Forall (fun x => opt_eqb hashinfo_eqb (dhash x) h = false) l1.
Proof.
  revert d r. induction dels as [|x l IH]; intros d r; simpl; [discriminate|].
  fold (dhash x). destruct (opt_eqb hashinfo_eqb (dhash x) h) eqn:E.
  - intros [= <- <-]. exists [], l. repeat split; [assumption | constructor].
  - destruct (take_first h l) as [[y r']|] eqn:Et; [|discriminate]. intros [= <- <-].
    destruct (IH y r' eq_refl) as [l1 [l2 [-> [-> [Ey Hl1]]]]].
    exists (x :: l1), l2. repeat split; [assumption | now constructor].
Qed.

Lemma take_first_none h dels : take_first h dels = None ->
  Forall (fun x => opt_eqb hashinfo_eqb (dhash x) h = false) dels.
Proof.
  induction dels as [|x l IH]; simpl; [constructor|]. fold (dhash x).
  destruct (opt_eqb hashinfo_eqb (dhash x) h) eqn:E; [discriminate|].
  destruct (take_first h l) as [[y r']|]; [discriminate|]. intros _. constructor; [assumption | now apply IH].
Qed.

(* [pair_adds] with the pairs made explicit *)
Fixpoint pair_spec (adds dels : list change) : list (change * change) * list change * list change :=
  match adds with
  | [] => ([], [], dels)
  | a :: r =>
      match (if hi_truthy (ahash a) then take_first (ahash a) dels else None) with
      | Some (d, dels') => let '(ps, ua, ud) := pair_spec r dels' in ((d, a) :: ps, ua, ud)
      | None => let '(ps, ua, ud) := pair_spec r dels in (ps, a :: ua, ud)
      end
  end.

Lemma pair_adds_spec adds : forall dels ps ua ud, pair_spec adds dels = (ps, ua, ud) ->
  Permutation (fst (pair_adds adds dels)) (map mk_rename ps ++ ua) /\
  snd (pair_adds adds dels) = ud /\
  Permutation adds (map snd ps ++ ua) /\
  Permutation dels (map fst ps ++ ud) /\
  Forall good_pair ps /\
  (forall a d, In a ua -> In d ud -> hi_truthy (ahash a) = true -> same_hash d a = false).
Proof.
  induction adds as [|a r IH]; intros dels ps ua ud E; simpl in E.
  - injection E as <- <- <-. simpl. repeat split; try constructor; try apply Permutation_refl. intros a d [].
  - simpl. fold (ahash a) in *.
    destruct (if hi_truthy (ahash a) then take_first (ahash a) dels else None) as [[d dels']|] eqn:Et.
    + destruct (pair_spec r dels') as [[ps' ua'] ud'] eqn:Ep. injection E as <- <- <-.
      destruct (IH dels' ps' ua' ud' Ep) as [H1 [H2 [H3 [H4 [H5 H6]]]]].
      destruct (pair_adds r dels') as [out rest] eqn:Epa. simpl in *.
      destruct (hi_truthy (ahash a)) eqn:Eh; [|discriminate].
      apply take_first_some in Et as [l1 [l2 [-> [-> [Ed _]]]]].
      repeat split.
      * now apply perm_skip.
      * assumption.
      * now apply perm_skip.
      * etransitivity; [symmetry; apply Permutation_middle|]. now apply perm_skip.
      * constructor; [|assumption]. split; assumption.
      * assumption.
    + destruct (pair_spec r dels) as [[ps' ua'] ud'] eqn:Ep. injection E as <- <- <-.
      destruct (IH dels ps' ua' ud' Ep) as [H1 [H2 [H3 [H4 [H5 H6]]]]].
      destruct (pair_adds r dels) as [out rest] eqn:Epa. simpl in *.
      repeat split.
      * etransitivity; [apply perm_skip, H1 | apply Permutation_middle].
      * assumption.
      * etransitivity; [apply perm_skip, H3 | apply Permutation_middle].
      * assumption.
      * assumption.
      * intros a' d [<-|Ha] Hd Ht; [|now apply H6].
        rewrite Ht in Et. apply take_first_none in Et. rewrite Forall_forall in Et.
        apply Et. apply (Permutation_in d (Permutation_sym H4)). apply in_or_app. now right.
Qed.

(* C08_renames: the structure of the output of _detect_renames *)
Theorem detect_renames_spec cs :
  exists ps ua ud,
    Permutation (detect_renames cs) (filter is_other cs ++ map mk_rename ps ++ ua ++ ud) /\
    Permutation (filter is_add cs) (map snd ps ++ ua) /\
    Permutation (filter is_del cs) (map fst ps ++ ud) /\
    Forall good_pair ps /\
    (forall a d, In a ua -> In d ud -> hi_truthy (ahash a) = true -> same_hash d a = false).
Proof.
  unfold detect_renames.
  set (adds := sort_by change_leb (filter is_add cs)). set (dels := sort_by change_leb (filter is_del cs)).
  destruct (pair_spec adds dels) as [[ps ua] ud] eqn:Ep. exists ps, ua, ud.
  destruct (pair_adds_spec adds dels ps ua ud Ep) as [H1 [H2 [H3 [H4 [H5 H6]]]]].
  destruct (pair_adds adds dels) as [out rest]. simpl in H1, H2. subst rest.
  repeat split; try assumption.
  - apply Permutation_app_head. rewrite app_assoc. now apply Permutation_app_tail.
  - etransitivity; [symmetry; apply sort_by_perm | exact H3].
  - etransitivity; [symmetry; apply sort_by_perm | exact H4].
Qed.

(* ---- the three readings --------------------------------------------------------------------------------- *)
Lemma is_add_typ c : is_add c = true <-> c_typ c = Add.
Proof. apply typ_eqb_spec. Qed.
Lemma is_del_typ c : is_del c = true <-> c_typ c = Delete.
Proof. apply typ_eqb_spec. Qed.

Lemma in_detect_cases cs c : In c (detect_renames cs) ->
  (In c cs /\ is_other c = true) \/
  (exists d a, In d cs /\ is_del d = true /\ In a cs /\ is_add a = true /\ c = mk_rename (d, a) /\ good_pair (d, a)) \/
  (In c cs /\ is_add c = true /\
     forall d, In d (detect_renames cs) -> is_del d = true -> hi_truthy (ahash c) = true -> same_hash d c = false) \/
  (In c cs /\ is_del c = true).
Proof.
  intros Hc. destruct (detect_renames_spec cs) as [ps [ua [ud [P [Pa [Pd [Hg Hm]]]]]]].
  assert (Hadd : forall a, In a (map snd ps ++ ua) -> In a cs /\ is_add a = true).
  { intros a Ha. apply (Permutation_in a (Permutation_sym Pa)) in Ha. now apply filter_In in Ha. }
  assert (Hdel : forall d, In d (map fst ps ++ ud) -> In d cs /\ is_del d = true).
  { intros d Hd. apply (Permutation_in d (Permutation_sym Pd)) in Hd. now apply filter_In in Hd. }
  apply (Permutation_in c P) in Hc. rewrite !in_app_iff in Hc. destruct Hc as [Hc|[Hc|[Hc|Hc]]].
  - left. now apply filter_In in Hc.
  - right. left. apply in_map_iff in Hc as [[d a] [<- Hp]]. exists d, a.
    destruct (Hdel d) as [? ?]; [apply in_or_app; left; apply in_map_iff; now exists (d, a)|].
    destruct (Hadd a) as [? ?]; [apply in_or_app; left; apply in_map_iff; now exists (d, a)|].
    rewrite Forall_forall in Hg. repeat split; try assumption; now apply (Hg (d, a)).
  - right. right. left. destruct (Hadd c) as [? ?]; [apply in_or_app; now right|].
    repeat split; try assumption. intros d Hd Hdd Ht.
    apply (Permutation_in d P) in Hd. rewrite !in_app_iff in Hd. destruct Hd as [Hd|[Hd|[Hd|Hd]]].
    + apply filter_In in Hd as [_ Hd]. unfold is_other in Hd. rewrite Hdd in Hd. rewrite andb_false_r in Hd. discriminate.
    + apply in_map_iff in Hd as [p [<- _]]. discriminate.
    + destruct (Hadd d) as [_ Hda]; [apply in_or_app; now right|].
      apply is_add_typ in Hda. apply is_del_typ in Hdd. congruence.
    + now apply Hm.
  - right. right. right. apply Hdel. apply in_or_app. now right.
Qed.

(* C08_rename_pairs *)
Theorem rename_pairs cs c :
  (forall x, In x cs -> c_typ x <> Rename) ->
  In c (detect_renames cs) -> c_typ c = Rename ->
  exists d a, In d cs /\ c_typ d = Delete /\ In a cs /\ c_typ a = Add /\
              c_old c = c_old d /\ c_new c = c_new a /\
              hi_truthy (side_hash (c_new a)) = true /\
              opt_eqb hashinfo_eqb (side_hash (c_old d)) (side_hash (c_new a)) = true.
Proof.
  intros Hnr Hc Ht. apply in_detect_cases in Hc as [[Hc _]|[[d [a [Hd [Hdd [Ha [Haa [-> [G1 G2]]]]]]]]|[[_ [Hc _]]|[_ Hc]]]].
  - now apply Hnr in Hc.
  - exists d, a. apply is_del_typ in Hdd. apply is_add_typ in Haa. repeat split; assumption.
  - apply is_add_typ in Hc. congruence.
  - apply is_del_typ in Hc. congruence.
Qed.

(* C08_rename_maximal *)
Theorem rename_maximal cs a d :
  In a (detect_renames cs) -> In d (detect_renames cs) -> c_typ a = Add -> c_typ d = Delete ->
  hi_truthy (side_hash (c_new a)) = true ->
  opt_eqb hashinfo_eqb (side_hash (c_old d)) (side_hash (c_new a)) = false.
Proof.
  intros Ha Hd Hta Htd Ht.
  apply in_detect_cases in Ha as [[_ Ha]|[[d' [a' [_ [_ [_ [_ [-> _]]]]]]]|[[_ [_ Hm]]|[_ Ha]]]].
  - unfold is_other, is_add, typ_eqb in Ha. rewrite Hta in Ha. discriminate.
  - discriminate.
  - apply Hm; try assumption. now apply is_del_typ.
  - apply is_del_typ in Ha. congruence.
Qed.
