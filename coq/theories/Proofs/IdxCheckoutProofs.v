(* Proofs about Model/IdxCheckout.v, part 1: finite-map lemmas, the classification of one key
   (through the GENERATED IDiff.diff_entry), membership in the five action lists, and the two
   properties that need no well-formedness of the workspace: C09_errors_reported, C09_no_delete. *)
From Coq Require Import NArith List Bool Lia.
From DvcData Require Import Base.Val Base.PyBase Gen.PyTypes Gen.IDiff Gen.IdxCompare Model.IdxCheckout.
Import ListNotations.
Open Scope N_scope.

(* ---- keys ------------------------------------------------------------------------------------ *)
Lemma key_eqb_spec a b : key_eqb a b = true <-> a = b.
Proof.
  unfold key_eqb. revert b; induction a as [|x a IH]; intros [|y b]; simpl; split; intros H;
    try reflexivity; try discriminate.
  - apply andb_true_iff in H as [H1 H2]. apply list_N_eqb_spec in H1. apply IH in H2. congruence.
  - injection H as -> ->. apply andb_true_iff; split. now apply list_N_eqb_spec. now apply IH.
Qed.
Lemma key_eqb_refl a : key_eqb a a = true.
Proof. now apply key_eqb_spec. Qed.
Lemma key_eqb_neq a b : a <> b -> key_eqb a b = false.
Proof. intros H. destruct (key_eqb a b) eqn:E; auto. apply key_eqb_spec in E. contradiction. Qed.
Lemma key_eqb_sym a b : key_eqb a b = key_eqb b a.
Proof.
  destruct (key_eqb a b) eqn:E.
  - apply key_eqb_spec in E. subst. now rewrite key_eqb_refl.
  - destruct (key_eqb b a) eqn:E2; auto. apply key_eqb_spec in E2. subst. now rewrite key_eqb_refl in E.
Qed.
Lemma key_eq_dec (a b : key) : {a = b} + {a <> b}.
Proof.
  destruct (key_eqb a b) eqn:E; [left; now apply key_eqb_spec | right; intros ->; now rewrite key_eqb_refl in E].
Qed.

Lemma mem_key_spec k l : mem_key k l = true <-> In k l.
Proof.
  unfold mem_key. rewrite existsb_exists. split.
  - intros [x [Hx E]]. apply key_eqb_spec in E. now subst.
  - intros H. exists k. split; auto. apply key_eqb_refl.
Qed.
Lemma mem_key_false k l : mem_key k l = false <-> ~ In k l.
Proof. rewrite <- mem_key_spec. destruct (mem_key k l); split; congruence. Qed.

Lemma dedup_In k l : In k (dedup l) <-> In k l.
Proof.
  induction l as [|x l IH]; simpl; [tauto|].
  destruct (mem_key x l) eqn:E.
  - rewrite IH. split; auto. intros [->|H]; auto. now apply mem_key_spec.
  - simpl. rewrite IH. tauto.
Qed.

(* ---- finite maps ----------------------------------------------------------------------------- *)
Section Maps.
  Context {A : Type}.
  Implicit Types m : fmap A.

  Lemma lookup_remove k k' m : lookup (remove k m) k' = if key_eqb k k' then None else lookup m k'.
  Proof.
    unfold remove. induction m as [|[k0 v] m IH]; simpl.
    - now destruct (key_eqb k k').
    - destruct (key_eqb k k0) eqn:E0; simpl.
      + apply key_eqb_spec in E0. subst k0. rewrite IH.
        rewrite (key_eqb_sym k' k). now destruct (key_eqb k k').
      + rewrite IH. destruct (key_eqb k' k0) eqn:E1; auto.
        apply key_eqb_spec in E1. subst k0. now rewrite E0.
  Qed.

  Lemma lookup_set k v k' m : lookup (set k v m) k' = if key_eqb k k' then Some v else lookup m k'.
  Proof.
    unfold set. simpl. rewrite lookup_remove, (key_eqb_sym k' k). now destruct (key_eqb k k').
  Qed.

  Lemma lookup_filter_keys (f : key -> bool) m k :
    lookup (filter (fun kv => f (fst kv)) m) k = if f k then lookup m k else None.
  Proof.
    induction m as [|[k0 v] m IH]; simpl; [now destruct (f k)|].
    destruct (f k0) eqn:E0; simpl.
    - destruct (key_eqb k k0) eqn:E1; auto. apply key_eqb_spec in E1. subst. now rewrite E0.
    - rewrite IH. destruct (key_eqb k k0) eqn:E1; auto. apply key_eqb_spec in E1. subst. now rewrite E0.
  Qed.

  Lemma lookup_In_keys m k : lookup m k <> None <-> In k (map fst m).
  Proof.
    induction m as [|[k0 v] m IH]; simpl; [tauto|].
    destruct (key_eqb k k0) eqn:E.
    - apply key_eqb_spec in E. subst. split; auto. discriminate.
    - rewrite IH. split; auto. intros [->|H]; auto. now rewrite key_eqb_refl in E.
  Qed.

  Lemma lookup_In m k v : lookup m k = Some v -> In (k, v) m.
  Proof.
    induction m as [|[k0 v0] m IH]; simpl; [discriminate|].
    destruct (key_eqb k k0) eqn:E; auto. intros H. injection H as ->. apply key_eqb_spec in E. subst. now left.
  Qed.
End Maps.

(* ---- the classification of one key -------------------------------------------------------------- *)
Definition same_file (o : option node) (t : option tentry) : bool :=
  match o, t with Some (File b _ _), Some (TFile _ (Some c)) => list_N_eqb b c | _, _ => false end.
Definition o_file (o : option node) : bool := match o with Some (File _ _ _) => true | _ => false end.
Definition o_dir (o : option node) : bool := match o with Some Dir => true | _ => false end.
Definition o_exec (o : option node) : bool := match o with Some (File _ x _) => x | _ => false end.
Definition t_file (t : option tentry) : bool := match t with Some (TFile _ _) => true | _ => false end.
Definition t_dir (t : option tentry) : bool := match t with Some (TDir _ _) => true | _ => false end.
Definition t_exec (t : option tentry) : bool := match t with Some (TFile x _) => x | _ => false end.
Definition t_content (t : option tentry) : option bytes := match t with Some (TFile _ c) => c | _ => None end.

Definition is_some {A} (o : option A) : bool := match o with Some _ => true | None => false end.
(* a broken link (old entry without meta and hash) is DELETEd when absent from the target, MODIFY against an
   entry with a hash, ADD against an entry without hash - deleted first in both cases (ADD since /repo 8d3fac7) *)
Definition fd (delete : bool) (o : option node) (t : option tentry) : bool :=
  match o with
  | Some (File _ _ _) => match t with None => delete | Some _ => negb (same_file o t) end
  | Some Dangling => match t with None => delete | Some _ => true end
  | _ => false
  end.
Definition dd (delete : bool) (o : option node) (t : option tentry) (hn : bool) : bool :=
  o_dir o && match t with None => delete && negb hn | Some (TFile _ _) => true | Some (TDir _ _) => false end.
Definition fc (o : option node) (t : option tentry) : bool := t_file t && negb (same_file o t).
Definition dc (o : option node) (t : option tentry) : bool := t_dir t && negb (o_dir o).
Definition fch (o : option node) (t : option tentry) : bool :=
  t_file t && if same_file o t then negb (Bool.eqb (o_exec o) (t_exec t)) else t_exec t.

Ltac classify :=
  intros; unfold change_actions, compare_change, compare_branch, gen_add_create, gen_add_delete, gen_add_file_create;
  repeat match goal with
         | o : option node |- _ => destruct o as [[? [|] ?| |]|]
         | t : option tentry |- _ => destruct t as [[[|] [?|]|[?|] [|]]|]
         | d : bool |- _ => destruct d
         end; cbn;
  repeat match goal with
         | |- context [list_N_eqb ?b ?c] =>
             let E := fresh "E" in destruct (list_N_eqb b c) eqn:E; cbn; rewrite ?E; cbn
         end; try reflexivity.

(* the actions of one key, in the order the generated branch emits them *)
Definition oe_of (k : key) (o : option node) : ientry :=
  match o with
  | Some n => match old_entry k n with Some e => e | None => new_entry k (TDir None false) end
  | None => new_entry k (TDir None false)
  end.
Definition ne_of (k : key) (t : option tentry) : ientry :=
  match t with Some te => new_entry k te | None => new_entry k (TDir None false) end.
Definition spec_actions (delete : bool) (k : key) (o : option node) (t : option tentry) (hn : bool) : list action :=
  (if fd delete o t then [AFilesDelete (oe_of k o)] else [])
  ++ (if dd delete o t hn then [ADirsDelete (oe_of k o)] else [])
  ++ (if dc o t then [ADirsCreate (ne_of k t)] else [])
  ++ (if fch o t then [AFilesChmod (ne_of k t)] else [])
  ++ (if fc o t then [AFilesCreate (ne_of k t)] else []).

(* one sweep through the GENERATED diff_entry and compare_branch *)
Lemma change_actions_spec delete k o t hn :
  change_actions false delete k o t hn = spec_actions delete k o t hn.
Proof. classify. Qed.

Ltac by_spec :=
  intros; rewrite change_actions_spec; unfold spec_actions;
  repeat match goal with
         | o : option node |- _ => destruct o as [[? [|] ?| |]|]
         | t : option tentry |- _ => destruct t as [[[|] [?|]|[?|] [|]]|]
         | d : bool |- _ => destruct d
         end; cbn;
  repeat match goal with
         | |- context [list_N_eqb ?b ?c] => destruct (list_N_eqb b c); cbn
         end; reflexivity.

Lemma files_delete_change delete k o t hn :
  files_delete (change_actions false delete k o t hn) = if fd delete o t then [k] else [].
Proof. by_spec. Qed.
Lemma dirs_delete_change delete k o t hn :
  dirs_delete (change_actions false delete k o t hn) = if dd delete o t hn then [k] else [].
Proof. by_spec. Qed.
Lemma files_create_change delete k o t hn :
  files_create (change_actions false delete k o t hn) = if fc o t then [(k, t_content t)] else [].
Proof. by_spec. Qed.
Lemma dirs_create_change delete k o t hn :
  dirs_create (change_actions false delete k o t hn) = if dc o t then [k] else [].
Proof. by_spec. Qed.
Lemma files_chmod_change delete k o t hn :
  files_chmod (change_actions false delete k o t hn) = if fch o t then [k] else [].
Proof. by_spec. Qed.

(* ---- list plumbing ------------------------------------------------------------------------------ *)
Lemma flat_map_flat_map {A B C} (f : A -> list B) (g : B -> list C) l :
  flat_map g (flat_map f l) = flat_map (fun x => flat_map g (f x)) l.
Proof. induction l as [|x l IH]; simpl; auto. now rewrite flat_map_app, IH. Qed.

Lemma flat_map_filter_nil {A B} (p : A -> bool) (g : A -> list B) l :
  (forall a, p a = false -> g a = []) -> flat_map g (filter p l) = flat_map g l.
Proof.
  intros H. induction l as [|x l IH]; simpl; auto.
  destruct (p x) eqn:E; simpl; rewrite IH; auto. now rewrite (H _ E).
Qed.

Lemma flat_map_sel {B} (g : key -> bool) (h : key -> B) keys x :
  In x (flat_map (fun k => if g k then [h k] else []) keys) <-> exists k, In k keys /\ g k = true /\ x = h k.
Proof.
  rewrite in_flat_map. split.
  - intros [k [Hk Hx]]. destruct (g k) eqn:E; simpl in Hx; [|tauto]. destruct Hx as [<-|[]]. eauto.
  - intros [k [Hk [Hg ->]]]. exists k. split; auto. rewrite Hg. now left.
Qed.

(* ---- membership in the five lists of the plan ----------------------------------------------------- *)
Section Plan.
  Variables (delete : bool) (old : ws) (tr : trees) (t : target).
  Let t' := fst (expand tr t).
  Let failed := snd (expand tr t).
  Let keys := dedup (map fst old ++ map fst t').
  Let acts := fst (compare false delete old tr t).

  Definition raw_acts : list action :=
    flat_map (fun k => change_actions false delete k (lookup old k) (lookup t' k) (has_node t' k)) keys.

  Lemma compare_eq :
    compare false delete old tr t = (filter (fun a => negb (is_dirs_create_in failed a)) raw_acts, dedup failed).
  Proof. reflexivity. Qed.

  Lemma In_keys k : In k keys <-> lookup old k <> None \/ lookup t' k <> None.
  Proof. unfold keys. rewrite dedup_In, in_app_iff, <- !lookup_In_keys. tauto. Qed.

  Lemma files_delete_acts : files_delete acts = flat_map (fun k => if fd delete (lookup old k) (lookup t' k) then [k] else []) keys.
  Proof.
    unfold acts. rewrite compare_eq. cbn [fst]. unfold files_delete at 1.
    rewrite flat_map_filter_nil by (intros [] H; simpl in *; auto; discriminate).
    unfold raw_acts. rewrite flat_map_flat_map. apply flat_map_ext. intros k. apply files_delete_change.
  Qed.
  Lemma dirs_delete_acts : dirs_delete acts = flat_map (fun k => if dd delete (lookup old k) (lookup t' k) (has_node t' k) then [k] else []) keys.
  Proof.
    unfold acts. rewrite compare_eq. cbn [fst]. unfold dirs_delete at 1.
    rewrite flat_map_filter_nil by (intros [] H; simpl in *; auto; discriminate).
    unfold raw_acts. rewrite flat_map_flat_map. apply flat_map_ext. intros k. apply dirs_delete_change.
  Qed.
  Lemma files_create_acts :
    files_create acts = flat_map (fun k => if fc (lookup old k) (lookup t' k) then [(k, t_content (lookup t' k))] else []) keys.
  Proof.
    unfold acts. rewrite compare_eq. cbn [fst]. unfold files_create at 1.
    rewrite flat_map_filter_nil by (intros [] H; simpl in *; auto; discriminate).
    unfold raw_acts. rewrite flat_map_flat_map. apply flat_map_ext. intros k. apply files_create_change.
  Qed.
  Lemma files_chmod_acts : files_chmod acts = flat_map (fun k => if fch (lookup old k) (lookup t' k) then [k] else []) keys.
  Proof.
    unfold acts. rewrite compare_eq. cbn [fst]. unfold files_chmod at 1.
    rewrite flat_map_filter_nil by (intros [] H; simpl in *; auto; discriminate).
    unfold raw_acts. rewrite flat_map_flat_map. apply flat_map_ext. intros k. apply files_chmod_change.
  Qed.
  Lemma dirs_create_raw : dirs_create raw_acts = flat_map (fun k => if dc (lookup old k) (lookup t' k) then [k] else []) keys.
  Proof. unfold raw_acts, dirs_create. rewrite flat_map_flat_map. apply flat_map_ext. intros k. apply dirs_create_change. Qed.

  Lemma In_files_delete k : In k (files_delete acts) <-> fd delete (lookup old k) (lookup t' k) = true.
  Proof.
    rewrite files_delete_acts, (flat_map_sel _ (fun k => k)). split.
    - intros [k0 [_ [H ->]]]. exact H.
    - intros H. exists k. repeat split; auto. apply In_keys. left. unfold fd in H.
      destruct (lookup old k); [discriminate|]. discriminate.
  Qed.
  Lemma In_dirs_delete k : In k (dirs_delete acts) <-> dd delete (lookup old k) (lookup t' k) (has_node t' k) = true.
  Proof.
    rewrite dirs_delete_acts, (flat_map_sel _ (fun k => k)). split.
    - intros [k0 [_ [H ->]]]. exact H.
    - intros H. exists k. repeat split; auto. apply In_keys. left. unfold dd in H.
      destruct (lookup old k); [discriminate|]. discriminate.
  Qed.
  Lemma In_files_create k c :
    In (k, c) (files_create acts) <-> fc (lookup old k) (lookup t' k) = true /\ c = t_content (lookup t' k).
  Proof.
    rewrite files_create_acts, (flat_map_sel _ (fun k => (k, t_content (lookup t' k)))). split.
    - intros [k0 [_ [H E]]]. injection E as -> ->. auto.
    - intros [H ->]. exists k. repeat split; auto. apply In_keys. right. unfold fc in H.
      destruct (lookup t' k); [discriminate|]. discriminate.
  Qed.
  Lemma In_files_chmod k : In k (files_chmod acts) <-> fch (lookup old k) (lookup t' k) = true.
  Proof.
    rewrite files_chmod_acts, (flat_map_sel _ (fun k => k)). split.
    - intros [k0 [_ [H ->]]]. exact H.
    - intros H. exists k. repeat split; auto. apply In_keys. right. unfold fch in H.
      destruct (lookup t' k); [discriminate|]. discriminate.
  Qed.
  Lemma In_dirs_create_raw k : In k (dirs_create raw_acts) <-> dc (lookup old k) (lookup t' k) = true.
  Proof.
    rewrite dirs_create_raw, (flat_map_sel _ (fun k => k)). split.
    - intros [k0 [_ [H ->]]]. exact H.
    - intros H. exists k. repeat split; auto. apply In_keys. right. unfold dc in H.
      destruct (lookup t' k); [discriminate|]. discriminate.
  Qed.
  Lemma In_dirs_create k : In k (dirs_create acts) -> dc (lookup old k) (lookup t' k) = true.
  Proof.
    intros H. apply In_dirs_create_raw. unfold acts in H. rewrite compare_eq in H. cbn [fst] in H.
    unfold dirs_create in *. apply in_flat_map in H as [a [Ha Hk]]. apply filter_In in Ha as [Ha _].
    apply in_flat_map. eauto.
  Qed.
  Lemma dirs_create_nofail : failed = [] -> dirs_create acts = dirs_create raw_acts.
  Proof.
    intros E. unfold acts. rewrite compare_eq, E. cbn [fst]. f_equal.
    induction raw_acts as [|a l IH]; simpl; auto. rewrite IH. now destruct a.
  Qed.
End Plan.

(* ---- the phases of apply, pointwise ----------------------------------------------------------------- *)
Lemma is_prefix_refl k : is_prefix k k = true.
Proof. induction k; simpl; auto. rewrite IHk. replace (list_N_eqb a a) with true; auto. symmetry. now apply list_N_eqb_spec. Qed.

Lemma rm_nondir k w : lookup w k <> Some Dir -> rm k w = remove k w.
Proof. unfold rm. destruct (lookup w k) as [[]|]; congruence. Qed.

Lemma rm_fold_spec l : forall w, (forall k', In k' l -> lookup w k' <> Some Dir) ->
  forall k, lookup (fold_left (fun w k => rm k w) l w) k = if mem_key k l then None else lookup w k.
Proof.
  induction l as [|k1 l IH]; intros w H k; simpl; auto.
  rewrite IH.
  - rewrite rm_nondir by (apply H; now left). rewrite lookup_remove, (key_eqb_sym k k1).
    destruct (key_eqb k1 k); simpl; auto. now destruct (mem_key k l).
  - intros k' Hk'. rewrite rm_nondir by (apply H; now left). rewrite lookup_remove.
    destruct (key_eqb k1 k'); [discriminate|]. apply H. now right.
Qed.

Lemma rmdir_other k' w k : k <> k' -> lookup (rmdir k' w) k = lookup w k.
Proof.
  intros N. unfold rmdir. destruct (lookup w k') as [[]|]; auto.
  destruct (has_child k' w); auto. rewrite lookup_remove, key_eqb_neq; auto.
Qed.
Lemma rmdir_fold_other l : forall w k, ~ In k l -> lookup (fold_left (fun w k => rmdir k w) l w) k = lookup w k.
Proof.
  induction l as [|k1 l IH]; intros w k H; simpl; auto.
  rewrite IH by (intros X; apply H; now right). apply rmdir_other. intros ->. apply H. now left.
Qed.

Lemma insert_desc_In k x l : In k (insert_desc x l) <-> k = x \/ In k l.
Proof.
  induction l as [|y l IH]; simpl; [intuition|].
  destruct (Nat.leb (length y) (length x)); simpl; [intuition|]. rewrite IH. intuition.
Qed.
Lemma sort_desc_In k l : In k (sort_desc l) <-> In k l.
Proof. induction l as [|x l IH]; simpl; [tauto|]. rewrite insert_desc_In, IH. intuition. Qed.

Lemma lookup_mkdir1 w p k :
  lookup (mkdir1 w p) k = match lookup w k with Some n => Some n | None => if key_eqb p k then Some Dir else None end.
Proof.
  unfold mkdir1. destruct (lookup w p) eqn:E.
  - destruct (lookup w k) eqn:E2; auto. destruct (key_eqb p k) eqn:E3; auto. apply key_eqb_spec in E3. congruence.
  - rewrite lookup_set. destruct (key_eqb p k) eqn:E3.
    + apply key_eqb_spec in E3. subst. now rewrite E.
    + now destruct (lookup w k).
Qed.
Lemma mkdirs_spec ps : forall w k,
  lookup (fold_left mkdir1 ps w) k = match lookup w k with Some n => Some n | None => if mem_key k ps then Some Dir else None end.
Proof.
  induction ps as [|p ps IH]; intros w k; simpl.
  - now destruct (lookup w k).
  - rewrite IH, lookup_mkdir1, (key_eqb_sym k p). destruct (lookup w k); auto.
    destruct (key_eqb p k); simpl; auto.
Qed.
Lemma makedirs_spec k' w k :
  lookup (makedirs k' w) k = match lookup w k with Some n => Some n | None => if mem_key k (prefixes k') then Some Dir else None end.
Proof. apply mkdirs_spec. Qed.

Lemma prefixes_is_prefix p : forall k, In p (prefixes k) -> is_prefix p k = true /\ p <> [].
Proof.
  intros k. revert p. induction k as [|x k IH]; simpl; intros p H; [tauto|].
  destruct H as [<-|H].
  - simpl. split; [|discriminate]. replace (list_N_eqb x x) with true; auto. symmetry. now apply list_N_eqb_spec.
  - apply in_map_iff in H as [q [<- Hq]]. apply IH in Hq as [Hq _]. simpl. split; [|discriminate].
    rewrite Hq. replace (list_N_eqb x x) with true; auto. symmetry. now apply list_N_eqb_spec.
Qed.

Lemma is_prefix_trans a b c : is_prefix a b = true -> is_prefix b c = true -> is_prefix a c = true.
Proof.
  revert b c. induction a as [|x a IH]; intros [|y b] [|z c]; simpl; auto; try discriminate.
  intros H1 H2. apply andb_true_iff in H1 as [E1 H1]. apply andb_true_iff in H2 as [E2 H2].
  apply list_N_eqb_spec in E1, E2. subst. rewrite (IH _ _ H1 H2).
  replace (list_N_eqb z z) with true; auto. symmetry. now apply list_N_eqb_spec.
Qed.

Lemma is_prefix_removelast k : is_prefix (removelast k) k = true.
Proof.
  induction k as [|x k IH]; auto. simpl removelast. destruct k as [|y k]; auto.
  simpl. simpl in IH. rewrite IH. replace (list_N_eqb x x) with true; auto. symmetry. now apply list_N_eqb_spec.
Qed.

(* a key that is no prefix of the created key is not touched by create_file *)
Lemma create_file_other lt avail w k' c k :
  is_prefix k k' = false -> lookup (fst (create_file lt avail w (k', c))) k = lookup w k.
Proof.
  intros NP. assert (N1 : k' <> k) by (intros ->; now rewrite is_prefix_refl in NP).
  assert (MK : lookup (makedirs (parent k') w) k = lookup w k).
  { rewrite makedirs_spec. destruct (lookup w k); auto. destruct (mem_key k (prefixes (parent k'))) eqn:E; auto.
    apply mem_key_spec, prefixes_is_prefix in E as [E _].
    rewrite (is_prefix_trans _ _ _ E (is_prefix_removelast k')) in NP. discriminate. }
  unfold create_file. cbn [fst snd]. destruct c as [c|]; auto.
  destruct lt.
  - destruct (negb (mem_bytes c avail)); cbn [fst]; auto.
    destruct (lookup (makedirs (parent k') w) k') as [[]|]; cbn [fst]; auto;
      rewrite lookup_set, key_eqb_neq; auto.
  - destruct (negb (mem_bytes c avail)); cbn [fst]; auto.
    destruct (negb (parent_ok k' w)); cbn [fst]; auto.
    destruct c; destruct (lookup w k') as [[]|]; cbn [fst]; auto; rewrite lookup_set, key_eqb_neq; auto.
  - destruct (negb (mem_bytes c avail)); cbn [fst]; auto.
    destruct (negb (parent_ok k' w)); cbn [fst]; auto.
    destruct (lookup w k') as [[]|]; cbn [fst]; auto; rewrite lookup_set, key_eqb_neq; auto.
Qed.

Definition cf_step (lt : link) (avail : list bytes) (acc : ws * errs) (kc : key * option bytes) : ws * errs :=
  let '(w1, e1) := create_file lt avail (fst acc) kc in (w1, snd acc ++ e1).
Lemma create_files_eq lt avail l w :
  create_files lt avail l w = fold_left (cf_step lt avail) l (make_parents lt avail l w, []).
Proof. reflexivity. Qed.
Lemma cf_step_fst lt avail acc kc : fst (cf_step lt avail acc kc) = fst (create_file lt avail (fst acc) kc).
Proof. unfold cf_step. now destruct (create_file lt avail (fst acc) kc). Qed.
Lemma cf_step_snd lt avail acc kc : snd (cf_step lt avail acc kc) = snd acc ++ snd (create_file lt avail (fst acc) kc).
Proof. unfold cf_step. now destruct (create_file lt avail (fst acc) kc). Qed.

Lemma create_files_other lt avail l : forall acc k,
  (forall k' c, In (k', c) l -> is_prefix k k' = false) ->
  lookup (fst (fold_left (cf_step lt avail) l acc)) k = lookup (fst acc) k.
Proof.
  induction l as [|[k1 c1] l IH]; intros acc k H; simpl; auto.
  rewrite IH by (intros; eapply H; right; eauto).
  rewrite cf_step_fst. apply create_file_other. eapply H. now left.
Qed.

Lemma make_parents_other lt avail l : forall w k,
  (forall k' c, In (k', c) l -> is_prefix k k' = false) -> lookup (make_parents lt avail l w) k = lookup w k.
Proof.
  unfold make_parents. induction l as [|[k1 c1] l IH]; intros w k H; simpl; auto.
  rewrite IH by (intros; eapply H; right; eauto). destruct (to_transfer lt avail (k1, c1)); auto.
  cbn [fst]. rewrite makedirs_spec. destruct (lookup w k); auto.
  destruct (mem_key k (prefixes (parent k1))) eqn:E; auto.
  apply mem_key_spec, prefixes_is_prefix in E as [E _].
  specialize (H k1 c1 (or_introl eq_refl)).
  rewrite (is_prefix_trans _ _ _ E (is_prefix_removelast k1)) in H. discriminate.
Qed.

Lemma lookup_set_exec_shared c w k :
  lookup (set_exec_shared c w) k =
  match lookup w k with
  | Some (File b x true) => if list_N_eqb b c then Some (File b true true) else Some (File b x true)
  | o => o
  end.
Proof.
  unfold set_exec_shared. induction w as [|[k0 n] w IH]; simpl; auto.
  destruct (key_eqb k k0) eqn:E.
  - destruct n as [b x [|]| |]; simpl; try rewrite E; auto.
    destruct (list_N_eqb b c); simpl; now rewrite E.
  - destruct n as [b x [|]| |]; simpl; try rewrite E; auto.
    destruct (list_N_eqb b c); simpl; now rewrite E.
Qed.

Definition unshared (o : option node) : Prop := forall b x, o <> Some (File b x true).

Lemma chmod1_other k' w w1 k : chmod1 k' w = Some w1 -> k <> k' -> unshared (lookup w k) -> lookup w1 k = lookup w k.
Proof.
  unfold chmod1. intros H N U. destruct (lookup w k') as [[b x [|]| |]|]; try discriminate; injection H as <-; auto.
  - rewrite lookup_set_exec_shared. destruct (lookup w k) as [[b0 x0 [|]| |]|] eqn:E; auto. exfalso. eapply U. reflexivity.
  - rewrite lookup_set, key_eqb_neq; auto.
Qed.
Lemma chmod_files_other l : forall w k, ~ In k l -> unshared (lookup w k) -> lookup (fst (chmod_files l w)) k = lookup w k.
Proof.
  induction l as [|k1 l IH]; intros w k H U; simpl; auto.
  destruct (chmod1 k1 w) as [w1|] eqn:E; auto.
  assert (N : k <> k1) by (intros ->; apply H; now left).
  pose proof (chmod1_other _ _ _ _ E N U) as E1.
  rewrite IH; [exact E1 | intros X; apply H; now right | now rewrite E1].
Qed.

Lemma reorder_In order l k : In k (reorder order l) -> In k l.
Proof.
  unfold reorder. rewrite in_app_iff, !filter_In. intros [[_ H]|[H _]]; auto. now apply mem_key_spec.
Qed.

(* ---- apply, opened ------------------------------------------------------------------------------------ *)
Definition ws1 (p : list action * list key) (w : ws) : ws := fold_left (fun w k => rm k w) (files_delete (fst p)) w.
Definition ws2 (p : list action * list key) (w : ws) : ws :=
  fold_left (fun w k => rmdir k w) (sort_desc (dirs_delete (fst p))) (ws1 p w).
Definition DCl (odc : list key) (p : list action * list key) : list key := reorder odc (dirs_create (fst p)).
Definition cd3 (odc : list key) (p : list action * list key) (w : ws) : ws * bool := create_dirs (DCl odc p) (ws2 p w).
Definition ws3 (odc : list key) (p : list action * list key) (w : ws) : ws :=
  fold_left (fun w k => makedirs k w) (DCl odc p) (ws2 p w).
Definition ws4 lt avail odc (p : list action * list key) (w : ws) : ws * errs :=
  create_files lt avail (files_create (fst p)) (fst (cd3 odc p w)).

Lemma apply_dirs_raised lt avail order odc p w : o_dirs_raised (apply lt avail order odc p w) = snd (cd3 odc p w).
Proof.
  unfold apply, cd3, DCl, ws2, ws1. destruct (create_dirs _ _) as [w3 [|]]; cbn [snd]; auto.
  destruct (create_files _ _ _ _) as [w4 e4]. now destruct (chmod_files _ w4).
Qed.
Lemma apply_aborted lt avail order odc p w : snd (cd3 odc p w) = true ->
  o_ws (apply lt avail order odc p w) = fst (cd3 odc p w) /\
  o_errs (apply lt avail order odc p w) = map (fun k => (k, 1)) (snd p).
Proof.
  unfold apply, cd3, DCl, ws2, ws1. destruct (create_dirs _ _) as [w3 [|]]; cbn [fst snd]; [auto|discriminate].
Qed.
Lemma apply_ws lt avail order odc p w : snd (cd3 odc p w) = false ->
  o_ws (apply lt avail order odc p w) = fst (chmod_files (reorder order (files_chmod (fst p))) (fst (ws4 lt avail odc p w))).
Proof.
  unfold apply, ws4, cd3, DCl, ws2, ws1. destruct (create_dirs _ _) as [w3 [|]]; cbn [fst snd]; [discriminate|]. intros _.
  destruct (create_files _ _ _ _) as [w4 e4]. cbn [fst]. now destruct (chmod_files _ w4).
Qed.
Lemma apply_errs lt avail order odc p w : snd (cd3 odc p w) = false ->
  o_errs (apply lt avail order odc p w) = map (fun k => (k, 1)) (snd p) ++ snd (ws4 lt avail odc p w).
Proof.
  unfold apply, ws4, cd3, DCl, ws2, ws1. destruct (create_dirs _ _) as [w3 [|]]; cbn [fst snd]; [discriminate|]. intros _.
  destruct (create_files _ _ _ _) as [w4 e4]. cbn [snd]. now destruct (chmod_files _ w4).
Qed.
Lemma apply_raised lt avail order odc p w : snd (cd3 odc p w) = false ->
  o_raised (apply lt avail order odc p w) = snd (chmod_files (reorder order (files_chmod (fst p))) (fst (ws4 lt avail odc p w))).
Proof.
  unfold apply, ws4, cd3, DCl, ws2, ws1. destruct (create_dirs _ _) as [w3 [|]]; cbn [fst snd]; [discriminate|]. intros _.
  destruct (create_files _ _ _ _) as [w4 e4]. cbn [fst]. now destruct (chmod_files _ w4).
Qed.

(* create_dirs: without an obstruction it is the fold of makedirs; it only touches path components of its keys *)
Definition clear_at (w : ws) (q : key) : Prop := lookup w q = None \/ lookup w q = Some Dir.
Lemma blocked_false w k : (forall q, In q (prefixes k) -> clear_at w q) -> blocked w k = false.
Proof.
  intros H. unfold blocked. destruct (existsb _ _) eqn:E; auto. apply existsb_exists in E as [q [I B]].
  destruct (H q I) as [X|X]; rewrite X in B; discriminate.
Qed.
Lemma create_dirs_ok l : forall w, (forall k q, In k l -> In q (prefixes k) -> clear_at w q) ->
  create_dirs l w = (fold_left (fun w k => makedirs k w) l w, false).
Proof.
  induction l as [|k l IH]; intros w H; simpl; auto.
  rewrite blocked_false by (intros q I; apply (H k q); [now left | exact I]). apply IH.
  intros k' q I1 I2. unfold clear_at. rewrite makedirs_spec.
  destruct (H k' q (or_intror I1) I2) as [X|X]; rewrite X; auto. destruct (mem_key q (prefixes k)); auto.
Qed.
Lemma mk_until_other ps : forall w k, ~ In k ps -> lookup (mk_until ps w) k = lookup w k.
Proof.
  induction ps as [|q ps IH]; intros w k H; simpl; auto.
  assert (k <> q) by (intros ->; apply H; now left).
  assert (~ In k ps) by (intros X; apply H; now right).
  destruct (lookup w q) as [[]|]; auto. rewrite IH; auto. rewrite lookup_set, key_eqb_neq; auto.
Qed.
Lemma create_dirs_other l : forall w k, (forall k', In k' l -> ~ In k (prefixes k')) ->
  lookup (fst (create_dirs l w)) k = lookup w k.
Proof.
  induction l as [|k1 l IH]; intros w k H; simpl; auto.
  destruct (blocked w k1); cbn [fst].
  - apply mk_until_other. apply H. now left.
  - rewrite IH by (intros; apply H; now right). rewrite makedirs_spec.
    destruct (lookup w k); auto. destruct (mem_key k (prefixes k1)) eqn:E; auto.
    apply mem_key_spec in E. exfalso. eapply H; eauto. now left.
Qed.

(* ---- C09_errors_reported -------------------------------------------------------------------------------- *)
Definition unavailable (avail : list bytes) (c : option bytes) : bool :=
  match c with None => true | Some c => negb (mem_bytes c avail) end.
Definition ecode (c : option bytes) : N := match c with None => 3 | Some _ => 2 end.

Lemma create_file_unavail lt avail w k c :
  unavailable avail c = true -> snd (create_file lt avail w (k, c)) = [(k, ecode c)].
Proof.
  intros U. unfold create_file. cbn [fst snd]. destruct c as [c|]; auto. simpl in U.
  destruct lt; rewrite U; reflexivity.
Qed.

Lemma create_files_err lt avail l : forall acc k c,
  unavailable avail c = true ->
  In (k, ecode c) (snd acc) \/ In (k, c) l -> In (k, ecode c) (snd (fold_left (cf_step lt avail) l acc)).
Proof.
  induction l as [|kc l IH]; intros acc k c U H; simpl.
  - destruct H as [H|[]]; auto.
  - apply IH; auto. rewrite cf_step_snd, in_app_iff. destruct H as [H|[->|H]]; auto.
    left. right. rewrite create_file_unavail; auto. now left.
Qed.

Theorem errors_reported lt delete avail tr order odc w t k x c :
  o_dirs_raised (checkout lt delete avail tr order odc w t) = false ->
  lookup (fst (expand tr t)) k = Some (TFile x c) ->
  unavailable avail c = true ->
  same_file (lookup w k) (Some (TFile x c)) = false ->
  In (k, ecode c) (o_errs (checkout lt delete avail tr order odc w t)).
Proof.
  intros R T U S. unfold checkout in *. rewrite apply_dirs_raised in R. rewrite apply_errs, in_app_iff by exact R. right.
  unfold ws4. rewrite create_files_eq. apply create_files_err; auto. right.
  apply In_files_create. rewrite T. unfold fc. cbn [t_file t_content]. now rewrite S.
Qed.

Theorem failed_reported lt delete avail tr order odc w t k :
  In k (snd (expand tr t)) -> In (k, 1) (o_errs (checkout lt delete avail tr order odc w t)).
Proof.
  intros H. unfold checkout.
  assert (X : In (k, 1) (map (fun k => (k, 1)) (snd (compare false delete w tr t)))).
  { rewrite compare_eq. cbn [snd]. apply in_map_iff. exists k. split; auto. now apply dedup_In. }
  destruct (snd (cd3 odc (compare false delete w tr t) w)) eqn:R.
  - destruct (apply_aborted lt avail order odc _ _ R) as [_ E]. now rewrite E.
  - rewrite apply_errs, in_app_iff by exact R. now left.
Qed.

(* ---- C09_no_delete ----------------------------------------------------------------------------------------- *)
Definition is_node (t' : target) (k : key) : Prop := exists k', lookup t' k' <> None /\ is_prefix k k' = true.

Lemma makedirs_fold_other l : forall w k, (forall k', In k' l -> ~ In k (prefixes k')) ->
  lookup (fold_left (fun w k => makedirs k w) l w) k = lookup w k.
Proof.
  induction l as [|k1 l IH]; intros w k H; simpl; auto.
  rewrite IH by (intros; apply H; now right). rewrite makedirs_spec.
  destruct (lookup w k); auto. destruct (mem_key k (prefixes k1)) eqn:E; auto.
  apply mem_key_spec in E. exfalso. eapply H; eauto. now left.
Qed.

Theorem no_delete lt avail tr order odc w t k :
  ~ is_node (fst (expand tr t)) k -> unshared (lookup w k) ->
  lookup (o_ws (checkout lt false avail tr order odc w t)) k = lookup w k.
Proof.
  intros NN U. set (t' := fst (expand tr t)) in *.
  assert (NT : forall k', is_prefix k k' = true -> lookup t' k' = None).
  { intros k' P. destruct (lookup t' k') eqn:E; auto. exfalso. apply NN. exists k'. split; auto. congruence. }
  assert (NK : lookup t' k = None) by (apply NT, is_prefix_refl).
  unfold checkout. set (p := compare false false w tr t).
  assert (E1 : lookup (ws1 p w) k = lookup w k).
  { unfold ws1. rewrite rm_fold_spec.
    - destruct (mem_key k (files_delete (fst p))) eqn:E; auto. apply mem_key_spec, In_files_delete in E.
      fold t' in E. rewrite NK in E. unfold fd in E. destruct (lookup w k) as [[]|]; discriminate.
    - intros k' Hk'. apply In_files_delete in Hk'. unfold fd in Hk'. destruct (lookup w k') as [[]|]; simpl in Hk'; congruence. }
  assert (E2 : lookup (ws2 p w) k = lookup w k).
  { unfold ws2. rewrite rmdir_fold_other; auto. rewrite sort_desc_In. intros H. apply In_dirs_delete in H.
    fold t' in H. rewrite NK in H. unfold dd in H. now rewrite andb_false_r in H. }
  assert (E3 : lookup (fst (cd3 odc p w)) k = lookup w k).
  { unfold cd3. rewrite create_dirs_other; auto. intros k' Hk' Hp. apply reorder_In, In_dirs_create in Hk'. fold t' in Hk'.
    apply prefixes_is_prefix in Hp as [Hp _]. rewrite (NT _ Hp) in Hk'. discriminate. }
  destruct (snd (cd3 odc p w)) eqn:R.
  { destruct (apply_aborted lt avail order odc _ _ R) as [E _]. now rewrite E. }
  assert (E4 : lookup (fst (ws4 lt avail odc p w)) k = lookup w k).
  { assert (NP : forall k' c, In (k', c) (files_create (fst p)) -> is_prefix k k' = false).
    { intros k' c Hk'. apply In_files_create in Hk' as [Hk' _]. fold t' in Hk'. destruct (is_prefix k k') eqn:P; auto.
      rewrite (NT _ P) in Hk'. discriminate. }
    unfold ws4. rewrite create_files_eq, create_files_other; auto. cbn [fst].
    rewrite make_parents_other; auto. }
  rewrite (apply_ws lt avail order odc p w R). rewrite chmod_files_other.
  - exact E4.
  - intros H. apply reorder_In, In_files_chmod in H. fold t' in H. rewrite NK in H. discriminate.
  - now rewrite E4.
Qed.

(* ---- non-vacuity of the hypotheses (concrete states) -------------------------------------------------------- *)
Definition ex_ws : ws :=
  [([[97]], Dir); ([[97]; [120]], File [120] false false); ([[107]], File [107] true false)].
Definition ex_target : target :=
  [([[97]], TFile true (Some [65])); ([[100]], TDir None false); ([[100]; [101]], TFile false (Some [69]))].

(* without delete: [k] (outside the target) survives, a/x too; the blocked file a is reported (copy) *)
Example ex_no_delete :
  let o := checkout Copy false [[65]; [69]] [] [] [] ex_ws ex_target in
  lookup (o_ws o) [[107]] = Some (File [107] true false) /\
  lookup (o_ws o) [[97]; [120]] = Some (File [120] false false) /\
  o_errs o = [([[97]], 2)] /\ ~ is_node (fst (expand [] ex_target)) [[107]].
Proof.
  repeat split; try (vm_compute; reflexivity).
  intros [k' [H P]]. apply lookup_In_keys in H. simpl in H.
  destruct H as [<-|[<-|[<-|[]]]]; vm_compute in P; discriminate.
Qed.

(* an unavailable source is reported *)
Example ex_errors_reported :
  o_errs (checkout Hardlink true [[65]] [] [] [] ex_ws ex_target) = [([[100]; [101]], 2)] /\
  unavailable [[65]] (Some [69]) = true /\
  lookup (fst (expand [] ex_target)) [[100]; [101]] = Some (TFile false (Some [69])).
Proof. repeat split; vm_compute; reflexivity. Qed.

(* ... and, since 41e56e8, under symlink too (no dangling link is made) *)
Example ex_errors_reported_symlink :
  let o := checkout Symlink true [[65]] [] [] [] ex_ws ex_target in
  o_errs o = [([[100]; [101]], 2)] /\ lookup (o_ws o) [[100]; [101]] = None.
Proof. split; vm_compute; reflexivity. Qed.
