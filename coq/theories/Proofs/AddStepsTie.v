(* AddStepsTie.v - the hand-written add programs of Model/AddSteps.v ARE HashFileDB.add as the
   translator reads it from /repo on every run (Gen/DbAdd.v, unit "dbadd").

   [g_add] interprets the GENERATED decisions - effective verify flag, guard / iteration / handlers of
   the pre-add check, what super().add is given, the body and the handlers of the post loop, the one
   state transaction, their order - over the step machine; nothing in it is specific to the model's
   [add_prog] / [vadd_prog].  The tie theorems show that, at every prefix (= every crash point), the
   world it produces is the world of the hand-written program the C15 theorems are about.  An edit of
   HashFileDB.add (pre-add check no longer gated on the flag, protect before the check, a handler
   dropped, check_exists not forwarded, a second transaction ...) either fails the translation or
   changes a generated definition and breaks these proofs. *)
From Coq Require Import NArith List Bool.
From DvcData Require Import Base.Val Model.AddSteps Gen.DbAdd.
Import ListNotations.
Open Scope N_scope.

Section Tie.
  Variable bytes : Type.
  Variable H : bytes -> oid.
  Variable kids : bytes -> list oid.
  Variable empty : bytes.
  Variable part : bytes -> bytes.

  Notation astep := (astep_ bytes).
  Notation world := (world bytes).
  Notation prog := (prog bytes).
  Notation run := (run bytes empty).
  Notation step := (step bytes empty).
  Notation heal1_steps := (heal1_steps bytes H).
  Notation heal_prog := (heal_prog bytes H empty).
  Notation present := (present bytes).
  Notation absent := (absent bytes).
  Notation prefix_states := (prefix_states bytes empty).

  Definition iter_oids (it : oid_iter) (req : list oid) : list oid :=
    match it with OidsGiven => req | OidsDistinct => dedup req end.

  (* which exception `self.check(o, check_hash=True)` ends with in world w, if any: the object is
     missing (FileNotFoundError), or the check removed it (ObjectFormatError) *)
  Definition check_raises (w : world) (o : oid) : option exc :=
    if present w o
    then if present (run (heal1_steps w o) w) o then None else Some ExcObjectFormat
    else Some ExcFileNotFound.

  (* the pre-add check: `if <pre_runs>: for o in <pre_over>: try: check(o) except <pre_swallows>: pass`.
     Both exceptions a check can end with are swallowed exactly when they are listed. *)
  Definition swallowed (e : exc) : bool := existsb (exc_eqb e) pre_swallows.
  Definition g_pre (vfy : bool) (req : list oid) : prog :=
    if pre_runs vfy && pre_check_hash && swallowed ExcObjectFormat && swallowed ExcFileNotFound
    then heal_prog (iter_oids pre_over req) else fun _ => [].

  (* the try body of the post loop for one oid: the statements in order; an exception for which a
     handler exists ends the body (both handlers only report / pass: no further step) *)
  Fixpoint g_acts (acts : list post_act) (w : world) (o : oid) : list astep :=
    match acts with
    | [] => []
    | PCheck _ :: r =>
        let h := heal1_steps w o in
        match check_raises w o with
        | Some e => match post_handler e with Some _ => h | None => h end
        | None => h ++ g_acts r (run h w) o
        end
    | PProtect :: r => Chmod o :: g_acts r (step w (Chmod o)) o
    end.
  Fixpoint g_post (vfy : bool) (req : list oid) : prog :=
    fun w => match req with
             | [] => []
             | o :: r => let p := g_acts (post_body vfy) w o in p ++ g_post vfy r (run p w)
             end.
  Definition g_save (req : list oid) : prog :=
    fun _ => match save_value with SaveOid => [StateSave (self_rows (iter_oids save_over req))] end.

  (* HashFileDB.add with the copies [cp] (a function of the check_exists flag super().add is given) *)
  Definition g_add (percall : option bool) (store chk : bool) (cp : bool -> prog) (req : list oid) : prog :=
    let vfy := eff_verify percall store in
    seq2 bytes empty (g_pre vfy req)
      (seq2 bytes empty (cp (copy_check_exists chk))
         (seq2 bytes empty (g_post vfy (iter_oids post_over req)) (g_save req))).

  (* the copies of a local -> local add, and of an add from the in-memory file system *)
  Definition cp_local (t : N) (its : items bytes) (chk : bool) : prog :=
    fun w => let todo := if chk then filter (absent w) its else its in
             map Mkdir (dedup (map (fun it => pfx (fst it)) todo)) ++ probe_of bytes todo ++
             copy_blocks bytes part t todo.
  Definition cp_mem (t : N) (it : oid * bytes) (chk : bool) : prog :=
    fun w => if chk then (if absent w it then mem_block bytes t it else []) else mem_block bytes t it.

  (* ---- lemmas ---- *)
  Lemma run_app a b w : run (a ++ b) w = run b (run a w).
  Proof. unfold AddSteps.run. apply fold_left_app. Qed.

  Lemma prefix_states_app_last a s s' w :
    step (run a w) s = step (run a w) s' ->
    prefix_states (a ++ [s]) w = prefix_states (a ++ [s']) w.
  Proof.
    revert w. induction a as [|x a IH]; intros w E; cbn [app AddSteps.prefix_states] in *.
    - cbn [AddSteps.run fold_left] in E. rewrite E. reflexivity.
    - f_equal. apply IH. exact E.
  Qed.

  Lemma prefix_states_app_cong a b b' w :
    prefix_states b (run a w) = prefix_states b' (run a w) ->
    prefix_states (a ++ b) w = prefix_states (a ++ b') w.
  Proof.
    revert w. induction a as [|x a IH]; intros w E; cbn [app AddSteps.prefix_states] in *.
    - exact E.
    - destruct b, b'; cbn [app]; f_equal; apply IH; exact E.
  Qed.

  Lemma save_rows_filter objs req rows :
    save_rows bytes objs (self_rows (filter (fun o => match aget list_N_eqb o objs with Some _ => true | None => false end) req)) rows
    = save_rows bytes objs (self_rows req) rows.
  Proof.
    unfold AddSteps.save_rows, self_rows. revert rows.
    induction req as [|o r IH]; intro rows; cbn [filter map fold_left]; [reflexivity|].
    destruct (aget list_N_eqb o objs) eqn:E; cbn [map fold_left fst snd]; rewrite ?E; apply IH.
  Qed.

  Lemma step_save_filter w req :
    step w (StateSave (self_rows (filter (present w) req))) = step w (StateSave (self_rows req)).
  Proof.
    cbn [AddSteps.step]. f_equal. unfold AddSteps.present, AddSteps.obj. apply save_rows_filter.
  Qed.

  Lemma g_post_verify req w : g_post true req w = vpost bytes H empty req w.
  Proof.
    revert w. induction req as [|o r IH]; intro w; cbn [g_post vpost]; [reflexivity|].
    assert (E : g_acts (post_body true) w o = vpost1 bytes H empty w o).
    { unfold post_body, vpost1. cbn [app g_acts]. unfold check_raises.
      destruct (present w o) eqn:P.
      - destruct (present (run (heal1_steps w o) w) o) eqn:Q; [reflexivity|].
        cbn. reflexivity.
      - (* missing: the check does nothing and raises FileNotFoundError *)
        assert (Hn : heal1_steps w o = []).
        { unfold AddSteps.heal1_steps. unfold AddSteps.present in P.
          destruct (obj bytes w o); [discriminate|reflexivity]. }
        rewrite Hn. cbn [AddSteps.run fold_left]. rewrite P. cbn. reflexivity. }
    rewrite E. f_equal. apply IH.
  Qed.

  Lemma g_post_plain req w : g_post false req w = map Chmod req.
  Proof.
    revert w. induction req as [|o r IH]; intro w; cbn [g_post map]; [reflexivity|].
    unfold post_body. cbn [app g_acts]. cbn [app]. f_equal. apply IH.
  Qed.

  (* ---- the ties ---- *)
  Theorem add_gen_is_source_add :
    forall percall store chk t its w,
      prefix_states (g_add percall store chk (cp_local t its) (map fst its) w) w
      = prefix_states (add_gen bytes H empty part (eff_verify percall store) chk t its w) w.
  Proof.
    intros percall store chk t its w. unfold g_add.
    destruct (eff_verify percall store) eqn:V; unfold add_gen.
    - (* verifying *)
      unfold vadd_prog, seq2, g_pre. cbn [pre_runs pre_check_hash swallowed pre_swallows existsb exc_eqb andb orb
                                          iter_oids pre_over post_over copy_check_exists].
      apply prefix_states_app_cong.
      set (w1 := run (heal_prog (map fst its) w) w).
      unfold cp_local at 1 2. cbv zeta.
      apply prefix_states_app_cong.
      set (w2 := run _ w1).
      unfold vtail, seq2. rewrite g_post_verify.
      unfold g_save. cbn [save_value save_over iter_oids].
      symmetry. apply prefix_states_app_last. apply step_save_filter.
    - (* not verifying *)
      unfold add_prog, seq2, g_pre. cbn [pre_runs andb app iter_oids post_over copy_check_exists].
      unfold cp_local. cbv zeta. cbn [AddSteps.run fold_left].
      rewrite g_post_plain. unfold g_save. cbn [save_value save_over iter_oids].
      rewrite <- !app_assoc. reflexivity.
  Qed.

  Theorem mem_add_gen_is_source_add :
    forall store t it w,
      prefix_states (g_add tree_add_percall_verify store tree_add_check_exists (cp_mem t it) [fst it] w) w
      = prefix_states (mem_add_gen bytes H empty (eff_verify tree_add_percall_verify store) t it w) w.
  Proof.
    intros store t it w. unfold g_add.
    destruct (eff_verify tree_add_percall_verify store) eqn:V; unfold mem_add_gen.
    - unfold mem_vadd_prog, seq2, g_pre. cbn [pre_runs pre_check_hash swallowed pre_swallows existsb exc_eqb andb orb
                                              iter_oids pre_over post_over copy_check_exists tree_add_check_exists
                                              add_default_check_exists].
      apply prefix_states_app_cong.
      set (w1 := run (heal_prog [fst it] w) w).
      unfold cp_mem at 1 2.
      apply prefix_states_app_cong.
      set (w2 := run _ w1).
      unfold vtail, seq2. change (dedup [fst it]) with [fst it]. rewrite g_post_verify.
      unfold g_save. cbn [save_value save_over iter_oids]. change (dedup [fst it]) with [fst it].
      symmetry. apply prefix_states_app_last. apply step_save_filter.
    - unfold mem_add_prog, seq2, g_pre. cbn [pre_runs andb app iter_oids post_over copy_check_exists
                                             tree_add_check_exists add_default_check_exists].
      unfold cp_mem. cbn [AddSteps.run fold_left]. change (dedup [fst it]) with [fst it].
      rewrite g_post_plain. unfold g_save. cbn [save_value save_over iter_oids map app].
      change (dedup [fst it]) with [fst it]. reflexivity.
  Qed.

  (* the final world, as a corollary (prefix_states ends with it) *)
  Lemma last_prefix_states tr w d : last (prefix_states tr w) d = run tr w.
  Proof.
    revert w. induction tr as [|s r IH]; intro w; cbn [AddSteps.prefix_states]; [reflexivity|].
    cbn [AddSteps.run fold_left]. fold (run r (step w s)). rewrite <- (IH (step w s)).
    assert (E : exists x l, prefix_states r (step w s) = x :: l)
      by (destruct r; eexists; eexists; reflexivity).
    destruct E as (x & l & E). rewrite E. reflexivity.
  Qed.

  Corollary add_gen_is_source_add_final :
    forall percall store chk t its w,
      run (g_add percall store chk (cp_local t its) (map fst its) w) w
      = run (add_gen bytes H empty part (eff_verify percall store) chk t its w) w.
  Proof.
    intros. rewrite <- (last_prefix_states _ w w), add_gen_is_source_add. apply last_prefix_states.
  Qed.
End Tie.

(* what the generated text must say for the C15 / C16 arguments to apply (each closed by computation:
   a change of the source that alters one of them breaks this file) *)
Lemma source_add_facts :
  DEFAULT_VERIFY = false /\ add_default_check_exists = true /\ add_default_hardlink = false /\
  (forall v, pre_runs v = v) /\ pre_over = OidsGiven /\
  post_body true = [PCheck true; PProtect] /\ post_body false = [PProtect] /\
  post_handler ExcObjectFormat = Some HReport /\ post_handler ExcFileNotFound = Some HPass /\
  copy_reports = true /\ (forall b, copy_hardlink b = b) /\ (forall b, copy_check_exists b = b) /\
  tree_add_hardlink = false /\ migrate_hardlink = true /\ migrate_into = Dest /\ migrate_from_fs = Src /\
  prepare_hash_name = Dest /\ prepare_state = Dest /\ prepare_lists = Src.
Proof. repeat split; try reflexivity; intros []; reflexivity. Qed.
