(* IdxApplyTie.v - the model's [apply] (Model/IdxCheckout.v) runs the phases of index/checkout.py
   apply() in the order the translator reads from /repo on every run (Gen/IdxApply.v, unit idxapply).

   [g_apply] folds a phase interpreter over the GENERATED list [apply_phases]; a phase after a
   create-dirs phase that raised is not run (the exception leaves apply).  The tie theorem shows it
   equal to the hand-written [apply] for every plan, workspace, link type and availability.  A
   reordering of the source's phases (files created before directories are removed, chmod before
   create ...) changes the generated list and breaks this proof; a phase dropped or doubled fails the
   translation. *)
From Coq Require Import NArith List Bool.
From DvcData Require Import Base.Val Base.PyBase Gen.PyTypes Gen.IDiff Gen.IdxCompare Model.IdxCheckout Gen.IdxApply.
Import ListNotations.

Section Tie.
  Variables (lt : link) (avail : list bytes) (order order_dc : list key) (p : list action * list key).

  Definition dirs_order (l : list key) : list key :=
    if delete_dirs_deepest_first then sort_desc l else l.

  Definition phase_step (s : out) (ph : phase) : out :=
    if o_dirs_raised s then s else
    let acts := fst p in
    match ph with
    | PDirsFailed =>
        {| o_ws := o_ws s; o_errs := o_errs s ++ map (fun k => (k, 1%N)) (snd p);
           o_raised := o_raised s; o_dirs_raised := false |}
    | PDeleteFiles =>
        {| o_ws := fold_left (fun w k => rm k w) (files_delete acts) (o_ws s); o_errs := o_errs s;
           o_raised := o_raised s; o_dirs_raised := false |}
    | PDeleteDirs =>
        {| o_ws := fold_left (fun w k => rmdir k w) (dirs_order (dirs_delete acts)) (o_ws s); o_errs := o_errs s;
           o_raised := o_raised s; o_dirs_raised := false |}
    | PCreateDirs =>
        let '(w3, r3) := create_dirs (reorder order_dc (dirs_create acts)) (o_ws s) in
        {| o_ws := w3; o_errs := o_errs s; o_raised := r3; o_dirs_raised := r3 |}
    | PCreateFiles =>
        let '(w4, e4) := create_files lt avail (files_create acts) (o_ws s) in
        {| o_ws := w4; o_errs := o_errs s ++ e4; o_raised := o_raised s; o_dirs_raised := false |}
    | PChmod =>
        let '(w5, raised) := chmod_files (reorder order (files_chmod acts)) (o_ws s) in
        {| o_ws := w5; o_errs := o_errs s; o_raised := raised; o_dirs_raised := false |}
    end.

  Definition g_apply (w : ws) : out :=
    fold_left phase_step apply_phases
              {| o_ws := w; o_errs := []; o_raised := false; o_dirs_raised := false |}.

  Theorem apply_is_source_apply : forall w, g_apply w = apply lt avail order order_dc p w.
  Proof.
    intro w. unfold g_apply, apply, apply_phases. cbn [fold_left].
    (* innermost phase first, one at a time (unfolding all six at once duplicates the state) *)
    set (s0 := {| o_ws := w; o_errs := []; o_raised := false; o_dirs_raised := false |}).
    assert (E1 : phase_step s0 PDirsFailed =
                 {| o_ws := w; o_errs := map (fun k => (k, 1%N)) (snd p); o_raised := false; o_dirs_raised := false |})
      by reflexivity.
    rewrite E1; clear E1 s0.
    match goal with |- context [phase_step ?s PDeleteFiles] => set (s1 := s) end.
    assert (E2 : phase_step s1 PDeleteFiles =
                 {| o_ws := fold_left (fun w k => rm k w) (files_delete (fst p)) w;
                    o_errs := map (fun k => (k, 1%N)) (snd p); o_raised := false; o_dirs_raised := false |})
      by reflexivity.
    rewrite E2; clear E2 s1.
    match goal with |- context [phase_step ?s PDeleteDirs] => set (s2 := s) end.
    assert (E3 : phase_step s2 PDeleteDirs =
                 {| o_ws := fold_left (fun w k => rmdir k w) (sort_desc (dirs_delete (fst p)))
                                      (fold_left (fun w k => rm k w) (files_delete (fst p)) w);
                    o_errs := map (fun k => (k, 1%N)) (snd p); o_raised := false; o_dirs_raised := false |})
      by reflexivity.
    rewrite E3; clear E3 s2.
    match goal with |- context [phase_step ?s PCreateDirs] => set (s3 := s) end.
    unfold phase_step at 3. cbn [o_dirs_raised s3]. cbn [o_ws o_errs s3]. clear s3.
    destruct (create_dirs _ _) as [w3 r3].
    destruct r3.
    - unfold phase_step. cbn [o_dirs_raised]. reflexivity.
    - unfold phase_step at 2. cbn [o_dirs_raised o_ws o_errs o_raised].
      destruct (create_files _ _ _ _) as [w4 e4].
      unfold phase_step. cbn [o_dirs_raised o_ws o_errs o_raised].
      destruct (chmod_files _ _) as [w5 raised]. reflexivity.
  Qed.
End Tie.

Lemma source_apply_facts :
  apply_phases = [PDirsFailed; PDeleteFiles; PDeleteDirs; PCreateDirs; PCreateFiles; PChmod] /\
  delete_dirs_deepest_first = true /\ delete_dirs_swallows_oserror = true /\ create_dirs_exist_ok = true /\
  chmod_local_only = true /\ chmod_stat_raises = true /\ chmod_oserror_swallowed = true /\
  create_no_hash_reported_and_skipped = true /\ create_symlink_precheck_reports_missing_source = true /\
  create_makes_parents = true /\ create_transfer_errors_forwarded = true /\
  state_rows_skip_failed = true /\ state_rows_skip_missing = true /\ state_rows_local_only = true /\
  meta_update_skips_failed = true.
Proof. repeat split. Qed.
