(* Order and sorting facts used by the C03 proofs (stdlib lists).

   * [lex_ltb] is a strict total order on [list N]; [lex_leb] its reflexive closure.
   * [sort_by leb] (insertion sort of Base/Val.v) yields a permutation that is sorted; it commutes
     with [map]; and a sorted list is *unique* among the permutations of a list on which the
     order is antisymmetric ([sorted_perm_unique]) - the uniqueness behind C03_perm. *)
From Coq Require Import NArith List Bool Lia Permutation Sorting.Sorted.
From DvcData Require Import Base.Val.
Import ListNotations.
Open Scope N_scope.

(* ------------------------------------------------------------------ lexicographic order *)
Lemma lex_ltb_irrefl a : lex_ltb a a = false.
Proof.
  induction a as [|x a IH]; cbn [lex_ltb]; [reflexivity|].
  rewrite N.ltb_irrefl, N.eqb_refl. exact IH.
Qed.

Lemma lex_ltb_cons x a y b :
  lex_ltb (x :: a) (y :: b) = true <-> (x < y \/ (x = y /\ lex_ltb a b = true)).
Proof.
  cbn [lex_ltb]. destruct (N.ltb_spec x y) as [H|H].
  - split; [intros _; now left | reflexivity].
  - destruct (N.eqb_spec x y) as [E|E].
    + split; [intros Hl; right; now split | intros [Hl|[_ Hl]]; [lia | exact Hl]].
    + split; [discriminate | intros [Hl|[Hl _]]; [lia | contradiction]].
Qed.

Lemma lex_ltb_trans a : forall b c, lex_ltb a b = true -> lex_ltb b c = true -> lex_ltb a c = true.
Proof.
  induction a as [|x a IH]; intros [|y b] [|z c] H1 H2; try discriminate; try reflexivity.
  apply lex_ltb_cons in H1. apply lex_ltb_cons in H2. apply lex_ltb_cons.
  destruct H1 as [H1|[-> H1]], H2 as [H2|[-> H2]].
  - left; lia.
  - now left.
  - now left.
  - right. split; [reflexivity|]. now apply IH with b.
Qed.

(* trichotomy *)
Lemma lex_ltb_total a : forall b, lex_ltb a b = false -> lex_ltb b a = false -> a = b.
Proof.
  induction a as [|x a IH]; intros [|y b] H1 H2; try discriminate; try reflexivity.
  cbn [lex_ltb] in H1, H2.
  destruct (N.ltb_spec x y) as [L1|L1]; [discriminate|].
  destruct (N.ltb_spec y x) as [L2|L2]; [discriminate|].
  assert (x = y) by lia. subst y. rewrite N.eqb_refl in H1, H2.
  f_equal. now apply IH.
Qed.

Lemma lex_ltb_asym a b : lex_ltb a b = true -> lex_ltb b a = false.
Proof.
  intros H. destruct (lex_ltb b a) eqn:E; [|reflexivity].
  pose proof (lex_ltb_trans _ _ _ H E) as C. now rewrite lex_ltb_irrefl in C.
Qed.

Lemma lex_leb_refl a : lex_leb a a = true.
Proof. unfold lex_leb. now rewrite lex_ltb_irrefl. Qed.

Lemma lex_leb_total a b : lex_leb a b = true \/ lex_leb b a = true.
Proof.
  unfold lex_leb. destruct (lex_ltb b a) eqn:E; [|now left].
  right. now rewrite (lex_ltb_asym _ _ E).
Qed.

Lemma lex_leb_antisym a b : lex_leb a b = true -> lex_leb b a = true -> a = b.
Proof.
  unfold lex_leb. intros H1 H2. apply negb_true_iff in H1, H2. now apply lex_ltb_total.
Qed.

Lemma lex_leb_trans a b c : lex_leb a b = true -> lex_leb b c = true -> lex_leb a c = true.
Proof.
  unfold lex_leb. intros H1 H2. apply negb_true_iff in H1, H2. apply negb_true_iff.
  destruct (lex_ltb c a) eqn:E; [|reflexivity].
  (* c < a, not b < a, not c < b: then a <= b <= c < a *)
  destruct (lex_ltb a b) eqn:Eab.
  - pose proof (lex_ltb_trans _ _ _ E Eab) as C. now rewrite C in H2.
  - assert (a = b) by now apply lex_ltb_total. subst b. now rewrite E in H2.
Qed.

(* ------------------------------------------------------------------ insertion sort *)
Section Sort.
  Context {A : Type} (leb : A -> A -> bool).
  Let R (a b : A) : Prop := leb a b = true.

  Lemma insert_by_perm x l : Permutation (insert_by leb x l) (x :: l).
  Proof.
    induction l as [|y r IH]; cbn [insert_by]; [reflexivity|].
    destruct (leb x y); [reflexivity|].
    rewrite IH. apply perm_swap.
  Qed.

  Lemma sort_by_perm l : Permutation (sort_by leb l) l.
  Proof.
    induction l as [|x r IH]; cbn [sort_by fold_right]; [reflexivity|].
    fold (sort_by leb r). rewrite insert_by_perm. now constructor.
  Qed.

  Lemma sort_by_cons x l : sort_by leb (x :: l) = insert_by leb x (sort_by leb l).
  Proof. reflexivity. Qed.

  Hypothesis leb_total : forall a b, leb a b = true \/ leb b a = true.
  Hypothesis leb_trans : forall a b c, leb a b = true -> leb b c = true -> leb a c = true.

  Lemma insert_by_sorted x l : StronglySorted R l -> StronglySorted R (insert_by leb x l).
  Proof.
    induction l as [|y r IH]; intros Hs; cbn [insert_by].
    - constructor; constructor.
    - inversion Hs as [|? ? Hr Hall]; subst.
      destruct (leb x y) eqn:E.
      + constructor; [exact Hs|]. constructor; [exact E|].
        eapply Forall_impl; [|exact Hall]. intros z Hz. unfold R in *. now apply leb_trans with y.
      + constructor; [now apply IH|].
        assert (Hyx : R y x) by (destruct (leb_total x y) as [C|C]; [congruence | exact C]).
        eapply Permutation_Forall; [symmetry; apply insert_by_perm|].
        constructor; assumption.
  Qed.

  Lemma sort_by_sorted l : StronglySorted R (sort_by leb l).
  Proof.
    induction l as [|x r IH]; [constructor|].
    rewrite sort_by_cons. now apply insert_by_sorted.
  Qed.
End Sort.

(* a sorted list is unique among the permutations of a list on which the order is antisymmetric *)
Lemma sorted_perm_unique {A} (R : A -> A -> Prop) : forall l1 l2,
  StronglySorted R l1 -> StronglySorted R l2 -> Permutation l1 l2 ->
  (forall a b, In a l1 -> In b l1 -> R a b -> R b a -> a = b) ->
  l1 = l2.
Proof.
  induction l1 as [|a l1 IH]; intros l2 S1 S2 P Anti.
  - apply Permutation_nil in P. now subst.
  - destruct l2 as [|b l2]; [apply Permutation_sym, Permutation_nil in P; discriminate|].
    inversion S1 as [|? ? S1' F1]; subst. inversion S2 as [|? ? S2' F2]; subst.
    assert (a = b) as ->.
    { assert (Ha : In a (b :: l2)) by (eapply Permutation_in; [exact P | now left]).
      assert (Hb : In b (a :: l1)) by (eapply Permutation_in; [symmetry; exact P | now left]).
      destruct Ha as [->|Ha]; [reflexivity|]. destruct Hb as [->|Hb]; [reflexivity|].
      rewrite Forall_forall in F1, F2.
      apply Anti; [now left | now right | now apply F1 | now apply F2]. }
    f_equal. apply IH; try assumption.
    + now apply Permutation_cons_inv in P.
    + intros x y Hx Hy. apply Anti; now right.
Qed.

(* the sort of a permutation: same result when the order is antisymmetric on the elements *)
Lemma sort_by_perm_eq {A} (leb : A -> A -> bool) l l' :
  (forall a b, leb a b = true \/ leb b a = true) ->
  (forall a b c, leb a b = true -> leb b c = true -> leb a c = true) ->
  (forall a b, In a l -> In b l -> leb a b = true -> leb b a = true -> a = b) ->
  Permutation l l' -> sort_by leb l = sort_by leb l'.
Proof.
  intros Tot Tr Anti P.
  apply sorted_perm_unique with (R := fun a b => leb a b = true).
  - now apply sort_by_sorted.
  - now apply sort_by_sorted.
  - rewrite !sort_by_perm. exact P.
  - intros a b Ha Hb H1 H2.
    apply (Permutation_in _ (sort_by_perm leb l)) in Ha.
    apply (Permutation_in _ (sort_by_perm leb l)) in Hb.
    now apply Anti.
Qed.

(* sorting commutes with a map that transports the order *)
Lemma insert_by_map {A B} (f : A -> B) (lebA : A -> A -> bool) (lebB : B -> B -> bool) :
  (forall a b, lebB (f a) (f b) = lebA a b) ->
  forall x l, insert_by lebB (f x) (map f l) = map f (insert_by lebA x l).
Proof.
  intros H x l. induction l as [|y r IH]; cbn [insert_by map]; [reflexivity|].
  rewrite H. destruct (lebA x y); cbn [map]; [reflexivity|]. now rewrite IH.
Qed.

Lemma sort_by_map {A B} (f : A -> B) (lebA : A -> A -> bool) (lebB : B -> B -> bool) :
  (forall a b, lebB (f a) (f b) = lebA a b) ->
  forall l, sort_by lebB (map f l) = map f (sort_by lebA l).
Proof.
  intros H l. induction l as [|x r IH]; [reflexivity|].
  cbn [map]. rewrite !sort_by_cons, IH. now apply insert_by_map.
Qed.

(* NoDup of an image makes the function injective on the list *)
Lemma NoDup_map_inj {A B} (f : A -> B) l : NoDup (map f l) ->
  forall a b, In a l -> In b l -> f a = f b -> a = b.
Proof.
  induction l as [|x r IH]; intros Hn a b Ha Hb E; [destruct Ha|].
  cbn [map] in Hn. inversion Hn as [|? ? Hx Hr]; subst.
  destruct Ha as [->|Ha], Hb as [->|Hb]; try reflexivity.
  - exfalso. apply Hx. rewrite E. now apply in_map.
  - exfalso. apply Hx. rewrite <- E. now apply in_map.
  - now apply IH.
Qed.

Lemma Permutation_filter {A} (f : A -> bool) l l' :
  Permutation l l' -> Permutation (filter f l) (filter f l').
Proof.
  induction 1 as [|x l l' _ IH|x y l|l l' l'' _ IH1 _ IH2]; cbn [filter].
  - constructor.
  - destruct (f x); [now constructor | exact IH].
  - destruct (f x), (f y); try reflexivity. apply perm_swap.
  - now transitivity (filter f l').
Qed.
