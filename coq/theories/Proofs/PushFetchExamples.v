(* C18: the hypotheses of the theorems are satisfiable by a concrete, non-trivial system:
   a directory entry d/ listing a and sub/b, a file entry f sharing a's content, the root mapped
   to (cache 10, remote 20) and the prefix d/sub INSIDE the directory re-routed to remote 21. *)
From Coq Require Import NArith List Bool Lia.
From DvcData Require Import Base.Val Model.Transfer Gen.StorageMap Model.PushFetch Proofs.TransferBase Proofs.TransferStatus Proofs.TransferLoop Proofs.TransferProofs Proofs.PushFetchResolve Proofs.PushFetchProofs Proofs.PushFetchMap Proofs.PushFetchIndexed.
Import ListNotations.
Open Scope N_scope.

Definition xf1 : oid := [102; 49].
Definition xf2 : oid := [102; 50].
Definition xd1 : oid := [100; 49; 46; 100; 105; 114].
Definition x_parse (b : bytes) : option (list oid) :=
  if list_N_eqb b [1] then Some [xf1; xf2] else None.
Definition x_idx : index :=
  [IDir [[100]] xd1 [([[97]], xf1); ([[115]; [98]], xf2)]; IFile [[102]] xf1].
Definition x_map : smap :=
  [([], {| si_data := None; si_cache := Some 10; si_remote := Some 20 |});
   ([[100]; [115]], {| si_data := None; si_cache := None; si_remote := Some 21 |})].
Definition x_fmap : smap :=
  [([], {| si_data := None; si_cache := Some 30; si_remote := Some 20 |});
   ([[100]; [115]], {| si_data := None; si_cache := Some 31; si_remote := Some 21 |})].
Definition x_w : stores := [(10, [(xf1, [11]); (xf2, [12]); (xd1, [1])])].
Definition x_env (fails : sid -> oid -> bool) : env :=
  {| e_parse := x_parse; e_fails := fails; e_dord := fun l => l; e_bord := fun l => l |}.
Definition nofail : sid -> oid -> bool := fun _ _ => false.
Definition fail_f2_into_20 : sid -> oid -> bool := fun s o => N.eqb s 20 && list_N_eqb o xf2.

Example x_collect :
  collect x_map x_idx =
  [ {| g_data := 20; g_cache := Some 10; g_req := [xd1; xf1; xf2; xf1] |};
    {| g_data := 21; g_cache := Some 10; g_req := [xf2] |} ].
Proof. reflexivity. Qed.

Lemma x_flat b l f : x_parse b = Some l -> In f l -> is_dir_oid f = false.
Proof.
  unfold x_parse. destruct (list_N_eqb b [1]); [|discriminate].
  intros H; inversion H; subst. simpl. intros [<-|[<-|[]]]; reflexivity.
Qed.

(* every group's transfer input is well-formed in the sense of C04, whatever fails, as long as
   the destination is empty *)
Lemma x_wf fails k m w g :
  In g (collect m x_idx) -> collect m x_idx = collect x_map x_idx \/ collect m x_idx = collect x_fmap x_idx ->
  sget w (gd k g) = [] ->
  (forall D b, lookup D (sget w (gsrc k g)) = Some b -> is_dir_oid D = true -> D = xd1 /\ b = [1]) ->
  wf (gin (x_env fails) k w g).
Proof.
  intros Hg Hm Hempty Hsrc.
  assert (Hreq : forall D, In D (g_req g) -> is_dir_oid D = true -> D = xd1 /\ In xf1 (g_req g) /\ In xf2 (g_req g)).
  { intros D HD Hd. destruct Hm as [Hm|Hm]; rewrite Hm in Hg; vm_compute in Hg;
      destruct Hg as [<-|[<-|[]]]; simpl in HD;
      repeat (destruct HD as [<-|HD]; [try (vm_compute in Hd; discriminate); simpl; auto 10|]); try destruct HD. }
  constructor.
  - destruct k; intros l o; simpl; tauto.
  - destruct k; intros l o; simpl; tauto.
  - intros b l f. rewrite gin_parse. apply x_flat.
  - unfold coherent, status_cache.
    assert (Ec : t_cache (gin (x_env fails) k w g) = Some []).
    { destruct k; simpl; unfold gd, group_dst in Hempty; now rewrite Hempty. }
    rewrite Ec. split; intros D b1 b2 H; discriminate.
  - rewrite gin_dst, Hempty. intros D l f H. unfold listing in H. simpl in H. destruct (is_dir_oid D); discriminate.
  - unfold ix_sound. destruct k; simpl; auto. right. intros o H. discriminate.
  - right. intros D l f HD Hd HT Hf. rewrite gin_req in *.
    destruct (Hreq D HD Hd) as [-> [H1 H2]].
    assert (El : l = [xf1; xf2]).
    { unfold find_tree in HT.
      assert (Ec : t_cache (gin (x_env fails) k w g) = Some []).
      { destruct k; simpl; unfold gd, group_dst in Hempty; now rewrite Hempty. }
      rewrite Ec in HT. simpl in HT. apply load_ok_some in HT. destruct HT as [b [L P]].
      rewrite gin_src in L. destruct (Hsrc xd1 b L eq_refl) as [_ ->].
      rewrite gin_parse in P. vm_compute in P. now inversion P. }
    subst l. destruct Hf as [<-|[<-|[]]]; auto.
  - intros o Ho. rewrite gin_trunc, gin_parse. reflexivity.
Qed.

Lemma x_indep_push : indep RPush (collect x_map x_idx).
Proof.
  rewrite x_collect. split; [|split].
  - intros g [<-|[<-|[]]]; discriminate.
  - simpl. repeat constructor; simpl; intuition discriminate.
  - intros g g' [<-|[<-|[]]] [<-|[<-|[]]]; vm_compute; discriminate.
Qed.

(* push with a fault (f2 into remote 20), clean retry, fetch into empty caches 30 / 31 *)
Definition x_out1 := run_round (x_env fail_f2_into_20) RPush x_map x_idx x_w.
Definition x_out2 := run_round (x_env nofail) RPush x_map x_idx (p_w x_out1).
Definition x_out3 := run_round (x_env nofail) RFetch x_fmap x_idx (p_w x_out2).

Example x_run :
  (p_err x_out1, p_moved x_out1, p_failed x_out1) = (None, 2, 2) /\
  map fst (sget (p_w x_out1) 20) = [xf1] /\ map fst (sget (p_w x_out1) 21) = [xf2] /\
  (p_err x_out2, p_moved x_out2, p_failed x_out2) = (None, 2, 0) /\
  forallb (has (sget (p_w x_out2) 20)) [xd1; xf1; xf2] = true /\
  (p_err x_out3, p_moved x_out3, p_failed x_out3) = (None, 4, 0) /\
  forallb (has (sget (p_w x_out3) 30)) [xd1; xf1; xf2] = true /\
  map fst (sget (p_w x_out3) 31) = [xf2] /\
  checkout_view x_fmap x_idx (p_w x_out3) =
    [([[100]; [97]], Some [11]); ([[100]; [115]; [98]], Some [12]); ([[102]], Some [11])].
Proof. vm_compute. repeat split; reflexivity. Qed.

Lemma x_cache_lookup D b :
  lookup D (sget x_w 10) = Some b ->
  (D = xf1 /\ b = [11]) \/ (D = xf2 /\ b = [12]) \/ (D = xd1 /\ b = [1]).
Proof.
  change (sget x_w 10) with [(xf1, [11]); (xf2, [12]); (xd1, [1])]. cbn [lookup].
  destruct (list_N_eqb D xf1) eqn:E1; [apply eqb_eq in E1; intros H; inversion H; auto|].
  destruct (list_N_eqb D xf2) eqn:E2; [apply eqb_eq in E2; intros H; inversion H; auto|].
  destruct (list_N_eqb D xd1) eqn:E3; [apply eqb_eq in E3; intros H; inversion H; auto|].
  discriminate.
Qed.
Lemma x_cache_dirs D b :
  lookup D (sget x_w 10) = Some b -> is_dir_oid D = true -> D = xd1 /\ b = [1].
Proof.
  intros L Hd. destruct (x_cache_lookup D b L) as [[-> _]|[[-> _]|[-> ->]]]; auto;
    vm_compute in Hd; discriminate.
Qed.

(* all hypotheses of push_spec / round_counts / retry_round hold for the first push, whatever fails *)
Example x_push_hyps fails :
  NoDup (map fst x_map) /\ indep RPush (collect x_map x_idx) /\
  (forall g, In g (collect x_map x_idx) -> wf (gin (x_env fails) RPush x_w g)) /\
  (forall g o, In g (collect x_map x_idx) -> In o (g_req g) -> has (sget x_w (gc g)) o = true) /\
  (forall g D b, In g (collect x_map x_idx) -> is_dir_oid D = true ->
                 lookup D (sget x_w (gc g)) = Some b -> e_parse (x_env fails) b <> None).
Proof.
  split; [simpl; repeat constructor; simpl; intuition discriminate|].
  split; [apply x_indep_push|]. split; [|split].
  - intros g Hg. apply (x_wf fails RPush x_map x_w g Hg); auto.
    + rewrite x_collect in Hg. destruct Hg as [<-|[<-|[]]]; reflexivity.
    + rewrite x_collect in Hg. intros D b L Hd.
      destruct Hg as [<-|[<-|[]]]; apply x_cache_dirs; auto.
  - intros g o Hg Ho. rewrite x_collect in Hg.
    destruct Hg as [<-|[<-|[]]]; simpl in Ho;
      repeat (destruct Ho as [<-|Ho]; [reflexivity|]); destruct Ho.
  - intros g D b Hg Hd L. rewrite x_collect in Hg.
    destruct Hg as [<-|[<-|[]]]; destruct (x_cache_dirs D b L Hd) as [_ ->]; discriminate.
Qed.

(* ... so the theorems apply: e.g. the clean push of this system is complete and exact *)
Example x_push_applies : forall r,
  (forall o, In o (designated x_map x_idx r) ->
             has (sget (p_w (run_round (x_env nofail) RPush x_map x_idx x_w)) r) o = true) /\
  (forall o, has (sget (p_w (run_round (x_env nofail) RPush x_map x_idx x_w)) r) o = true ->
             has (sget x_w r) o = true \/ In o (reachable x_idx)).
Proof.
  destruct (x_push_hyps nofail) as [A [B [C [D E]]]].
  apply (push_spec (x_env nofail) x_map x_idx x_w _ A eq_refl); auto.
Qed.
Example x_designated :
  designated x_map x_idx 20 = [xd1; xf1; xf1] /\ designated x_map x_idx 21 = [xf2] /\
  reachable x_idx = [xd1; xf1; xf2; xf1].
Proof. vm_compute. auto. Qed.

(* ====================================================================================== *)
(* The recorded finding C18:designated-object-not-pushed:remote-group-served-by-several-caches.
   With the precondition that index.save establishes (the object of every entry is in the cache
   the mapping designates for ITS key) instead of "the group's cache holds the group's request",
   the statement of C18_push is false: two disjoint prefixes, one remote, two caches. *)
Definition push_full : Prop := forall e m idx w out,
  NoDup (map fst m) ->
  run_round e RPush m idx w = out -> p_err out = None ->
  indep RPush (collect m idx) ->
  (forall g, In g (collect m idx) -> wf (gin e RPush w g)) ->
  (forall s o, e_fails e s o = false) ->
  (forall k o c, In (k, o) (entries m idx) -> cache_of m k = Some c -> has (sget w c) o = true) ->
  forall r o, In o (designated m idx r) -> has (sget (p_w out) r) o = true.

Definition y_fA : oid := [102; 65].
Definition y_fB : oid := [102; 66].
Definition y_idx : index := [IFile [[120]] y_fA; IFile [[121]] y_fB].
Definition y_map : smap :=
  [([[120]], {| si_data := None; si_cache := Some 10; si_remote := Some 20 |});
   ([[121]], {| si_data := None; si_cache := Some 11; si_remote := Some 20 |})].
Definition y_w : stores := [(10, [(y_fA, [1])]); (11, [(y_fB, [2])])].
Definition y_env : env :=
  {| e_parse := fun _ => None; e_fails := fun _ _ => false; e_dord := fun l => l; e_bord := fun l => l |}.

Example y_collect :
  collect y_map y_idx = [ {| g_data := 20; g_cache := Some 10; g_req := [y_fA; y_fB] |} ].
Proof. reflexivity. Qed.
Example y_run :
  let out := run_round y_env RPush y_map y_idx y_w in
  (p_err out, p_moved out, p_failed out) = (None, 1, 0) /\ map fst (sget (p_w out) 20) = [y_fA] /\
  designated y_map y_idx 20 = [y_fA; y_fB].
Proof. vm_compute. auto. Qed.

Theorem push_refuted : ~ push_full.
Proof.
  intros H.
  assert (Hn : NoDup (map fst y_map)) by (simpl; repeat constructor; simpl; intuition discriminate).
  assert (Hi : indep RPush (collect y_map y_idx)).
  { rewrite y_collect. split; [|split].
    - intros g [<-|[]]; discriminate.
    - simpl. repeat constructor; simpl; tauto.
    - intros g g' [<-|[]] [<-|[]]; vm_compute; discriminate. }
  assert (Hw : forall g, In g (collect y_map y_idx) -> wf (gin y_env RPush y_w g)).
  { rewrite y_collect. intros g [<-|[]]. constructor.
    - intros l o; simpl; tauto.
    - intros l o; simpl; tauto.
    - intros b l f Hp. discriminate.
    - split; intros D b1 b2 L; discriminate.
    - intros D l f Hl. unfold listing in Hl. simpl in Hl. destruct (is_dir_oid D); discriminate.
    - right. intros o Ho. discriminate.
    - right. intros D l f HD Hd. simpl in HD. destruct HD as [<-|[<-|[]]]; vm_compute in Hd; discriminate.
    - intros o Ho. reflexivity. }
  assert (Hp : forall k o c, In (k, o) (entries y_map y_idx) -> cache_of y_map k = Some c ->
                             has (sget y_w c) o = true).
  { intros k o c Hin Hc. vm_compute in Hin.
    destruct Hin as [E|[E|[]]]; inversion E; subst k o; vm_compute in Hc; inversion Hc; subst c; reflexivity. }
  assert (Hd : In y_fB (designated y_map y_idx 20)) by (vm_compute; auto).
  pose proof (H y_env y_map y_idx y_w _ Hn eq_refl eq_refl Hi Hw (fun _ _ => eq_refl) Hp 20 y_fB Hd) as F.
  vm_compute in F. discriminate.
Qed.

(* ====================================================================================== *)
(* non-vacuity of fetch_exact_seq / checkout_spec_seq: the two remotes of the system above, after
   the complete push, fetched into ONE empty cache (30) - two groups, one destination *)
Definition x_fmap1 : smap :=
  [([], {| si_data := None; si_cache := Some 30; si_remote := Some 20 |});
   ([[100]; [115]], {| si_data := None; si_cache := None; si_remote := Some 21 |})].
Definition x_w3 : stores :=
  [(20, [(xd1, [1]); (xf1, [11]); (xf2, [12])]); (21, [(xf2, [12])])].

Example x_remotes_after_push :
  map (fun s => map (fun o => lookup o (sget (p_w x_out2) s)) [xd1; xf1; xf2]) [20; 21] =
  map (fun s => map (fun o => lookup o (sget x_w3 s)) [xd1; xf1; xf2]) [20; 21] /\
  map (fun s => length (contents (sget (p_w x_out2) s))) [20; 21] = [3%nat; 1%nat].
Proof. vm_compute. split; reflexivity. Qed.

Example x_collect_fetch1 :
  collect x_fmap1 x_idx =
  [ {| g_data := 20; g_cache := Some 30; g_req := [xd1; xf1; xf2; xf1] |};
    {| g_data := 21; g_cache := Some 30; g_req := [xf2] |} ].
Proof. reflexivity. Qed.

Lemma x3_lookup s D b : lookup D (sget x_w3 s) = Some b ->
  (D = xf1 /\ b = [11]) \/ (D = xf2 /\ b = [12]) \/ (D = xd1 /\ b = [1]).
Proof.
  unfold x_w3. cbn [sget]. destruct (N.eqb 20 s).
  - cbn [lookup].
    destruct (list_N_eqb D xd1) eqn:E3; [apply eqb_eq in E3; intros H; inversion H; auto|].
    destruct (list_N_eqb D xf1) eqn:E1; [apply eqb_eq in E1; intros H; inversion H; auto|].
    destruct (list_N_eqb D xf2) eqn:E2; [apply eqb_eq in E2; intros H; inversion H; auto|].
    discriminate.
  - destruct (N.eqb 21 s); [|discriminate]. cbn [lookup].
    destruct (list_N_eqb D xf2) eqn:E2; [apply eqb_eq in E2; intros H; inversion H; auto|].
    discriminate.
Qed.

Example x_fetch_seq_hyps :
  NoDup (map fst x_fmap1) /\
  ord_ok (e_bord (x_env nofail)) /\ ord_ok (e_dord (x_env nofail)) /\
  (forall b l f, x_parse b = Some l -> In f l -> is_dir_oid f = false) /\
  x_parse [] = None /\
  (forall s1 s2 D b1 b2, lookup D (sget x_w3 s1) = Some b1 -> lookup D (sget x_w3 s2) = Some b2 ->
                         x_parse b1 = x_parse b2) /\
  seqok RFetch (collect x_fmap1 x_idx) /\ ~ indep RFetch (collect x_fmap1 x_idx) /\
  (forall g, In g (collect x_fmap1 x_idx) -> sget x_w3 (gc g) = []) /\
  (forall g, In g (collect x_fmap1 x_idx) -> req_closed (x_env nofail) x_w3 g) /\
  (forall g o, In g (collect x_fmap1 x_idx) -> In o (g_req g) -> has (sget x_w3 (g_data g)) o = true) /\
  (forall g D b, In g (collect x_fmap1 x_idx) -> is_dir_oid D = true ->
                 lookup D (sget x_w3 (g_data g)) = Some b -> x_parse b <> None) /\
  (forall g k o, In g (collect x_fmap1 x_idx) -> In (k, o) (entries x_fmap1 x_idx) ->
                 remote_of x_fmap1 k = Some (g_data g) -> cache_of x_fmap1 k = g_cache g).
Proof.
  split; [simpl; repeat constructor; simpl; intuition discriminate|].
  split; [intros l o; simpl; tauto|]. split; [intros l o; simpl; tauto|].
  split; [exact x_flat|]. split; [reflexivity|].
  split.
  { intros s1 s2 D b1 b2 L1 L2.
    destruct (x3_lookup _ _ _ L1) as [[-> ->]|[[-> ->]|[-> ->]]];
      destruct (x3_lookup _ _ _ L2) as [[E ->]|[[E ->]|[E ->]]]; try reflexivity; discriminate. }
  rewrite x_collect_fetch1.
  split.
  { split.
    - intros g [<-|[<-|[]]]; discriminate.
    - intros g g' [<-|[<-|[]]] [<-|[<-|[]]]; vm_compute; discriminate. }
  split.
  { intros [_ [N _]]. simpl in N. inversion N as [|? ? Hn _]. apply Hn. left. reflexivity. }
  split; [intros g [<-|[<-|[]]]; reflexivity|].
  split.
  { intros g Hg D s b l f HD Hd L P Hf.
    assert (D = xd1 /\ l = [xf1; xf2]) as [-> ->].
    { destruct (x3_lookup _ _ _ L) as [[-> ->]|[[-> ->]|[-> ->]]]; try (vm_compute in Hd; discriminate).
      vm_compute in P. inversion P. auto. }
    destruct Hg as [<-|[<-|[]]]; simpl in HD.
    - destruct Hf as [<-|[<-|[]]]; simpl; auto.
    - destruct HD as [HD|[]]. discriminate. }
  split.
  { intros g o Hg Ho. destruct Hg as [<-|[<-|[]]]; simpl in Ho;
      repeat (destruct Ho as [<-|Ho]; [reflexivity|]); destruct Ho. }
  split.
  { intros g D b Hg Hd L.
    destruct (x3_lookup _ _ _ L) as [[-> ->]|[[-> ->]|[-> ->]]]; try (vm_compute in Hd; discriminate). }
  intros g k o Hg Hin Hr. vm_compute in Hin.
  destruct Hin as [E|[E|[E|[E|[]]]]]; inversion E; subst k o;
    destruct Hg as [<-|[<-|[]]]; vm_compute in Hr; try discriminate; reflexivity.
Qed.

Example x_run_seq :
  let out := run_round (x_env nofail) RFetch x_fmap1 x_idx x_w3 in
  (p_err out, p_moved out, p_failed out) = (None, 3, 0) /\
  forallb (has (sget (p_w out) 30)) [xd1; xf1; xf2] = true /\
  checkout_view x_fmap1 x_idx (p_w out) =
    [([[100]; [97]], Some [11]); ([[100]; [115]; [98]], Some [12]); ([[102]], Some [11])].
Proof. vm_compute. repeat split; reflexivity. Qed.

(* ====================================================================================== *)
(* non-vacuity of the map-level theorems (push_map, fetch_map, checkout_map): the system x
   satisfies the hypotheses stated on index, map and initial stores *)
Lemma x_w_lookup s D b : lookup D (sget x_w s) = Some b ->
  (D = xf1 /\ b = [11]) \/ (D = xf2 /\ b = [12]) \/ (D = xd1 /\ b = [1]).
Proof.
  unfold x_w. cbn [sget]. destruct (N.eqb 10 s); [|discriminate]. apply x_cache_lookup.
Qed.

Example x_map_hyps fails :
  idx_ok (x_env fails) x_w x_idx /\ single_cache x_map /\ no_split x_map x_idx /\
  placed x_w x_map x_idx /\ caches_apart x_map x_idx /\
  (forall s1 s2 D b1 b2, lookup D (sget x_w s1) = Some b1 -> lookup D (sget x_w s2) = Some b2 ->
                         x_parse b1 = x_parse b2) /\
  (forall s D b, is_dir_oid D = true -> lookup D (sget x_w s) = Some b -> x_parse b <> None) /\
  (forall g, In g (collect x_map x_idx) -> closed x_parse (sget x_w (g_data g))).
Proof.
  split.
  { intros i [<-|[<-|[]]]; simpl.
    - split; [reflexivity|]. split.
      + intros f [<-|[<-|[]]]; reflexivity.
      + intros s b L. destruct (x_w_lookup _ _ _ L) as [[E _]|[[E _]|[_ ->]]]; try discriminate. reflexivity.
    - reflexivity. }
  split.
  { intros p s p' s' si si' H1 H2 G1 G2 _ _.
    destruct H1 as [E|[E|[]]]; inversion E; subst p s; vm_compute in G1; inversion G1; subst si;
      destruct H2 as [E'|[E'|[]]]; inversion E'; subst p' s'; vm_compute in G2; inversion G2; subst si';
      reflexivity. }
  split.
  { intros p s si k o H1 G1 _ Hin Hm. vm_compute in Hin.
    destruct H1 as [E|[E|[]]]; inversion E; subst p s; vm_compute in G1; inversion G1; subst si;
      destruct Hin as [E'|[E'|[E'|[E'|[]]]]]; inversion E'; subst k o; reflexivity. }
  split.
  { intros k o c Hin Hc. vm_compute in Hin.
    destruct Hin as [E|[E|[E|[E|[]]]]]; inversion E; subst k o; vm_compute in Hc; inversion Hc; subst c;
      reflexivity. }
  split.
  { unfold caches_apart. rewrite x_collect. intros g [<-|[<-|[]]]; exists 10; (split; [reflexivity|]);
      intros g' [<-|[<-|[]]]; discriminate. }
  split.
  { intros s1 s2 D b1 b2 L1 L2.
    destruct (x_w_lookup _ _ _ L1) as [[-> ->]|[[-> ->]|[-> ->]]];
      destruct (x_w_lookup _ _ _ L2) as [[E ->]|[[E ->]|[E ->]]]; try reflexivity; discriminate. }
  split.
  { intros s D b Hd L. destruct (x_w_lookup _ _ _ L) as [[-> ->]|[[-> ->]|[-> ->]]];
      try (vm_compute in Hd; discriminate). }
  rewrite x_collect. intros g [<-|[<-|[]]] D l f H; unfold listing in H; simpl in H;
    destruct (is_dir_oid D); discriminate.
Qed.

(* ====================================================================================== *)
(* non-vacuity of push_indexed: remote 20 has a tmp_dir (real index, empty at first), 21 has none *)
Definition x_ix : ixmap := [(20, [])].

Lemma x_wf_ix fails g : In g (collect x_map x_idx) -> wf (gix (x_env fails) x_w x_ix g).
Proof.
  intros Hg. rewrite x_collect in Hg. destruct Hg as [<-|[<-|[]]].
  - (* the indexed remote *)
    constructor.
    + intros l o; simpl; tauto.
    + intros l o; simpl; tauto.
    + intros b l f. apply x_flat.
    + split; intros D b1 b2 H; discriminate.
    + intros D l f H. unfold listing in H. simpl in H. destruct (is_dir_oid D); discriminate.
    + right. intros o H. discriminate.
    + right. intros D l f HD Hd HT Hf. simpl in HD.
      assert (D = xd1) as ->.
      { destruct HD as [<-|[<-|[<-|[<-|[]]]]]; auto; vm_compute in Hd; discriminate. }
      vm_compute in HT. inversion HT; subst l. simpl. destruct Hf as [<-|[<-|[]]]; auto.
    + intros o Ho. reflexivity.
  - (* the remote without index: the index-free input *)
    change (gix (x_env fails) x_w x_ix {| g_data := 21; g_cache := Some 10; g_req := [xf2] |})
      with (gin (x_env fails) RPush x_w {| g_data := 21; g_cache := Some 10; g_req := [xf2] |}).
    apply (x_wf fails RPush x_map x_w); auto.
    + rewrite x_collect. right. left. reflexivity.
    + intros D b L Hd. apply x_cache_dirs; auto.
Qed.

Example x_push_indexed_hyps fails :
  (forall g, In g (collect x_map x_idx) -> wf (gix (x_env fails) x_w x_ix g)) /\
  (forall g ix, In g (collect x_map x_idx) -> iget x_ix (g_data g) = Some ix -> sound_for (sget x_w (g_data g)) ix).
Proof.
  split; [apply x_wf_ix|].
  intros g ix Hg Hi. rewrite x_collect in Hg. destruct Hg as [<-|[<-|[]]]; vm_compute in Hi; inversion Hi.
  apply sound_for_nil.
Qed.

(* push with a fault, clean retry: the real index of remote 20 records the directory and its files
   only once everything is there; remote 21 never gets an index *)
Example x_run_ix :
  let r1 := run_round_ix (x_env fail_f2_into_20) RPush x_map x_idx x_w x_ix in
  let r2 := run_round_ix (x_env nofail) RPush x_map x_idx (p_w (fst r1)) (snd r1) in
  (p_err (fst r1), p_moved (fst r1), p_failed (fst r1)) = (None, 2, 2) /\
  iget (snd r1) 20 = Some [] /\
  (p_err (fst r2), p_moved (fst r2), p_failed (fst r2)) = (None, 2, 0) /\
  option_map ix_keys (iget (snd r2) 20) = Some [xf1; xf2; xd1] /\ iget (snd r2) 21 = None /\
  forallb (has (sget (p_w (fst r2)) 20)) [xd1; xf1; xf2] = true.
Proof. vm_compute. repeat split; reflexivity. Qed.
