(* Hand-written runtime for the translator's output (translator/units.py): the Python
   built-ins that generated definitions call, over bytes/text = list N. *)
From Coq Require Import NArith ZArith List Bool.
From DvcData Require Import Base.Val.
Import ListNotations.
Open Scope N_scope.

Definition str := list N.
Definition key := list str.

Definition opt_eqb {A} (eqb : A -> A -> bool) (a b : option A) : bool :=
  match a, b with
  | None, None => true
  | Some x, Some y => eqb x y
  | _, _ => false
  end.

Fixpoint list_eqb {A} (eqb : A -> A -> bool) (a b : list A) : bool :=
  match a, b with
  | [], [] => true
  | x :: a', y :: b' => eqb x y && list_eqb eqb a' b'
  | _, _ => false
  end.
Definition key_eqb : key -> key -> bool := list_eqb list_N_eqb.

Definition is_nil {A} (l : list A) : bool := match l with [] => true | _ => false end.
Definition truthy_list {A} (l : list A) : bool := negb (is_nil l).
Definition truthy_N (n : N) : bool := negb (N.eqb n 0).
Definition len {A} (l : list A) : N := N.of_nat (length l).

(* bytes.startswith / endswith *)
Fixpoint starts_with (s pre : list N) : bool :=
  match pre, s with
  | [], _ => true
  | p :: pre', c :: s' => N.eqb p c && starts_with s' pre'
  | _ :: _, [] => false
  end.
Definition ends_with (s suf : list N) : bool :=
  Nat.leb (length suf) (length s) && list_N_eqb (skipn (Nat.sub (length s) (length suf)) s) suf.

(* sub in s  (bytes.__contains__ with a bytes needle) *)
Fixpoint bytes_contains (needle s : list N) : bool :=
  starts_with s needle || match s with [] => false | _ :: s' => bytes_contains needle s' end.

(* s.translate(None, delete) *)
Definition bytes_delete (delete s : list N) : list N :=
  filter (fun c => negb (existsb (N.eqb c) delete)) s.

(* s.replace(old, new), old non-empty: leftmost, non-overlapping.  Fuel = length s + 1. *)
Fixpoint bytes_replace_fuel (fuel : nat) (old new s : list N) : list N :=
  match fuel with
  | O => s
  | S f =>
      match s with
      | [] => []
      | c :: s' =>
          if starts_with s old then new ++ bytes_replace_fuel f old new (skipn (length old) s)
          else c :: bytes_replace_fuel f old new s'
      end
  end.
Definition bytes_replace (old new s : list N) : list N :=
  if is_nil old then s (* not used with an empty pattern; Python would interleave *)
  else bytes_replace_fuel (S (length s)) old new s.

(* s[:n] for n >= 0 *)
Definition slice_to (n : N) (s : list N) : list N := firstn (N.to_nat n) s.

(* bytes(range(a, b)) *)
Fixpoint range_from (a : N) (n : nat) : list N :=
  match n with O => [] | S k => a :: range_from (a + 1) k end.

(* a tiny dynamic value type for dictionaries produced by to_dict() *)
Inductive pyv :=
| PVNone
| PVBool (b : bool)
| PVInt (n : N)
| PVStr (s : str)
| PVDict (d : list (str * pyv)).

Definition pydict := list (str * pyv).

Fixpoint dict_set (d : pydict) (k : str) (v : pyv) : pydict :=
  match d with
  | [] => [(k, v)]
  | (k', v') :: r => if list_N_eqb k k' then (k, v) :: r else (k', v') :: dict_set r k v
  end.

Fixpoint dict_get (d : pydict) (k : str) : option pyv :=
  match d with
  | [] => None
  | (k', v) :: r => if list_N_eqb k k' then Some v else dict_get r k
  end.

Fixpoint enc_pyv (v : pyv) : val :=
  match v with
  | PVNone => VL []
  | PVBool b => VL [VN 1; VN (if b then 1 else 0)]
  | PVInt n => VL [VN 2; VN n]
  | PVStr s => VL [VN 3; VB s]
  | PVDict d => VL [VN 4; VL ((fix go (d : list (str * pyv)) : list val :=
                               match d with
                               | [] => []
                               | (k, v) :: r => VL [VB k; enc_pyv v] :: go r
                               end) d)]
  end.
