(* The fragment of JSON that dvc-data writes for directory listings, exactly as
   [json.dumps(list_of_flat_dicts, sort_keys=True)] prints it (CPython json.encoder, default
   separators (comma space, colon space), ensure_ascii=True), and a parser for that image.

   Text is [list N] of code points.  Because of ensure_ascii the printed text is pure ASCII, so
   [.encode(utf-8)] is the identity on it and the same list is also the byte string.

   Values:  a document is a list of objects; an object is a list of (key, value) members in
   print order; a value is a string, a non-negative integer or a boolean.

   String escaping (json.encoder.py_encode_basestring_ascii / the C accelerator; they agree):
     double quote and backslash are preceded by a backslash; \n \r \t \b \f -> short escapes
     every other code point in 0x20..0x7e is printed raw
     every other code point < 0x10000 (controls, 0x7f - yes, DEL is escaped -, non-ASCII BMP
       including lone surrogates) -> \uXXXX, four lower-case hex digits
     code point >= 0x10000 -> surrogate pair \uHHHH\uLLLL.

   Definitions only; the theorems are in Proofs/JsonProofs.v:
     parse_print      : wf_doc d = true -> parse_doc (print_doc d) = Some d
     print_doc_inj    : wf_doc d -> wf_doc d' -> print_doc d = print_doc d' -> d = d'.        *)
From Coq Require Import NArith List Bool Decimal DecimalN.
From DvcData Require Import Base.Val Base.MD5.
Import ListNotations.
Open Scope N_scope.

Inductive jval : Type :=
| JStr (s : list N)
| JNum (n : N)
| JBool (b : bool).

Definition jobj := list (list N * jval).
Definition jdoc := list jobj.

Definition jval_eqb (a b : jval) : bool :=
  match a, b with
  | JStr x, JStr y => list_N_eqb x y
  | JNum x, JNum y => N.eqb x y
  | JBool x, JBool y => Bool.eqb x y
  | _, _ => false
  end.

(* Python truthiness of a value *)
Definition jtruthy (v : jval) : bool :=
  match v with
  | JStr s => match s with [] => false | _ => true end
  | JNum n => negb (n =? 0)
  | JBool b => b
  end.

(* ------------------------------------------------------------------ printer *)

(* four lower-case hex digits of u (u < 65536) *)
Definition hex4 (u : N) : list N :=
  [hexd (u / 4096); hexd ((u / 256) mod 16); hexd ((u / 16) mod 16); hexd (u mod 16)].

Definition esc_u (u : N) : list N := 92 :: 117 :: hex4 u.          (* \uXXXX *)

Definition esc_char (c : N) : list N :=
  if c =? 34 then [92; 34]                                   (* backslash dquote *)
  else if c =? 92 then [92; 92]                              (* \\ *)
  else if c =? 10 then [92; 110]                             (* \n *)
  else if c =? 13 then [92; 114]                             (* \r *)
  else if c =? 9 then [92; 116]                              (* \t *)
  else if c =? 8 then [92; 98]                               (* \b *)
  else if c =? 12 then [92; 102]                             (* \f *)
  else if (32 <=? c) && (c <=? 126) then [c]
  else if c <? 65536 then esc_u c
  else let v := c - 65536 in esc_u (55296 + v / 1024) ++ esc_u (56320 + v mod 1024).

Definition print_string (s : list N) : list N := 34 :: flat_map esc_char s ++ [34].

Fixpoint uint_chars (d : Decimal.uint) : list N :=
  match d with
  | Nil => []
  | D0 d => 48 :: uint_chars d | D1 d => 49 :: uint_chars d | D2 d => 50 :: uint_chars d
  | D3 d => 51 :: uint_chars d | D4 d => 52 :: uint_chars d | D5 d => 53 :: uint_chars d
  | D6 d => 54 :: uint_chars d | D7 d => 55 :: uint_chars d | D8 d => 56 :: uint_chars d
  | D9 d => 57 :: uint_chars d
  end.

Definition print_N (n : N) : list N := uint_chars (N.to_uint n).

Definition txt_true : list N := [116; 114; 117; 101].
Definition txt_false : list N := [102; 97; 108; 115; 101].

Definition print_val (v : jval) : list N :=
  match v with
  | JStr s => print_string s
  | JNum n => print_N n
  | JBool true => txt_true
  | JBool false => txt_false
  end.

Definition print_member (m : list N * jval) : list N :=
  print_string (fst m) ++ [58; 32] ++ print_val (snd m).           (* key: value *)

(* items separated by comma space *)
Fixpoint print_sep {A} (f : A -> list N) (l : list A) : list N :=
  match l with
  | [] => []
  | [x] => f x
  | x :: r => f x ++ [44; 32] ++ print_sep f r
  end.

Definition print_obj (o : jobj) : list N := 123 :: print_sep print_member o ++ [125].
Definition print_doc (d : jdoc) : list N := 91 :: print_sep print_obj d ++ [93].

(* sort_keys=True: members ordered by key (str comparison = lexicographic on code points).
   A Python dict has unique keys; on a member list with unique keys the result does not depend
   on the input order (Proofs/SortFacts.v). *)
Definition member_leb (a b : list N * jval) : bool := lex_leb (fst a) (fst b).
Definition sort_obj (o : jobj) : jobj := sort_by member_leb o.

(* json.dumps(doc, sort_keys=True) *)
Definition json_dumps (d : jdoc) : list N := print_doc (map sort_obj d).

(* Python dict update d[k] = v : overwrite in place, else append *)
Fixpoint dict_set (k : list N) (v : jval) (d : jobj) : jobj :=
  match d with
  | [] => [(k, v)]
  | (k', v') :: r => if list_N_eqb k k' then (k, v) :: r else (k', v') :: dict_set k v r
  end.
Fixpoint dict_get (k : list N) (d : jobj) : option jval :=
  match d with
  | [] => None
  | (k', v') :: r => if list_N_eqb k k' then Some v' else dict_get k r
  end.
Fixpoint dict_del (k : list N) (d : jobj) : jobj :=
  match d with
  | [] => []
  | (k', v') :: r => if list_N_eqb k k' then r else (k', v') :: dict_del k r
  end.
(* {**a, **b} *)
Definition dict_update (a b : jobj) : jobj := fold_left (fun d kv => dict_set (fst kv) (snd kv) d) b a.

(* ------------------------------------------------------------------ well-formedness *)

(* Unicode scalar value: a code point that is not a surrogate.  A Python str may contain lone
   surrogates (os.fsdecode yields them for undecodable file-name bytes); with ensure_ascii a
   non-BMP character and the two lone surrogates that spell it print identically, so the printer
   is injective only on strings of scalar values (Proofs/JsonProofs.v, print_string_surrogates). *)
Definition is_scalar (c : N) : bool := (c <? 55296) || ((57343 <? c) && (c <? 1114112)).
Definition wf_string (s : list N) : bool := forallb is_scalar s.
Definition wf_val (v : jval) : bool := match v with JStr s => wf_string s | _ => true end.
Definition wf_member (m : list N * jval) : bool := wf_string (fst m) && wf_val (snd m).
Definition wf_obj (o : jobj) : bool := forallb wf_member o.
Definition wf_doc (d : jdoc) : bool := forallb wf_obj d.

(* ------------------------------------------------------------------ parser (of the image) *)

Definition hexval (c : N) : option N :=
  if (48 <=? c) && (c <=? 57) then Some (c - 48)
  else if (97 <=? c) && (c <=? 102) then Some (c - 87)
  else if (65 <=? c) && (c <=? 70) then Some (c - 55)
  else None.

Definition unhex4 (a b c d : N) : option N :=
  match hexval a, hexval b, hexval c, hexval d with
  | Some x, Some y, Some z, Some w => Some (x * 4096 + y * 256 + z * 16 + w)
  | _, _, _, _ => None
  end.

Definition is_hi_surr (u : N) : bool := (55296 <=? u) && (u <=? 56319).
Definition is_lo_surr (u : N) : bool := (56320 <=? u) && (u <=? 57343).

Definition unescape1 (e : N) : option N :=
  if e =? 34 then Some 34 else if e =? 92 then Some 92 else if e =? 47 then Some 47
  else if e =? 110 then Some 10 else if e =? 114 then Some 13 else if e =? 116 then Some 9
  else if e =? 98 then Some 8 else if e =? 102 then Some 12 else None.

Definition ocons (c : N) (r : option (list N * list N)) : option (list N * list N) :=
  match r with Some (s, rest) => Some (c :: s, rest) | None => None end.

(* body of a string after the opening quote, up to and including the closing quote; returns the
   decoded string and the remaining input.  As json.decoder.scanstring: a \uD8xx escape directly
   followed by a \uDCxx escape is one non-BMP character; a lone surrogate escape is kept. *)
Fixpoint parse_chars (s : list N) : option (list N * list N) :=
  match s with
  | [] => None
  | c :: r =>
      if c =? 34 then Some ([], r)
      else if c =? 92 then
        match r with
        | [] => None
        | e :: r1 =>
            if e =? 117 then
              match r1 with
              | h1 :: h2 :: h3 :: h4 :: r2 =>
                  match unhex4 h1 h2 h3 h4 with
                  | None => None
                  | Some u =>
                      if is_hi_surr u then
                        match r2 with
                        | b :: v :: g1 :: g2 :: g3 :: g4 :: r3 =>
                            if (b =? 92) && (v =? 117) then
                              match unhex4 g1 g2 g3 g4 with
                              | Some l =>
                                  if is_lo_surr l
                                  then ocons (65536 + (u - 55296) * 1024 + (l - 56320)) (parse_chars r3)
                                  else ocons u (parse_chars r2)
                              | None => ocons u (parse_chars r2)
                              end
                            else ocons u (parse_chars r2)
                        | _ => ocons u (parse_chars r2)
                        end
                      else ocons u (parse_chars r2)
                  end
              | _ => None
              end
            else
              match unescape1 e with
              | Some u => ocons u (parse_chars r1)
              | None => None
              end
        end
      else if c <? 32 then None
      else ocons c (parse_chars r)
  end.

Definition parse_string (s : list N) : option (list N * list N) :=
  match s with
  | c :: r => if c =? 34 then parse_chars r else None
  | [] => None
  end.

Definition digit_of (c : N) : option (Decimal.uint -> Decimal.uint) :=
  if c =? 48 then Some D0 else if c =? 49 then Some D1 else if c =? 50 then Some D2
  else if c =? 51 then Some D3 else if c =? 52 then Some D4 else if c =? 53 then Some D5
  else if c =? 54 then Some D6 else if c =? 55 then Some D7 else if c =? 56 then Some D8
  else if c =? 57 then Some D9 else None.

(* longest prefix of decimal digits *)
Fixpoint read_uint (s : list N) : Decimal.uint * list N :=
  match s with
  | [] => (Nil, [])
  | c :: r =>
      match digit_of c with
      | Some D => let (d, rest) := read_uint r in (D d, rest)
      | None => (Nil, s)
      end
  end.

Fixpoint strip_prefix (p s : list N) : option (list N) :=
  match p with
  | [] => Some s
  | a :: p' => match s with
               | b :: s' => if a =? b then strip_prefix p' s' else None
               | [] => None
               end
  end.

Definition parse_val (s : list N) : option (jval * list N) :=
  match s with
  | [] => None
  | c :: _ =>
      if c =? 34 then
        match parse_string s with Some (x, r) => Some (JStr x, r) | None => None end
      else if c =? 116 then
        match strip_prefix txt_true s with Some r => Some (JBool true, r) | None => None end
      else if c =? 102 then
        match strip_prefix txt_false s with Some r => Some (JBool false, r) | None => None end
      else
        match read_uint s with
        | (Nil, _) => None
        | (d, r) => Some (JNum (N.of_uint d), r)
        end
  end.

(* members after the opening brace (at least one), up to and including the closing brace *)
Fixpoint parse_members (fuel : nat) (s : list N) : option (jobj * list N) :=
  match fuel with
  | O => None
  | S f =>
      match parse_string s with
      | None => None
      | Some (k, r1) =>
          match strip_prefix [58; 32] r1 with
          | None => None
          | Some r2 =>
              match parse_val r2 with
              | None => None
              | Some (v, r3) =>
                  match strip_prefix [125] r3 with
                  | Some r4 => Some ([(k, v)], r4)
                  | None =>
                      match strip_prefix [44; 32] r3 with
                      | None => None
                      | Some r4 =>
                          match parse_members f r4 with
                          | Some (m, r5) => Some ((k, v) :: m, r5)
                          | None => None
                          end
                      end
                  end
              end
          end
      end
  end.

Definition parse_obj (s : list N) : option (jobj * list N) :=
  match strip_prefix [123] s with
  | None => None
  | Some r =>
      match strip_prefix [125] r with
      | Some r' => Some ([], r')
      | None => parse_members (length r) r
      end
  end.

(* objects after the opening bracket (at least one), up to and including the closing one *)
Fixpoint parse_elems (fuel : nat) (s : list N) : option (jdoc * list N) :=
  match fuel with
  | O => None
  | S f =>
      match parse_obj s with
      | None => None
      | Some (o, r1) =>
          match strip_prefix [93] r1 with
          | Some r2 => Some ([o], r2)
          | None =>
              match strip_prefix [44; 32] r1 with
              | None => None
              | Some r2 =>
                  match parse_elems f r2 with
                  | Some (d, r3) => Some (o :: d, r3)
                  | None => None
                  end
              end
          end
      end
  end.

Definition parse_doc (s : list N) : option jdoc :=
  match strip_prefix [91] s with
  | None => None
  | Some r =>
      match strip_prefix [93] r with
      | Some [] => Some []
      | Some _ => None
      | None =>
          match parse_elems (length r) r with
          | Some (d, []) => Some d
          | _ => None
          end
      end
  end.

(* ------------------------------------------------------------------ val encoders *)
Definition enc_jval (v : jval) : val :=
  match v with
  | JStr s => VL [VN 0; VB s]
  | JNum n => VL [VN 1; VN n]
  | JBool b => VL [VN 2; enc_bool b]
  end.
Definition enc_jobj (o : jobj) : val := enc_list (enc_pair enc_bytes enc_jval) o.
Definition enc_jdoc (d : jdoc) : val := enc_list enc_jobj d.
