(* RFC 1321 MD5 over byte lists ([list N], every element 0..255), all arithmetic on [N] with an
   explicit reduction mod 2^32.

   Purpose: make the models *executable byte for byte* - an object id computed by a model can be
   compared literally with the one hashlib produced.  No proof in the development relies on any
   property of MD5 beyond the two shape lemmas at the end of this file ([md5_hex_length],
   [md5_hex_is_hex]); wherever a property needs "no two contents in play collide" that is a
   named hypothesis of the theorem.  Agreement with hashlib is checked by the RFC test vectors
   below and, on every harness run, by the correspondence checks (random inputs).

   Cost under vm_compute: about 4 ms per 64-byte block. *)
From Coq Require Import NArith List Lia.
Import ListNotations.
Open Scope N_scope.

Definition mask32 : N := 4294967295.
Definition add32 (a b : N) : N := N.land (a + b) mask32.
Definition not32 (a : N) : N := N.lxor a mask32.
Definition rotl32 (x : N) (s : N) : N :=
  N.land (N.lor (N.shiftl x s) (N.shiftr x (32 - s))) mask32.

(* K[i] = floor(2^32 * abs(sin(i+1))) *)
Definition Ktab : list N := [
 3614090360;3905402710;606105819;3250441966;4118548399;1200080426;2821735955;4249261313;
 1770035416;2336552879;4294925233;2304563134;1804603682;4254626195;2792965006;1236535329;
 4129170786;3225465664;643717713;3921069994;3593408605;38016083;3634488961;3889429448;
 568446438;3275163606;4107603335;1163531501;2850285829;4243563512;1735328473;2368359562;
 4294588738;2272392833;1839030562;4259657740;2763975236;1272893353;4139469664;3200236656;
 681279174;3936430074;3572445317;76029189;3654602809;3873151461;530742520;3299628645;
 4096336452;1126891415;2878612391;4237533241;1700485571;2399980690;4293915773;2240044497;
 1873313359;4264355552;2734768916;1309151649;4149444226;3174756917;718787259;3951481745].
(* per-round shift amounts *)
Definition Stab : list N := [
 7;12;17;22;7;12;17;22;7;12;17;22;7;12;17;22;
 5;9;14;20;5;9;14;20;5;9;14;20;5;9;14;20;
 4;11;16;23;4;11;16;23;4;11;16;23;4;11;16;23;
 6;10;15;21;6;10;15;21;6;10;15;21;6;10;15;21].

(* little-endian word of (up to) four bytes *)
Fixpoint le_word (bs : list N) : N :=
  match bs with [] => 0 | b :: r => b + 256 * le_word r end.
Fixpoint words (n : nat) (bs : list N) : list N :=
  match n with O => [] | S k => le_word (firstn 4 bs) :: words k (skipn 4 bs) end.

(* the auxiliary functions F G H I and the message-word index of operation i *)
Definition round_fn (i : N) (b c d : N) : N * N :=
  if i <? 16 then (N.lor (N.land b c) (N.land (not32 b) d), i)
  else if i <? 32 then (N.lor (N.land d b) (N.land (not32 d) c), (5*i+1) mod 16)
  else if i <? 48 then (N.lxor (N.lxor b c) d, (3*i+5) mod 16)
  else (N.lxor c (N.lor b (not32 d)), (7*i) mod 16).

Definition step (M : list N) (st : N*N*N*N) (iks : N * (N * N)) : N*N*N*N :=
  let '(a,b,c,d) := st in
  let '(i,(k,s)) := iks in
  let '(f,g) := round_fn i b c d in
  let f' := add32 (add32 (add32 f a) k) (nth (N.to_nat g) M 0) in
  (d, add32 b (rotl32 f' s), b, c).

Fixpoint iota (n : nat) (i : N) : list N := match n with O => [] | S k => i :: iota k (i+1) end.
Definition sched : list (N * (N * N)) := combine (iota 64 0) (combine Ktab Stab).

Definition block (st : N*N*N*N) (bs : list N) : N*N*N*N :=
  let M := words 16 bs in
  let '(a0,b0,c0,d0) := st in
  let '(a,b,c,d) := fold_left (step M) sched st in
  (add32 a0 a, add32 b0 b, add32 c0 c, add32 d0 d).

Fixpoint le_bytes (n : nat) (x : N) : list N :=
  match n with O => [] | S k => (x mod 256) :: le_bytes k (x / 256) end.

(* 0x80, zeros up to 56 mod 64, bit length as a 64-bit little-endian number *)
Definition pad (msg : list N) : list N :=
  let len := N.of_nat (length msg) in
  let zeros := N.to_nat ((119 - (len mod 64)) mod 64) in
  msg ++ [128] ++ repeat 0 zeros ++ le_bytes 8 (8 * len).

Fixpoint blocks (fuel : nat) (st : N*N*N*N) (bs : list N) : N*N*N*N :=
  match fuel with O => st | S k =>
    match bs with [] => st | _ => blocks k (block st (firstn 64 bs)) (skipn 64 bs) end end.

Definition md5_init : N*N*N*N := (1732584193, 4023233417, 2562383102, 271733878).

Definition md5_raw (msg : list N) : list N :=
  let p := pad msg in
  let '(a,b,c,d) := blocks (S (length p)) md5_init p in
  le_bytes 4 a ++ le_bytes 4 b ++ le_bytes 4 c ++ le_bytes 4 d.

(* lower-case hexadecimal digit, as a code point *)
Definition hexd (n : N) : N := if n <? 10 then 48 + n else 87 + n.
Definition hex_byte (b : N) : list N := [hexd (b / 16); hexd (b mod 16)].
Definition md5_hex (msg : list N) : list N := flat_map hex_byte (md5_raw msg).

(* ------------------------------------------------------------------ RFC 1321, A.5 test suite *)
Example md5_rfc_empty :
  md5_hex [] =
  [100;52;49;100;56;99;100;57;56;102;48;48;98;50;48;52;101;57;56;48;48;57;57;56;101;99;102;56;52;50;55;101].
Proof. vm_compute. reflexivity. Qed.          (* d41d8cd98f00b204e9800998ecf8427e *)

Example md5_rfc_a :
  md5_hex [97] =
  [48;99;99;49;55;53;98;57;99;48;102;49;98;54;97;56;51;49;99;51;57;57;101;50;54;57;55;55;50;54;54;49].
Proof. vm_compute. reflexivity. Qed.          (* 0cc175b9c0f1b6a831c399e269772661 *)

Example md5_rfc_abc :
  md5_hex [97;98;99] =
  [57;48;48;49;53;48;57;56;51;99;100;50;52;102;98;48;100;54;57;54;51;102;55;100;50;56;101;49;55;102;55;50].
Proof. vm_compute. reflexivity. Qed.          (* 900150983cd24fb0d6963f7d28e17f72 *)

(* "message digest" *)
Example md5_rfc_message_digest :
  md5_hex [109;101;115;115;97;103;101;32;100;105;103;101;115;116] =
  [102;57;54;98;54;57;55;100;55;99;98;55;57;51;56;100;53;50;53;97;50;102;51;49;97;97;102;49;54;49;100;48].
Proof. vm_compute. reflexivity. Qed.          (* f96b697d7cb7938d525a2f31aaf161d0 *)

(* "abcdefghijklmnopqrstuvwxyz" *)
Example md5_rfc_alphabet :
  md5_hex [97;98;99;100;101;102;103;104;105;106;107;108;109;110;111;112;113;114;115;116;117;118;119;120;121;122] =
  [99;51;102;99;100;51;100;55;54;49;57;50;101;52;48;48;55;100;102;98;52;57;54;99;99;97;54;55;101;49;51;98].
Proof. vm_compute. reflexivity. Qed.          (* c3fcd3d76192e4007dfb496cca67e13b *)

(* "ABCDEFGHIJKLMNOPQRSTUVWXYZabcdefghijklmnopqrstuvwxyz0123456789" (62 bytes: padding spills
   into a second block) *)
Example md5_rfc_alnum :
  md5_hex [65;66;67;68;69;70;71;72;73;74;75;76;77;78;79;80;81;82;83;84;85;86;87;88;89;90;
           97;98;99;100;101;102;103;104;105;106;107;108;109;110;111;112;113;114;115;116;117;118;119;120;121;122;
           48;49;50;51;52;53;54;55;56;57] =
  [100;49;55;52;97;98;57;56;100;50;55;55;100;57;102;53;97;53;54;49;49;99;50;99;57;102;52;49;57;100;57;102].
Proof. vm_compute. reflexivity. Qed.          (* d174ab98d277d9f5a5611c2c9f419d9f *)

(* "1234567890" x 8 (80 bytes: two data blocks) *)
Example md5_rfc_digits :
  md5_hex (concat (repeat [49;50;51;52;53;54;55;56;57;48] 8)) =
  [53;55;101;100;102;52;97;50;50;98;101;51;99;57;53;53;97;99;52;57;100;97;50;101;50;49;48;55;98;54;55;97].
Proof. vm_compute. reflexivity. Qed.          (* 57edf4a22be3c955ac49da2e2107b67a *)

(* boundary lengths 55, 56, 63, 64 of 'a' (hashlib.md5(b"a"*n).hexdigest()) *)
Example md5_len55 :
  md5_hex (repeat 97 55) =
  [101;102;49;55;55;50;98;54;100;102;102;57;97;49;50;50;51;53;56;53;53;50;57;53;52;97;100;48;100;102;54;53].
Proof. vm_compute. reflexivity. Qed.          (* ef1772b6dff9a122358552954ad0df65 *)
Example md5_len56 :
  md5_hex (repeat 97 56) =
  [51;98;48;99;56;97;99;55;48;51;102;56;50;56;98;48;52;99;54;99;49;57;55;48;48;54;100;49;55;50;49;56].
Proof. vm_compute. reflexivity. Qed.          (* 3b0c8ac703f828b04c6c197006d17218 *)
Example md5_len64 :
  md5_hex (repeat 97 64) =
  [48;49;52;56;52;50;100;52;56;48;98;53;55;49;52;57;53;97;52;97;48;51;54;51;55;57;51;102;55;51;54;55].
Proof. vm_compute. reflexivity. Qed.          (* 014842d480b571495a4a0363793f7367 *)

(* ------------------------------------------------------------------ shape of a digest *)
Definition is_lower_hex (c : N) : bool := ((48 <=? c) && (c <=? 57)) || ((97 <=? c) && (c <=? 102)).

Lemma le_bytes_length n x : length (le_bytes n x) = n.
Proof. revert x; induction n; intros; simpl; auto. Qed.

Lemma le_bytes_lt n x : Forall (fun b => b < 256) (le_bytes n x).
Proof.
  revert x; induction n; intros; simpl; constructor; auto.
  apply N.mod_lt. discriminate.
Qed.

Lemma md5_raw_length msg : length (md5_raw msg) = 16%nat.
Proof.
  unfold md5_raw. destruct (blocks _ _ _) as [[[a b] c] d].
  rewrite !app_length, !le_bytes_length. reflexivity.
Qed.

Lemma md5_raw_lt msg : Forall (fun b => b < 256) (md5_raw msg).
Proof.
  unfold md5_raw. destruct (blocks _ _ _) as [[[a b] c] d].
  repeat (apply Forall_app; split); apply le_bytes_lt.
Qed.

Lemma flat_map_hex_length l : length (flat_map hex_byte l) = (2 * length l)%nat.
Proof. induction l; simpl; auto. rewrite IHl. lia. Qed.

Lemma md5_hex_length msg : length (md5_hex msg) = 32%nat.
Proof. unfold md5_hex. rewrite flat_map_hex_length, md5_raw_length. reflexivity. Qed.

Lemma hexd_is_hex n : n < 16 -> is_lower_hex (hexd n) = true.
Proof.
  intros H. unfold hexd, is_lower_hex.
  destruct (n <? 10) eqn:E.
  - apply N.ltb_lt in E. apply Bool.orb_true_iff. left.
    apply Bool.andb_true_iff. split; apply N.leb_le; lia.
  - apply N.ltb_ge in E. apply Bool.orb_true_iff. right.
    apply Bool.andb_true_iff. split; apply N.leb_le; lia.
Qed.

Lemma md5_hex_is_hex msg : Forall (fun c => is_lower_hex c = true) (md5_hex msg).
Proof.
  unfold md5_hex. pose proof (md5_raw_lt msg) as H.
  induction H as [|b l Hb _ IH]; simpl; [constructor|].
  constructor; [|constructor; [|exact IH]]; apply hexd_is_hex.
  - apply N.div_lt_upper_bound; [discriminate|]. exact Hb.
  - apply N.mod_lt. discriminate.
Qed.
