(* Environment model for the hashing streams of hashfile/hash.py (hand-written; the stream
   methods themselves are generated into Gen/Hash.v).

   A binary file object: the unread rest plus a "short read" oracle.  fobj.read(n):
     n < 0  -> everything that is left;
     n >= 0 -> at most n bytes; a read may be short (the oracle supplies a cut c >= 1 for each
               call; an exhausted oracle means "full reads"), but never empty unless n = 0 or
               the end of the file is reached.
   A hasher: the bytes fed so far (hashlib contract: update appends, hexdigest = H fed). *)
From Coq Require Import NArith ZArith List Bool.
From DvcData Require Import Base.Val Base.PyBase.
Import ListNotations.
Open Scope N_scope.

Record fobj := mk_fobj { fo_rest : list N; fo_cuts : list N }.

Definition fobj_read (f : fobj) (n : Z) : list N * fobj :=
  if (n <? 0)%Z then (fo_rest f, mk_fobj [] (fo_cuts f))
  else
    let want := Z.to_N n in
    let '(cut, cuts') := match fo_cuts f with
                         | [] => (want, [])
                         | c :: r => (N.min want (N.max 1 c), r)
                         end in
    let k := N.to_nat cut in
    (firstn k (fo_rest f), mk_fobj (skipn k (fo_rest f)) cuts').

Definition hasher_update (fed chunk : list N) : list N := fed ++ chunk.

Record hstream := mk_hstream { hs_fobj : fobj; hs_hasher : list N; hs_total_read : N }.
