(* Universal result values used by the correspondence check.

   The harness runs the implementation, canonicalises what a user can observe and
   prints it as a [val] literal; the model's answer is encoded into [val] by
   encoders written here in Gallina, and the two are compared *inside Coq* by
   [val_eqb].  Only the list of disagreeing case numbers is printed. *)
From Coq Require Import NArith List Bool.
Import ListNotations.
Open Scope N_scope.

Inductive val : Type :=
| VN (n : N)                (* a number, a boolean (0/1), an enum tag *)
| VB (b : list N)           (* a byte string / a text as code points *)
| VL (l : list val).        (* a tuple / list / record *)

Fixpoint list_N_eqb (a b : list N) : bool :=
  match a, b with
  | [], [] => true
  | x :: a', y :: b' => N.eqb x y && list_N_eqb a' b'
  | _, _ => false
  end.

Lemma list_N_eqb_spec a b : list_N_eqb a b = true <-> a = b.
Proof.
  revert b; induction a as [|x a IH]; intros [|y b]; simpl; split; intros H;
    try reflexivity; try discriminate.
  - apply andb_true_iff in H as [H1 H2]. apply N.eqb_eq in H1. apply IH in H2. congruence.
  - injection H as -> ->. rewrite N.eqb_refl. simpl. now apply IH.
Qed.

Fixpoint val_eqb (a b : val) {struct a} : bool :=
  match a, b with
  | VN x, VN y => N.eqb x y
  | VB x, VB y => list_N_eqb x y
  | VL x, VL y =>
      (fix go (x y : list val) {struct x} : bool :=
         match x, y with
         | [], [] => true
         | u :: x', v :: y' => val_eqb u v && go x' y'
         | _, _ => false
         end) x y
  | _, _ => false
  end.

(* encoders *)
Definition enc_bool (b : bool) : val := VN (if b then 1 else 0).
Definition enc_N (n : N) : val := VN n.
Definition enc_nat (n : nat) : val := VN (N.of_nat n).
Definition enc_bytes (b : list N) : val := VB b.
Definition enc_list {A} (f : A -> val) (l : list A) : val := VL (map f l).
Definition enc_option {A} (f : A -> val) (o : option A) : val :=
  match o with None => VL [] | Some a => VL [f a] end.
Definition enc_pair {A B} (f : A -> val) (g : B -> val) (p : A * B) : val :=
  VL [f (fst p); g (snd p)].

(* indices (from 0) of the cases on which [ok] is false *)
Fixpoint failing_from {A} (ok : A -> bool) (i : N) (l : list A) : list N :=
  match l with
  | [] => []
  | a :: r => if ok a then failing_from ok (i + 1) r else i :: failing_from ok (i + 1) r
  end.
Definition failing {A} (ok : A -> bool) (l : list A) : N * list N :=
  (N.of_nat (length l), failing_from ok 0 l).

(* sorting of byte strings / keys: insertion sort by lexicographic order, used to
   canonicalise sets before they are compared *)
Fixpoint lex_ltb (a b : list N) : bool :=
  match a, b with
  | [], [] => false
  | [], _ :: _ => true
  | _ :: _, [] => false
  | x :: a', y :: b' => if N.ltb x y then true else if N.eqb x y then lex_ltb a' b' else false
  end.
Definition lex_leb (a b : list N) : bool := negb (lex_ltb b a).

Fixpoint insert_by {A} (leb : A -> A -> bool) (x : A) (l : list A) : list A :=
  match l with
  | [] => [x]
  | y :: r => if leb x y then x :: l else y :: insert_by leb x r
  end.
Definition sort_by {A} (leb : A -> A -> bool) (l : list A) : list A :=
  fold_right (insert_by leb) [] l.
Definition sort_bytes := sort_by lex_leb.

Fixpoint dedup_sorted (l : list (list N)) : list (list N) :=
  match l with
  | [] => []
  | x :: r => match r with
              | y :: _ => if list_N_eqb x y then dedup_sorted r else x :: dedup_sorted r
              | [] => [x]
              end
  end.
Definition canon_set (l : list (list N)) : list (list N) := dedup_sorted (sort_bytes l).
Definition enc_set (l : list (list N)) : val := VL (map VB (canon_set l)).
