(* Fault layer over Model/Integrity.v (property C07): deleting an object can FAIL.

   The environment: fs.remove() on the objects of one 2-character shard directory raises
   PermissionError (read-only / foreign-owned shard of a shared cache).  In HashFileDB.check the
   removal is guarded by suppress(FileNotFoundError) only, so the error leaves check() - and, since
   oids_exist / _cache_check / add catch only FileNotFoundError and ObjectFormatError, it leaves the
   whole operation: the exception in flight is the flag [f_abort]; every later step of the same
   operation is skipped.  The same generated action list (Gen.Check.Base_check) is interpreted,
   with CRemove failing when the shard is the faulty one.

   On fault-free worlds this layer coincides with the pure layer (Proofs/IntegrityProofsFault.v:
   frun_refines), so every theorem about the pure layer applies to what the correspondence runs. *)
From Coq Require Import NArith List Bool.
From DvcData Require Import Base.Val Base.PyBase Gen.Check Model.StateDbBase Model.Integrity.
Import ListNotations.
Open Scope N_scope.

Record fworld := FW { f_w : world; f_shard : option (list N); f_abort : bool }.

Definition del_fails (fw : fworld) (o : oid) : bool :=
  match f_shard fw with Some p => list_N_eqb (firstn 2 o) p | None => false end.

Definition with_w (fw : fworld) (w : world) : fworld := FW w (f_shard fw) (f_abort fw).

(* code 98: the OSError (PermissionError) of the failed removal *)
Section WithDigest.
  Variable H : name -> bytes -> oid.

  Fixpoint frun_base (fails : bool) (w : world) (o : oid) (db' : statedb) (acts : list caction)
    : N * world * bool :=
    match acts with
    | [] => (99, w, false)
    | CHashFile :: r => frun_base fails (with_db w db') o db' r
    | CRemove :: r =>
        if fails then (98, w, true)
        else frun_base fails (with_objs w (remove o (w_objs w))) o db' r
    | CRaiseFormat :: _ => (3, w, false)
    | CProtect :: r => frun_base fails (protect w o) o db' r
    | CRetMeta :: _ => (0, w, false)
    | CRetInfoMeta :: _ => (0, w, false)
    | CSuper :: _ => (99, w, false)
    end.

  Definition fbase_check (fails : bool) (w : world) (o : oid) (ob : obj) : N * world * bool :=
    let hf := hash_file H w o ob in
    frun_base fails w o (snd hf) (Base_check true (fst hf) o).

  Definition fcheck (fw : fworld) (o : oid) : N * fworld :=
    if f_abort fw then (98, fw) else
    let w := f_w fw in
    match lookup o (w_objs w) with
    | None => (2, fw)
    | Some ob =>
        let base := let r := fbase_check (del_fails fw o) w o ob in
                    (fst (fst r), FW (snd (fst r)) (f_shard fw) (snd r)) in
        match w_cls w with
        | Base => base
        | Local =>
            match Local_check (o_mode ob) with
            | CRetInfoMeta :: _ => (0, fw)
            | CSuper :: _ => base
            | _ => (99, fw)
            end
        end
    end.

  Definition fexist_step (acc : list oid * fworld) (o : oid) : list oid * fworld :=
    let r := fcheck (snd acc) o in
    (if fst r =? 0 then fst acc ++ [o] else fst acc, snd r).

  Definition foids_exist (fw : fworld) (os : list oid) : list oid * fworld :=
    match w_cls (f_w fw) with
    | Local => fold_left fexist_step os ([], fw)
    | Base => (canon_set (filter (has (f_w fw)) os), fw)
    end.

  Definition fcheckout (fw : fworld) (o : oid) : N * option bytes * fworld :=
    let fw' := snd (fcheck fw o) in
    if f_abort fw' then (98, None, fw') else
    match lookup o (w_objs (f_w fw')) with
    | Some ob => (0, Some (o_bytes ob), fw')
    | None => (5, None, fw')
    end.

  Definition fcheck_all (fw : fworld) (os : list oid) : fworld :=
    fold_left (fun fw o => snd (fcheck fw o)) os fw.

  Definition fcheckout_dir (fw : fworld) (d : oid) (ents : list (list N * oid))
    : N * list (list N * bytes) * fworld :=
    let fw' := fcheck_all fw (d :: map snd ents) in
    if f_abort fw' then (98, [], fw') else
    let w' := f_w fw' in
    let got := flat_map (fun e => match lookup (snd e) (w_objs w') with
                                  | Some ob => [(fst e, o_bytes ob)]
                                  | None => []
                                  end) ents in
    (if forallb (fun e => has w' (snd e)) ents then 0 else 5, got, fw').

  Definition fpre_step (fw : fworld) (i : item) : fworld := snd (fcheck fw (it_oid i)).

  Definition fcopy_step (acc : N * fworld) (i : item) : N * fworld :=
    if f_abort (snd acc) then acc else
    let r := copy_step (fst acc, f_w (snd acc)) i in (fst r, with_w (snd acc) (snd r)).

  Definition fpost_step (verify : bool) (acc : list oid * fworld) (i : item) : list oid * fworld :=
    let fw := snd acc in
    if f_abort fw then acc else
    if verify then
      let r := fcheck fw (it_oid i) in
      if fst r =? 0 then (fst acc, with_w (snd r) (protect (f_w (snd r)) (it_oid i)))
      else if fst r =? 3 then (fst acc ++ [it_oid i], snd r)
      else (fst acc, snd r)
    else (fst acc, with_w fw (protect (f_w fw) (it_oid i))).

  Definition fsave_step (fw : fworld) (i : item) : fworld :=
    if f_abort fw then fw else with_w fw (save_step (f_w fw) i).

  Definition fadd (fw : fworld) (v : option bool) (items : list item) : N * list oid * fworld :=
    let verify := match v with Some b => b | None => w_verify (f_w fw) end in
    let fw1 := if verify then fold_left fpre_step items fw else fw in
    let c := fold_left fcopy_step items (0, fw1) in
    let p := fold_left (fpost_step verify) items ([], snd c) in
    let fw4 := fold_left fsave_step items (snd p) in
    (fst c, fst p, fw4).

  Fixpoint fcheck_seq (fw : fworld) (os : list oid) : N * fworld :=
    match os with
    | [] => (0, fw)
    | o :: r => let c := fcheck fw o in if fst c =? 0 then fcheck_seq (snd c) r else c
    end.

  Definition fxfer (fw : fworld) (v : option bool) (items : list item) : list oid * list oid * fworld :=
    let r := foids_exist fw (map it_oid items) in
    let new := xfer_new (fst r) items in
    match new with
    | [] => ([], [], snd r)
    | _ :: _ =>
        let a := fadd (snd r) v new in
        (filter (fun o => negb (mem_oid o (snd (fst a)))) (map it_oid new), snd (fst a), snd a)
    end.

  (* one operation; the exception in flight is caught by the caller: outcome 98, flag cleared *)
  Definition settle (r : fworld * out) : fworld * out :=
    (FW (f_w (fst r)) (f_shard (fst r)) false, if f_abort (fst r) then ORes 98 else snd r).

  Definition fstep (fw : fworld) (p : op) : fworld * out :=
    match p with
    | OAdd v items => let r := fadd fw v items in settle (snd r, OAdded (fst (fst r)) (snd (fst r)))
    | OAddRO v items =>
        settle (if (match v with Some b => b | None => w_verify (f_w fw) end)
                then fold_left fpre_step items fw else fw, ORes 1)
    | OCheck o => let r := fcheck fw o in settle (snd r, ORes (fst r))
    | OExist os => let r := foids_exist fw os in settle (snd r, OExists (fst r))
    | OCheckout o => let r := fcheckout fw o in settle (snd r, OCheckedOut (fst (fst r)) (snd (fst r)))
    | OCheckoutDir d ents =>
        let r := fcheckout_dir fw d ents in settle (snd r, OCheckedOutDir (fst (fst r)) (snd (fst r)))
    | OCheckSeq os => let r := fcheck_seq fw os in settle (snd r, ORes (fst r))
    | OXfer v items => let r := fxfer fw v items in settle (snd r, OXfered (fst (fst r)) (snd (fst r)))
    | _ => let r := step H (f_w fw) p in (with_w fw (fst r), snd r)
    end.

  Fixpoint frun (fw : fworld) (h : list op) : list out * fworld :=
    match h with
    | [] => ([], fw)
    | p :: h' => let r := fstep fw p in let r' := frun (fst r) h' in (snd r :: fst r', snd r')
    end.
End WithDigest.

Record fcase := FCase { fc_case : case; fc_shard : option (list N) }.

Definition fenc_run (c : fcase) : val :=
  let r := frun (tableH (c_tbl (fc_case c))) (FW (init_world (fc_case c)) (fc_shard c) false)
                (c_ops (fc_case c)) in
  VL [VL (map enc_out (fst r)); enc_world (f_w (snd r))].
