(* Model of dvc_data/hashfile/tree.py : class Tree (directory listing objects), with the parts
   of meta.py / hash_info.py it serialises.

   A Python Tree is a dict  key tuple -> (Meta | None, HashInfo | None)  in insertion order;
   here: a list of entries with pairwise distinct keys, in dict order.  [add] on an existing key
   overwrites the value in place (dict semantics).

   Text and bytes are [list N]; a key is a list of parts; a hash is [option (name, value)]:
     None                 - Python None, or HashInfo() (name None, value None)
     Some (name, value)   - HashInfo(name, value); a Python None name/value is the empty text
                            (the code only ever tests them for truthiness).
   A Meta is the record of the nine fields Meta.to_dict can emit, each an optional JSON value
   (None = Python None / False default): to_dict emits isdir, isexec, version_id, etag, checksum,
   md5, remote when truthy, size and nfiles when not None.  Typed views: [meta_size], [mk_meta].

   Scope limits, stated once:
   * [get_obj]/[filter] enumerate the sub-tree in dict order, pygtrie in first-occurrence
     depth-first order.  The two differ only by a permutation and the listing is sorted by
     relpath afterwards, so the digest is the same whenever the re-rooted relpaths are pairwise
     distinct (theorem C03_perm_relpath); that holds for all keys whose parts are free of the
     separator.  The correspondence compares get_obj only on such trees.
   * [from_list] on a dict whose fields have unexpected JSON types (a number where the code
     expects text) answers error 99; the implementation would store the odd value.  Never
     generated.
   * [as_list true] on an entry without Meta raises AttributeError in Python; [as_bytes_res]
     answers None, the total functions treat it as an empty Meta. *)
From Coq Require Import NArith List Bool.
From DvcData Require Import Base.Val Base.MD5 Base.Json.
Import ListNotations.
Open Scope N_scope.

Definition key := list (list N).
Definition hash_info := option (list N * list N).

Record meta := {
  m_isdir : option jval; m_size : option jval; m_nfiles : option jval; m_isexec : option jval;
  m_version_id : option jval; m_etag : option jval; m_checksum : option jval;
  m_md5 : option jval; m_remote : option jval }.

Definition meta_empty : meta :=
  {| m_isdir := None; m_size := None; m_nfiles := None; m_isexec := None; m_version_id := None;
     m_etag := None; m_checksum := None; m_md5 := None; m_remote := None |}.

(* Meta(size=s, isexec=x) and friends *)
Definition mk_meta (isdir : bool) (size nfiles : option N) (isexec : bool) : meta :=
  {| m_isdir := Some (JBool isdir); m_size := option_map JNum size;
     m_nfiles := option_map JNum nfiles; m_isexec := Some (JBool isexec); m_version_id := None;
     m_etag := None; m_checksum := None; m_md5 := None; m_remote := None |}.

Definition meta_size (m : meta) : option N :=
  match m_size m with Some (JNum n) => Some n | _ => None end.
Definition meta_isexec (m : meta) : bool :=
  match m_isexec m with Some v => jtruthy v | None => false end.
Definition meta_isdir (m : meta) : bool :=
  match m_isdir m with Some v => jtruthy v | None => false end.

Record entry := { e_key : key; e_meta : option meta; e_hash : hash_info }.
Definition tree := list entry.

(* ------------------------------------------------------------------ field names *)
Definition s_relpath : list N := [114;101;108;112;97;116;104].
Definition s_isdir : list N := [105;115;100;105;114].
Definition s_size : list N := [115;105;122;101].
Definition s_nfiles : list N := [110;102;105;108;101;115].
Definition s_isexec : list N := [105;115;101;120;101;99].
Definition s_version_id : list N := [118;101;114;115;105;111;110;95;105;100].
Definition s_etag : list N := [101;116;97;103].
Definition s_checksum : list N := [99;104;101;99;107;115;117;109].
Definition s_md5 : list N := [109;100;53].
Definition s_remote : list N := [114;101;109;111;116;101].
Definition s_md5_dos2unix : list N := [109;100;53;45;100;111;115;50;117;110;105;120].
Definition dot_dir : list N := [46;100;105;114].
Definition slash : N := 47.

(* ------------------------------------------------------------------ keys and paths *)
Fixpoint key_eqb (a b : key) : bool :=
  match a, b with
  | [], [] => true
  | x :: a', y :: b' => list_N_eqb x y && key_eqb a' b'
  | _, _ => false
  end.

(* sep.join(parts) *)
Fixpoint join_sep (sep : N) (parts : list (list N)) : list N :=
  match parts with
  | [] => []
  | p :: r => match r with [] => p | _ :: _ => p ++ sep :: join_sep sep r end
  end.

(* s.split(sep): never empty; "" -> [""] *)
Fixpoint split_sep (sep : N) (s : list N) : list (list N) :=
  match s with
  | [] => [[]]
  | c :: r =>
      if c =? sep then [] :: split_sep sep r
      else match split_sep sep r with
           | h :: t => (c :: h) :: t
           | [] => [[c]]
           end
  end.

Definition relpath (k : key) : list N := join_sep slash k.
Definition key_of_relpath (s : list N) : key := split_sep slash s.

(* key[:len(prefix)] == prefix *)
Fixpoint is_prefix (p k : key) : bool :=
  match p with
  | [] => true
  | x :: p' => match k with
               | y :: k' => list_N_eqb x y && is_prefix p' k'
               | [] => false
               end
  end.

(* ------------------------------------------------------------------ dict operations of Tree *)
Fixpoint add (e : entry) (t : tree) : tree :=
  match t with
  | [] => [e]
  | x :: r => if key_eqb (e_key e) (e_key x) then e :: r else x :: add e r
  end.

Definition tree_of_list (es : list entry) : tree := fold_left (fun t e => add e t) es [].

Fixpoint lookup (k : key) (t : tree) : option entry :=
  match t with
  | [] => None
  | x :: r => if key_eqb k (e_key x) then Some x else lookup k r
  end.

(* ------------------------------------------------------------------ to_dict tables *)
Definition emit_truthy (k : list N) (v : option jval) : jobj :=
  match v with Some x => if jtruthy x then [(k, x)] else [] | None => [] end.
Definition emit_some (k : list N) (v : option jval) : jobj :=
  match v with Some x => [(k, x)] | None => [] end.

(* Meta.to_dict *)
Definition meta_to_dict (m : meta) : jobj :=
  emit_truthy s_isdir (m_isdir m) ++ emit_some s_size (m_size m) ++
  emit_some s_nfiles (m_nfiles m) ++ emit_truthy s_isexec (m_isexec m) ++
  emit_truthy s_version_id (m_version_id m) ++ emit_truthy s_etag (m_etag m) ++
  emit_truthy s_checksum (m_checksum m) ++ emit_truthy s_md5 (m_md5 m) ++
  emit_truthy s_remote (m_remote m).

(* Meta.from_dict restricted to the serialisable fields *)
Definition meta_from_dict (d : jobj) : meta :=
  {| m_isdir := dict_get s_isdir d; m_size := dict_get s_size d; m_nfiles := dict_get s_nfiles d;
     m_isexec := dict_get s_isexec d; m_version_id := dict_get s_version_id d;
     m_etag := dict_get s_etag d; m_checksum := dict_get s_checksum d; m_md5 := dict_get s_md5 d;
     m_remote := dict_get s_remote d |}.

(* getattr(meta, name): None = AttributeError *)
Definition meta_getattr (m : meta) (name : list N) : option (option jval) :=
  if list_N_eqb name s_isdir then Some (m_isdir m)
  else if list_N_eqb name s_size then Some (m_size m)
  else if list_N_eqb name s_nfiles then Some (m_nfiles m)
  else if list_N_eqb name s_isexec then Some (m_isexec m)
  else if list_N_eqb name s_version_id then Some (m_version_id m)
  else if list_N_eqb name s_etag then Some (m_etag m)
  else if list_N_eqb name s_checksum then Some (m_checksum m)
  else if list_N_eqb name s_md5 then Some (m_md5 m)
  else if list_N_eqb name s_remote then Some (m_remote m)
  else None.

Definition is_nil {A} (l : list A) : bool := match l with [] => true | _ => false end.

(* what HashInfo contributes to a listing record: _hi_to_dict of Tree.as_list *)
Definition hash_emit (h : hash_info) : hash_info :=
  match h with
  | None => None
  | Some (name, value) =>
      if is_nil value then None                                   (* not hi *)
      else if list_N_eqb name s_md5_dos2unix then Some (s_md5, value)
      else if is_nil name then None                               (* HashInfo.to_dict *)
      else Some (name, value)
  end.

Definition hi_to_dict (h : hash_info) : jobj :=
  match hash_emit h with Some (name, value) => [(name, JStr value)] | None => [] end.

(* bool(hi) *)
Definition hash_truthy (h : hash_info) : bool :=
  match h with Some (_, value) => negb (is_nil value) | None => false end.

(* the record of one entry: {**meta.to_dict(), **_hi_to_dict(hi), "relpath": "/".join(parts)} *)
Definition entry_dict (with_meta : bool) (e : entry) : jobj :=
  let md := if with_meta then match e_meta e with Some m => meta_to_dict m | None => [] end else [] in
  dict_set s_relpath (JStr (relpath (e_key e))) (dict_update md (hi_to_dict (e_hash e))).

(* sorted(..., key=itemgetter("relpath")): a stable sort on the joined path, code-point order *)
Definition entry_leb (a b : entry) : bool := lex_leb (relpath (e_key a)) (relpath (e_key b)).
Definition sort_entries (t : tree) : tree := sort_by entry_leb t.

Definition as_list (with_meta : bool) (t : tree) : jdoc := map (entry_dict with_meta) (sort_entries t).
Definition as_bytes (with_meta : bool) (t : tree) : list N := json_dumps (as_list with_meta t).

(* None: AttributeError (with_meta on an entry whose Meta is None) *)
Definition as_bytes_res (with_meta : bool) (t : tree) : option (list N) :=
  if with_meta && existsb (fun e => match e_meta e with None => true | Some _ => false end) t
  then None else Some (as_bytes with_meta t).

(* Tree.digest(): hash_info.value / oid.  The identifier never covers the metadata. *)
Definition digest (t : tree) : list N := md5_hex (as_bytes false t) ++ dot_dir.

(* ------------------------------------------------------------------ from_list *)
Inductive fl_res := FlOk (t : tree) | FlErr (code : N).
(* codes of harness/lib/impl.py ERR: 8 KeyError, 9 ValueError, 99 other (AttributeError, odd type) *)

Definition from_list_entry (hash_name : option (list N)) (o : jobj) : entry + N :=
  match dict_get s_relpath o with
  | None => inr 8
  | Some (JStr rp) =>
      let d := dict_del s_relpath o in
      let m := meta_from_dict d in
      let k := key_of_relpath rp in
      match hash_name with
      | Some hn =>
          let mn := if list_N_eqb hn s_md5_dos2unix then s_md5 else hn in
          match meta_getattr m mn with
          | None => inr 99
          | Some None => inl {| e_key := k; e_meta := Some m; e_hash := Some (hn, []) |}
          | Some (Some (JStr v)) => inl {| e_key := k; e_meta := Some m; e_hash := Some (hn, v) |}
          | Some (Some _) => inr 99
          end
      | None =>
          match d with
          | [] => inl {| e_key := k; e_meta := Some m; e_hash := None |}
          | [(n, JStr v)] => inl {| e_key := k; e_meta := Some m; e_hash := Some (n, v) |}
          | [(_, _)] => inr 99
          | _ => inr 9
          end
      end
  | Some _ => inr 99
  end.

Fixpoint from_list_go (hash_name : option (list N)) (d : jdoc) (t : tree) : fl_res :=
  match d with
  | [] => FlOk t
  | o :: r => match from_list_entry hash_name o with
              | inl e => from_list_go hash_name r (add e t)
              | inr c => FlErr c
              end
  end.

Definition from_list (hash_name : option (list N)) (d : jdoc) : fl_res := from_list_go hash_name d [].

(* Tree.from_list(json.loads(raw)); 3 = ObjectFormatError-like (not parsable) *)
Definition from_bytes (hash_name : option (list N)) (raw : list N) : fl_res :=
  match parse_doc raw with Some d => from_list hash_name d | None => FlErr 3 end.

(* ------------------------------------------------------------------ filter / get_obj *)
Definition under (prefix : key) (t : tree) : tree := filter (fun e => is_prefix prefix (e_key e)) t.

(* Tree.filter(prefix): the entries at or below prefix, keys unchanged *)
Definition filter_prefix (prefix : key) (t : tree) : tree := under prefix t.

Definition reroot (depth : nat) (e : entry) : entry :=
  {| e_key := skipn depth (e_key e); e_meta := e_meta e; e_hash := e_hash e |}.

(* the sub-directory below prefix as a tree of its own *)
Definition subtree (prefix : key) (t : tree) : tree :=
  tree_of_list (map (reroot (length prefix)) (under prefix t)).

(* Tree.get_obj(odb, prefix).oid ; None = no object at prefix *)
Definition get_obj (t : tree) (prefix : key) : option (list N) :=
  match lookup prefix t with
  | Some e =>
      if hash_truthy (e_hash e)
      then match e_hash e with Some (_, v) => Some v | None => None end
      else Some (digest (subtree prefix t))
  | None =>
      match under prefix t with
      | [] => if is_nil prefix then Some (digest []) else None
      | _ :: _ => Some (digest (subtree prefix t))
      end
  end.

(* file object ids listed by a tree (for `for _, _, oid in tree`) *)
Definition tree_oids (t : tree) : list (list N) :=
  flat_map (fun e => match e_hash e with Some (_, v) => [v] | None => [] end) t.

(* ------------------------------------------------------------------ val encoders *)
Definition enc_key (k : key) : val := enc_list enc_bytes k.
Definition enc_hash (h : hash_info) : val := enc_option (enc_pair enc_bytes enc_bytes) h.
(* metas are compared through what they serialise to *)
Definition enc_meta (m : option meta) : val :=
  enc_option (fun m => enc_jobj (sort_obj (meta_to_dict m))) m.
Definition enc_entry (e : entry) : val := VL [enc_key (e_key e); enc_meta (e_meta e); enc_hash (e_hash e)].
Definition enc_tree (t : tree) : val := enc_list enc_entry t.
Definition enc_fl_res (r : fl_res) : val :=
  match r with FlOk t => VL [VN 1; enc_tree t] | FlErr c => VL [VN 0; VN c] end.
