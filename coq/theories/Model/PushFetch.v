(* Model of push / fetch through storage mappings (property C18).

   source (as of f4a117d), condensed:

     index/index.py  StorageMapping.__getitem__(key):
       storages = [(prefix, storage) for prefix, storage in self._map.items()
                   if not len(prefix) > len(key) and key[:len(prefix)] == prefix]
       if not storages: raise StorageKeyError(key)
       storages = sorted(storages, key=lambda e: len(e[0]), reverse=True)     # stable
       data = cache = remote = None
       for _, storage in storages:
         if data is None: data = storage.data
         if cache is None: cache = storage.cache
         if remote is None: remote = storage.remote
         if data and cache and remote: break
       return StorageInfo(data, cache, remote)

     index/collect.py  collect(idxs, storage, push):          (cache_index = None)
       for prefix, storage_info in idx.storage_map.items():   # storage_info = storage_map[prefix]: RESOLVED
         data = getattr(storage_info, storage) ; cache = storage_info.cache   (storage = "remote")
         if not data: continue
         key = (fsid, tokenize(data.path))                    # identity of the object store: [sid]
         _collect_from_index(cache_index, key, idx, prefix, data):
             for _, entry in idx.iteritems(prefix):           # lazy directories are loaded on the way
                 try: storage_key = data.get_key(entry)       # odb._oid_parts(oid); ValueError if no hash
                 except ValueError: continue
                 entries[storage_key] = entry'
             (KeyError - no such node - : nothing is collected)
         if key not in storage_by_fs: storage_by_fs[key] = StorageInfo(data, cache)   # FIRST prefix's cache
       return one view of cache_index per key, in order of first appearance

     index/push.py  push(groups):  for every group, ObjectStorage cache and data:
         result = transfer(cache.odb, data.odb, [e.hash_info for e in group if e.hash_info],
                           dest_index=get_index(data.odb), cache_odb=data.odb)     # shallow=True
         pushed += len(result.transferred); failed += len(result.failed)
     index/fetch.py fetch(groups):
         result = transfer(data.odb, cache.odb, [...], src_index=get_index(data.odb),
                           cache_odb=cache.odb, verify=data.odb.verify)
         fetched += len(result.transferred); failed += len(result.failed)

   get_index(odb) is ObjectDBIndexNoop when the store has no tmp_dir (the stores of this
   property): a truthy index that is always empty and ignores updates.  For [transfer] that is
   "an empty index at every call, discarded afterwards" (t_dix / t_six := Some []): with it the
   status phase still takes "the .dir object is there, so its files are" (status.py
   _indexed_dir_hashes) - which is why closedness of the stores (C04) matters here.

   The transfer itself is Model/Transfer.v [transfer], unchanged.

   Lazy loading (index.py _load, iteritems): a directory entry at key k is expanded into its
   listed files (keys k ++ rel) when the entry is reached, and it is reached by collect iff some
   map prefix is a prefix of k ([covered]); the listing is the one of the directory object
   (content addressing: the same in every store that has it).

   Scope of the model: every storage is an ObjectStorage; a group whose resolved cache is absent
   takes the file-storage branch of push/fetch, which is not modelled (error 98).

   One style: stdlib lists. *)
From Coq Require Import NArith List Bool.
From DvcData Require Import Base.Val Model.Transfer Gen.StorageMap.
Import ListNotations.
Open Scope N_scope.

(* name, key, sid, key_eqb, sinfo, smap, matches, the stable sort sm_sort, pick, is_some,
   resolve_loop and getitem (StorageMapping.__getitem__; None = StorageKeyError) are GENERATED from
   index/index.py by translator/storagemap.py into Gen/StorageMap.v on every run. *)

(* ---- the index ---- *)
Inductive item :=
| IFile (k : key) (o : oid)
| IDir (k : key) (d : oid) (l : list (key * oid)).     (* directory entry, its object id, its listing *)
Definition index := list item.

Definition covered (m : smap) (k : key) : bool := existsb (fun ps => matches (fst ps) k) m.

Definition children (k : key) (l : list (key * oid)) : list (key * oid) :=
  map (fun e => (k ++ fst e, snd e)) l.
(* every hashed entry an iteration can reach *)
Definition expand (i : item) : list (key * oid) :=
  match i with
  | IFile k o => [(k, o)]
  | IDir k d l => (k, d) :: children k l
  end.
(* the hashed entries collect sees under map m (unloaded directories keep their children hidden) *)
Definition visible (m : smap) (i : item) : list (key * oid) :=
  match i with
  | IFile k o => [(k, o)]
  | IDir k d l => if covered m k then (k, d) :: children k l else [(k, d)]
  end.
Definition entries (m : smap) (idx : index) : list (key * oid) := flat_map (visible m) idx.

(* the reachable set: directory objects, the files they list, file entries *)
Definition reachable (idx : index) : list oid := map snd (flat_map expand idx).

(* ---- collect(storage="remote") ---- *)
Record group := { g_data : sid; g_cache : option sid; g_req : list oid }.

Fixpoint add_group (d : sid) (c : option sid) (oids : list oid) (gs : list group) : list group :=
  match gs with
  | [] => [{| g_data := d; g_cache := c; g_req := oids |}]
  | g :: r =>
      if N.eqb (g_data g) d
      then {| g_data := d; g_cache := g_cache g; g_req := g_req g ++ oids |} :: r
      else g :: add_group d c oids r
  end.

Definition under (p : key) (es : list (key * oid)) : list oid :=
  map snd (filter (fun e => matches p (fst e)) es).

Definition collect_step (m : smap) (idx : index) (gs : list group) (ps : key * sinfo) : list group :=
  match getitem m (fst ps) with
  | None => gs
  | Some si =>
      match si_remote si with
      | None => gs
      | Some d => add_group d (si_cache si) (under (fst ps) (entries m idx)) gs
      end
  end.
Definition collect (m : smap) (idx : index) : list group :=
  fold_left (collect_step m idx) m [].

(* collect(push=True) skips a prefix whose resolved remote is attached read_only
   (`if not data or (push and data.read_only): continue`); a fetch does not look at the flag *)
Definition collect_step_ro (ro : list sid) (m : smap) (idx : index) (gs : list group) (ps : key * sinfo)
  : list group :=
  match getitem m (fst ps) with
  | None => gs
  | Some si =>
      match si_remote si with
      | None => gs
      | Some d => if existsb (N.eqb d) ro then gs
                  else add_group d (si_cache si) (under (fst ps) (entries m idx)) gs
      end
  end.
Definition collect_ro (ro : list sid) (m : smap) (idx : index) : list group :=
  fold_left (collect_step_ro ro m idx) m [].

(* ---- the stores ---- *)
Definition stores := list (sid * store).     (* first binding wins *)
Fixpoint sget (w : stores) (s : sid) : store :=
  match w with
  | [] => []
  | (k, st) :: r => if N.eqb k s then st else sget r s
  end.
Definition sset (w : stores) (s : sid) (st : store) : stores := (s, st) :: w.

(* ---- environment / oracles of a round ---- *)
Record env := {
  e_parse : bytes -> option (list oid);      (* json decoding of a directory object *)
  e_fails : sid -> oid -> bool;              (* oracle: the upload of this id INTO this store raises *)
  e_dord : list oid -> list oid;             (* oracle: iteration order of the directory set *)
  e_bord : list oid -> list oid }.           (* oracle: upload order inside a batch *)

Inductive rkind := RPush | RFetch.

(* the transfer a group stands for: push cache -> data, fetch data -> cache *)
Definition group_in (e : env) (k : rkind) (w : stores) (g : group) (c : sid) : t_in :=
  match k with
  | RPush =>
      {| t_src := sget w c; t_dst := sget w (g_data g); t_cache := Some (sget w (g_data g));
         t_parse := e_parse e; t_corrupt := fun _ => false; t_req := g_req g;
         t_shallow := true; t_verify := false; t_dix := Some []; t_six := None;
         t_dnoop := true; t_snoop := false;
         t_fails := e_fails e (g_data g); t_part := fun _ => false; t_trunc := fun _ => [];
         t_dord := e_dord e; t_bord := e_bord e |}
  | RFetch =>
      {| t_src := sget w (g_data g); t_dst := sget w c; t_cache := Some (sget w c);
         t_parse := e_parse e; t_corrupt := fun _ => false; t_req := g_req g;
         t_shallow := true; t_verify := false; t_dix := None; t_six := Some [];
         t_dnoop := false; t_snoop := true;
         t_fails := e_fails e c; t_part := fun _ => false; t_trunc := fun _ => [];
         t_dord := e_dord e; t_bord := e_bord e |}
  end.
Definition group_dst (k : rkind) (g : group) (c : sid) : sid :=
  match k with RPush => g_data g | RFetch => c end.

Record pf_out := {
  p_w : stores;
  p_moved : N;                               (* pushed / fetched *)
  p_failed : N;
  p_err : option N }.                        (* an exception escaped (kind) *)

Definition count (l : list oid) : N := N.of_nat (length (dedup l)).

Fixpoint run_groups (e : env) (k : rkind) (gs : list group) (w : stores) (moved failed : N) : pf_out :=
  match gs with
  | [] => {| p_w := w; p_moved := moved; p_failed := failed; p_err := None |}
  | g :: r =>
      match g_cache g with
      | None => {| p_w := w; p_moved := moved; p_failed := failed; p_err := Some 98 |}
      | Some c =>
          if N.eqb c (g_data g) then run_groups e k r w moved failed        (* src == dest *)
          else
            let i := group_in e k w g c in
            match o_outcome (transfer i) with
            | TErr kd => {| p_w := w; p_moved := moved; p_failed := failed; p_err := Some kd |}
            | TOk tr fl =>
                run_groups e k r (sset w (group_dst k g c) (w_dst (final_world i)))
                           (moved + count tr) (failed + count fl)
            end
      end
  end.

Definition run_round (e : env) (k : rkind) (m : smap) (idx : index) (w : stores) : pf_out :=
  run_groups e k (collect m idx) w 0 0.

(* ---- remotes with a tmp_dir: a REAL persistent ObjectDBIndex (get_index(data.odb)) --------------
   push hands it to transfer as dest_index, fetch as src_index; it lives on disk, so it is carried
   from group to group and from round to round, per remote.  A remote that is not in the map has
   no tmp_dir: ObjectDBIndexNoop, i.e. [group_in] above.  (A tmp_dir on a CACHE has no effect:
   only data.odb's index is ever opened.) *)
Definition ixmap := list (sid * rindex).
Fixpoint iget (x : ixmap) (s : sid) : option rindex :=
  match x with
  | [] => None
  | (k, ix) :: r => if N.eqb k s then Some ix else iget r s
  end.
Definition iset (x : ixmap) (s : sid) (ix : rindex) : ixmap := (s, ix) :: x.

Definition group_in_ix (e : env) (k : rkind) (w : stores) (x : ixmap) (g : group) (c : sid) : t_in :=
  match iget x (g_data g) with
  | None => group_in e k w g c
  | Some ix =>
      match k with
      | RPush =>
          {| t_src := sget w c; t_dst := sget w (g_data g); t_cache := Some (sget w (g_data g));
             t_parse := e_parse e; t_corrupt := fun _ => false; t_req := g_req g;
             t_shallow := true; t_verify := false; t_dix := Some ix; t_six := None;
             t_dnoop := false; t_snoop := false;
             t_fails := e_fails e (g_data g); t_part := fun _ => false; t_trunc := fun _ => [];
             t_dord := e_dord e; t_bord := e_bord e |}
      | RFetch =>
          {| t_src := sget w (g_data g); t_dst := sget w c; t_cache := Some (sget w c);
             t_parse := e_parse e; t_corrupt := fun _ => false; t_req := g_req g;
             t_shallow := true; t_verify := false; t_dix := None; t_six := Some ix;
             t_dnoop := false; t_snoop := false;
             t_fails := e_fails e c; t_part := fun _ => false; t_trunc := fun _ => [];
             t_dord := e_dord e; t_bord := e_bord e |}
      end
  end.
(* the remote's index after the transfer *)
Definition ix_after (k : rkind) (x : ixmap) (g : group) (i : t_in) : ixmap :=
  match iget x (g_data g) with
  | None => x
  | Some _ =>
      match (match k with RPush => w_dix (final_world i) | RFetch => w_six (final_world i) end) with
      | Some ix' => iset x (g_data g) ix'
      | None => x
      end
  end.

Fixpoint run_groups_ix (e : env) (k : rkind) (gs : list group) (w : stores) (x : ixmap)
         (moved failed : N) : pf_out * ixmap :=
  match gs with
  | [] => ({| p_w := w; p_moved := moved; p_failed := failed; p_err := None |}, x)
  | g :: r =>
      match g_cache g with
      | None => ({| p_w := w; p_moved := moved; p_failed := failed; p_err := Some 98 |}, x)
      | Some c =>
          if N.eqb c (g_data g) then run_groups_ix e k r w x moved failed
          else
            let i := group_in_ix e k w x g c in
            match o_outcome (transfer i) with
            | TErr kd => ({| p_w := w; p_moved := moved; p_failed := failed; p_err := Some kd |}, x)
            | TOk tr fl =>
                run_groups_ix e k r (sset w (group_dst k g c) (w_dst (final_world i))) (ix_after k x g i)
                              (moved + count tr) (failed + count fl)
            end
      end
  end.
Definition run_round_ix (e : env) (k : rkind) (m : smap) (idx : index) (w : stores) (x : ixmap)
  : pf_out * ixmap :=
  run_groups_ix e k (collect m idx) w x 0 0.
(* with remotes attached read_only: they are left out of a push, not of a fetch *)
Definition groups_ro (k : rkind) (ro : list sid) (m : smap) (idx : index) : list group :=
  match k with RPush => collect_ro ro m idx | RFetch => collect m idx end.
Definition run_round_ro (e : env) (k : rkind) (ro : list sid) (m : smap) (idx : index) (w : stores) (x : ixmap)
  : pf_out * ixmap :=
  run_groups_ix e k (groups_ro k ro m idx) w x 0 0.

(* ---- index checkout from the cache the mapping designates for each key ---- *)
Definition cache_of (m : smap) (k : key) : option sid :=
  match getitem m k with Some si => si_cache si | None => None end.
Definition remote_of (m : smap) (k : key) : option sid :=
  match getitem m k with Some si => si_remote si | None => None end.
(* the bytes a checkout links for every visible FILE entry; None = the object is not there *)
Definition checkout_view (m : smap) (idx : index) (w : stores) : list (key * option bytes) :=
  map (fun e => (fst e, match cache_of m (fst e) with
                        | Some c => lookup (snd e) (sget w c)
                        | None => None
                        end))
      (filter (fun e => is_file_oid (snd e)) (entries m idx)).

(* ---- what the property speaks about ---- *)
(* ids of the visible entries whose key the mapping sends to remote r *)
Definition designated (m : smap) (idx : index) (r : sid) : list oid :=
  map snd (filter (fun e => match remote_of m (fst e) with Some r' => N.eqb r' r | None => false end)
                  (entries m idx)).
Definition designated_cache (m : smap) (idx : index) (c : sid) : list oid :=
  map snd (filter (fun e => match cache_of m (fst e) with Some c' => N.eqb c' c | None => false end)
                  (entries m idx)).
Definition contents (s : store) : list oid := dedup (map fst s).

(* ---- correspondence: scenarios and encoders ---- *)
Record round := { r_kind : rkind; r_map : smap; r_fails : list (sid * oid);
                  r_ro : list sid;            (* remotes attached read_only in this round *)
                  r_wipe : list sid }.        (* stores emptied behind every index's back before the round *)
Record scen := {
  s_idx : index;
  s_parse : list (bytes * list oid);
  s_stores : stores;
  s_sids : list sid;                         (* the stores to list after every round *)
  s_ix : list sid;                           (* the remotes that have a tmp_dir (index empty at first) *)
  s_rounds : list round;
  s_checkout : option smap }.                (* finally: index checkout through this map *)

Definition mem_fail (l : list (sid * oid)) (s : sid) (o : oid) : bool :=
  existsb (fun p => N.eqb (fst p) s && list_N_eqb (snd p) o) l.
Definition mk_env (sc : scen) (r : round) : env :=
  {| e_parse := fun b => assoc_bytes b (s_parse sc);
     e_fails := mem_fail (r_fails r);
     e_dord := fun l => l;
     e_bord := fun l => l |}.

Definition enc_store_listing (s : store) : val :=
  enc_set (map (fun o => o ++ 47 :: match lookup o s with Some b => b | None => [] end) (contents s)).
Definition enc_world (sids : list sid) (w : stores) : val :=
  VL (map (fun s => enc_store_listing (sget w s)) sids).
Definition enc_key (k : key) : val := VL (map VB k).
Definition enc_group (g : group) : val :=
  VL [VN (g_data g); enc_option VN (g_cache g); enc_set (g_req g)].

Definition enc_rindex (ix : rindex) : val :=
  enc_set (map (fun o => o ++ 47 :: match ix_get o ix with Some true => [1] | _ => [0] end) (ix_keys ix)).
Definition enc_ixmap (sids : list sid) (x : ixmap) : val :=
  VL (map (fun s => match iget x s with Some ix => enc_rindex ix | None => VL [] end) sids).

Definition wipe (l : list sid) (w : stores) : stores := fold_left (fun w s => sset w s []) l w.

Fixpoint run_rounds (sc : scen) (rs : list round) (w0 : stores) (x : ixmap) : list val :=
  match rs with
  | [] => []
  | r :: rest =>
      let w := wipe (r_wipe r) w0 in
      let ox := run_round_ro (mk_env sc r) (r_kind r) (r_ro r) (r_map r) (s_idx sc) w x in
      let out := fst ox in
      VL [ VL (map enc_group (groups_ro (r_kind r) (r_ro r) (r_map r) (s_idx sc)));
           enc_option VN (p_err out); VN (p_moved out); VN (p_failed out);
           enc_world (s_sids sc) (p_w out);
           enc_ixmap (s_ix sc) (snd ox) ]
      :: run_rounds sc rest (p_w out) (snd ox)
  end.
Fixpoint final_stores (sc : scen) (rs : list round) (w0 : stores) (x : ixmap) : stores :=
  match rs with
  | [] => w0
  | r :: rest =>
      let w := wipe (r_wipe r) w0 in
      let ox := run_round_ro (mk_env sc r) (r_kind r) (r_ro r) (r_map r) (s_idx sc) w x in
      final_stores sc rest (p_w (fst ox)) (snd ox)
  end.
Definition ix0 (sc : scen) : ixmap := map (fun s => (s, [])) (s_ix sc).

(* resolution alone (dense enumeration against the real __getitem__) *)
Definition enc_sinfo (s : sinfo) : val :=
  VL [enc_option VN (si_data s); enc_option VN (si_cache s); enc_option VN (si_remote s)].
Definition run_getitem (c : smap * list key) : val :=
  VL (map (fun k => enc_option enc_sinfo (getitem (fst c) k)) (snd c)).

(* checkout from the caches of map m: the files that could be linked, as "a/b/c=<bytes>" *)
Fixpoint join_key (k : key) : list N :=
  match k with
  | [] => []
  | [x] => x
  | x :: r => x ++ 47 :: join_key r
  end.
Definition enc_checkout (l : list (key * option bytes)) : val :=
  enc_set (flat_map (fun p => match snd p with
                              | Some b => [join_key (fst p) ++ 61 :: b]
                              | None => []
                              end) l).
Definition run_scen (sc : scen) : val :=
  VL [ VL (run_rounds sc (s_rounds sc) (s_stores sc) (ix0 sc));
       match s_checkout sc with
       | None => VL []
       | Some m => enc_checkout (checkout_view m (s_idx sc) (final_stores sc (s_rounds sc) (s_stores sc) (ix0 sc)))
       end ].
