(* AddSteps.v - the step machine behind C15 (crash safety of add / transfer / save).

   Source modelled (read on 2026-10-01, /repo/src/dvc_data + dvc_objects in /venv):
     hashfile/db/__init__.py  HashFileDB.add : super().add (copies), then for EVERY requested oid
                              protect (chmod 0o444), then ONE state.save_many transaction
     dvc_objects/db.py        ObjectDB.add : check_exists filter, generic.transfer
     dvc_objects/fs/generic.py transfer : reflink attempt for the first file AT THE FINAL NAME
                              (system.reflink = open(O_CREAT|O_TRUNC) ; ioctl fails ; unlink),
                              then local put_file = makedirs ; temp name ; copyfile (reflink attempt
                              at the temp name, then open(tmp,'wb') + write) ; os.replace(tmp, final)
     memfs -> local           _get / as_atomic : open(tmp,'wb') + write ; move = rename tmp -> tmp' ;
                              rename tmp' -> final
     hashfile/db/local.py     check / oids_exist : protected => trusted ; else hash (state row if its
                              token is valid, else re-hash + State.save) ; mismatch => remove ;
                              match => protect
     hashfile/transfer.py     compare_status (existence query on the destination), files, directory last
     index/save.py            add of all file entries, then add_update_tree per directory entry
     hashfile/build.py        _upload_file : temp at the store root, then referenced from staging

   World.  final-name files oid |-> (bytes, protected?) ; temp files ; VALID state rows
   oid |-> recorded value (a row of the real database whose (ino, mtime, size) token no longer
   matches the file is invisible to every reader, so a step that replaces the file at a final
   name drops the row) ; the ghost [w_pend] = "a reflink probe file is pending at this name"
   (process-local knowledge, erased by [crash]).

   Everything is parametric in the content type [bytes], the digest [H], the directory-listing
   reader [kids] and the empty content [empty]; the correspondence instantiates bytes := content
   identifier (the md5 the harness computed with hashlib), H := identity, kids := a table. *)
From Coq Require Import NArith List Bool.
From DvcData Require Import Base.Val.
Import ListNotations.
Open Scope N_scope.

Definition oid := list N.

(* ---- association lists ---- *)
Section Assoc.
  Context {K V : Type} (eqb : K -> K -> bool).
  Fixpoint aget (k : K) (l : list (K * V)) : option V :=
    match l with [] => None | (k', v) :: r => if eqb k k' then Some v else aget k r end.
  Fixpoint adel (k : K) (l : list (K * V)) : list (K * V) :=
    match l with [] => [] | (k', v) :: r => if eqb k k' then adel k r else (k', v) :: adel k r end.
  Definition aset (k : K) (v : V) (l : list (K * V)) : list (K * V) := (k, v) :: adel k l.
End Assoc.

Definition dot_dir : list N := [46; 100; 105; 114].
Definition is_dir (o : oid) : bool := list_N_eqb (skipn (length o - 4) o) dot_dir.
(* actual.value.split(".")[0] *)
Fixpoint base (o : oid) : oid :=
  match o with [] => [] | c :: r => if N.eqb c 46 then [] else c :: base r end.
Definition pfx (o : oid) : oid := firstn 2 o.
Fixpoint dedup (l : list oid) : list oid :=
  match l with [] => [] | x :: r => x :: filter (fun y => negb (list_N_eqb y x)) (dedup r) end.
Definition mem_oid (o : oid) (l : list oid) : bool := existsb (list_N_eqb o) l.

Inductive astep_ (bytes : Type) : Type :=
| Mkdir (p : oid)                       (* mkdir / chmod of a fan-out directory: no object changes *)
| Probe (o : oid)                       (* reflink attempt: empty file created AT THE FINAL NAME *)
| ProbeClean (o : oid)                  (* ... and unlinked again *)
| CreateTmp (t : N)                     (* open(tmp, O_CREAT|O_TRUNC): empty temp file *)
| TmpClean (t : N)                      (* unlink(tmp) *)
| WriteTmp (t : N) (b : bytes)          (* the temp file now holds b (partial or complete) *)
| MoveTmp (t t' : N)                    (* rename between temp names *)
| Rename (t : N) (o : oid)              (* os.replace(tmp, final) *)
| Chmod (o : oid)                       (* protect: chmod 0o444 *)
| StateSave (rs : list (oid * oid))     (* one transaction: row path(o) := value, current token *)
| Remove (o : oid).                     (* check() dropping a mismatching object *)
Arguments Mkdir {bytes}. Arguments Probe {bytes}. Arguments ProbeClean {bytes}.
Arguments CreateTmp {bytes}. Arguments TmpClean {bytes}. Arguments WriteTmp {bytes}.
Arguments MoveTmp {bytes}. Arguments Rename {bytes}. Arguments Chmod {bytes}.
Arguments StateSave {bytes}. Arguments Remove {bytes}.

Section Machine.
  Variable bytes : Type.
  Variable H : bytes -> oid.
  Variable kids : bytes -> list oid.
  Variable empty : bytes.
  Variable part : bytes -> bytes.          (* what a torn copy of b looks like: arbitrary *)

  Notation astep := (astep_ bytes).

  Record file := mkF { f_bytes : bytes; f_prot : bool }.
  Record world := mkW {
    w_objs : list (oid * file);
    w_tmps : list (N * bytes);
    w_rows : list (oid * oid);
    w_pend : option oid }.

  Definition obj (w : world) (o : oid) : option file := aget list_N_eqb o (w_objs w).
  Definition tmp (w : world) (t : N) : option bytes := aget N.eqb t (w_tmps w).
  Definition row (w : world) (o : oid) : option oid := aget list_N_eqb o (w_rows w).

  Definition named_ok_b (o : oid) (b : bytes) : bool := list_N_eqb (base (H b)) (base o).

  Definition kid_ok (w : world) (k : oid) : bool :=
    match obj w k with Some g => named_ok_b k (f_bytes g) | None => false end.
  Definition kids_ok (w : world) (b : bytes) : bool := forallb (kid_ok w) (kids b).

  Definition save_rows (objs : list (oid * file)) (rs : list (oid * oid)) (rows : list (oid * oid)) :=
    fold_left (fun rows (r : oid * oid) =>
                 match aget list_N_eqb (fst r) objs with
                 | Some _ => aset list_N_eqb (fst r) (snd r) rows
                 | None => rows            (* save_many skips paths that do not exist *)
                 end) rs rows.

  Definition step (w : world) (s : astep) : world :=
    match s with
    | Mkdir _ => w
    | Probe o =>
        let pr := match obj w o with Some f => f_prot f | None => false end in   (* O_TRUNC keeps the mode *)
        mkW (aset list_N_eqb o (mkF empty pr) (w_objs w)) (w_tmps w) (adel list_N_eqb o (w_rows w)) (Some o)
    | ProbeClean o =>
        mkW (adel list_N_eqb o (w_objs w)) (w_tmps w) (adel list_N_eqb o (w_rows w)) None
    | CreateTmp t => mkW (w_objs w) (aset N.eqb t empty (w_tmps w)) (w_rows w) (w_pend w)
    | TmpClean t => mkW (w_objs w) (adel N.eqb t (w_tmps w)) (w_rows w) (w_pend w)
    | WriteTmp t b => mkW (w_objs w) (aset N.eqb t b (w_tmps w)) (w_rows w) (w_pend w)
    | MoveTmp t t' =>
        match tmp w t with
        | Some b => mkW (w_objs w) (aset N.eqb t' b (adel N.eqb t (w_tmps w))) (w_rows w) (w_pend w)
        | None => w
        end
    | Rename t o =>
        match tmp w t with
        | Some b => mkW (aset list_N_eqb o (mkF b false) (w_objs w)) (adel N.eqb t (w_tmps w))
                        (adel list_N_eqb o (w_rows w)) (w_pend w)
        | None => w
        end
    | Chmod o =>
        match obj w o with
        | Some f => mkW (aset list_N_eqb o (mkF (f_bytes f) true) (w_objs w)) (w_tmps w) (w_rows w) (w_pend w)
        | None => w                            (* FileNotFoundError: pass *)
        end
    | StateSave rs => mkW (w_objs w) (w_tmps w) (save_rows (w_objs w) rs (w_rows w)) (w_pend w)
    | Remove o => mkW (adel list_N_eqb o (w_objs w)) (w_tmps w) (adel list_N_eqb o (w_rows w)) (w_pend w)
    end.

  Definition run (tr : list astep) (w : world) : world := fold_left step tr w.

  (* The discipline of the machine: the precondition under which a step is an instance of it.
     Real event streams are checked against it ([valid_trace]); the theorems show that every
     trace accepted by it keeps [crash_inv] at every prefix. *)
  Definition step_ok (w : world) (s : astep) : bool :=
    match s with
    | ProbeClean o => match w_pend w with Some p => list_N_eqb p o | None => false end
    | _ =>
        match w_pend w with
        | Some _ => false                      (* the probe is cleaned before anything else happens *)
        | None =>
            match s with
            | Probe o => match obj w o with None => true | Some _ => false end
            | Rename t o =>
                match tmp w t with
                | Some b => named_ok_b o b && (negb (is_dir o) || kids_ok w b)
                | None => false
                end
            | MoveTmp t _ => match tmp w t with Some _ => true | None => false end
            | Chmod o => match obj w o with Some f => named_ok_b o (f_bytes f) | None => true end
            | StateSave rs =>
                forallb (fun r : oid * oid =>
                           match obj w (fst r) with
                           | Some f => list_N_eqb (base (snd r)) (base (H (f_bytes f)))
                           | None => true
                           end) rs
            | Remove o => match obj w o with Some f => negb (named_ok_b o (f_bytes f)) | None => true end
            | _ => true
            end
        end
    end.

  Fixpoint valid_trace (tr : list astep) (w : world) : bool :=
    match tr with [] => true | s :: r => step_ok w s && valid_trace r (step w s) end.

  (* states after every prefix (n+1 of them) *)
  Fixpoint prefix_states (tr : list astep) (w : world) : list world :=
    w :: match tr with [] => [] | s :: r => prefix_states r (step w s) end.

  (* a crash kills the process: its local knowledge is gone, the file system stays *)
  Definition crash (w : world) : world := mkW (w_objs w) (w_tmps w) (w_rows w) None.

  (* ---- the property, as a Prop and as a boolean ---- *)
  Definition named_ok (o : oid) (b : bytes) : Prop := base (H b) = base o.
  Definition vouched (w : world) (o : oid) : Prop := exists v, row w o = Some v /\ base v = base o.
  Definition closed (w : world) : Prop :=
    forall d f, obj w d = Some f -> is_dir d = true -> named_ok d (f_bytes f) ->
      forall k, In k (kids (f_bytes f)) -> exists g, obj w k = Some g /\ named_ok k (f_bytes g).
  Definition crash_inv (w : world) : Prop :=
    (forall o f, obj w o = Some f -> f_prot f = true -> named_ok o (f_bytes f)) /\
    (forall o f, obj w o = Some f -> vouched w o -> named_ok o (f_bytes f)) /\
    closed w.

  Definition crash_inv_b (w : world) : bool :=
    forallb (fun e : oid * file =>
               let o := fst e in
               match obj w o with
               | None => true
               | Some f =>
                   (negb (f_prot f) || named_ok_b o (f_bytes f)) &&
                   (match row w o with
                    | Some v => negb (list_N_eqb (base v) (base o)) || named_ok_b o (f_bytes f)
                    | None => true
                    end) &&
                   (negb (is_dir o && named_ok_b o (f_bytes f)) || kids_ok w (f_bytes f))
               end) (w_objs w).

  (* ---- the local store's existence query (LocalHashFileDB.oids_exist -> check), per oid ---- *)
  Definition heal1_steps (w : world) (o : oid) : list astep :=
    match obj w o with
    | None => []                                         (* FileNotFoundError *)
    | Some f =>
        if f_prot f then []                              (* trusted by mode *)
        else
          let '(actual, pre) :=
            match row w o with
            | Some v => (v, [])                          (* valid state row: no re-hash *)
            | None => (H (f_bytes f), [StateSave [(o, H (f_bytes f))]])
            end in
          pre ++ [if list_N_eqb (base actual) (base o) then Chmod o else Remove o]
    end.
  Fixpoint heal_prog (qs : list oid) (w : world) : list astep :=
    match qs with
    | [] => []
    | o :: r => let p := heal1_steps w o in p ++ heal_prog r (run p w)
    end.
  Definition heal (qs : list oid) (w : world) : world := run (heal_prog qs w) w.

  (* ---- program generators ---- *)
  Definition items := list (oid * bytes).
  Definition absent (w : world) (it : oid * bytes) : bool :=
    match obj w (fst it) with None => true | Some _ => false end.

  (* local -> local copy of one object *)
  Definition copy_block (t : N) (it : oid * bytes) : list astep :=
    [Mkdir (pfx (fst it)); CreateTmp t; TmpClean t; CreateTmp t; WriteTmp t (part (snd it));
     WriteTmp t (snd it); Rename t (fst it)].
  Fixpoint copy_blocks (t : N) (l : items) : list astep :=
    match l with [] => [] | it :: r => copy_block t it ++ copy_blocks (t + 1) r end.
  Definition probe_of (l : items) : list astep :=
    match l with [] => [] | it :: _ => [Probe (fst it); ProbeClean (fst it)] end.
  Definition self_rows (l : list oid) : list (oid * oid) := map (fun o => (o, o)) l.

  (* HashFileDB.add(paths, localfs, oids, check_exists=chk) into a local store *)
  Definition add_prog (chk : bool) (t : N) (its : items) (w : world) : list astep :=
    let todo := if chk then filter (absent w) its else its in
    let req := dedup (map fst its) in
    map Mkdir (dedup (map (fun it => pfx (fst it)) todo)) ++ probe_of todo ++ copy_blocks t todo ++
    map Chmod req ++ [StateSave (self_rows req)].

  (* odb.add(path, memfs, oid): a directory object written from memory (no reflink attempt) *)
  Definition mem_block (t : N) (it : oid * bytes) : list astep :=
    [Mkdir (pfx (fst it)); CreateTmp t; WriteTmp t (snd it); MoveTmp t (t + 1); Rename (t + 1) (fst it)].
  Definition mem_add_prog (t : N) (it : oid * bytes) (w : world) : list astep :=
    (if absent w it then mem_block t it else []) ++ [Chmod (fst it); StateSave (self_rows [fst it])].

  (* sequencing of world-dependent programs *)
  Definition prog := world -> list astep.
  Definition seq2 (p q : prog) : prog := fun w => let a := p w in a ++ q (run a w).
  Fixpoint seqs (ps : list prog) : prog :=
    match ps with [] => fun _ => [] | p :: r => seq2 p (seqs r) end.
  Definition nlen {A} (l : list A) : N := N.of_nat (length l).

  (* ---- add with effective verification (per-call verify=True, or the store's default) ----
     HashFileDB.add: pre-add check of every requested oid (in path order), the copies, then per
     requested oid check + protect (protect only if the check did not drop the object), then the
     state transaction for the paths that exist. *)
  Definition present (w : world) (o : oid) : bool :=
    match obj w o with Some _ => true | None => false end.
  Definition vpost1 (w : world) (o : oid) : list astep :=
    let h := heal1_steps w o in
    if present (run h w) o then h ++ [Chmod o] else h.
  Fixpoint vpost (req : list oid) : prog :=
    fun w => match req with
             | [] => []
             | o :: r => let p := vpost1 w o in p ++ vpost r (run p w)
             end.
  Definition vtail (req : list oid) : prog :=
    seq2 (vpost req) (fun w => [StateSave (self_rows (filter (present w) req))]).
  Definition vadd_prog (chk : bool) (t : N) (its : items) : prog :=
    seq2 (heal_prog (map fst its))
         (fun w => let todo := if chk then filter (absent w) its else its in
                   let cp := map Mkdir (dedup (map (fun it => pfx (fst it)) todo)) ++ probe_of todo ++
                             copy_blocks t todo in
                   cp ++ vtail (dedup (map fst its)) (run cp w)).
  Definition mem_vadd_prog (t : N) (it : oid * bytes) : prog :=
    seq2 (heal_prog [fst it])
         (fun w => let cp := if absent w it then mem_block t it else [] in
                   cp ++ vtail [fst it] (run cp w)).
  Definition add_gen (vfy chk : bool) (t : N) (its : items) : prog :=
    if vfy then vadd_prog chk t its else add_prog chk t its.
  Definition mem_add_gen (vfy : bool) (t : N) (it : oid * bytes) : prog :=
    if vfy then mem_vadd_prog t it else mem_add_prog t it.

  (* index.save: all file entries in one add, then one add per directory object.  Temp names are
     numbered in the order they are created. *)
  Fixpoint mem_adds (t : N) (ds : items) : prog :=
    fun w =>
      match ds with
      | [] => []
      | d :: r => let p := mem_add_prog t d w in
                  p ++ mem_adds (if absent w d then t + 2 else t) r (run p w)
      end.
  Definition save_prog (t : N) (files dirs : items) : prog :=
    fun w => seq2 (add_prog true t files) (mem_adds (t + nlen (filter (absent w) files)) dirs) w.

  (* transfer(src, local dest, {dir}, shallow=False): existence query, missing files, directory last;
     _do_transfer adds with check_exists=False (only what the query reported missing is added).
     [qs] = the order in which the destination is queried (iteration order of a Python set: an
     oracle argument); [mem] = the directory object comes from the in-memory staging store. *)
  Definition dir_add (mem : bool) (t : N) (d : oid * bytes) : prog :=
    fun w => if absent w d then (if mem then mem_add_prog t d w else add_prog false t [d] w) else [].
  Definition files_add (t : N) (files : items) : prog :=
    fun w => match filter (absent w) files with [] => [] | new => add_prog false t new w end.
  Definition transfer_prog (mem : bool) (t : N) (qs : list oid) (files : items) (d : oid * bytes) : prog :=
    seq2 (heal_prog qs)
         (fun w => seq2 (files_add t files) (dir_add mem (t + nlen (filter (absent w) files)) d) w).

  (* ---- the same scenarios with verification switched on ---- *)
  Definition n_ren (p : list astep) : N :=
    nlen (filter (fun s => match s with Rename _ _ => true | _ => false end) p).
  Fixpoint mem_vadds (t : N) (ds : items) : prog :=
    fun w =>
      match ds with
      | [] => []
      | d :: r => let p := mem_vadd_prog t d w in p ++ mem_vadds (t + 2 * n_ren p) r (run p w)
      end.
  (* index.save(..., verify=vf) into a store whose default is vd: the per-call flag reaches the add
     of the files only; add_update_tree uses the store's default *)
  Definition save_gen (vf vd : bool) (t : N) (files dirs : items) : prog :=
    fun w => if vf || vd
             then let a := vadd_prog true t files w in
                  a ++ (if vd then mem_vadds else mem_adds) (t + n_ren a) dirs (run a w)
             else save_prog t files dirs w.
  Definition vtransfer_prog (mem : bool) (t : N) (qs : list oid) (files : items) (d : oid * bytes) : prog :=
    seq2 (heal_prog qs)
         (fun w => let a := match filter (absent w) files with [] => [] | new => vadd_prog false t new w end in
                   a ++ (fun w2 => if absent w2 d
                                   then (if mem then mem_vadd_prog (t + n_ren a) d w2
                                         else vadd_prog false (t + n_ren a) [d] w2)
                                   else []) (run a w)).
  Definition transfer_gen (v mem : bool) (t : N) (qs : list oid) (files : items) (d : oid * bytes) : prog :=
    if v then vtransfer_prog mem t qs files d else transfer_prog mem t qs files d.

  (* ---- one transfer() over SEVERAL directories that may share files (_do_transfer) ----
     [ds] = the requested directory objects in the order the source iterates them, [forder] = the
     requested files in the order the adds list them (both set iteration orders: oracle arguments).
     status.new is computed once, after the existence query.  For each new directory, in order:
     bound = new files it lists that no EARLIER directory listed (file_ids &= / -= entry_ids: a shared
     file goes up with the FIRST directory listing it), added with check_exists=False; then the
     directory object; the files no new directory lists come last. *)
  Definition listed (d : oid * bytes) (it : oid * bytes) : bool := mem_oid (fst it) (kids (snd d)).
  Fixpoint mt_loop (v mem : bool) (t : N) (nds : items) (newf : items) : prog :=
    fun w =>
      match nds with
      | [] => match newf with [] => [] | _ => add_gen v false t newf w end
      | d :: r =>
          let bound := filter (listed d) newf in
          let restf := filter (fun it => negb (listed d it)) newf in
          let a := match bound with [] => [] | _ => add_gen v false t bound w end in
          let w2 := run a w in
          let t2 := t + n_ren a in
          let b := if mem then mem_add_gen v t2 d w2 else add_gen v false t2 [d] w2 in
          a ++ b ++ mt_loop v mem (t2 + (if mem then 2 * n_ren b else n_ren b)) r restf (run b w2)
      end.
  Definition mtransfer_prog (v mem : bool) (t : N) (qs : list oid) (ds forder : items) : prog :=
    seq2 (heal_prog qs)
         (fun w => mt_loop v mem t (filter (absent w) ds) (filter (absent w) forder) w).

  (* ---- transfer(..., hardlink=True): workspace files are LINKED into the store ----
     generic.transfer with links [reflink; hardlink; copy]: the reflink attempt (probe at the final name)
     for the first file only, then os.link(src, final) per file (an empty file is created, not linked).
     A link puts the complete content under the final name in one system call; the machine has no
     separate step for it: it is the atomic composition [CreateTmp t; WriteTmp t b; Rename t o] of a
     virtual temp name (the intermediate states are not observable; proving them safe too only
     strengthens the theorems).  The directory object still comes from memory (EXDEV -> copy). *)
  Definition link_block (t : N) (it : oid * bytes) : list astep :=
    [Mkdir (pfx (fst it)); CreateTmp t; WriteTmp t (snd it); Rename t (fst it)].
  Fixpoint link_blocks (t : N) (l : items) : list astep :=
    match l with [] => [] | it :: r => link_block t it ++ link_blocks (t + 1) r end.
  Definition ladd_prog (chk : bool) (t : N) (its : items) (w : world) : list astep :=
    let todo := if chk then filter (absent w) its else its in
    let req := dedup (map fst its) in
    map Mkdir (dedup (map (fun it => pfx (fst it)) todo)) ++ probe_of todo ++ link_blocks t todo ++
    map Chmod req ++ [StateSave (self_rows req)].
  Definition lfiles_add (t : N) (files : items) : prog :=
    fun w => match filter (absent w) files with [] => [] | new => ladd_prog false t new w end.
  Definition ltransfer_prog (t : N) (qs : list oid) (files : items) (d : oid * bytes) : prog :=
    seq2 (heal_prog qs)
         (fun w => seq2 (lfiles_add t files) (dir_add true (t + nlen (filter (absent w) files)) d) w).

  (* build(upload=True): every file first goes to a temp name at the store root *)
  Fixpoint upload_tmps (t : N) (files : items) : list astep :=
    match files with
    | [] => []
    | it :: r => [CreateTmp t; WriteTmp t (snd it); MoveTmp t (t + 1)] ++ upload_tmps (t + 2) r
    end.
  Definition upload_prog (v : bool) (t : N) (qs : list oid) (ups files : items) (d : oid * bytes) : prog :=
    seq2 (fun _ => upload_tmps t ups) (transfer_gen v true (t + 2 * nlen ups) qs files d).

  (* ---- comparison modulo temp names and state rows ---- *)
  Definition store_eq (a b : world) : Prop := forall o, obj a o = obj b o.
End Machine.

Arguments mkF {bytes}. Arguments f_bytes {bytes}. Arguments f_prot {bytes}.
Arguments mkW {bytes}. Arguments w_objs {bytes}. Arguments w_tmps {bytes}.
Arguments w_rows {bytes}. Arguments w_pend {bytes}.

(* ======================================================================================
   The instance evaluated by the correspondence: contents are identified by their digest
   (computed by the harness with hashlib), so bytes := oid and H := identity; [kids] is the
   table of the directory listings in play. *)
Definition kids_tab (tab : list (oid * list oid)) (b : oid) : list oid :=
  match aget list_N_eqb b tab with Some l => l | None => [] end.

Definition cstep := astep_ oid.
Definition cworld := world oid.
(* the content identifier of a half-written copy of b: a table supplied with the case *)
Definition part_tab (tab : list (oid * oid)) (b : oid) : oid :=
  match aget list_N_eqb b tab with Some p => p | None => b end.

(* events without effect on the world are erased before a generated program is compared with a
   recorded trace: mkdir / chmod of fan-out directories, and the state transaction of NO rows (the
   implementation returns before touching the database; an add of no files is not even called) *)
Definition not_mkdir (s : cstep) : bool :=
  match s with Mkdir _ => false | StateSave [] => false | _ => true end.

Definition step_eqb (a b : cstep) : bool :=
  match a, b with
  | Mkdir p, Mkdir q => list_N_eqb p q
  | Probe p, Probe q | ProbeClean p, ProbeClean q | Chmod p, Chmod q | Remove p, Remove q => list_N_eqb p q
  | CreateTmp t, CreateTmp u | TmpClean t, TmpClean u => N.eqb t u
  | WriteTmp t b, WriteTmp u c => N.eqb t u && list_N_eqb b c
  | MoveTmp t t', MoveTmp u u' => N.eqb t u && N.eqb t' u'
  | Rename t o, Rename u p => N.eqb t u && list_N_eqb o p
  | StateSave r, StateSave s =>
      (fix go (x y : list (oid * oid)) : bool :=
         match x, y with
         | [], [] => true
         | (a1, a2) :: x', (b1, b2) :: y' => list_N_eqb a1 b1 && list_N_eqb a2 b2 && go x' y'
         | _, _ => false
         end) r s
  | _, _ => false
  end.
Fixpoint steps_eqb (a b : list cstep) : bool :=
  match a, b with
  | [], [] => true
  | x :: a', y :: b' => step_eqb x y && steps_eqb a' b'
  | _, _ => false
  end.

(* what the harness observes of a store: objects (oid, content id, protected) sorted by oid,
   the multiset of temp contents (sorted), the valid state rows (oid, value) sorted *)
Definition enc_obj (e : oid * file oid) : val :=
  VL [VB (fst e); VB (f_bytes (snd e)); enc_bool (f_prot (snd e))].
Definition enc_objs (w : cworld) : val :=
  VL (map (fun o => match obj oid w o with
                    | Some f => enc_obj (o, f)
                    | None => VL []
                    end) (sort_by lex_leb (map fst (w_objs w)))).
Definition enc_tmps (w : cworld) : val := VL (map VB (sort_by lex_leb (map snd (w_tmps w)))).
Definition enc_rows (w : cworld) : val :=
  VL (map (fun o => match row oid w o with Some v => VL [VB o; VB v] | None => VL [] end)
          (sort_by lex_leb (map fst (w_rows w)))).
Definition enc_world (w : cworld) : val := VL [enc_objs w; enc_tmps w; enc_rows w].

Inductive scen : Type :=
| ScNone
| ScSave (vf vd : bool) (t : N) (files dirs : list (oid * oid))
| ScTransfer (v mem : bool) (t : N) (qs : list oid) (files : list (oid * oid)) (d : oid * oid)
| ScUpload (v : bool) (t : N) (qs : list oid) (ups files : list (oid * oid)) (d : oid * oid)
| ScAdd (v chk : bool) (t : N) (its : list (oid * oid))
| ScMTransfer (v mem : bool) (t : N) (qs : list oid) (ds forder : list (oid * oid))
| ScLTransfer (t : N) (qs : list oid) (files : list (oid * oid)) (d : oid * oid).

Record tcase := mkT {
  t_kids : list (oid * list oid);
  t_parts : list (oid * oid);
  t_cuts : list N;                 (* step counts at which the real store was observed *)
  t_empty : oid;
  t_w0 : cworld;
  t_trace : list cstep;
  t_scen : scen }.

Definition scen_prog (K : oid -> list oid) (cpart : oid -> oid) (e : oid) (sc : scen) : cworld -> list cstep :=
  let H := fun b : oid => b in
  match sc with
  | ScNone => fun _ => []
  | ScSave vf vd t fs ds => save_gen oid H e cpart vf vd t fs ds
  | ScTransfer v mem t qs fs d => transfer_gen oid H e cpart v mem t qs fs d
  | ScUpload v t qs ups fs d => upload_prog oid H e cpart v t qs ups fs d
  | ScAdd v chk t its => add_gen oid H e cpart v chk t its
  | ScMTransfer v mem t qs ds fo => mtransfer_prog oid H K e cpart v mem t qs ds fo
  | ScLTransfer t qs fs d => ltransfer_prog oid H e cpart t qs fs d
  end.

(* [valid ; crash_inv_b at every prefix ; the store (objects, temp contents, valid rows) at every
    observation point ; generated program = recorded trace (Mkdir events erased)] *)
Definition check_trace (c : tcase) : val :=
  let H := fun b : oid => b in
  let K := kids_tab (t_kids c) in
  let sts := prefix_states oid (t_empty c) (t_trace c) (t_w0 c) in
  let fin := run oid (t_empty c) (t_trace c) (t_w0 c) in
  VL [ enc_bool (valid_trace oid H K (t_empty c) (t_trace c) (t_w0 c));
       enc_bool (forallb (crash_inv_b oid H K) sts);
       VL (map (fun i => enc_world (nth (N.to_nat i) sts fin)) (t_cuts c));
       enc_bool (match t_scen c with
                 | ScNone => true
                 | sc => steps_eqb (filter not_mkdir (scen_prog K (part_tab (t_parts c)) (t_empty c) sc (t_w0 c)))
                                   (filter not_mkdir (t_trace c))
                 end) ].
