(* Model of dvc_data/index/diff.py (as of /repo bc9d16e): the breadth-first `_diff`,
   `_detect_renames`, `diff`, and the flat dictionary specification [ref_diff].  The three deciders
   `_diff_meta`, `_diff_hash_info`, `_diff_entry` are NOT modelled by hand: [visit] and
   [classify_key] call the generated [diff_entry] of Gen/IDiff.v (re-translated from the source on
   every run), over the generated records of Gen/PyTypes.v.

   Out of the model (stated in harness/props/c08.py ASSUMPTIONS): `with_unknown` / UNKNOWN
   propagation (DataIndexDirError can only be raised by lazy loading through a storage map,
   which is empty here; the deciders still carry the `unknown` parameter), `roots` other than
   the default [()], the progress callback. *)
From Coq Require Import NArith List Bool.
From DvcData Require Import Base.Val Base.PyBase Gen.PyTypes Gen.IDiff Model.Trie.
Import ListNotations.
Open Scope N_scope.

(* The change kinds and the three deciders are the GENERATED ones (Gen/IDiff.v, re-translated from
   index/diff.py on every run): an edit of _diff_meta / _diff_hash_info / _diff_entry changes
   [diff_meta] / [diff_hash_info] / [diff_entry] below and therefore every proof about them
   (Proofs/IndexDiffProofsBase.v proves the characterisation table against the generated text). *)
Definition typ := ichange.
Notation Add := ichange_ADD.
Notation Modify := ichange_MODIFY.
Notation Rename := ichange_RENAME.
Notation Delete := ichange_DELETE.
Notation Unchanged := ichange_UNCHANGED.
Notation Unknown := ichange_UNKNOWN.
Definition typ_eqb : typ -> typ -> bool := ichange_eqb.

Definition is_none {A} (o : option A) : bool := match o with None => true | Some _ => false end.
Definition is_some {A} (o : option A) : bool := negb (is_none o).

(* meta_cmp_key : Optional[Callable[[Optional[Meta]], Any]]; the result is compared with !=,
   here projected to a number (the translator's type for it) *)
Definition cmp_key := option (option meta -> N).

(* ---- options, changes ------------------------------------------------------------------ *)
Record opts := {
  o_with_renames : bool;
  o_with_unchanged : bool;
  o_hash_only : bool;
  o_meta_only : bool;
  o_meta_cmp_key : cmp_key;
  o_shallow : bool }.

(* Change(typ, old, new); a DataIndexEntry carries its key *)
Record change := { c_typ : typ; c_old : option (key * ientry); c_new : option (key * ientry) }.

Definition tag (k : key) (e : option ientry) : option (key * ientry) :=
  match e with Some e0 => Some (k, e0) | None => None end.

(* Change.key (total here: [] where the source would fail an assertion / raise ValueError) *)
Definition side_key (s : option (key * ientry)) : key := match s with Some (k, _) => k | None => [] end.
Definition change_key (c : change) : key :=
  match c_typ c with
  | Add => side_key (c_new c)
  | Delete => side_key (c_old c)
  | _ => match c_old c with Some (k, _) => k | None => side_key (c_new c) end
  end.

(* ---- _diff ------------------------------------------------------------------------------ *)
(* a dict  key -> info  (the result of dict(index.ls(key, detail=True))) *)
Definition items := list (key * info).

Fixpoint get_item (its : items) (k : key) : option info :=
  match its with
  | [] => None
  | (k', inf) :: r => if key_eqb k k' then Some inf else get_item r k
  end.

Definition info_entry (inf : option info) : option ientry :=       (* (old_info or {}).get("entry") *)
  match inf with Some (_, e) => e | None => None end.
Definition info_isdir (inf : option info) : bool :=                (* .get("type") == "directory" *)
  match inf with Some (d, _) => d | None => false end.
Definition entry_hashed (e : option ientry) : bool :=              (* entry and entry.hash_info *)
  match e with Some e0 => hi_truthy (e_hash_info e0) | None => false end.
Definition entry_hash_isdir (e : option ientry) : bool :=          (* e and e.hash_info and e.hash_info.isdir *)
  match e with
  | Some e0 => hi_truthy (e_hash_info e0) && match e_hash_info e0 with Some h => hi_isdir h | None => false end
  | None => false
  end.

(* diff.py:_get_items (with_unknown left out) *)
Definition get_items (shallow : bool) (i : option index) (k : key) (e : option ientry) : items :=
  match i with
  | None => []
  | Some ix =>
      if shallow && entry_hashed e then []
      else match ls ix k with Some l => l | None => [] end      (* except KeyError: pass *)
  end.

(* the body of `for key in old_items.keys() | new_items.keys()` (diff.py 199-241):
   what is yielded, what is appended to the queue *)
Definition visit (o : opts) (old new : option index) (k : key) (old_info new_info : option info)
  : list change * list (items * items) :=
  let old_entry := info_entry old_info in
  let new_entry := info_entry new_info in
  let t := diff_entry old_entry new_entry (o_hash_only o) (o_meta_only o) (o_meta_cmp_key o) false in
  let todo :=
    if o_hash_only o && negb (o_meta_only o) && negb (o_with_unchanged o) && typ_eqb t Unchanged
       && entry_hash_isdir old_entry
    then []                                    (* skipping the whole branch *)
    else if info_isdir old_info || info_isdir new_info
    then [(get_items (o_shallow o) old k old_entry, get_items (o_shallow o) new k new_entry)]
    else [] in
  let out :=
    if is_none old_entry && is_none new_entry then []
    else if typ_eqb t Unchanged && negb (o_with_unchanged o) then []
    else [{| c_typ := t; c_old := tag k old_entry; c_new := tag k new_entry |}] in
  (out, todo).

(* old_items.keys() | new_items.keys()  (a set: the order is the implementation's business;
   results are compared as multisets) *)
Definition union_keys (oi ni : items) : list key :=
  map fst oi ++ filter (fun k => negb (mem_key k (map fst oi))) (map fst ni).

Definition step_out (o : opts) (old new : option index) (it : items * items) : list change :=
  flat_map (fun k => fst (visit o old new k (get_item (fst it) k) (get_item (snd it) k)))
           (union_keys (fst it) (snd it)).
Definition step_todo (o : opts) (old new : option index) (it : items * items) : list (items * items) :=
  flat_map (fun k => snd (visit o old new k (get_item (fst it) k) (get_item (snd it) k)))
           (union_keys (fst it) (snd it)).

(* `while todo: item = todo.popleft(); ...; todo.append(..); yield ..` with explicit fuel
   (one unit per popleft); None = out of fuel *)
Section Queue.
  Context {A B : Type} (out : A -> list B) (kids : A -> list A).
  Fixpoint bfsq (fuel : nat) (q : list A) : option (list B) :=
    match q with
    | [] => Some []
    | a :: r =>
        match fuel with
        | O => None
        | S f => option_map (app (out a)) (bfsq f (r ++ kids a))
        end
    end.
End Queue.

Definition root_items (i : option index) : items :=
  match i with
  | None => []
  | Some ix => match get_info ix [] with Some inf => [([], inf)] | None => [] end
  end.

(* diff.py:_diff with roots = [()] *)
Definition diff_core (o : opts) (old new : option index) (fuel : nat) : option (list change) :=
  bfsq (step_out o old new) (step_todo o old new) fuel [(root_items old, root_items new)].

(* enough fuel for every pair of indexes: one pop per node plus the root item *)
Definition idx (i : option index) : index := match i with Some ix => ix | None => [] end.
Definition fuel_for (old new : option index) : nat :=
  S (S (length (nodes (idx old)) + length (nodes (idx new)))).

(* ---- _detect_renames ---------------------------------------------------------------------- *)
Definition is_add (c : change) : bool := typ_eqb (c_typ c) Add.
Definition is_del (c : change) : bool := typ_eqb (c_typ c) Delete.
Definition is_other (c : change) : bool := negb (is_add c) && negb (is_del c).

Definition side_hash (s : option (key * ientry)) : option hashinfo :=   (* x.hash_info if x else None *)
  match s with Some (_, e) => e_hash_info e | None => None end.

Definition change_leb (a b : change) : bool := key_leb (change_key a) (change_key b).

(* deleted_dict[h] is a FIFO queue of the deletions with hash h in sorted order; taking from
   the queue of [h] = taking the first remaining deletion whose hash equals [h] *)
Fixpoint take_first (h : option hashinfo) (dels : list change) : option (change * list change) :=
  match dels with
  | [] => None
  | d :: r =>
      if opt_eqb hashinfo_eqb (side_hash (c_old d)) h then Some (d, r)
      else match take_first h r with
           | Some (x, r') => Some (x, d :: r')
           | None => None
           end
  end.

Fixpoint pair_adds (adds dels : list change) : list change * list change :=
  match adds with
  | [] => ([], dels)
  | a :: r =>
      let nh := side_hash (c_new a) in
      match (if hi_truthy nh then take_first nh dels else None) with
      | Some (d, dels') =>
          let '(out, rest) := pair_adds r dels' in
          ({| c_typ := Rename; c_old := c_old d; c_new := c_new a |} :: out, rest)
      | None =>
          let '(out, rest) := pair_adds r dels in (a :: out, rest)
      end
  end.

Definition detect_renames (cs : list change) : list change :=
  let added := sort_by change_leb (filter is_add cs) in
  let deleted := sort_by change_leb (filter is_del cs) in
  let '(out, rest) := pair_adds added deleted in
  filter is_other cs ++ out ++ rest.

(* ---- diff ----------------------------------------------------------------------------------- *)
Inductive dres := DOk (l : list change) | DErr (code : N) | DFuel.

Definition diff (o : opts) (old new : option index) (fuel : nat) : dres :=
  match diff_core o old new fuel with
  | None => DFuel
  | Some cs =>
      if o_with_renames o && is_some old && is_some new
      then if o_meta_only o then DErr 10                        (* assert not meta_only *)
           else DOk (detect_renames cs)
      else DOk cs
  end.

(* ---- build histories ------------------------------------------------------------------------------------ *)
(* A real index (in memory or SQLite backed) is built by a history of `index[k] = e`, `del index[k]` /
   `pop(k)` / `delete_node(leaf)`, reads, commits and close + reopen.  The model of an index is the FINAL
   key -> entry map of that history and nothing else: [diff] is a function of the two final maps by
   construction (Proofs: [diff_final_map_only]).  The harness builds real indexes through histories,
   hands the history to [final_map] and compares. *)
Inductive hop := HSet (k : key) (e : ientry) | HDel (k : key).
Definition drop_key (k : key) (i : index) : index := filter (fun kv => negb (key_eqb (fst kv) k)) i.
Definition apply_hop (i : index) (op : hop) : index :=
  match op with
  | HSet k e => (k, e) :: drop_key k i
  | HDel k => drop_key k i
  end.
Definition final_map (h : list hop) : index := fold_left apply_hop h [].

(* ---- `roots` (diff.py 175-194): one queue item per root, `roots or [()]` ------------------------------ *)
Definition root_items_at (i : option index) (r : key) : items :=
  match i with
  | None => []
  | Some ix => match get_info ix r with Some inf => [(r, inf)] | None => [] end      (* except KeyError: pass *)
  end.
Definition eff_roots (rs : list key) : list key := match rs with [] => [[]] | _ => rs end.
Definition root_queue (old new : option index) (rs : list key) : list (items * items) :=
  map (fun r => (root_items_at old r, root_items_at new r)) (eff_roots rs).

Definition diff_core_roots (o : opts) (old new : option index) (rs : list key) (fuel : nat) : option (list change) :=
  bfsq (step_out o old new) (step_todo o old new) fuel (root_queue old new rs).

Definition fuel_for_roots (old new : option index) (rs : list key) : nat :=
  S (length (eff_roots rs) * fuel_for old new).

Definition diff_roots (o : opts) (old new : option index) (rs : list key) (fuel : nat) : dres :=
  match diff_core_roots o old new rs fuel with
  | None => DFuel
  | Some cs =>
      if o_with_renames o && is_some old && is_some new
      then if o_meta_only o then DErr 10 else DOk (detect_renames cs)
      else DOk cs
  end.

(* ---- the flat specification: a key-by-key comparison of two dictionaries --------------------- *)
Definition classify_key (o : opts) (k : key) (a b : option ientry) : list change :=
  let a' := option_map norm_meta a in
  let b' := option_map norm_meta b in
  let t := diff_entry a' b' (o_hash_only o) (o_meta_only o) (o_meta_cmp_key o) false in
  if is_none a && is_none b then []
  else if typ_eqb t Unchanged && negb (o_with_unchanged o) then []
  else [{| c_typ := t; c_old := tag k a'; c_new := tag k b' |}].

Definition all_keys (old new : option index) : list key :=
  dedup (map fst (idx old) ++ map fst (idx new)).

Definition ref_diff (o : opts) (old new : option index) : list change :=
  flat_map (fun k => classify_key o k (lookup (idx old) k) (lookup (idx new) k)) (all_keys old new).

(* ---- encoders for the correspondence check ---------------------------------------------------- *)
Definition typ_code (t : typ) : N :=
  match t with Add => 1 | Modify => 2 | Rename => 3 | Delete => 4 | Unchanged => 5 | Unknown => 6 end.

Definition flat_bytes (b : list N) : list N := N.of_nat (length b) :: b.
Definition flat_key (k : key) : list N := N.of_nat (length k) :: flat_map flat_bytes k.
Definition flat_optbytes (b : option (list N)) : list N :=
  match b with None => [0] | Some x => 1 :: flat_bytes x end.
Definition flat_side (s : option (key * ientry)) : list N :=
  match s with
  | None => [0]
  | Some (k, e) =>
      1 :: flat_key k
        ++ match e_hash_info e with None => [0] | Some h => 1 :: flat_optbytes (hi_value h) end
        ++ match e_meta e with None => [0] | Some m => [1; if m_isdir m then 1 else 0] end
  end.
(* one change as one string of numbers; the multiset of changes is the sorted list of strings *)
Definition flat_change (c : change) : list N :=
  typ_code (c_typ c) :: flat_side (c_old c) ++ flat_side (c_new c).

Definition enc_changes (l : list change) : val := VL (map VB (sort_bytes (map flat_change l))).

Definition enc_dres (r : dres) : val :=
  match r with
  | DOk l => VL [VN 1; enc_changes l]
  | DErr c => VL [VN 0; VN c]
  | DFuel => VL [VN 2]
  end.

Definition enc_typ (t : typ) : val := VN (typ_code t).

(* ---- compact input constructors used by the generated correspondence cases --------------------- *)
Definition M (isdir : bool) (size nfiles : option N) (isexec : bool) (md5 : option (list N))
           (mtime : option N) (etag : option (list N)) : meta :=
  mk_meta isdir size nfiles isexec None etag None md5 None mtime None false None 1.
Definition H (n v : option (list N)) : hashinfo := mk_hashinfo n v None.
Definition E (m : option meta) (h : option hashinfo) : ientry :=
  mk_ientry None m h None.

(* full constructors (input-space audit): every Meta field incl. the eq=False ones, a HashInfo with an
   obj_name label, an entry with a `loaded` flag *)
Definition MF (isdir : bool) (size nfiles : option N) (isexec : bool)
           (version_id etag checksum md5 : option (list N)) (inode mtime : option N)
           (remote : option (list N)) (is_link : bool) (destination : option (list N)) (nlink : N) : meta :=
  mk_meta isdir size nfiles isexec version_id etag checksum md5 inode mtime remote is_link destination nlink.
Definition H3 (n v o : option (list N)) : hashinfo := mk_hashinfo n v o.
Definition EL (m : option meta) (h : option hashinfo) (l : option bool) : ientry := mk_ientry None m h l.

(* meta_cmp_key = lambda m: (m.isdir, m.isexec) if m else None *)
Definition cmp_isdir_isexec : option meta -> N :=
  fun m => match m with
           | None => 0
           | Some x => 1 + (if m_isdir x then 2 else 0) + (if m_isexec x then 4 else 0)
           end.

(* projections that are None for some existing Meta (the shape of push._meta_checksum):
   meta_cmp_key = lambda m: m.etag if m else None   /   lambda m: m.md5 if m else None.
   Python's None is 0 (so cmp(None) == cmp(Meta without the field)), a string s is 1 + an
   injective code of s *)
Definition enc_str (s : list N) : N := fold_right (fun c acc => (c + 1) + 1114113 * acc) 0 s.
Definition proj_code (f : option (list N)) : N := match f with None => 0 | Some s => 1 + enc_str s end.
Definition cmp_etag : option meta -> N := fun m => match m with None => 0 | Some x => proj_code (m_etag x) end.
Definition cmp_md5 : option meta -> N := fun m => match m with None => 0 | Some x => proj_code (m_md5 x) end.

(* cmp selector: 0 none, 1 (isdir, isexec), 2 etag only, 3 md5 only *)
Definition cmp_of_sel (sel : N) : cmp_key :=
  match sel with
  | 0 => None
  | 1 => Some cmp_isdir_isexec
  | 2 => Some cmp_etag
  | _ => Some cmp_md5
  end.

(* option sets as bit codes: 1 with_renames, 2 with_unchanged, 4 hash_only, 8 meta_only,
   16 meta_cmp_key = (isdir, isexec), 32 shallow, 64 meta_cmp_key = etag, 128 meta_cmp_key = md5
   (16 wins over 64 over 128) *)
Definition opts_of_code (c : N) : opts :=
  {| o_with_renames := N.testbit c 0; o_with_unchanged := N.testbit c 1; o_hash_only := N.testbit c 2;
     o_meta_only := N.testbit c 3;
     o_meta_cmp_key := cmp_of_sel (if N.testbit c 4 then 1 else if N.testbit c 6 then 2
                                   else if N.testbit c 7 then 3 else 0);
     o_shallow := N.testbit c 5 |}.

Definition run_diffs (old new : option index) (codes : list N) : val :=
  VL (map (fun c => enc_dres (diff (opts_of_code c) old new (fuel_for old new))) codes).

Definition run_diffs_roots (old new : option index) (rs : list key) (codes : list N) : val :=
  VL (map (fun c => enc_dres (diff_roots (opts_of_code c) old new rs (fuel_for_roots old new rs))) codes).

(* the deciders on one pair of entries under all 32 flag combinations
   (bit 0 hash_only, 1 meta_only, 2-3 cmp selector, 4 unknown) *)
Definition run_diff_entry (old new : option ientry) : val :=
  VL (map (fun c => enc_typ (diff_entry old new (N.testbit c 0) (N.testbit c 1)
                               (cmp_of_sel ((c / 4) mod 4)) (N.testbit c 4)))
          [0;1;2;3;4;5;6;7;8;9;10;11;12;13;14;15;16;17;18;19;20;21;22;23;24;25;26;27;28;29;30;31]).
Definition run_diff_meta (old new : option meta) : val :=
  VL (map (fun sel => enc_typ (diff_meta old new (cmp_of_sel sel))) [0;1;2;3]).
Definition run_diff_hash_info (old new : option hashinfo) : val := enc_typ (diff_hash_info old new).

(* info / ls / has_node observed through the same encoding *)
Definition enc_info (inf : option info) : val :=
  match inf with
  | None => VL []                                               (* KeyError *)
  | Some (d, e) => VL [enc_bool d; VB (flat_side (tag [] e))]
  end.
Definition run_trie (i : index) (k : key) : val :=
  VL [enc_bool (has_node i k); enc_info (get_info i k);
      match ls i k with
      | None => VL []
      | Some l => VL [VL (map VB (sort_bytes (map (fun ki : key * info => flat_key (fst ki) ++ flat_side (tag [] (snd (snd ki)))
                                                   ++ [if fst (snd ki) then 1 else 0]) l)))]
      end].
