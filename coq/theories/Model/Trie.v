(* Model of the in-memory data index: dvc_data/index/index.py (DataIndex over sqltrie.PyGTrie
   over pygtrie.Trie), as far as index/diff.py observes it.

   An index is a finite map  key |-> entry  (association list; [Wf] in the proofs asks for
   distinct keys).  The *nodes* of the trie are the root and every prefix of a valued key:

     pygtrie  trie[key]       value                      if key carries a value
                              raise ShortKeyError        if key is a node without a value
                              raise KeyError             if key is no node
              (the root is always a node: `DataIndex().info(())` is an implicit directory
               although `has_node(())` is False on the empty trie - observed, and part of the
               correspondence run)
     DataIndex.info(key)      try: entry = self[key]  except ShortKeyError: entry = None
                              return self._info_from_entry(key, entry)      (KeyError propagates)
     _info_from_entry         entry None  -> {"type": "directory", "entry": None}
                              meta = entry.meta ; if meta is None: meta = entry.meta = _get_meta(..)
                              isdir = meta and meta.isdir
     _get_meta                if entry.hash_info: return Meta()     (the entry is MUTATED)
                              else look at storage_map              (empty here -> None)
     DataIndex.ls(key)        _ensure_loaded(key)  (no-op with an empty storage map)
                              ((k, _info_from_entry(k, v)) for k, v in trie.ls(key, with_values=True))
     PyGTrie.ls(key)          the child nodes of key, value None for a value-less child;
                              KeyError if key is no node.

   Not modelled (assumed away, see harness/props/c08.py ASSUMPTIONS): a non-empty storage map
   (lazy loading of directory entries, DataIndexDirError -> UNKNOWN), SQLite backed tries,
   `entry.key` different from the key the entry is stored under. *)
From Coq Require Import NArith List Bool.
From DvcData Require Import Base.Val Base.PyBase Gen.PyTypes.
Import ListNotations.
Open Scope N_scope.

Definition name := list N.            (* one path component, code points *)
(* DataIndexKey = tuple[str, ...] is [key] of Base/PyBase.v.  The records [meta], [hashinfo],
   [ientry] and their attrs equalities ([meta_eqb] and [hashinfo_eqb] compare the eq=True fields
   only) are the GENERATED ones of Gen/PyTypes.v, so that the generated deciders of Gen/IDiff.v
   apply to the entries of this model directly.  [e_key] of an entry is not read by the model:
   an entry is identified by the key it is stored under (ASSUMPTIONS of harness/props/c08.py). *)

Definition meta0 : meta :=            (* Meta() *)
  mk_meta false None None false None None None None None None None false None 1.

(* HashInfo.__bool__ = bool(self.value); `not hi` for hi : Optional[HashInfo] *)
Definition hi_truthy (h : option hashinfo) : bool :=
  match h with
  | Some x => match hi_value x with Some v => truthy_list v | None => false end
  | None => false
  end.

(* HashInfo.isdir: the generated property *)
Definition hi_isdir (h : hashinfo) : bool := HashInfo_isdir h.

Definition index := list (key * ientry).

(* ---- the trie ------------------------------------------------------------------------- *)
Fixpoint lookup (i : index) (k : key) : option ientry :=
  match i with
  | [] => None
  | (k', e) :: r => if key_eqb k k' then Some e else lookup r k
  end.

Fixpoint is_prefix (p k : key) : bool :=
  match p, k with
  | [], _ => true
  | x :: p', y :: k' => list_N_eqb x y && is_prefix p' k'
  | _ :: _, [] => false
  end.

(* pygtrie has_node: the node exists and has a value or children *)
Definition has_node (i : index) (k : key) : bool := existsb (fun kv => is_prefix k (fst kv)) i.
(* _get_node(key) succeeds: the root always does *)
Definition is_node (i : index) (k : key) : bool :=
  match k with [] => true | _ => has_node i k end.

(* index/index.py:_get_meta + the assignment `entry.meta = meta` in _info_from_entry /
   DataIndex.__getitem__ *)
Definition norm_meta (e : ientry) : ientry :=
  match e_meta e with
  | Some _ => e
  | None => if hi_truthy (e_hash_info e)
            then mk_ientry (e_key e) (Some meta0) (e_hash_info e) (e_loaded e)
            else e
  end.

(* the part of the info dict that diff.py reads: ("type" == "directory", "entry") *)
Definition info := (bool * option ientry)%type.

(* `isdir = meta and meta.isdir` after `entry.meta = meta`: the generated DataIndexEntry.isdir *)
Definition entry_isdir (e : ientry) : bool := DataIndexEntry_isdir e.

Definition info_from_entry (e : option ientry) : info :=
  match e with
  | None => (true, None)
  | Some e0 => let e' := norm_meta e0 in (entry_isdir e', Some e')
  end.

(* None = KeyError *)
Definition get_info (i : index) (k : key) : option info :=
  match lookup i k with
  | Some e => Some (info_from_entry (Some e))
  | None => if is_node i k then Some (info_from_entry None) else None
  end.

Definition mem_key (k : key) (l : list key) : bool := existsb (key_eqb k) l.

Fixpoint dedup (l : list key) : list key :=
  match l with
  | [] => []
  | x :: r => if mem_key x r then dedup r else x :: dedup r
  end.

(* the child of [k] on the way to [k'] (k a strict prefix of k') *)
Definition child_toward (k k' : key) : list key :=
  if is_prefix k k' && Nat.ltb (length k) (length k') then [firstn (S (length k)) k'] else [].

Definition child_nodes (i : index) (k : key) : list key :=
  dedup (flat_map (fun kv => child_toward k (fst kv)) i).

(* DataIndex.ls(key, detail=True); None = KeyError *)
Definition ls (i : index) (k : key) : option (list (key * info)) :=
  if is_node i k
  then Some (map (fun c => (c, info_from_entry (lookup i c))) (child_nodes i k))
  else None.

(* every node of the trie: the root and all prefixes of valued keys *)
Fixpoint prefixes (k : key) : list key :=
  match k with
  | [] => [[]]
  | x :: r => [] :: map (cons x) (prefixes r)
  end.
Definition nodes (i : index) : list key := dedup ([] :: flat_map (fun kv => prefixes (fst kv)) i).

(* ---- tuple-of-str ordering (Change.key sorting in _detect_renames) -------------------- *)
Fixpoint key_ltb (a b : key) : bool :=
  match a, b with
  | [], [] => false
  | [], _ :: _ => true
  | _ :: _, [] => false
  | x :: a', y :: b' => if lex_ltb x y then true else if list_N_eqb x y then key_ltb a' b' else false
  end.
Definition key_leb (a b : key) : bool := negb (key_ltb b a).
