(* C16 - N concurrent writers into ONE object store sharing ONE hash-state database.

   What is modelled (source as it is in /repo now + dvc_objects as installed):

     transfer(staging, odb, {dir}, shallow=False)
       compare_status -> dest.oids_exist(...)            the exists-check of EVERY requested id
            LocalHashFileDB.check : protected (0o444) -> exists ; unprotected -> re-hash,
                 equal -> os.chmod 0o444, exists ; different -> os.remove, "new"
            HashFileDB            : the name exists -> exists
       _do_transfer(..., check_exists=False)             files of the directory first, the
            dest.add(paths, fs, oids)                    directory object LAST
              ObjectDB._init           os.mkdir of the fan-out directory, tolerant
              generic.transfer, per id, links = [reflink, copy]:
                 system.reflink        os.open(FINAL NAME, O_WRONLY|O_CREAT|O_TRUNC)   <- [ProbeOpen]
                                       ioctl FICLONE fails here -> os.unlink(FINAL NAME) <- [ProbeUnlink]
                 LocalFileSystem.put_file   copy to <fanout>/.<random>.tmp             <- [CopyTmp]
                                            os.replace(tmp, FINAL NAME)                <- [Rename]
                 (directory object: as_atomic temp, fs.move = two renames              <- [RenameTmp], [Rename])
              protect                  os.chmod 0o444 (LocalHashFileDB only)           <- [Chmod]
              state.save_many          ONE HashesCache.set_many transaction            <- [StateUpsert]

   The reflink probe is part of the real protocol and is NOT harmless under concurrency: it
   truncates and unlinks whatever another writer has already placed under the final name.  The
   model keeps it (steps [ProbeOpen]/[ProbeUnlink]); the invariant proved in
   Proofs/ConcurrentProofs.v is the one that survives it ("whoever destroys a name still owes
   its re-creation by an atomic rename of a complete private temp").

   A writer is a *program*: a list of atomic steps.  Which steps a writer issues depends on what
   it observed ([ExistsCheck o true] = "I saw o, I will not copy it"); the model does not fix
   that choice: every program that is [legal] for the writer's workload is allowed, and the
   observation is an *enabledness condition* of the step ([ExistsCheck o true] can only fire if
   o has been placed under its final name before).  A schedule is a list of writer indices;
   [run] interleaves.  All theorems quantify over all legal programs and all schedules.

   stdlib lists only.  Writer ids are [nat] (indices into the list of workloads). *)
From Coq Require Import NArith List Bool Arith.
From DvcData Require Import Base.Val.
Import ListNotations.
Open Scope N_scope.

Definition oid := list N.
Definition bytes := list N.

(* ------------------------------------------------------------------------------------------ *)
(* association lists with a boolean key equality; [put] keeps keys unique                      *)
Section Assoc.
  Context {K V : Type} (eqb : K -> K -> bool).
  Fixpoint get (k : K) (l : list (K * V)) : option V :=
    match l with
    | [] => None
    | (k', v) :: r => if eqb k k' then Some v else get k r
    end.
  Fixpoint del (k : K) (l : list (K * V)) : list (K * V) :=
    match l with
    | [] => []
    | (k', v) :: r => if eqb k k' then del k r else (k', v) :: del k r
    end.
  Definition put (k : K) (v : V) (l : list (K * V)) : list (K * V) := (k, v) :: del k l.
End Assoc.

Definition tkey := (nat * N)%type.               (* a temp name: (owner, serial) - private by construction *)
Definition tkey_eqb (a b : tkey) : bool := Nat.eqb (fst a) (fst b) && N.eqb (snd a) (snd b).

Definition oget {V} := @get oid V list_N_eqb.
Definition odel {V} := @del oid V list_N_eqb.
Definition oput {V} := @put oid V list_N_eqb.
Definition tget {V} := @get tkey V tkey_eqb.
Definition tdel {V} := @del tkey V tkey_eqb.
Definition tput {V} := @put tkey V tkey_eqb.

Definition memo (o : list N) (l : list (list N)) : bool := existsb (list_N_eqb o) l.

(* ------------------------------------------------------------------------------------------ *)
(* the world                                                                                    *)
Record file := mkfile {
  f_id : N;            (* identity of this content under this name: stands for the (ino, mtime, size) token *)
  f_bytes : bytes;
  f_prot : bool }.     (* mode 0o444 *)

Record world := mkworld {
  w_objs : list (oid * file);                 (* final names *)
  w_tmps : list (tkey * (oid * bytes));       (* temp names: destined id, contents *)
  w_rows : list (oid * N);                    (* state rows: path of the object |-> token, value = that id *)
  w_ever : list oid;                          (* ghost: ids that have ever been placed under their final name *)
  w_next : N;                                 (* next fresh token *)
  w_dirs : list (list N) }.                   (* fan-out directories that exist *)

Definition w0 : world := mkworld [] [] [] [] 0 [].

Inductive step :=
| ExistsCheck (o : oid) (found : bool)   (* status: found = true -> the writer will not copy o *)
| Remove (o : oid)                       (* LocalHashFileDB.check drops an unprotected mismatching file *)
| Mkdir (p : list N)                     (* tolerant *)
| ProbeOpen (o : oid)                    (* reflink attempt: open(final, O_CREAT|O_TRUNC) *)
| ProbeUnlink (o : oid)                  (* its clean-up: unlink(final) *)
| CopyTmp (t : N) (o : oid)              (* the writer's own source for o copied to its private temp t *)
| RenameTmp (t t' : N)                   (* temp -> temp (first hop of fs.move for the directory object) *)
| Rename (t : N) (o : oid)               (* atomic rename temp -> final name *)
| Chmod (o : oid)                        (* protect: chmod 0o444, tolerant *)
| StateUpsert (os : list oid).           (* one transaction: a row for every listed id that is present *)

Definition program := list step.
Definition items := list (oid * bytes).      (* a writer's workload: files, directory object last *)

Definition prefix (o : oid) : list N := firstn 2 o.

Definition upsert_rows (objs : list (oid * file)) (os : list oid) (rows : list (oid * N)) : list (oid * N) :=
  fold_left (fun acc o => match oget o objs with
                          | Some f => oput o (f_id f) acc
                          | None => acc          (* FileNotFoundError: skipped *)
                          end) os rows.

(* [exec its i s w]: writer i (workload its) performs s; None = the step cannot happen here *)
Definition exec (its : items) (i : nat) (s : step) (w : world) : option world :=
  match s with
  | ExistsCheck o found =>
      if found then (if memo o (w_ever w) then Some w else None) else Some w
  | Remove o =>
      match oget o its with
      | None => None
      | Some _ => Some (mkworld (odel o (w_objs w)) (w_tmps w) (w_rows w) (w_ever w) (w_next w) (w_dirs w))
      end
  | Mkdir p =>
      Some (mkworld (w_objs w) (w_tmps w) (w_rows w) (w_ever w) (w_next w)
                    (if memo p (w_dirs w) then w_dirs w else p :: w_dirs w))
  | ProbeOpen o =>
      match oget o its with
      | None => None
      | Some _ =>
          if memo (prefix o) (w_dirs w) then
            let pr := match oget o (w_objs w) with Some f => f_prot f | None => false end in
            Some (mkworld (oput o (mkfile (w_next w) [] pr) (w_objs w)) (w_tmps w) (w_rows w)
                          (o :: w_ever w) (N.succ (w_next w)) (w_dirs w))
          else None
      end
  | ProbeUnlink o =>
      match oget o its with
      | None => None
      | Some _ => Some (mkworld (odel o (w_objs w)) (w_tmps w) (w_rows w) (w_ever w) (w_next w) (w_dirs w))
      end
  | CopyTmp t o =>
      match oget o its with
      | None => None
      | Some b =>
          if memo (prefix o) (w_dirs w) then
            Some (mkworld (w_objs w) (tput (i, t) (o, b) (w_tmps w)) (w_rows w) (w_ever w) (w_next w) (w_dirs w))
          else None
      end
  | RenameTmp t t' =>
      match tget (i, t) (w_tmps w) with
      | None => None
      | Some x => Some (mkworld (w_objs w) (tput (i, t') x (tdel (i, t) (w_tmps w))) (w_rows w) (w_ever w)
                                (w_next w) (w_dirs w))
      end
  | Rename t o =>
      match tget (i, t) (w_tmps w) with
      | None => None
      | Some (o', b) =>
          if list_N_eqb o' o then
            Some (mkworld (oput o (mkfile (w_next w) b false) (w_objs w)) (tdel (i, t) (w_tmps w)) (w_rows w)
                          (o :: w_ever w) (N.succ (w_next w)) (w_dirs w))
          else None
      end
  | Chmod o =>
      match oget o (w_objs w) with
      | Some f => Some (mkworld (oput o (mkfile (f_id f) (f_bytes f) true) (w_objs w)) (w_tmps w) (w_rows w)
                                (w_ever w) (w_next w) (w_dirs w))
      | None => Some w
      end
  | StateUpsert os =>
      Some (mkworld (w_objs w) (w_tmps w) (upsert_rows (w_objs w) os (w_rows w)) (w_ever w) (w_next w) (w_dirs w))
  end.

(* ------------------------------------------------------------------------------------------ *)
(* legal programs: the protocol discipline of one writer, a syntactic (boolean) condition       *)

Definition is_rename_of (o : oid) (s : step) : bool :=
  match s with Rename _ o' => list_N_eqb o' o | _ => false end.
Definition is_chmod_of (o : oid) (s : step) : bool :=
  match s with Chmod o' => list_N_eqb o' o | _ => false end.
Definition is_skip_of (o : oid) (s : step) : bool :=
  match s with ExistsCheck o' true => list_N_eqb o' o | _ => false end.

(* the condition on one step given the rest of the program after it *)
Definition step_ok (loc : bool) (its : items) (s : step) (post : program) : bool :=
  match s with
  | Remove o | ProbeOpen o | ProbeUnlink o => existsb (is_rename_of o) post     (* who destroys, re-creates *)
  | Rename _ o => if loc then existsb (is_chmod_of o) post else true            (* who places, protects *)
  | Chmod _ => loc                                                              (* HashFileDB never chmods *)
  | StateUpsert os => forallb (fun o => match oget o its with Some _ => true | None => false end) os
  | _ => true
  end.

Fixpoint legal_from (loc : bool) (its : items) (p : program) : bool :=
  match p with
  | [] => true
  | s :: post => step_ok loc its s post && legal_from loc its post
  end.

(* every requested id is either skipped on observation or renamed into place *)
Definition covers (its : items) (p : program) : bool :=
  forallb (fun ob => existsb (is_skip_of (fst ob)) p || existsb (is_rename_of (fst ob)) p) its.

Definition legal (loc : bool) (its : items) (p : program) : bool :=
  covers its p && legal_from loc its p.

(* ------------------------------------------------------------------------------------------ *)
(* schedules                                                                                    *)

Fixpoint upd {A} (i : nat) (x : A) (l : list A) : list A :=
  match l, i with
  | [], _ => []
  | _ :: r, O => x :: r
  | a :: r, S j => a :: upd j x r
  end.

(* a grant to a writer that has finished (or does not exist) is skipped, as the harness'
   scheduler does; a grant whose step is not enabled makes the run fail (None) *)
Fixpoint run (wls : list items) (sched : list nat) (w : world) (ps : list program)
  : option (world * list program) :=
  match sched with
  | [] => Some (w, ps)
  | i :: r =>
      match nth_error ps i with
      | Some (s :: rest) =>
          match exec (nth i wls []) i s w with
          | Some w' => run wls r w' (upd i rest ps)
          | None => None
          end
      | _ => run wls r w ps
      end
  end.

Definition all_done (ps : list program) : bool :=
  forallb (fun p => match p with [] => true | _ => false end) ps.

Fixpoint legal_all (loc : bool) (wls : list items) (ps : list program) : bool :=
  match wls, ps with
  | [], [] => true
  | its :: wr, p :: pr => legal loc its p && legal_all loc wr pr
  | _, _ => false
  end.

(* ------------------------------------------------------------------------------------------ *)
(* traces (what the harness records): (writer, step) in execution order                         *)

Definition project (n : nat) (tr : list (nat * step)) : list program :=
  map (fun i => map snd (filter (fun e => Nat.eqb (fst e) i) tr)) (seq 0 n).

Definition final_of (wls : list items) (tr : list (nat * step)) : option (world * list program) :=
  run wls (map fst tr) w0 (project (length wls) tr).

(* accepted = every writer's projection is a legal program for its workload, every recorded step
   was enabled when it happened, nothing is left to do, no event of an unknown writer *)
Definition valid_trace (loc : bool) (wls : list items) (tr : list (nat * step)) : bool :=
  forallb (fun e => Nat.ltb (fst e) (length wls)) tr &&
  legal_all loc wls (project (length wls) tr) &&
  match final_of wls tr with
  | Some (_, ps') => all_done ps'
  | None => false
  end.

(* the store a set of workloads must end in, as a function of the workloads alone *)
Definition all_items (wls : list items) : items := concat wls.
Definition expected (loc : bool) (wls : list items) (o : oid) : option (bytes * bool) :=
  match oget o (all_items wls) with
  | Some b => Some (b, loc)
  | None => None
  end.
Definition view (w : world) (o : oid) : option (bytes * bool) :=
  match oget o (w_objs w) with
  | Some f => Some (f_bytes f, f_prot f)
  | None => None
  end.

(* boolean form of "the final store is exactly the expected one" (used by the correspondence) *)
Definition store_matches (loc : bool) (wls : list items) (w : world) : bool :=
  forallb (fun ob => match view w (fst ob), expected loc wls (fst ob) with
                     | Some (b, p), Some (b', p') => list_N_eqb b b' && Bool.eqb p p'
                     | _, _ => false
                     end) (all_items wls) &&
  forallb (fun of => match expected loc wls (fst of) with Some _ => true | None => false end) (w_objs w).

(* ------------------------------------------------------------------------------------------ *)
(* encoders for the correspondence                                                              *)

Definition enc_file (of : oid * file) : val :=
  VL [VB (fst of); VB (f_bytes (snd of)); VN (if f_prot (snd of) then 1 else 0)].

Definition sort_objs (l : list (oid * file)) : list (oid * file) :=
  sort_by (fun a b => lex_leb (fst a) (fst b)) l.

(* [1; store sorted by id; ids with a state row (sorted set); number of left-over temps;
       1 iff store = expected workloads]   or   [0] when the trace is rejected *)
Definition enc_check (loc : bool) (wls : list items) (tr : list (nat * step)) : val :=
  if valid_trace loc wls tr then
    match final_of wls tr with
    | Some (w, _) =>
        VL [VN 1; VL (map enc_file (sort_objs (w_objs w))); enc_set (map fst (w_rows w));
            VN (N.of_nat (length (w_tmps w))); VN (if store_matches loc wls w then 1 else 0)]
    | None => VL [VN 0]
    end
  else VL [VN 0].

Definition check_in := (bool * list items * list (nat * step))%type.
Definition enc_check_in (c : check_in) : val := enc_check (fst (fst c)) (snd (fst c)) (snd c).

(* ------------------------------------------------------------------------------------------ *)
(* runs that start from a PRE-POPULATED store: some requested objects are already present,      *)
(* complete, protected iff the store is local                                                   *)

Fixpoint pre_objs (loc : bool) (n : N) (pre : items) : list (oid * file) :=
  match pre with
  | [] => []
  | ob :: r => (fst ob, mkfile n (snd ob) loc) :: pre_objs loc (N.succ n) r
  end.

Definition pre_world (loc : bool) (pre : items) : world :=
  mkworld (pre_objs loc 0 pre) [] [] (map fst pre) (N.of_nat (length pre))
          ([] :: map (fun ob => prefix (fst ob)) pre).

Definition pre_ok (wls : list items) (pre : items) : bool :=
  forallb (fun ob => match oget (fst ob) (all_items wls) with
                     | Some b => list_N_eqb b (snd ob)
                     | None => false
                     end) pre.

Definition final_of_pre (loc : bool) (wls : list items) (pre : items) (tr : list (nat * step))
  : option (world * list program) :=
  run wls (map fst tr) (pre_world loc pre) (project (length wls) tr).

Definition valid_trace_pre (loc : bool) (wls : list items) (pre : items) (tr : list (nat * step)) : bool :=
  pre_ok wls pre &&
  forallb (fun e => Nat.ltb (fst e) (length wls)) tr &&
  legal_all loc wls (project (length wls) tr) &&
  match final_of_pre loc wls pre tr with
  | Some (_, ps') => all_done ps'
  | None => false
  end.

(* same shape as [enc_check] *)
Definition enc_check_pre (loc : bool) (wls : list items) (pre : items) (tr : list (nat * step)) : val :=
  if valid_trace_pre loc wls pre tr then
    match final_of_pre loc wls pre tr with
    | Some (w, _) =>
        VL [VN 1; VL (map enc_file (sort_objs (w_objs w))); enc_set (map fst (w_rows w));
            VN (N.of_nat (length (w_tmps w))); VN (if store_matches loc wls w then 1 else 0)]
    | None => VL [VN 0]
    end
  else VL [VN 0].

Definition check_in_pre := (bool * list items * items * list (nat * step))%type.
Definition enc_check_in_pre (c : check_in_pre) : val :=
  match c with (loc, wls, pre, tr) => enc_check_pre loc wls pre tr end.

(* ------------------------------------------------------------------------------------------ *)
(* verify=True (transfer(..., verify=True) -> HashFileDB.add(verify=True)): after the copy, add()
   runs check(o, check_hash=True) on every id of the batch:
     LocalHashFileDB.check trusts a protected (0o444) file; otherwise the file is re-hashed;
       equal      -> fine                                                          [VerifyOk]
       absent     -> FileNotFoundError, swallowed by add()                         [VerifyOk]
       different  -> the id is reported through on_error (TransferResult.failed)   [VerifyBad]
                     and THEN, in a separate system call, whatever is under the
                     name at that moment is removed (FileNotFoundError suppressed)  [VerifyDrop]
   The read and the remove are two steps: other writers can run in between (HashFileDB.check is
   hash-then-remove, not atomic).
   (the check BEFORE the copy drops a mismatching file and the copy follows: that is [Remove]).
   A [vworld] carries the list of (writer, id) reported failed. *)
Inductive vstep :=
| Base (s : step)
| VerifyOk (o : oid)
| VerifyBad (o : oid)
| VerifyDrop (o : oid)
| VLink (o : oid) (b : bytes).   (* hardlink=True: os.link(source, final name); b = what the source holds NOW
                                    (it may have been rewritten after staging); FileExistsError = skip *)

Definition vworld := (world * list (nat * oid))%type.

Definition verify_accepts (loc : bool) (b : bytes) (f : file) : bool :=
  (loc && f_prot f) || list_N_eqb (f_bytes f) b.

Definition vexec (loc : bool) (its : items) (i : nat) (s : vstep) (v : vworld) : option vworld :=
  match s with
  | Base s0 => match exec its i s0 (fst v) with Some w' => Some (w', snd v) | None => None end
  | VerifyOk o =>
      match oget o its with
      | None => None
      | Some b => match oget o (w_objs (fst v)) with
                  | None => Some v
                  | Some f => if verify_accepts loc b f then Some v else None
                  end
      end
  | VerifyBad o =>
      match oget o its with
      | None => None
      | Some b => match oget o (w_objs (fst v)) with
                  | None => None
                  | Some f => if verify_accepts loc b f then None else Some (fst v, (i, o) :: snd v)
                  end
      end
  | VerifyDrop o =>
      match oget o its with
      | None => None
      | Some _ => let w := fst v in
                  Some (mkworld (odel o (w_objs w)) (w_tmps w) (w_rows w) (w_ever w) (w_next w) (w_dirs w), snd v)
      end
  | VLink o b =>
      match oget o its with
      | None => None
      | Some _ =>
          let w := fst v in
          if memo (prefix o) (w_dirs w) then
            match oget o (w_objs w) with
            | Some _ => Some v                                   (* the name exists: skipped *)
            | None => Some (mkworld (oput o (mkfile (w_next w) b false) (w_objs w)) (w_tmps w) (w_rows w)
                                    (o :: w_ever w) (N.succ (w_next w)) (w_dirs w), snd v)
            end
          else None
      end
  end.

Fixpoint vrun (loc : bool) (wls : list items) (sched : list nat) (v : vworld) (ps : list (list vstep))
  : option (vworld * list (list vstep)) :=
  match sched with
  | [] => Some (v, ps)
  | i :: r =>
      match nth_error ps i with
      | Some (s :: rest) =>
          match vexec loc (nth i wls []) i s v with
          | Some v' => vrun loc wls r v' (upd i rest ps)
          | None => None
          end
      | _ => vrun loc wls r v ps
      end
  end.

Definition vdone (ps : list (list vstep)) : bool :=
  forallb (fun p => match p with [] => true | _ => false end) ps.
Definition lift (ps : list program) : list (list vstep) := map (map Base) ps.

Definition vproject (n : nat) (tr : list (nat * vstep)) : list (list vstep) :=
  map (fun i => map snd (filter (fun e => Nat.eqb (fst e) i) tr)) (seq 0 n).

(* simulation check for recorded verify=True traces (no legality: a writer whose verification
   failed legitimately stops short): every step enabled, nothing left, and the outcome
   [1; store; ids with a row; left-over temps; set of (writer byte :: id) reported failed] *)
Definition enc_vsim (loc : bool) (wls : list items) (pre : items) (tr : list (nat * vstep)) : val :=
  if pre_ok wls pre && forallb (fun e => Nat.ltb (fst e) (length wls)) tr then
    match vrun loc wls (map fst tr) (pre_world loc pre, []) (vproject (length wls) tr) with
    | Some ((w, fl), ps') =>
        if vdone ps' then
          VL [VN 1; VL (map enc_file (sort_objs (w_objs w))); enc_set (map fst (w_rows w));
              VN (N.of_nat (length (w_tmps w)));
              enc_set (map (fun io => N.of_nat (fst io) :: snd io) fl)]
        else VL [VN 0]
    | None => VL [VN 0]
    end
  else VL [VN 0].
Definition vsim_in := (bool * list items * items * list (nat * vstep))%type.
Definition enc_vsim_in (c : vsim_in) : val := match c with (loc, wls, pre, tr) => enc_vsim loc wls pre tr end.
