(* Model of hashfile/hash.py: the chunked driver fobj_md5 and the algorithm selection,
   on top of the *generated* stream reads (Gen/Hash.v, regenerated from the source on every
   run) and the hand-written environment Base/PyStream.v.

     def fobj_md5(fobj, chunk_size=2**20, name="md5"):
         stream = get_hash_stream(fobj, name=name)
         while True:
             data = stream.read(chunk_size)
             if not data: break
         return stream.hash_value

     def get_hash_stream(fobj, name):   cls = Dos2Unix... if name == "md5-dos2unix" else HashStreamFile
     HashStreamFile.__init__:           hash_name = hash_name.lower(); hasher = get_hasher(hash_name)
     def get_hasher(name):              "blake3" -> blake3 ; "md5-dos2unix" -> md5 ; else hashlib *)
From Coq Require Import NArith ZArith List Bool.
From DvcData Require Import Base.Val Base.PyBase Base.PyStream Gen.Hash.
Import ListNotations.
Open Scope N_scope.

Definition init_stream (content : list N) (cuts : list N) : hstream :=
  mk_hstream (mk_fobj content cuts) [] 0.

(* one read of either stream class; None = AssertionError (dos2unix read with n < 512) *)
Definition stream_read (d2u : bool) (s : hstream) (n : Z) : option (list N * hstream) :=
  if d2u then Dos2UnixHashStreamFile_read s n else Some (HashStreamFile_read s n).

(* the while-loop of fobj_md5; fuel exhaustion (None) is excluded by the theorems for
   fuel > length of the content *)
Inductive drive_res := DriveOk (s : hstream) (chunks : list (list N)) | DriveAssert | DriveFuel.

Fixpoint drive (d2u : bool) (chunk : Z) (fuel : nat) (s : hstream) (acc : list (list N)) : drive_res :=
  match fuel with
  | O => DriveFuel
  | S f =>
      match stream_read d2u s chunk with
      | None => DriveAssert
      | Some (data, s') =>
          if is_nil data then DriveOk s' (rev acc) else drive d2u chunk f s' (data :: acc)
      end
  end.

(* ASCII lower-casing (algorithm names are ASCII) *)
Definition lower_c (c : N) : N := if (65 <=? c) && (c <=? 90) then c + 32 else c.
Definition lower (s : list N) : list N := map lower_c s.

Definition s_md5_dos2unix : list N :=
  [109;100;53;45;100;111;115;50;117;110;105;120].   (* "md5-dos2unix" *)
Definition s_md5 : list N := [109;100;53].

(* which class get_hash_stream picks: decided on the name as given (no lower-casing) *)
Definition picks_dos2unix (name : list N) : bool := list_N_eqb name s_md5_dos2unix.
(* which hashlib algorithm ends up hashing: lower-cased, md5-dos2unix -> md5 *)
Definition hasher_alg (name : list N) : list N :=
  let n := lower name in if list_N_eqb n s_md5_dos2unix then s_md5 else n.

(* fobj_md5: returns (algorithm that digests, bytes fed to it, chunks handed on, total_read) *)
Definition fobj_md5 (name : list N) (chunk : Z) (content cuts : list N) : drive_res :=
  drive (picks_dos2unix name) chunk (S (S (length content))) (init_stream content cuts) [].

(* a sequence of explicit reads (what a consumer of the stream does) *)
Fixpoint reads (d2u : bool) (s : hstream) (ns : list Z) (acc : list (list N)) : option (hstream * list (list N)) :=
  match ns with
  | [] => Some (s, rev acc)
  | n :: r => match stream_read d2u s n with
              | None => None
              | Some (data, s') => reads d2u s' r (data :: acc)
              end
  end.

(* a HISTORY on one stream object: reads interleaved with queries of hash_value / total_read.
   A query does not touch the stream (hash_value is `self.hasher.hexdigest()`, a function of
   what has been fed so far); its answer is recorded together with the chunks handed out before
   it.  The digest itself stays abstract: an answer carries the bytes fed, H is applied outside. *)
Inductive sop := SRead (n : Z) | SQuery.
Definition answer := (list (list N) * list N * N)%type.   (* chunks so far, fed, total_read *)

Fixpoint run_ops (d2u : bool) (s : hstream) (ops : list sop) (acc : list (list N)) (ans : list answer)
  : option (hstream * list (list N) * list answer) :=
  match ops with
  | [] => Some (s, rev acc, rev ans)
  | SQuery :: r => run_ops d2u s r acc ((rev acc, hs_hasher s, hs_total_read s) :: ans)
  | SRead n :: r =>
      match stream_read d2u s n with
      | None => None
      | Some (data, s') => run_ops d2u s' r (data :: acc) ans
      end
  end.

(* how the stream object was made: get_hash_stream(fobj, name) picks the class from the name;
   HashStreamFile(fobj, name) / Dos2UnixHashStreamFile(fobj, name) are the classes themselves *)
Inductive ctor := ViaGetHashStream | DirectPlain | DirectDos2Unix.
Definition ctor_d2u (c : ctor) (name : list N) : bool :=
  match c with ViaGetHashStream => picks_dos2unix name | DirectPlain => false | DirectDos2Unix => true end.

Definition enc_chunks (l : list (list N)) : val := VL (map VB l).
Definition enc_stream (s : hstream) : val :=
  VL [VB (hs_hasher s); VN (hs_total_read s); VB (fo_rest (hs_fobj s))].
Definition enc_drive (r : drive_res) : val :=
  match r with
  | DriveOk s ch => VL [VN 0; enc_stream s; enc_chunks ch]
  | DriveAssert => VL [VN 10]
  | DriveFuel => VL [VN 98]
  end.
Definition enc_reads (r : option (hstream * list (list N))) : val :=
  match r with
  | Some (s, ch) => VL [VN 0; enc_stream s; enc_chunks ch]
  | None => VL [VN 10]
  end.

(* a consumer that reads with successive sizes ns until an empty chunk comes back (fobj_md5 is
   the special case of a constant size); DriveFuel = the size list ran out before the end *)
Fixpoint drive_seq (d2u : bool) (ns : list Z) (s : hstream) (acc : list (list N)) : drive_res :=
  match ns with
  | [] => DriveFuel
  | n :: r =>
      match stream_read d2u s n with
      | None => DriveAssert
      | Some (data, s') =>
          if is_nil data then DriveOk s' (rev acc) else drive_seq d2u r s' (data :: acc)
      end
  end.

(* _hash_file's last two branches for a local file without a cached checksum:
     if name in algorithms_available: file_md5(...)   (membership is exact-case)
     raise NotImplementedError
   avail = hashlib.algorithms_available | {"blake3", "md5-dos2unix"} as observed by the harness;
   file_md5 = fobj_md5 with the default chunk size 2**20 on a file object without short reads *)
Definition name_available (avail : list (list N)) (name : list N) : bool :=
  existsb (list_N_eqb name) avail.
Definition DEFAULT_READ : Z := 1048576%Z.
Inductive hash_file_res := HfOk (name : list N) (r : drive_res) | HfNotImplemented.
Definition hash_file (avail : list (list N)) (name content : list N) : hash_file_res :=
  if name_available avail name then HfOk name (fobj_md5 name DEFAULT_READ content [])
  else HfNotImplemented.

(* what the harness observes of one run: algorithm that digests, class picked, outcome *)
Definition enc_sel (name : list N) : val :=
  VL [VB (hasher_alg name); enc_bool (picks_dos2unix name)].
Definition enc_hash_file (r : hash_file_res) : val :=
  match r with
  | HfOk name d => VL [VN 0; VB name; enc_sel name; enc_drive d]
  | HfNotImplemented => VL [VN 13]
  end.

(* the digest: the hasher is abstract (hashlib contract: hexdigest = H (everything fed)) *)
Definition digest (H : list N -> list N) (s : hstream) : list N := H (hs_hasher s).

Definition enc_answer (a : answer) : val :=
  let '(pre, fed, total) := a in VL [VN (N.of_nat (length pre)); VB fed; VN total].
Definition enc_ops (r : option (hstream * list (list N) * list answer)) : val :=
  match r with
  | Some (s, ch, answers) => VL [VN 0; enc_stream s; enc_chunks ch; VL (map enc_answer answers)]
  | None => VL [VN 10]
  end.
Definition enc_history (c : ctor) (name content cuts : list N) (ops : list sop) : val :=
  VL [VL [VB (hasher_alg name); enc_bool (ctor_d2u c name)];
      enc_ops (run_ops (ctor_d2u c name) (init_stream content cuts) ops [] [])].

(* unix2dos: every LF becomes CR LF (the "CRLF variant" of a text) *)
Definition unix2dos (u : list N) : list N :=
  flat_map (fun c => if N.eqb c 10 then [13; 10] else [c]) u.
Fixpoint no_crlf (u : list N) : bool :=
  match u with
  | 13 :: ((10 :: _) as r) => false
  | _ :: r => no_crlf r
  | [] => true
  end.
