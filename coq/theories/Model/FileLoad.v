(* C17 (second loading route) - model of a directory entry that is loaded lazily from a FileStorage:
   dvc_data/index/index.py  FileStorage.get (the assertion on the prefix and fs.join(path, *key[len(prefix):])),
   _load_from_file_storage (fs.exists refusal, `entry.key = root_entry.key + entry.key; trie[entry.key] = entry`)
   and dvc_data/index/build.py build_entries (one entry per directory and per file strictly below the walked
   path, key relative to it, Meta.from_info, `loaded = meta.isdir or None`, no hash).

   The workspace the storage serves is a finite list of nodes, each with its key RELATIVE TO storage.path
   (a tree: the hypothesis [ws_tree] of the theorems, decided by [ws_treeb]).  Loading the entry at index key k
   through a storage with prefix p looks at the sub-tree at  rel = k[len p:]  and stores one entry per node
   strictly below rel under  k ++ (node key)[len rel:].

   What is NOT in this model: .dvcignore filtering, broken symlinks (`broken` names), version-aware file systems,
   directory sizes (platform dependent: encoders drop them), compute_hash=True (loading never asks for it). *)
From Coq Require Import NArith List Bool.
From DvcData Require Import Base.Val Model.IndexLoad.
Import ListNotations.
Open Scope N_scope.

Record fnode := { f_key : key; f_dir : bool; f_size : N; f_exec : bool }.
Definition ws := list fnode.

(* FileStorage.get: None = the assertion `entry.key[:len(prefix)] == prefix` fails *)
Definition fs_rel (prefix k : key) : option key :=
  if is_prefix prefix k then Some (skipn (length prefix) k) else None.

Definition node_at (w : ws) (rel : key) : option fnode :=
  find (fun n => key_eqb (f_key n) rel) w.

(* fs.exists(path): storage.path itself always exists in the scenarios covered *)
Definition ws_exists (w : ws) (rel : key) : bool :=
  match rel with
  | [] => true
  | _ :: _ => match node_at w rel with Some _ => true | None => false end
  end.

(* Meta.from_info + `loaded = meta.isdir or None`, hash_info=None *)
Definition fs_entry (n : fnode) : entry :=
  {| e_meta := Some {| m_dir := f_dir n;
                       m_size := if f_dir n then None else Some (f_size n);
                       m_exec := f_exec n |};
     e_hash := None;
     e_loaded := f_dir n |}.

(* build_entries(path/rel): the nodes strictly below rel *)
Definition below (rel : key) (w : ws) : list fnode :=
  filter (fun n => strict_prefix rel (f_key n)) w.

Inductive fl_result :=
| FlAssert            (* AssertionError in FileStorage.get *)
| FlMissing           (* FileNotFoundError: nothing at the path *)
| FlOk (l : list (key * entry)).

(* _load_from_file_storage(trie, root_entry(k), FileStorage(prefix=p, path=root of w)) *)
Definition load_file (p : key) (w : ws) (k : key) : fl_result :=
  match fs_rel p k with
  | None => FlAssert
  | Some rel =>
      if ws_exists w rel
      then FlOk (map (fun n => (k ++ skipn (length rel) (f_key n), fs_entry n)) (below rel w))
      else FlMissing
  end.

(* the explicit index over the same workspace: build_entries(storage.path) with every key put under p *)
Definition explicit_of (p : key) (w : ws) : list (key * entry) :=
  map (fun n => (p ++ f_key n, fs_entry n)) w.

Definition under (k : key) (l : list (key * entry)) : list (key * entry) :=
  filter (fun ke => strict_prefix k (fst ke)) l.

(* the sub-tree of w at d, as a workspace of its own (a storage whose path is path/d and prefix p ++ d) *)
Definition subtree (d : key) (w : ws) : ws :=
  map (fun n => {| f_key := skipn (length d) (f_key n); f_dir := f_dir n; f_size := f_size n; f_exec := f_exec n |})
      (below d w).

(* tree shape: keys non-empty and pairwise distinct, every proper non-empty prefix of a node is a directory node,
   nothing below a file *)
Fixpoint keys_distinct (l : list key) : bool :=
  match l with
  | [] => true
  | k :: r => negb (existsb (key_eqb k) r) && keys_distinct r
  end.
Definition is_dir_node (w : ws) (k : key) : bool :=
  match node_at w k with Some n => f_dir n | None => false end.
Definition ws_treeb (w : ws) : bool :=
  forallb (fun n => match f_key n with [] => false | _ :: _ => true end) w
  && keys_distinct (map f_key w)
  && forallb (fun n => forallb (is_dir_node w) (proper_inits (f_key n))) w.

(* ---- encoders (correspondence) -------------------------------------------------------------------------- *)
Definition enc_key (k : key) : val := VL (map VB k).
Definition enc_fentry (ke : key * entry) : val :=
  let (k, e) := ke in
  match e_meta e with
  | Some m => VL [enc_key k; VN (if m_dir m then 1 else 0);
                  match m_size m with Some s => VL [VN s] | None => VL [] end;
                  VN (if m_exec m then 1 else 0);
                  VN (if e_loaded e then 1 else 0)]
  | None => VL [enc_key k]
  end.
Definition key_of_val_ltb (a b : key * entry) : bool := key_ltb (fst a) (fst b).
Definition sort_entries (l : list (key * entry)) : list (key * entry) := usort key_of_val_ltb l.
Definition enc_fl (r : fl_result) : val :=
  match r with
  | FlAssert => VL [VN 1]
  | FlMissing => VL [VN 2]
  | FlOk l => VL [VN 0; VL (map enc_fentry (sort_entries l))]
  end.

Record fl_case := { c_prefix : key; c_ws : ws; c_key : key }.
(* answer = what loading stores, plus the same sub-tree cut out of the explicit index, plus the tree check *)
Definition run_fl (c : fl_case) : val :=
  VL [enc_fl (load_file (c_prefix c) (c_ws c) (c_key c));
      VL (map enc_fentry (sort_entries (under (c_key c) (explicit_of (c_prefix c) (c_ws c)))));
      VN (if ws_treeb (c_ws c) then 1 else 0)].
(* the harness compares the whole triple when the load succeeds, the outcome alone when it is refused *)
Definition run_fl_cmp (c : fl_case) : val :=
  match load_file (c_prefix c) (c_ws c) (c_key c) with
  | FlOk _ => run_fl c
  | r => VL [enc_fl r]
  end.

(* DataIndex._load on an index holding the entry at k, when the storage found for it is a FileStorage: the
   children are stored (overwriting whatever the trie held under those keys: they come first), the entry at k is
   marked loaded; a refused load leaves no new index (DataIndexDirError through onerror) *)
Definition mark_at (k : key) (i : idx) : idx :=
  map (fun ke => if key_eqb (fst ke) k then (fst ke, mark (snd ke)) else ke) i.
Definition idx_load_file (p : key) (w : ws) (k : key) (i : idx) : option idx :=
  match load_file p w k with
  | FlOk l => Some (l ++ mark_at k i)
  | _ => None
  end.

(* the index route of the correspondence: an index holding only the unloaded directory entry at the key *)
Definition dir0 : entry :=
  {| e_meta := Some {| m_dir := true; m_size := None; m_exec := false |}; e_hash := None; e_loaded := false |}.
Definition run_fl_idx (c : fl_case) : val :=
  match idx_load_file (c_prefix c) (c_ws c) (c_key c) [(c_key c, dir0)] with
  | Some i' => VL [VN 0; VL (map enc_fentry (sort_entries i'))]
  | None => VL [VN 1]
  end.

(* the same with entries already in the trie (stale ones below the key, bystanders outside it): the index is read
   as a MAP (first binding wins, as [lookup] does) over its distinct keys in key order *)
Definition canon_idx (i : idx) : list (key * entry) :=
  flat_map (fun k => match lookup i k with Some e => [(k, e)] | None => [] end) (usort key_ltb (map fst i)).
Record fl_case2 := { c_base : fl_case; c_extra : list (key * bool * N) }.   (* key, isdir, size *)
Definition extra_entry (x : key * bool * N) : key * entry :=
  let '(k, d, sz) := x in
  (k, {| e_meta := Some {| m_dir := d; m_size := if d then None else Some sz; m_exec := false |};
         e_hash := None; e_loaded := d |}).
Definition run_fl_idx2 (c : fl_case2) : val :=
  let b := c_base c in
  match idx_load_file (c_prefix b) (c_ws b) (c_key b) ((c_key b, dir0) :: map extra_entry (c_extra c)) with
  | Some i' => VL [VN 0; VL (map enc_fentry (canon_idx i'))]
  | None => VL [VN 1]
  end.
