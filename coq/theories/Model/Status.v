(* Model of dvc_data/hashfile/status.py (status, _indexed_dir_hashes, compare_status),
   hashfile/db/index.py (ObjectDBIndex) and of the index handling of
   hashfile/transfer.py (_do_transfer), for property C12.

   Conventions
   - an object id is the hex text, ".dir" suffix included ([list N]); a store is the finite set
     of the ids it holds ([gset oid]); the remote index is [gmap oid bool] (id |-> is_dir flag,
     exactly the diskcache Index of ObjectDBIndex).
   - [loader] = what [Tree.load(cache_odb, HashInfo(name, D))] gives for a *parseable*
     directory object: [Some files] (the hash values it lists, in listing order) or [None] =
     FileNotFoundError.  Unparseable directory objects (ObjectFormatError) are outside this
     model (assumption of the correspondence; C07 deals with them).
   - environment hypothesis (dvc_objects / LocalHashFileDB, exercised by the correspondence on
     all three lookup strategies of the base class and on the per-id check of the local class):
     [odb.oids_exist ids] and [odb.list_oids_exists ids] answer [ids ∩ contents].
   - the MEMORY-protocol shortcut of status() (memfs staging: everything "exists") is left out.
   - iteration order of Python sets: the loop of _indexed_dir_hashes mutates the index; the
     model folds over the requested directory ids in request order.  Under [wf_trees]
     (listings list no directory ids - Tree objects are flat) the result does not depend on
     that order (StatusProofs.indexed_loop_perm).

   source, status.py (line numbers of the pinned tree):

     32  def _indexed_dir_hashes(odb, index, dir_objs, name, cache_odb, jobs=None):
     39      dir_hashes = set(dir_objs.keys())
     40      indexed_dirs = set(index.dir_hashes())
     41      indexed_dir_exists = set()
     42      if indexed_dirs:
     43          hashes = odb.list_oids_exists(indexed_dirs)
     47          indexed_dir_exists.update(hashes)
     48          missing_dirs = indexed_dirs.difference(indexed_dir_exists)
     49          if missing_dirs:
     54              index.clear()
     57      dir_exists = dir_hashes.intersection(indexed_dir_exists)
     58      dir_missing = dir_hashes - dir_exists
     59      dir_exists.update(odb.list_oids_exists(dir_missing))
     68      for dir_hash in dir_exists:
     69          tree = dir_objs.get(dir_hash)
     70          if not tree:
     71              try: tree = Tree.load(cache_odb, HashInfo(name, dir_hash))
     73              except FileNotFoundError: continue
     75          file_hashes = [hi.value for _, _, hi in tree]
     76          if dir_hash not in index:
     82              index.update([dir_hash], file_hashes)
     83          yield from file_hashes
     84          yield tree.hash_info.value

     87  def status(odb, obj_ids, name=None, index=None, cache_odb=None, shallow=True, jobs=None):
    109      if cache_odb is None: cache_odb = odb
    114      for hash_info in obj_ids:
    116          if hash_info.isdir:
    117              if shallow: tree = None
    119              else:
    120                  tree = Tree.load(cache_odb, hash_info)          (FileNotFoundError escapes)
    121                  for _, _, oid in tree: hash_infos[oid.value] = oid
    125              if index: dir_objs[hash_info.value] = tree
    127          hash_infos[hash_info.value] = hash_info
    133      hashes = set(hash_infos.keys()); exists = set()
    137      if index and hashes:
    138          if dir_objs:
    139              exists = hashes.intersection(_indexed_dir_hashes(...))
    142              hashes.difference_update(exists)
    143          if hashes:
    144              exists.update(index.intersection(hashes))
    145              hashes.difference_update(exists)
    147      if hashes:
    151          exists.update(odb.oids_exist(hashes))
    152      return StatusResult(exists, hashes - exists)

    158  def compare_status(src, dest, obj_ids, check_deleted=True, src_index=None,
                            dest_index=None, cache_odb=None, jobs=None, **kwargs):
    177      if cache_odb is None: cache_odb = src
    179      dest_exists, dest_missing = status(dest, obj_ids, index=dest_index, cache_odb=cache_odb, **kwargs)
    189      if dest_missing or check_deleted:
    190          src_exists, src_missing = status(src, obj_ids, index=src_index, **kwargs)
    193      else:
    194          src_exists = dest_exists; src_missing = set()
    196      return CompareStatusResult(src_exists & dest_exists, src_missing & dest_missing,
    199                                 src_exists - dest_exists, dest_exists - src_exists)
*)
From stdpp Require Import gmap.
From Coq Require Import NArith.
From DvcData Require Import Base.Val.
Open Scope N_scope.

Definition oid := list N.
Definition dot_dir : list N := [46; 100; 105; 114].   (* ".dir" *)

(* HashInfo.isdir : value.endswith(".dir") *)
Definition is_dir_oid (o : oid) : bool :=
  Nat.leb (length dot_dir) (length o)
  && list_N_eqb (drop (length o - length dot_dir)%nat o) dot_dir.

Notation store := (gset oid).
Notation index := (gmap oid bool).
Definition loader := oid -> option (list oid).

Inductive result (A : Type) := Ok (a : A) | Err (k : N).
Arguments Ok {A} a.
Arguments Err {A} k.

(* ------------------------------------------------------------------------------------ *)
(* status(): the collection loop, lines 112-127.  [None] = Tree.load raised
   FileNotFoundError (only possible when not shallow). *)
Fixpoint collect (load : loader) (shallow : bool) (q : list oid) : option (gset oid) :=
  match q with
  | [] => Some ∅
  | o :: r =>
      match collect load shallow r with
      | None => None
      | Some acc =>
          if is_dir_oid o && negb shallow then
            match load o with
            | None => None
            | Some l => Some ({[o]} ∪ list_to_set l ∪ acc)
            end
          else Some ({[o]} ∪ acc)
      end
  end.

(* the keys of dir_objs (line 125), in request order *)
Definition req_dirs (q : list oid) : list oid := filter (λ o, is_dir_oid o = true) q.

(* status() without an index: lines 133, 147-155 *)
Definition status_plain (st : store) (load : loader) (q : list oid) (shallow : bool)
  : result (gset oid * gset oid) :=
  match collect load shallow q with
  | None => Err 2
  | Some hashes =>
      let ex := hashes ∩ st in          (* odb.oids_exist(hashes) : environment *)
      Ok (ex, hashes ∖ ex)
  end.

(* ------------------------------------------------------------------------------------ *)
(* ObjectDBIndex *)
Definition ix_dirs (ix : index) : gset oid := dom (filter (λ p, p.2 = true) ix).
(* update([D], files): first transaction sets D |-> True, second sets every file |-> False *)
Definition ix_update (ix : index) (D : oid) (l : list oid) : index :=
  foldl (λ m f, <[f := false]> m) (<[D := true]> ix) l.

(* one iteration of the loop at lines 68-84; state = (index, ids yielded so far) *)
Definition index_dir (load : loader) (acc : index * gset oid) (D : oid) : index * gset oid :=
  match load D with
  | None => acc                                             (* FileNotFoundError: continue *)
  | Some l =>
      (if decide (is_Some (acc.1 !! D)) then acc.1 else ix_update acc.1 D l,
       acc.2 ∪ list_to_set l ∪ {[D]})
  end.

(* lines 39-59: which requested directory ids are taken to exist, and the (possibly
   cleared) index.  Note that [indexed_dir_exists] computed before the clear keeps being
   used after it. *)
Definition revalidate (st : store) (ix : index) : index * gset oid :=
  let idirs := ix_dirs ix in
  let iex := idirs ∩ st in                                  (* list_oids_exists(indexed_dirs) *)
  (if decide (idirs ∖ iex = ∅) then ix else ∅, iex).

Definition dir_exists (st : store) (iex : gset oid) (dirs : list oid) : gset oid :=
  let dset : gset oid := list_to_set dirs in
  let dex := dset ∩ iex in
  dex ∪ ((dset ∖ dex) ∩ st).                                (* list_oids_exists(dir_missing) *)

Definition indexed_dir_hashes (st : store) (load : loader) (ix : index) (dirs : list oid)
  : index * gset oid :=
  let '(ix1, iex) := revalidate st ix in
  let dex := dir_exists st iex dirs in
  foldl (index_dir load) (ix1, ∅) (filter (λ D, D ∈ dex) dirs).

(* status() with an index: lines 133-155 *)
Definition status_ix (st : store) (load : loader) (ix : index) (q : list oid) (shallow : bool)
  : result (gset oid * gset oid * index) :=
  match collect load shallow q with
  | None => Err 2
  | Some hashes =>
      if decide (hashes = ∅) then Ok (∅, ∅, ix) else
      let dirs := req_dirs q in
      let '(ix1, ex1) :=
        match dirs with
        | [] => (ix, ∅)
        | _ => let '(ix1, y) := indexed_dir_hashes st load ix dirs in (ix1, hashes ∩ y)
        end in
      let h1 := hashes ∖ ex1 in
      let ex2 := ex1 ∪ (h1 ∩ dom ix1) in                    (* index.intersection(hashes) *)
      let h2 := h1 ∖ ex2 in
      let ex3 := ex2 ∪ (h2 ∩ st) in                         (* odb.oids_exist(hashes) *)
      Ok (ex3, h2 ∖ ex3, ix1)
  end.

Definition status (st : store) (load : loader) (ix : option index) (q : list oid) (shallow : bool)
  : result (gset oid * gset oid * option index) :=
  match ix with
  | None => match status_plain st load q shallow with
            | Ok (e, m) => Ok (e, m, None)
            | Err k => Err k
            end
  | Some i => match status_ix st load i q shallow with
              | Ok (e, m, i') => Ok (e, m, Some i')
              | Err k => Err k
              end
  end.

(* ------------------------------------------------------------------------------------ *)
(* compare_status *)
Record cmp := { c_ok : gset oid; c_missing : gset oid; c_new : gset oid; c_deleted : gset oid }.

(* [load_s] is what status(src, ...) loads from (src itself: cache_odb is not passed on,
   line 190), [load_d] what status(dest, ..., cache_odb=cache_odb or src) loads from. *)
Definition compare_status (src dst : store) (load_s load_d : loader) (six dix : option index)
           (q : list oid) (shallow check_deleted : bool)
  : result (cmp * option index * option index) :=
  match status dst load_d dix q shallow with
  | Err k => Err k
  | Ok (dex, dmiss, dix') =>
      if negb (bool_decide (dmiss = ∅)) || check_deleted then
        match status src load_s six q shallow with
        | Err k => Err k
        | Ok (sex, smiss, six') =>
            Ok ({| c_ok := sex ∩ dex; c_missing := smiss ∩ dmiss;
                   c_new := sex ∖ dex; c_deleted := dex ∖ sex |}, six', dix')
        end
      else
        (* src is not queried: src_exists := dest_exists, src_missing := {} *)
        Ok ({| c_ok := dex ∩ dex; c_missing := ∅ ∩ dmiss;
               c_new := dex ∖ dex; c_deleted := dex ∖ dex |}, six, dix')
  end.

(* ------------------------------------------------------------------------------------ *)
(* _do_transfer (transfer.py 58-142) at the granularity C12 needs: which objects arrive,
   which ids are reported failed, which directories may be indexed.

     for dir_hash in dir_ids:
         dir_obj = find_tree_by_obj_id([cache_odb, src], dir_hash); assert dir_obj
         entry_ids = {oid for _, _, oid in dir_obj}
         bound_file_ids = file_ids & entry_ids; file_ids -= entry_ids
         dir_fails = _add(src, dest, bound_file_ids)
         dir_fails.update(entry_ids & failed_ids)                         (fix 0a9de89)
         if dir_fails: failed_ids.update(dir_fails); failed_ids.add(dir_hash)
         elif entry_ids.intersection(missing_ids): pass                    (skipped, not failed)
         elif _add(src, dest, [dir_hash]): failed_ids.add(dir_hash)
         else: succeeded_dir_objs.append(dir_obj)
     failed_ids.update(_add(src, dest, file_ids))
     if failed_ids:
         if src_index: src_index.clear()
         return failed_ids
     if dest_index:
         for dir_obj in succeeded_dir_objs: dest_index.update([dir], files)
     return set()

   Every requested file id is uploaded exactly once (with the first directory that lists it
   or with the rest), every directory id at most once, so the outcome does not depend on the
   iteration order of [dir_ids]: a file upload succeeds iff the object really is in the source
   and the failure oracle [fails] does not hit it; a directory D is
     - withheld and failed  if a requested file it lists failed,
     - skipped              else if it lists an id of [missing],
     - failed               else if its own upload fails,
     - delivered            otherwise.  *)
Definition up_ok (src : store) (fails : gset oid) (o : oid) : bool :=
  bool_decide (o ∈ src) && negb (bool_decide (o ∈ fails)).

Inductive dir_outcome := DWithheld | DSkipped | DFailed | DDelivered.

Definition dir_rule (src : store) (fails new_files missing : gset oid) (D : oid) (l : list oid)
  : dir_outcome :=
  if existsb (λ e, bool_decide (e ∈ new_files) && negb (up_ok src fails e)) l then DWithheld
  else if existsb (λ e, bool_decide (e ∈ missing)) l then DSkipped
  else if up_ok src fails D then DDelivered else DFailed.

Record xfer := { x_delivered : gset oid; x_failed : gset oid; x_succ_dirs : list (oid * list oid) }.

Definition xfer_add_dir (src : store) (load : loader) (fails new_files missing : gset oid)
           (acc : option xfer) (D : oid) : option xfer :=
  match acc, load D with
  | None, _ | _, None => None                                (* assert dir_obj *)
  | Some x, Some l =>
      match dir_rule src fails new_files missing D l with
      | DWithheld | DFailed =>
          Some {| x_delivered := x_delivered x; x_failed := {[D]} ∪ x_failed x;
                  x_succ_dirs := x_succ_dirs x |}
      | DSkipped => Some x
      | DDelivered =>
          Some {| x_delivered := {[D]} ∪ x_delivered x; x_failed := x_failed x;
                  x_succ_dirs := (D, l) :: x_succ_dirs x |}
      end
  end.

Definition do_transfer (src : store) (load : loader) (new missing fails : gset oid)
  : option xfer :=
  let new_dirs := filter (λ o, is_dir_oid o = true) new in
  let new_files := new ∖ new_dirs in
  let x0 := {| x_delivered := filter (λ o, up_ok src fails o = true) new_files;
               x_failed := filter (λ o, up_ok src fails o = false) new_files;
               x_succ_dirs := [] |} in
  foldl (xfer_add_dir src load fails new_files missing) (Some x0) (elements new_dirs).

Definition index_succeeded (ix : index) (ds : list (oid * list oid)) : index :=
  foldl (λ m p, ix_update m p.1 p.2) ix ds.

(* ------------------------------------------------------------------------------------ *)
(* The history machine: one remote store with ONE shared index; a fixed local cache [e_src]
   that pushes read from; the content of every directory object in play is [e_trees]
   (content addressing: the listing is a function of the id). *)
Record env := { e_src : store; e_trees : gmap oid (list oid) }.
Record state := { s_remote : store; s_idx : index; s_ever : store }.

Definition load_from (E : env) (st : store) : loader :=
  λ D, if decide (D ∈ st) then e_trees E !! D else None.

Inductive op :=
| Push (req : list oid) (shallow : bool) (fails : list oid)
    (* transfer(src, remote, req, dest_index=index, shallow=...) *)
| Fetch (loc req : list oid) (shallow : bool) (fails : list oid)
    (* transfer(remote, local store holding [loc], req, src_index=index, shallow=...) *)
| ExtDelete (os : list oid)
    (* objects removed from the remote behind the index's back *)
| Query (q : list oid) (shallow : bool).
    (* status(remote, q, index=index, cache_odb=src, shallow=...) *)

(* what an operation returns *)
Inductive out :=
| OErr (k : N)
| OStatus (ex mi : gset oid)
| OTransfer (c : cmp) (transferred failed : gset oid)
| ONone.

Definition transfer_tail (src : store) (load : loader) (c : cmp) (fails : gset oid)
  : option xfer :=
  if decide (c_new c = ∅) then
    Some {| x_delivered := ∅; x_failed := ∅; x_succ_dirs := [] |}
  else do_transfer src load (c_new c) (c_missing c) fails.

Definition step (E : env) (s : state) (o : op) : state * out :=
  match o with
  | Query q sh =>
      match status_ix (s_remote s) (load_from E (e_src E)) (s_idx s) q sh with
      | Err k => (s, OErr k)
      | Ok (ex, mi, ix') =>
          ({| s_remote := s_remote s; s_idx := ix'; s_ever := s_ever s |}, OStatus ex mi)
      end
  | ExtDelete os =>
      ({| s_remote := s_remote s ∖ list_to_set os; s_idx := s_idx s; s_ever := s_ever s |}, ONone)
  | Push req sh fails =>
      let ld := load_from E (e_src E) in
      match compare_status (e_src E) (s_remote s) ld ld None (Some (s_idx s)) req sh false with
      | Err k => (s, OErr k)
      | Ok (c, _, dix') =>
          let ix1 := default (s_idx s) dix' in
          match transfer_tail (e_src E) ld c (list_to_set fails) with
          | None => ({| s_remote := s_remote s; s_idx := ix1; s_ever := s_ever s |}, OErr 10)
          | Some x =>
              let ix2 := if decide (x_failed x = ∅)
                         then index_succeeded ix1 (x_succ_dirs x) else ix1 in
              ({| s_remote := s_remote s ∪ x_delivered x; s_idx := ix2;
                  s_ever := s_ever s ∪ x_delivered x |},
               OTransfer c (c_new c ∖ x_failed x) (x_failed x))
          end
      end
  | Fetch loc req sh fails =>
      let ld := load_from E (s_remote s) in
      match compare_status (s_remote s) (list_to_set loc) ld ld (Some (s_idx s)) None req sh false with
      | Err k => (s, OErr k)
      | Ok (c, six', _) =>
          let ix1 := default (s_idx s) six' in
          match transfer_tail (s_remote s) ld c (list_to_set fails) with
          | None => ({| s_remote := s_remote s; s_idx := ix1; s_ever := s_ever s |}, OErr 10)
          | Some x =>
              let ix2 := if decide (x_failed x = ∅) then ix1 else ∅ in   (* src_index.clear() *)
              ({| s_remote := s_remote s; s_idx := ix2; s_ever := s_ever s |},
               OTransfer c (c_new c ∖ x_failed x) (x_failed x))
          end
      end
  end.

Definition run (E : env) (s : state) (ops : list op) : state :=
  foldl (λ s o, (step E s o).1) s ops.

(* the trace of (output, state) pairs, what the correspondence compares step by step *)
Fixpoint trace (E : env) (s : state) (ops : list op) : list (out * state) :=
  match ops with
  | [] => []
  | o :: r => let '(s', w) := step E s o in (w, s') :: trace E s' r
  end.

Definition init_state (remote : store) : state :=
  {| s_remote := remote; s_idx := ∅; s_ever := remote |}.

(* ------------------------------------------------------------------------------------ *)
(* inputs of the correspondence (lists, turned into sets/maps here) and encoders *)
Definition enc_oids (s : gset oid) : val := enc_set (elements s).
Definition enc_index (ix : index) : val :=
  VL [enc_oids (dom ix); enc_oids (ix_dirs ix)].

Record status_case := {
  sc_store : list oid;
  sc_trees : list (oid * list oid);        (* what cache_odb can load *)
  sc_q : list oid;
  sc_shallow : bool;
  sc_ix : option (list (oid * bool)) }.

Definition loader_of (trees : list (oid * list oid)) : loader :=
  let m : gmap oid (list oid) := list_to_map trees in λ D, m !! D.

Definition run_status_case (c : status_case) : val :=
  match status (list_to_set (sc_store c)) (loader_of (sc_trees c))
               (list_to_map <$> sc_ix c) (sc_q c) (sc_shallow c) with
  | Err k => VL [VN 0; VN k]
  | Ok (e, m, ix') => VL [VN 1; enc_oids e; enc_oids m; enc_option enc_index ix']
  end.

Record compare_case := {
  cc_src : list oid; cc_dst : list oid;
  cc_trees_s : list (oid * list oid);      (* loadable from src *)
  cc_trees_d : list (oid * list oid);      (* loadable from cache_odb (default src) *)
  cc_q : list oid; cc_shallow : bool; cc_check_deleted : bool;
  cc_six : option (list (oid * bool)); cc_dix : option (list (oid * bool)) }.

Definition enc_cmp (c : cmp) : val :=
  VL [enc_oids (c_ok c); enc_oids (c_missing c); enc_oids (c_new c); enc_oids (c_deleted c)].

Definition run_compare_case (c : compare_case) : val :=
  match compare_status (list_to_set (cc_src c)) (list_to_set (cc_dst c))
          (loader_of (cc_trees_s c)) (loader_of (cc_trees_d c))
          (list_to_map <$> cc_six c) (list_to_map <$> cc_dix c)
          (cc_q c) (cc_shallow c) (cc_check_deleted c) with
  | Err k => VL [VN 0; VN k]
  | Ok (r, six', dix') =>
      VL [VN 1; enc_cmp r; enc_option enc_index six'; enc_option enc_index dix']
  end.

Record history_case := {
  hc_src : list oid;
  hc_trees : list (oid * list oid);
  hc_remote : list oid;
  hc_ops : list op }.

Definition enc_out (w : out) : val :=
  match w with
  | OErr k => VL [VN 0; VN k]
  | OStatus e m => VL [VN 1; enc_oids e; enc_oids m]
  | OTransfer c t f => VL [VN 2; enc_cmp c; enc_oids t; enc_oids f]
  | ONone => VL [VN 3]
  end.

Definition enc_state (s : state) : val :=
  VL [enc_oids (s_remote s); enc_index (s_idx s); enc_oids (s_ever s)].

Definition run_history_case (c : history_case) : val :=
  let E := {| e_src := list_to_set (hc_src c); e_trees := list_to_map (hc_trees c) |} in
  VL (map (λ p, VL [enc_out p.1; enc_state p.2])
          (trace E (init_state (list_to_set (hc_remote c))) (hc_ops c))).
