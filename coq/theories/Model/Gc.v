(* Model of dvc_data/hashfile/gc.py : gc()

   source (post-fix f223019):
     if odb.read_only: raise ObjectDBPermissionError
     used_hashes = set()
     for hash_info in used:
         if hash_info.name != odb.hash_name: continue
         used_hashes.add(hash_info.value)
         if hash_info.isdir and not shallow:
             tree = Tree.load(cache_odb, hash_info)          (may raise)
             used_hashes.update(oid.value for _, _, oid in tree)
     for hash_ in odb.all():
         if hash_ in used_hashes: continue
         (dir_paths if hash_.endswith(".dir") else file_paths).append(path)
     for paths in (dir_paths, file_paths):
         if paths: num_removed += len(paths); if not dry: odb.fs.remove(paths)
     return num_removed

   The store is the list [odb.all()] of object ids (names are what gc decides on);
   the directory objects readable from cache_odb are an association list.

   GENERATED PART (Gen/GcDecisions.v, translator unit "gc"): the read-only guard, the algorithm
   filter (which hash_name it compares with), the expansion test and the source of Tree.load,
   the used-test of the scan and whose .all() is scanned, the .dir partition, the two removal
   guards, the lists counted/removed, the defaults of shallow/dry, HASH_DIR_SUFFIX,
   HashInfo.isdir, and the statement sequence.  An edit of gc() either breaks the translation
   (fail-closed) or changes these definitions - and then gc_eq / the tie lemmas in GcProofs.v.

   Not modelled: odb._remove_unpacked_dir(hash_), called for every unused .dir object (dry or
   not).  It removes the legacy side directory <object path>.unpacked on local-class stores;
   such directories are not objects of the store (odb.all() does not list them), so the state
   [list oid] does not contain them.  The harness plants them and checks that the OBJECTS
   behave exactly as the model says.

   cache_odb (the store the directory objects are read from: Tree.load(cache_odb, ...)) may be
   omitted (= odb), a second store of the same algorithm, or a second store of ANOTHER algorithm
   (a legacy md5-dos2unix cache beside an md5 store, or the reverse).  It enters the model as
   g_trees (what it can load) and g_cache_alg (its hash_name, carried in the input so that the
   correspondence runs on mixed-algorithm cases; the model never reads it: `hash_info.name !=
   odb.hash_name` compares with the COLLECTED store).

   [used] is Iterable[HashInfo] in the source and walked ONCE; the model takes it as a list.
   That the container kind (list/tuple/set/frozenset/generator/iter/map) makes no difference
   is part of the correspondence (harness: used_kind; for sets the observed iteration order
   is the list) and of the theorems (C06_used_set, C06_ok_used_set: members only).
   The store has no size bound and no paging in the model (C06_store_app); the harness runs
   stores beyond fs.LIST_OBJECT_PAGE_SIZE because an implementation could page its scan. *)
From Coq Require Import NArith List Bool.
From DvcData Require Import Base.Val Gen.GcDecisions.
Import ListNotations.
Open Scope N_scope.

Definition oid := list N.
Definition dot_dir : list N := [46; 100; 105; 114].   (* ".dir" *)

Definition ends_with (s suf : list N) : bool :=
  Nat.leb (length suf) (length s) && list_N_eqb (skipn (Nat.sub (length s) (length suf)) s) suf.

(* HashInfo.isdir : value truthy and value.endswith(HASH_DIR_SUFFIX) - GENERATED from
   hash_info.py (Gen/GcDecisions.v); GcProofs.is_dir_oid_spec: = ends_with o dot_dir *)
Definition is_dir_oid (o : oid) : bool := GcDecisions.hashinfo_isdir o.

Inductive load_res := LoadOk (l : list oid) | LoadMissing | LoadCorrupt.

Fixpoint assoc {A} (k : oid) (l : list (oid * A)) : option A :=
  match l with
  | [] => None
  | (k', v) :: r => if list_N_eqb k k' then Some v else assoc k r
  end.

Definition mem (o : oid) (l : list oid) : bool := existsb (list_N_eqb o) l.

Record gc_in := {
  g_store : list oid;            (* odb.all() *)
  g_alg : list N;                (* odb.hash_name *)
  g_ro : bool;                   (* odb.read_only *)
  g_used : list (list N * oid);  (* HashInfo (name, value) *)
  g_trees : list (oid * option (list oid));  (* cache_odb: dir oid -> Some listing | None = corrupt *)
  g_cache_alg : option (list N);  (* cache_odb.hash_name; None = cache_odb omitted (defaults to odb).
                                     Handed to the GENERATED algorithm filter next to g_alg; for
                                     the source as it is the filter ignores it: which ids count as
                                     used is decided by the algorithm of the COLLECTED store, the
                                     cache only supplies the listings (C06_cache_alg_irrelevant). *)
  g_shallow : bool;
  g_dry : bool }.

Definition load (trees : list (oid * option (list oid))) (o : oid) : load_res :=
  match assoc o trees with
  | None => LoadMissing
  | Some None => LoadCorrupt
  | Some (Some l) => LoadOk l
  end.

(* error kinds: 1 = ObjectDBPermissionError, 2 = FileNotFoundError, 3 = ObjectFormatError *)
Inductive gc_out := GcErr (k : N) | GcOk (removed : N) (store' : list oid).

(* The DECISIONS below are not written by hand: GcDecisions.* is generated on every run from the
   AST of gc.py (translator/gcunit.py, fail-closed on the statement sequence).  The loops'
   structure is the hand-written part; Proofs/GcProofs.v (gc_eq) shows that with the decisions
   of the current source this is the flat function gc_flat all theorems are proved about. *)
Fixpoint used_hashes (alg calg : list N) (shallow dry : bool) (ld : oid -> load_res)
         (used : list (list N * oid)) (acc : list oid) : N + list oid :=
  match used with
  | [] => inr acc
  | (name, value) :: r =>
      if GcDecisions.used_skip name alg calg dry shallow then used_hashes alg calg shallow dry ld r acc
      else
        let acc1 := value :: acc in
        if GcDecisions.expand (is_dir_oid value) dry shallow then
          match ld value with
          | LoadOk l => used_hashes alg calg shallow dry ld r (l ++ acc1)
          | LoadMissing => inl 2
          | LoadCorrupt => inl 3
          end
        else used_hashes alg calg shallow dry ld r acc1
  end.

(* `if not cache_odb: cache_odb = odb` *)
Definition cache_alg_eff (i : gc_in) : list N :=
  match g_cache_alg i with Some a => a | None => g_alg i end.

Definition pick_paths (dirs files : list oid) (w : GcDecisions.paths_list) : list oid :=
  match w with GcDecisions.DirPaths => dirs | GcDecisions.FilePaths => files end.

Definition paths_list_eqb (a b : GcDecisions.paths_list) : bool :=
  match a, b with
  | GcDecisions.DirPaths, GcDecisions.DirPaths | GcDecisions.FilePaths, GcDecisions.FilePaths => true
  | _, _ => false
  end.

Definition gc (i : gc_in) : gc_out :=
  let dry := g_dry i in
  let sh := g_shallow i in
  if GcDecisions.read_only_refused (g_ro i) dry sh then GcErr 1 else
  match used_hashes (g_alg i) (cache_alg_eff i) sh dry (load (g_trees i)) (g_used i) [] with
  | inl k => GcErr k
  | inr u =>
      (* the scan: skip the used ones, partition the others into dir_paths / file_paths *)
      let unused := filter (fun o => negb (GcDecisions.scan_skip (mem o u) dry sh)) (g_store i) in
      let to_dirs o := match GcDecisions.scan_target (GcDecisions.is_dir_hash o) dry sh with
                       | GcDecisions.DirPaths => true | GcDecisions.FilePaths => false end in
      let dirs := filter to_dirs unused in
      let files := filter (fun o => negb (to_dirs o)) unused in
      (* for paths in (<removal_lists>): if <counted>: num_removed += len(paths); if <removed>: remove *)
      let lists := map (pick_paths dirs files) GcDecisions.removal_lists in
      let n := fold_left (fun a l => if GcDecisions.counted (GcDecisions.nonempty l) dry sh
                                     then a + N.of_nat (length l) else a) lists 0 in
      (* an object is gone when it was appended to a list (not skipped) and the removal loop
         removes that list; per object, so that stores of thousands stay linear to evaluate *)
      let gone o := negb (GcDecisions.scan_skip (mem o u) dry sh) &&
                    existsb (fun w => paths_list_eqb w (GcDecisions.scan_target (GcDecisions.is_dir_hash o) dry sh) &&
                                      GcDecisions.removed (GcDecisions.nonempty (pick_paths dirs files w)) dry sh)
                            GcDecisions.removal_lists in
      GcOk n (filter (fun o => negb (gone o)) (g_store i))
  end.

(* literal helper for the harness (large stores): the 32-character lower-case hex name of a
   128-bit number, so that [oid_hex32 0x0016fe09...] can stand for the list of its 32 code
   points (a list literal of 32 numbers parses ~2.5x slower).  Checked by
   GcProofs.oid_hex32_example; a wrong helper would also break the correspondence since the
   used ids and the small objects are always given as plain lists. *)
Definition hexdigit (d : N) : N := if d <? 10 then 48 + d else 87 + d.
Fixpoint hex_of (k : nat) (n : N) (acc : list N) : list N :=
  match k with
  | O => acc
  | S k' => hex_of k' (N.shiftr n 4) (hexdigit (N.land n 15) :: acc)
  end.
Definition oid_hex32 (n : N) : oid := hex_of 32 n [].

Definition enc_gc_out (o : gc_out) : val :=
  match o with
  | GcErr k => VL [VN 0; VN k]
  | GcOk n s => VL [VN 1; VN n; enc_set s]
  end.
