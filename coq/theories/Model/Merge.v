(* Model of dvc_data/hashfile/tree.py : _diff (284-297), _merge (300-332), merge (335-362)
   and of the part of the library dictdiffer (diff, patch) those functions use.

   The dictionaries are FLAT: key = tuple of str, value = (Meta|None, HashInfo|None).  The merge
   logic only compares values with Python [==] (dictdiffer.utils.are_different: tuples are not
   MutableSequence, so diff does not descend into them), hence a value is modelled by the
   identifier (an N) of its [==]-class; the harness computes the classes with the real [==].

   source (post-fix f9f9b8c):

     def _diff(ancestor, other, allowed=None):
         if not allowed: allowed = ["add"]
         result = list(diff(ancestor, other))
         for typ, _, _ in result:
             if typ not in allowed: raise MergeError(...)
         return result

     def _merge(ancestor, our, their, allowed=None):
         our_diff = _diff(ancestor, our, allowed=allowed)
         if not our_diff: return copy.deepcopy(their)
         their_diff = _diff(ancestor, their, allowed=allowed)
         if not their_diff: return copy.deepcopy(our)
         try:
             patch_ours_first = patch(our_diff + their_diff, ancestor)
             patch_theirs_first = patch(their_diff + our_diff, ancestor)
         except KeyError as e: raise MergeError(...)
         unmergeable = list(diff(patch_ours_first, patch_theirs_first))
         if unmergeable:
             unmergeable_paths = sorted(posixpath.join( *key)
                 for key in patch_ours_first.keys() | patch_theirs_first.keys()
                 if patch_ours_first.get(key) != patch_theirs_first.get(key))
             raise MergeError(...)
         return patch_ours_first

   dictdiffer.diff(first, second) on two flat dicts (read from dictdiffer/__init__.py 148-278):
     intersection = [k for k in first if k in second]; addition = [k in second, not in first];
     deletion = [k in first, not in second];
     for k in intersection: if first[k] != second[k]: yield ('change', [k], (first[k], second[k]))
     if addition: yield ('add', '', [(k, second[k]) for k in addition])        -- ONE record
     if deletion: yield ('remove', '', [(k, first[k]) for k in deletion])      -- ONE record
   dictdiffer.patch(ops, d) (281-333), on a deep copy of d, op by op:
     change: dest[k] = new       (no presence check: silently creates the key)
     add:    dest[k] = v         for each pair (silently overwrites)
     remove: del dest[k]         for each pair (KeyError when absent)

   A Python dict iterates in insertion order; the order of the records of one kind / of the pairs
   inside a record is the only thing that depends on it and it cannot influence the result of
   patch (every key occurs at most once in one diff).  The model uses [gmap] and the order of
   [map_to_list]; the correspondence compares diffs up to the order inside a group. *)
From Coq Require Import NArith.
From stdpp Require Import gmap.
From DvcData Require Import Base.Val.
From DvcData Require Export Gen.Merge.
Open Scope N_scope.

(* notations, not definitions: type-class instances are then found syntactically *)
Notation name := (list N) (only parsing).            (* one path component, code points *)
Notation key := (list (list N)) (only parsing).      (* tuple of str *)
Notation value := N (only parsing).                  (* id of the ==-class of a (meta, hash_info) pair *)
Notation dict := (gmap (list (list N)) N) (only parsing).

(* The exception classes [err], [result] (Ok | Err), the operation names [kind] and the control
   structure of _diff / _merge / merge come from Gen/Merge.v, which translator/mergeunit.py
   regenerates from hashfile/tree.py on every run; Proofs/MergeGen.v proves that [diff_], [merge_]
   and [merge_obj] below ARE the generated [g_diff], [g_merge], [g_merge_obj] instantiated with the
   environment model of this file. *)

(* exceptions: codes of harness/lib/impl.py ERR *)
Definition err_code (e : err) : N :=
  match e with MergeError => 6 | KeyError => 8 | TypeError => 99 | LoadError => 2 end.

Global Instance kind_eq_dec : EqDecision kind.
Proof. solve_decision. Defined.

(* ---------------------------------------------------------------- dictdiffer (environment) *)

Inductive ddop :=
| DChange (k : key) (old new : value)       (* ('change', [k], (old, new)) *)
| DAdd (l : list (key * value))             (* ('add', '', [(k, v), ...]) *)
| DRemove (l : list (key * value)).         (* ('remove', '', [(k, v), ...]) *)

Definition op_kind (op : ddop) : kind :=
  match op with DChange _ _ _ => KChange | DAdd _ => KAdd | DRemove _ => KRemove end.

(* keys of both with different values  ->  (old, new) *)
Definition changed (a b : dict) : gmap key (value * value) :=
  merge (λ x y, match x, y with
                | Some x, Some y => if decide (x = y) then None else Some (x, y)
                | _, _ => None
                end) a b.
Definition added (a b : dict) : dict := b ∖ a.      (* keys of b that a lacks, with b's value *)
Definition removed (a b : dict) : dict := a ∖ b.    (* keys of a that b lacks, with a's value *)

(* "if addition: yield ..." : one record, and only when non-empty *)
Definition group (c : list (key * value) → ddop) (l : list (key * value)) : list ddop :=
  match l with [] => [] | _ => [c l] end.

Definition dd_diff (a b : dict) : list ddop :=
  ((λ kv, DChange kv.1 kv.2.1 kv.2.2) <$> map_to_list (changed a b))
  ++ group DAdd (map_to_list (added a b))
  ++ group DRemove (map_to_list (removed a b)).

Fixpoint patch_add (l : list (key * value)) (d : dict) : dict :=
  match l with
  | [] => d
  | kv :: r => patch_add r (<[kv.1 := kv.2]> d)
  end.

Fixpoint patch_remove (l : list (key * value)) (d : dict) : result dict :=
  match l with
  | [] => Ok d
  | kv :: r => match d !! kv.1 with
               | Some _ => patch_remove r (delete kv.1 d)
               | None => Err KeyError                       (* del dest[key] *)
               end
  end.

Definition patch_op (op : ddop) (d : dict) : result dict :=
  match op with
  | DChange k _ new => Ok (<[k := new]> d)
  | DAdd l => Ok (patch_add l d)
  | DRemove l => patch_remove l d
  end.

Fixpoint dd_patch (ops : list ddop) (d : dict) : result dict :=
  match ops with
  | [] => Ok d
  | op :: r => match patch_op op d with
               | Ok d' => dd_patch r d'
               | Err e => Err e
               end
  end.

(* ---------------------------------------------------------------- tree.py *)

(* the [allowed] argument: None, or a list of operation names *)
Definition policy := option (list kind).
(* "if not allowed: allowed = ['add']" - None and [] both mean the default *)
Definition effective (allowed : policy) : list kind :=
  match allowed with
  | None | Some [] => [KAdd]
  | Some l => l
  end.

Definition diff_ (a b : dict) (allowed : policy) : result (list ddop) :=
  let r := dd_diff a b in
  if forallb (λ op, bool_decide (op_kind op ∈ effective allowed)) r then Ok r else Err MergeError.

(* "except KeyError: raise MergeError" *)
Definition catch_key_error {A} (r : result A) : result A :=
  match r with Err KeyError => Err MergeError | _ => r end.

(* the message of the final MergeError joins the conflicting keys with posixpath.join( *key),
   which raises TypeError for the empty tuple (no positional argument) *)
Definition conflict_paths (p1 p2 : dict) : result unit :=
  if bool_decide (p1 !! [] = p2 !! []) then Ok () else Err TypeError.

Definition merge_ (a o t : dict) (allowed : policy) : result dict :=
  match diff_ a o allowed with
  | Err e => Err e
  | Ok [] => Ok t                                   (* their side is NOT filtered by the policy *)
  | Ok od =>
      match diff_ a t allowed with
      | Err e => Err e
      | Ok [] => Ok o
      | Ok td =>
          match catch_key_error
                  (match dd_patch (od ++ td) a with
                   | Err e => Err e
                   | Ok p1 => match dd_patch (td ++ od) a with
                              | Err e => Err e
                              | Ok p2 => Ok (p1, p2)
                              end
                   end) with
          | Err e => Err e
          | Ok (p1, p2) =>
              match dd_diff p1 p2 with
              | [] => Ok p1
              | _ => match conflict_paths p1 p2 with
                     | Err e => Err e
                     | Ok _ => Err MergeError
                     end
              end
          end
      end
  end.

(* merge(odb, ancestor_info, our_info, their_info, allowed): load the three listings (a falsy
   ancestor_info is the empty listing), _merge, re-digest.  [load] and [digest] are the
   environment (Tree.load on the object store, Tree.digest). *)
Section merge_obj.
  Context {oid : Type} (load : oid → option dict) (digest : dict → oid).

  Definition load_ (i : oid) : result dict :=
    match load i with Some d => Ok d | None => Err LoadError end.

  Definition merge_obj (ai : option oid) (oi ti : oid) (allowed : policy) : result (oid * dict) :=
    match (match ai with Some i => load_ i | None => Ok ∅ end) with
    | Err e => Err e
    | Ok a =>
      match load_ oi with
      | Err e => Err e
      | Ok o =>
        match load_ ti with
        | Err e => Err e
        | Ok t =>
          match merge_ a o t allowed with
          | Err e => Err e
          | Ok m => Ok (digest m, m)
          end
        end
      end
    end.
End merge_obj.

(* ---------------------------------------------------------------- the specification *)

(* the three-way rule for one path; a side is [None] when the path is absent there *)
Inductive outcome := Take (v : option value) | Conflict.

Definition rule3 (a o t : option value) : outcome :=
  if decide (o = t) then Take o              (* both sides agree *)
  else if decide (o = a) then Take t         (* only theirs changed it *)
  else if decide (t = a) then Take o         (* only ours changed it *)
  else Conflict.

Definition is_conflict (oc : outcome) : bool :=
  match oc with Conflict => true | Take _ => false end.
Definition taken (oc : outcome) : option value :=
  match oc with Take v => v | Conflict => None end.

(* every key of one of the three listings  ->  its outcome *)
Definition rule_map (a o t : dict) : gmap key outcome :=
  merge (λ x ot, match x, ot with
                 | None, None => None
                 | _, _ => Some (rule3 x (ot ≫= fst) (ot ≫= snd))
                 end)
        a
        (merge (λ x y, match x, y with None, None => None | _, _ => Some (x, y) end) o t).

(* [None] = some path conflicts *)
Definition merge3 (a o t : dict) : option dict :=
  let r := rule_map a o t in
  if bool_decide (map_Forall (λ _ oc, is_conflict oc = false) r)
  then Some (omap taken r)
  else None.

(* ---------------------------------------------------------------- encoders (correspondence) *)

(* listings are handed over as a key universe and one number per key: 0 = absent, v+1 = value v *)
Definition cell (v : N) : option value := if (v =? 0) then None else Some (v - 1).
Definition uncell (o : option value) : N := match o with None => 0 | Some v => v + 1 end.

Fixpoint mk_dict (ks : list key) (vs : list N) : dict :=
  match ks, vs with
  | k :: ks', v :: vs' =>
      match cell v with
      | Some x => <[k := x]> (mk_dict ks' vs')
      | None => mk_dict ks' vs'
      end
  | _, _ => ∅
  end.

Definition enc_dict (ks : list key) (d : dict) : val :=
  VL [VN (N.of_nat (size d)); VL ((λ k, VN (uncell (d !! k))) <$> ks)].

Definition enc_res (ks : list key) (r : result dict) : val :=
  match r with
  | Ok d => VL [VN 1; enc_dict ks d]
  | Err e => VL [VN 0; VN (err_code e)]
  end.

Definition enc_opt_dict (ks : list key) (r : option dict) : val :=
  match r with
  | Some d => VL [VN 1; enc_dict ks d]
  | None => VL [VN 0]
  end.

(* stream "merge": (keys, ancestor, ours, theirs, policy) ->
   [_merge a o t; _merge a t o; merge3 a o t] *)
Definition merge_in : Type := list key * list N * list N * list N * policy.
Definition run_merge (i : merge_in) : val :=
  let '(ks, av, ov, tv, pol) := i in
  let a := mk_dict ks av in let o := mk_dict ks ov in let t := mk_dict ks tv in
  VL [enc_res ks (merge_ a o t pol); enc_res ks (merge_ a t o pol); enc_opt_dict ks (merge3 a o t)].

(* stream "sweep": (keys, nvalues, ancestor, ours, policy) -> one compact code per THEIR listing,
   their listings enumerated like itertools.product(range(nvalues), repeat=len(keys)) *)
Fixpoint assignments (n : nat) (nv : nat) : list (list N) :=
  match n with
  | O => [[]]
  | S n' => x ← (N.of_nat <$> seq 0 nv); (λ r, x :: r) <$> assignments n' nv
  end.

Definition base_code (nv : N) (ks : list key) (d : dict) : N :=
  foldl (λ acc k, acc * nv + uncell (d !! k)) 0 ks.

(* Ok d -> 1000 + 100 * |d| + (cells of d read as a number in base nv); Err e -> code of e *)
Definition code_res (nv : N) (ks : list key) (r : result dict) : N :=
  match r with
  | Ok d => 1000 + 100 * N.of_nat (size d) + base_code nv ks d
  | Err e => err_code e
  end.

Definition sweep_in : Type := list key * N * list N * list N * policy.
Definition run_sweep (i : sweep_in) : val :=
  let '(ks, nv, av, ov, pol) := i in
  let a := mk_dict ks av in let o := mk_dict ks ov in
  VL ((λ tv, VN (code_res nv ks (merge_ a o (mk_dict ks tv) pol)))
        <$> assignments (length ks) (N.to_nat nv)).

(* stream "diff": dictdiffer.diff alone, canonical form = the three groups as listings
   (changes: old and new listing restricted to the changed keys) *)
Definition enc_ops (ks : list key) (ops : list ddop) : val :=
  VL ((λ op, match op with
             | DChange k x y => VL [VN 2; VL ((λ k', VN (if bool_decide (k' = k) then 1 else 0)) <$> ks);
                                    VN x; VN y]
             | DAdd l => VL [VN 0; enc_dict ks (list_to_map l); VN (N.of_nat (length l))]
             | DRemove l => VL [VN 1; enc_dict ks (list_to_map l); VN (N.of_nat (length l))]
             end) <$> ops).

(* the 'change' records come in dictionary order in Python and in gmap order here: compare them
   as a set, i.e. as the pair of listings (old values, new values) over the changed keys *)
Fixpoint leading_changes (ops : list ddop) : nat :=
  match ops with DChange _ _ _ :: r => S (leading_changes r) | _ => O end.
Definition enc_diff (ks : list key) (ops : list ddop) : val :=
  let ch := filter (λ op, op_kind op = KChange) ops in
  let rest := filter (λ op, op_kind op ≠ KChange) ops in
  let olds : dict := list_to_map (omap (λ op, match op with DChange k x _ => Some (k, x) | _ => None end) ch) in
  let news : dict := list_to_map (omap (λ op, match op with DChange k _ y => Some (k, y) | _ => None end) ch) in
  VL [VN (N.of_nat (length ch)); enc_dict ks olds; enc_dict ks news;
      (* position of the first non-change record = number of change records: changes come first *)
      VN (N.of_nat (leading_changes ops));
      enc_ops ks rest].

Definition diff_in : Type := list key * list N * list N.
Definition run_diff (i : diff_in) : val :=
  let '(ks, av, bv) := i in enc_diff ks (dd_diff (mk_dict ks av) (mk_dict ks bv)).

(* stream "patch": dictdiffer.patch on ARBITRARY operation lists (not only diffs) *)
Definition patch_in : Type := list key * list ddop * list N.
Definition run_patch (i : patch_in) : val :=
  let '(ks, ops, dv) := i in enc_res ks (dd_patch ops (mk_dict ks dv)).
