(* Model of the key arithmetic of dvc_data/hashfile/build.py : _build_tree

     path = path.rstrip(fs.sep)
     for root, files in _walk_files(fs, path): ...
         rel_key = ()
         if root != path:
             rel_key = tuple(root[len(path) + 1 :].split(fs.sep))

   [path] is the directory as the caller spelled it (possibly with trailing separators), [root]
   a directory yielded by the walk of the stripped path.  Text = code points. *)
From Coq Require Import NArith List Bool.
From DvcData Require Import Base.Val Model.Listing.
Import ListNotations.
Open Scope N_scope.

Fixpoint drop_sep (sep : N) (s : list N) : list N :=
  match s with
  | c :: r => if c =? sep then drop_sep sep r else s
  | [] => []
  end.

(* s.rstrip(sep) for a one-character sep *)
Definition rstrip_sep (sep : N) (s : list N) : list N := rev (drop_sep sep (rev s)).

Definition rel_key_of (path root : list N) : key :=
  let p := rstrip_sep slash path in
  if list_N_eqb root p then [] else split_sep slash (skipn (S (length p)) root).
