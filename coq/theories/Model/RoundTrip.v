(* Model for C02: stage -> store -> checkout round trip.

   Source (as read in /repo/src/dvc_data):
     hashfile/build.py   _build_tree / _build_files / _build_file / build
     hashfile/tree.py    Tree.add / digest / as_bytes / load / from_list   (Model/Listing.v)
     hashfile/db         add_update_tree, odb.add (an existing oid is not written again)
     hashfile/checkout.py  checkout(path, fs, obj, cache) into a location that does not exist
     index/build.py build, index/save.py md5 + save + build_tree, index/checkout.py compare(None, idx)
     + apply

   Input of the model = what os.walk yields to _build_tree: the list, in walk order (the order is
   the file system's, an explicit argument here), of
        (root string, [(file name, bytes)])
   one item per visited directory, *including* directories without files.  The model derives the
   relative key from the root *string* exactly as the code does:
        rel_key = () if root == path else tuple(root[len(path)+1:].split("/"))
   with path = path.rstrip("/").

   [stage] = build(odb, path, fs, "md5") followed by transfer(staging, odb, {obj.hash_info}) into
   an empty odb: the resulting store (oid |-> bytes), the directory oid, the Tree that was built
   (dict order = walk order) and the returned Meta (nfiles, size).
   [load]  = Tree.load(odb, hash_info).
   [checkout] = load + checkout(path, localfs, tree, odb) into a location that does not exist:
   every entry is linked from the store to fs.join(path, *key); the file system resolves that string
   by splitting it on "/" ([fs_key]); parents are created by makedirs.
   [idx_roundtrip] = index.build -> md5 -> save(odb) -> compare(None, idx) -> apply.

   The digest is a Section variable [H] (instantiated by MD5.md5_hex for execution).

   Scope limits, stated once:
   * default algorithm md5, no `upload`, no `dry_run`, no ignore object, local file system;
   * file names are non-empty (a local directory has no entry named ""; `files.pop("")` is not
     modelled) and "/"-free, so os.path.join(path, *key) = path + "/" + "/".join(key);
   * every directory listed by os.walk is also visited by it (no symlinked directories, no
     permission errors, no broken links);
   * error codes: 20 IgnoreInCollectedDirError, 2 FileNotFoundError (object absent),
     3/8/9/99 as Listing.from_bytes, 5 CheckoutError (a listed file object is absent). *)
From Coq Require Import NArith List Bool.
From DvcData Require Import Base.Val Base.MD5 Base.Json Model.Listing.
Import ListNotations.
Open Scope N_scope.

Definition name := list N.
Definition bytes := list N.
Definition wdir := (list N * list (name * bytes))%type.     (* one os.walk step *)
Definition walk := list wdir.

Inductive res (A : Type) : Type := Ok (a : A) | Err (c : N).
Arguments Ok {A} a.
Arguments Err {A} c.

Definition dvcignore : list N := [46;100;118;99;105;103;110;111;114;101].   (* .dvcignore *)

(* ------------------------------------------------------------------ strings *)
Fixpoint drop_slashes (s : list N) : list N :=
  match s with
  | c :: r => if c =? slash then drop_slashes r else s
  | [] => []
  end.
(* s.rstrip("/") *)
Definition rstrip_sep (s : list N) : list N := rev (drop_slashes (rev s)).

(* rel_key of _build_tree *)
Definition rel_key (p root : list N) : key :=
  if list_N_eqb root p then [] else split_sep slash (skipn (S (length p)) root).

(* ------------------------------------------------------------------ object store *)
Definition store := list (list N * bytes).

Fixpoint st_get (o : list N) (s : store) : option bytes :=
  match s with
  | [] => None
  | (o', b) :: r => if list_N_eqb o o' then Some b else st_get o r
  end.

(* odb.add: an object that exists is left alone *)
Definition st_add (ob : list N * bytes) (s : store) : store :=
  match st_get (fst ob) s with Some _ => s | None => s ++ [ob] end.

Definition st_add_all (obs : list (list N * bytes)) (s : store) : store :=
  fold_left (fun s ob => st_add ob s) obs s.

(* ------------------------------------------------------------------ a checked-out location *)
Definition fsmap := list (key * bytes).

(* how the file system reads fs.join(path, *key) below path *)
Definition fs_key (k : key) : key := split_sep slash (join_sep slash k).

Fixpoint fs_write (k : key) (b : bytes) (f : fsmap) : fsmap :=
  match f with
  | [] => [(k, b)]
  | (k', b') :: r => if key_eqb k k' then (k, b) :: r else (k', b') :: fs_write k b r
  end.

(* the non-empty proper prefixes of a key: the directories makedirs(parent) creates *)
Fixpoint proper_prefixes (k : key) : list key :=
  match k with
  | [] => []
  | x :: r => match r with
              | [] => []
              | _ :: _ => [x] :: map (cons x) (proper_prefixes r)
              end
  end.

Definition dirs_of (f : fsmap) : list key := flat_map (fun kb => proper_prefixes (fst kb)) f.

Section WithDigest.
Variable H : bytes -> list N.

Definition digestH (t : tree) : list N := H (as_bytes false t) ++ dot_dir.

Definition file_meta (b : bytes) : meta := mk_meta false (Some (N.of_nat (length b))) None false.

Definition file_entry (rk : key) (nb : name * bytes) : entry :=
  {| e_key := rk ++ [fst nb]; e_meta := Some (file_meta (snd nb)); e_hash := Some (s_md5, H (snd nb)) |}.

Definition file_obj (nb : name * bytes) : list N * bytes := (H (snd nb), snd nb).

(* ------------------------------------------------------------------ stage *)
Record bstate := { b_tree : tree; b_store : store; b_size : N }.

(* one iteration of the loop of _build_tree *)
Definition build_dir (p : list N) (st : bstate) (rd : wdir) : res bstate :=
  match snd rd with
  | [] => Ok st                                                    (* if not files: continue *)
  | _ :: _ =>
      if existsb (fun nb => list_N_eqb (fst nb) dvcignore) (snd rd) then Err 20
      else
        let rk := rel_key p (fst rd) in
        Ok {| b_tree := fold_left (fun t nb => add (file_entry rk nb) t) (snd rd) (b_tree st);
              b_store := st_add_all (map file_obj (snd rd)) (b_store st);
              b_size := fold_left (fun z nb => z + N.of_nat (length (snd nb))) (snd rd) (b_size st) |}
  end.

Fixpoint build_dirs (p : list N) (w : walk) (st : bstate) : res bstate :=
  match w with
  | [] => Ok st
  | rd :: r => match build_dir p st rd with
               | Ok st' => build_dirs p r st'
               | Err c => Err c
               end
  end.

Record staged := { sg_store : store; sg_oid : list N; sg_tree : tree; sg_nfiles : N; sg_size : N }.

(* build(odb, path) + transfer(staging, odb, {obj.hash_info}, shallow=False) into an odb that already
   holds s0: compare_status asks the destination for the directory object *and* (expansion requested)
   every file it lists, and exactly the absent ones are added; what is there is left alone.  The
   staging store is in memory ("assume memfs staged objects already exist"): nothing is missing. *)
Definition stage_from (s0 : store) (path : list N) (w : walk) : res staged :=
  match build_dirs (rstrip_sep path) w {| b_tree := []; b_store := s0; b_size := 0 |} with
  | Err c => Err c
  | Ok st =>
      let t := b_tree st in
      Ok {| sg_store := st_add (digestH t, as_bytes false t) (b_store st);
            sg_oid := digestH t; sg_tree := t;
            sg_nfiles := N.of_nat (length t); sg_size := b_size st |}
  end.

Definition stage (path : list N) (w : walk) : res staged := stage_from [] path w.

(* transfer(staging, odb, {obj.hash_info}) with the default shallow=True into s0: only the directory
   object is asked for and added *)
Definition shallow_store (s0 : store) (path : list N) (w : walk) : res store :=
  match build_dirs (rstrip_sep path) w {| b_tree := []; b_store := []; b_size := 0 |} with
  | Err c => Err c
  | Ok st => let t := b_tree st in Ok (st_add (digestH t, as_bytes false t) s0)
  end.

(* single file: _build_file *)
Definition stage_file (b : bytes) : staged :=
  {| sg_store := [(H b, b)]; sg_oid := H b; sg_tree := [];
     sg_nfiles := 0; sg_size := N.of_nat (length b) |}.

(* ------------------------------------------------------------------ load, checkout *)
Definition load (s : store) (oid : list N) : res tree :=
  match st_get oid s with
  | None => Err 2
  | Some raw => match from_bytes None raw with FlOk t => Ok t | FlErr c => Err c end
  end.

(* link every entry of the tree from the store; a missing object fails the checkout (after the
   other files were created; only the error is modelled) *)
Fixpoint checkout_entries (s : store) (es : tree) (f : fsmap) : res fsmap :=
  match es with
  | [] => Ok f
  | e :: r =>
      match e_hash e with
      | Some (_, v) =>
          match st_get v s with
          | Some b => checkout_entries s r (fs_write (fs_key (e_key e)) b f)
          | None => Err 5
          end
      | None => Err 99
      end
  end.

Definition checkout (s : store) (oid : list N) : res fsmap :=
  match load s oid with
  | Err c => Err c
  | Ok t => checkout_entries s t []
  end.

(* a file object checked out at the location itself *)
Definition checkout_file (s : store) (oid : list N) : res bytes :=
  match st_get oid s with Some b => Ok b | None => Err 5 end.

(* ------------------------------------------------------------------ index path *)
Definition walk_files (p : list N) (w : walk) : list (key * bytes) :=
  flat_map (fun rd => map (fun nb => (rel_key p (fst rd) ++ [fst nb], snd nb)) (snd rd)) w.

(* directory entries of index.build: every visited directory but the root *)
Definition walk_dirs (p : list N) (w : walk) : list key :=
  filter (fun d => negb (is_nil d)) (map (fun rd => rel_key p (fst rd)) w).

Definition idx_entry (kb : key * bytes) : entry :=
  {| e_key := fst kb; e_meta := Some (file_meta (snd kb)); e_hash := Some (s_md5, H (snd kb)) |}.

(* file entries of md5(build(path)) as a Tree keyed like the index *)
Definition idx_tree (p : list N) (w : walk) : tree := tree_of_list (map idx_entry (walk_files p w)).

Definition dir_obj (t : tree) (d : key) : list N * bytes :=
  let sub := subtree d t in (digestH sub, as_bytes false sub).

(* save(idx, odb): file objects, then one directory object per directory entry *)
Definition idx_save (p : list N) (w : walk) : store :=
  let t := idx_tree p w in
  st_add_all (map (dir_obj t) (walk_dirs p w))
    (st_add_all (map (fun kb => (H (snd kb), snd kb)) (walk_files p w)) []).

Record idx_out := { io_store : store; io_files : fsmap; io_dirs : list key }.

Definition idx_roundtrip (path : list N) (w : walk) : res idx_out :=
  let p := rstrip_sep path in
  let s := idx_save p w in
  (* apply(compare(None, idx)): create every directory entry, then every file from the store *)
  match checkout_entries s (idx_tree p w) [] with
  | Err c => Err c
  | Ok f => Ok {| io_store := s; io_files := f;
                  io_dirs := map fs_key (walk_dirs p w) ++ dirs_of f |}
  end.

End WithDigest.

(* ------------------------------------------------------------------ val encoders *)
Definition pair_leb (a b : list N * bytes) : bool := lex_leb (fst a) (fst b).
Definition enc_store (s : store) : val :=
  enc_list (enc_pair enc_bytes enc_bytes) (sort_by pair_leb s).
Definition enc_fsmap (f : fsmap) : val :=
  enc_list (enc_pair enc_bytes enc_bytes)
    (sort_by pair_leb (map (fun kb => (join_sep slash (fst kb), snd kb)) f)).
Definition enc_dirs (d : list key) : val := enc_set (map (join_sep slash) d).
Definition enc_keyhash (t : tree) : val :=
  enc_list (fun e => VL [enc_key (e_key e); enc_hash (e_hash e)]) t.
Definition enc_res {A} (f : A -> val) (r : res A) : val :=
  match r with Ok a => VL [VN 1; f a] | Err c => VL [VN 0; VN c] end.

(* everything the harness observes for one directory tree, digest = md5 *)
Definition obj_roundtrip (path : list N) (w : walk) : val :=
  match stage md5_hex path w with
  | Err c => VL [VN 0; VN c]
  | Ok sg =>
      VL [VN 1; VB (sg_oid sg); VN (sg_nfiles sg); VN (sg_size sg);
          enc_keyhash (sg_tree sg);                                   (* the Tree that was built *)
          enc_store (sg_store sg);                                    (* the odb after transfer *)
          enc_res enc_tree (load (sg_store sg) (sg_oid sg));          (* Tree.load *)
          enc_res (fun f => VL [enc_fsmap f; enc_dirs (dirs_of f)])
                  (checkout (sg_store sg) (sg_oid sg))]
  end.

Definition enc_idx_out (o : idx_out) : val :=
  VL [enc_store (io_store o); enc_fsmap (io_files o); enc_dirs (io_dirs o)].

Definition idx_roundtrip_val (path : list N) (w : walk) : val :=
  enc_res enc_idx_out (idx_roundtrip md5_hex path w).

Definition file_roundtrip (b : bytes) : val :=
  let sg := stage_file md5_hex b in
  VL [VB (sg_oid sg); VN (sg_size sg); enc_store (sg_store sg);
      enc_res enc_bytes (checkout_file (sg_store sg) (sg_oid sg))].

(* pre-histories of the destination store, then the full transfer and the round trip:
   0 = the directory object alone was transferred first (shallow), 1 = a complete transfer from which
   the objects [gone] were deleted afterwards *)
Definition obj_roundtrip_hist (path : list N) (w : walk) (kind : N) (gone : list (list N)) : val :=
  let pre :=
    if kind =? 0 then shallow_store md5_hex [] path w
    else match stage md5_hex path w with
         | Ok sg => Ok (filter (fun ob => negb (existsb (list_N_eqb (fst ob)) gone)) (sg_store sg))
         | Err c => Err c
         end in
  match pre with
  | Err c => VL [VN 0; VN c]
  | Ok s0 =>
      match stage_from md5_hex s0 path w with
      | Err c => VL [VN 0; VN c]
      | Ok sg =>
          VL [VN 1; VB (sg_oid sg); enc_store s0; enc_store (sg_store sg);
              enc_res (fun f => VL [enc_fsmap f; enc_dirs (dirs_of f)])
                      (checkout (sg_store sg) (sg_oid sg))]
      end
  end.

(* re-staging: the tree w1 was staged and transferred, files were rewritten, the tree - now w2 - is
   staged again into the same odb and checked out.  Staging in the model is cache-free: it hashes the
   bytes that are there now; that a hash-state cache changes nothing is what the correspondence with
   runs WITH a State checks (the cache's own soundness is C13's theorem). *)
Definition restage2_val (path path2 : list N) (w1 w2 : walk) (gone : list (list N)) : val :=
  match stage md5_hex path w1 with
  | Err c => VL [VN 0; VN c]
  | Ok sg1 =>
      (* objects deleted from the store between the two builds; the staging references of the first
         build are gone with it: every build references the paths it hashed itself *)
      let s0 := filter (fun ob => negb (existsb (list_N_eqb (fst ob)) gone)) (sg_store sg1) in
      match stage_from md5_hex s0 path2 w2 with
      | Err c => VL [VN 0; VN c]
      | Ok sg =>
          VL [VN 1; VB (sg_oid sg1); VB (sg_oid sg); VN (sg_nfiles sg); VN (sg_size sg);
              enc_keyhash (sg_tree sg); enc_store (sg_store sg);
              enc_res (fun f => VL [enc_fsmap f; enc_dirs (dirs_of f)])
                      (checkout (sg_store sg) (sg_oid sg))]
      end
  end.

Definition restage_val (path : list N) (w1 w2 : walk) (gone : list (list N)) : val :=
  restage2_val path path w1 w2 gone.

(* checkout of a store from which some objects were removed (malformed stream) *)
Definition checkout_without (path : list N) (w : walk) (gone : list (list N)) : val :=
  match stage md5_hex path w with
  | Err c => VL [VN 0; VN c]
  | Ok sg =>
      let s := filter (fun ob => negb (existsb (list_N_eqb (fst ob)) gone)) (sg_store sg) in
      enc_res (fun f => VL [enc_fsmap f]) (checkout s (sg_oid sg))
  end.
