(* C01 - model of the operations that put objects into object stores.

   Sources (as they are in /repo now):
     hashfile/build.py        build / _build_file / _build_tree / _build_files / _upload_file /
                              _build_external_tree_info      (staging through a reference odb)
     hashfile/db/__init__.py  HashFileDB.add (copy, then protect every oid handed in), add_update_tree
     hashfile/db/local.py     oid_to_path (2-char fan-out = the key of the map), protect = chmod 0o444
     hashfile/db/migrate.py   prepare (re-hash under the destination algorithm, ".dir" carried
                              over), migrate (dest.add(..., hardlink=True))
     hashfile/transfer.py     transfer / _do_transfer / _add  (fault-free: no upload fails here;
                              faults are C04/C11)
     hashfile/status.py       status / compare_status (existence only; no remote index)
     index/save.py            save (files under their recorded hash), _save_dir_entry / build_tree
     hashfile/tree.py         Tree.digest, Tree.load  (through Model/Listing.v)

   A store is an association list  oid -> (bytes, mode, inode).  The inode is there because
   migrate hard-links: the source and destination names then share one inode, so the chmod of
   [protect] on a local destination changes the mode seen under the source name as well
   (observed on the real code; the harness observes whether the file system granted the hard link
   and passes it in as [hard]).  The finite family of stores is a list; operations name stores
   by position.

   The digest is a parameter  H : alg -> bytes -> oid  of the whole model (a Section variable);
   the proofs never look inside it.  For execution it is instantiated with [H_exec] at the end
   of this file: RFC 1321 MD5 (Base/MD5.v), MD5 after the dos2unix text normalisation of
   hashfile/hash.py, and FIPS 180-4 SHA-256 (written below).

   A store directory can be reopened under the other class (OReopen): what the generic class left
   unprotected is then found by a local-class store.  A status query (transfer, staging) on a
   local-class store runs LocalHashFileDB.check on every id it asks about: an unprotected object
   is re-hashed, protected on a match, removed on a mismatch ([check_obj]).
   The model is free of any hash-state cache: it hashes.  The harness also runs histories in which
   all stores share one real State and unchanged workspaces are staged again under the other
   algorithm; the real code must then still equal this cache-free model ("the state cache is sound").

   Non-determinism the implementation resolves internally is an explicit argument:
     - the order in which the workspace walk / the index iteration yields files (Stage, SaveIndex:
       with md5-dos2unix two different contents can have one oid; the last one yielded is the one
       whose bytes are stored);
     - the order in which migrate.prepare's thread pool returns the re-hashed objects and whether
       the file system hard-links (Migrate: the first one wins under hard links).

   Scope limits, stated once:
     * contents are shorter than one hashing chunk (2^20 bytes), so the dos2unix heuristic looks
       at the first 512 bytes of the whole content (chunking is C14);
     * copies get mode 0o644 (umask 022, pinned by the harness) and a fresh inode;
     * uploads never fail (the fault model is C04/C11), no remote index; verify only as the flag of
       transfer (HashFileDB.add's post-add check; the pre-add check sees no object: the ids are new);
     * within one transfer the adds are grouped "all files, then the directory objects" - the real
       code interleaves them per directory in set-iteration order; the resulting store is the
       same, only the (unobservable) inode numbers differ;
     * StageUpload leaves its temporary upload file in the root of the store directory; it is not
       at <2 chars>/<rest>, hence not an object, and is not modelled. *)
From Coq Require Import NArith List Bool.
From DvcData Require Import Base.Val Base.MD5 Base.Json Model.Listing.
Import ListNotations.
Open Scope N_scope.

Definition oid := list N.

Inductive alg := Md5 | Md5D2U | Sha256.
Inductive cls := Local | Base.

Definition s_sha256 : list N := [115;104;97;50;53;54].
Definition alg_name (a : alg) : list N :=
  match a with Md5 => s_md5 | Md5D2U => s_md5_dos2unix | Sha256 => s_sha256 end.
Definition alg_eqb (a b : alg) : bool :=
  match a, b with Md5, Md5 | Md5D2U, Md5D2U | Sha256, Sha256 => true | _, _ => false end.

Definition mode_ro : N := 292.   (* 0o444  LocalHashFileDB.CACHE_MODE *)
Definition mode_rw : N := 420.   (* 0o644  = 0o666 & ~umask, umask 022 *)

Record obj := { o_bytes : list N; o_mode : N; o_ino : N }.
Record store := { s_cls : cls; s_alg : alg; s_objs : list (oid * obj) }.
Record state := { st_stores : list store; st_next : N }.

(* hash_info.isdir : value.endswith(".dir") *)
Definition is_dir_oid (o : oid) : bool :=
  match rev o with
  | 114 :: 105 :: 100 :: 46 :: _ => true
  | _ => false
  end.

(* ------------------------------------------------------------------ association lists *)
Fixpoint alookup {A} (k : oid) (l : list (oid * A)) : option A :=
  match l with
  | [] => None
  | (k', v) :: r => if list_N_eqb k k' then Some v else alookup k r
  end.
Fixpoint aput {A} (k : oid) (v : A) (l : list (oid * A)) : list (oid * A) :=
  match l with
  | [] => [(k, v)]
  | (k', v') :: r => if list_N_eqb k k' then (k, v) :: r else (k', v') :: aput k v r
  end.
Definition ahas {A} (k : oid) (l : list (oid * A)) : bool :=
  match alookup k l with Some _ => true | None => false end.

Definition mem (k : oid) (l : list oid) : bool := existsb (list_N_eqb k) l.
Fixpoint dedup (l : list oid) : list oid :=
  match l with
  | [] => []
  | x :: r => if mem x r then dedup r else x :: dedup r
  end.

(* the distinct ids of a list, in first-occurrence order (the keys of a dict built from it) *)
Fixpoint distinct_acc (seen l : list oid) : list oid :=
  match l with
  | [] => []
  | x :: r => if mem x seen then distinct_acc seen r else x :: distinct_acc (x :: seen) r
  end.
Definition distinct (l : list oid) : list oid := distinct_acc [] l.

Fixpoint upd_nth {A} (i : nat) (f : A -> A) (l : list A) : list A :=
  match l, i with
  | [], _ => []
  | x :: r, O => f x :: r
  | x :: r, S j => x :: upd_nth j f r
  end.

Definition get_store (st : state) (i : nat) : option store := nth_error (st_stores st) i.
Definition with_objs (s : store) (os : list (oid * obj)) : store :=
  {| s_cls := s_cls s; s_alg := s_alg s; s_objs := os |}.

(* ------------------------------------------------------------------ chmod / protect *)
Definition chmod_obj (i m : N) (o : obj) : obj :=
  if o_ino o =? i then {| o_bytes := o_bytes o; o_mode := m; o_ino := o_ino o |} else o.
Definition chmod_store (i m : N) (s : store) : store :=
  with_objs s (map (fun p => (fst p, chmod_obj i m (snd p))) (s_objs s)).
(* os.chmod acts on the inode: every name that shares it sees the new mode *)
Definition chmod_all (i m : N) (st : state) : state :=
  {| st_stores := map (chmod_store i m) (st_stores st); st_next := st_next st |}.

(* HashFileDB.protect is a no-op, LocalHashFileDB.protect is chmod 0o444; a missing file is
   skipped (FileNotFoundError swallowed in add) *)
Definition protect_one (st : state) (si : nat) (k : oid) : state :=
  match get_store st si with
  | Some s =>
      match s_cls s with
      | Local => match alookup k (s_objs s) with
                 | Some o => chmod_all (o_ino o) mode_ro st
                 | None => st
                 end
      | Base => st
      end
  | None => st
  end.

(* a copy: temp file, rename over the final name; new inode, mode 0o644 *)
Definition put_new (st : state) (si : nat) (k : oid) (b : list N) : state :=
  {| st_stores := upd_nth si (fun s => with_objs s
                     (aput k {| o_bytes := b; o_mode := mode_rw; o_ino := st_next st |} (s_objs s)))
                     (st_stores st);
     st_next := st_next st + 1 |}.
(* a hard link: the same inode under a second name *)
Definition put_link (st : state) (si : nat) (k : oid) (o : obj) : state :=
  {| st_stores := upd_nth si (fun s => with_objs s (aput k o (s_objs s))) (st_stores st);
     st_next := st_next st |}.

Fixpoint aremove {A} (k : oid) (l : list (oid * A)) : list (oid * A) :=
  match l with
  | [] => []
  | (k', v) :: r => if list_N_eqb k k' then aremove k r else (k', v) :: aremove k r
  end.
(* fs.remove(obj.path): the name goes, other names of the inode stay *)
Definition del_obj (st : state) (si : nat) (k : oid) : state :=
  {| st_stores := upd_nth si (fun s => with_objs s (aremove k (s_objs s))) (st_stores st);
     st_next := st_next st |}.
Definition set_cls (st : state) (si : nat) (c : cls) : state :=
  {| st_stores := upd_nth si (fun s => {| s_cls := c; s_alg := s_alg s; s_objs := s_objs s |}) (st_stores st);
     st_next := st_next st |}.

(* bit rot / an editor: the content of the inode changes, every name of it sees the new bytes;
   the mode stays *)
Definition rot_obj (i : N) (b : list N) (o : obj) : obj :=
  if o_ino o =? i then {| o_bytes := b; o_mode := o_mode o; o_ino := o_ino o |} else o.
Definition rot_ino (i : N) (b : list N) (st : state) : state :=
  {| st_stores := map (fun s => with_objs s (map (fun p => (fst p, rot_obj i b (snd p))) (s_objs s)))
                      (st_stores st);
     st_next := st_next st |}.

Definition store_has (st : state) (si : nat) (k : oid) : bool :=
  match get_store st si with Some s => ahas k (s_objs s) | None => false end.

(* HashFileDB.add(paths, fs, oids, check_exists) with links [reflink(unavailable), copy]:
   the exists filter is evaluated up front; the copies run one after the other (batch size 1
   between local file systems), a later item with the same oid replaces the earlier one; then
   every distinct oid that was handed in is protected (the post loop runs over a dict keyed by oid). *)
Definition add_copy (st : state) (si : nat) (items : list (oid * list N)) (check_exists : bool) : state :=
  let to_add := if check_exists then filter (fun it => negb (store_has st si (fst it))) items
                else items in
  let st1 := fold_left (fun s it => put_new s si (fst it) (snd it)) to_add st in
  fold_left (fun s k => protect_one s si k) (distinct (map fst items)) st1.

(* dest.add(paths, src.fs, oids, hardlink=True) of migrate: links [reflink, hardlink, copy];
   os.link on an existing name raises FileExistsError, which generic.transfer skips: the first
   item of an oid wins.  dvc_objects' localfs.link does not link an empty file but creates a new
   empty one (open(path, "w")).  [hard = false]: the file system refused the link, plain copies. *)
Definition add_link (st : state) (si : nat) (items : list (oid * obj)) (hard : bool) : state :=
  let to_add := filter (fun it => negb (store_has st si (fst it))) items in
  let st1 := fold_left (fun s it =>
               if hard then
                 match o_bytes (snd it) with
                 | [] => put_new s si (fst it) []        (* localfs.link: an empty file is created, not linked *)
                 | _ => if store_has s si (fst it) then s else put_link s si (fst it) (snd it)
                 end
               else put_new s si (fst it) (o_bytes (snd it))) to_add st in
  fold_left (fun s k => protect_one s si k) (distinct (map fst items)) st1.

(* ------------------------------------------------------------------ operations *)
Inductive work :=
| WFile (b : list N)
| WDir (files : list (key * list N)).        (* in the order the workspace walk yields them *)

Inductive op :=
| OStage (si : nat) (w : work)
| OStageUpload (si : nat) (w : work)
| OAdd (si : nat) (b : list N) (k : oid)
| OTransfer (src dst : nat) (ids : list oid) (shallow : bool) (verify : bool)
| OSaveIndex (si : nat) (dirs : list key) (files : list (key * list N * oid))
| OMigrate (src dst : nat) (order : list oid) (hard : bool)
| OReopen (si : nat) (c : cls)               (* the same directory opened under the other store class *)
| ORot (si : nat) (k : oid) (b : list N).    (* NOT a dvc-data operation: the bytes of an object change on disk *)

Section WithDigest.
Variable H : alg -> list N -> oid.

(* Tree.load(odb, hash_info).  hash_name is forced to md5-dos2unix by such an odb. *)
Definition hn_of (a : alg) : option (list N) :=
  match a with Md5D2U => Some s_md5_dos2unix | _ => None end.

Definition entry_values (t : tree) : list oid :=
  map (fun e => match e_hash e with Some (_, v) => v | None => [] end) t.

(* the file ids a directory object lists; inr code = the exception *)
Definition load_entries (a : alg) (src : oid -> option (list N)) (d : oid) : list oid + N :=
  match src d with
  | None => inr 2                                            (* FileNotFoundError *)
  | Some b => match from_bytes (hn_of a) b with
              | FlOk t => inl (entry_values t)
              | FlErr c => inr c
              end
  end.

Fixpoint load_all (a : alg) (src : oid -> option (list N)) (ds : list oid)
  : list (oid * list oid) + N :=
  match ds with
  | [] => inl []
  | d :: r => match load_entries a src d with
              | inr c => inr c
              | inl es => match load_all a src r with
                          | inr c => inr c
                          | inl l => inl ((d, es) :: l)
                          end
              end
  end.

Definition is_nilb (o : oid) : bool := match o with [] => true | _ => false end.

(* oid.split(".")[0] *)
Fixpoint stem (k : oid) : oid :=
  match k with
  | [] => []
  | c :: r => if c =? 46 then [] else c :: stem r
  end.

(* LocalHashFileDB.check(oid), as oids_exist calls it for every id of a status query: a missing
   file does not exist; mode 0o444 is trusted; anything else is re-hashed (HashFileDB.check):
   a mismatch removes the object (ObjectFormatError -> does not exist), a match protects it.
   The generic class only looks whether the file is there. *)
Definition check_obj (st : state) (si : nat) (k : oid) : state :=
  match get_store st si with
  | Some s =>
      match s_cls s with
      | Local =>
          match alookup k (s_objs s) with
          | Some o =>
              if o_mode o =? mode_ro then st
              else if list_N_eqb (stem (H (s_alg s) (o_bytes o))) (stem k)
                   then chmod_all (o_ino o) mode_ro st
                   else del_obj st si k
          | None => st
          end
      | Base => st
      end
  | None => st
  end.
Definition check_all (st : state) (si : nat) (ks : list oid) : state :=
  fold_left (fun s k => check_obj s si k) ks st.

(* HashFileDB.add(..., verify=True), the post-add loop: every arrived object is checked - it was
   just copied (mode 0o644), so a local-class store does hash it - and a mismatch is removed
   ("dropped by verification: it did not arrive", reported through on_error); a match is protected *)
Definition verify_one (st : state) (si : nat) (k : oid) : state :=
  match get_store st si with
  | Some s =>
      match alookup k (s_objs s) with
      | Some o => if list_N_eqb (stem (H (s_alg s) (o_bytes o))) (stem k)
                  then protect_one st si k else del_obj st si k
      | None => st
      end
  | None => st
  end.
Definition add_copy_v (st : state) (si : nat) (items : list (oid * list N)) : state :=
  let st1 := fold_left (fun s it => put_new s si (fst it) (snd it)) items st in
  fold_left (fun s k => verify_one s si k) (distinct (map fst items)) st1.

(* the (oid, bytes) pairs of the ids the source really holds *)
Definition items_of (src : oid -> option (list N)) (ks : list oid) : list (oid * list N) :=
  flat_map (fun k => match src k with Some b => [(k, b)] | None => [] end) ks.

(* status(): the ids a transfer asks about - the requested ones and, unless shallow, the files
   listed by the requested directory objects (loaded from the source); inr = the exception *)
Definition expand (a : alg) (src : oid -> option (list N)) (ids : list oid) (shallow : bool)
  : list oid + N :=
  let ids := dedup ids in
  let dirs := filter is_dir_oid ids in
  match (if shallow then inl [] else load_all a src dirs) with
  | inr c => inr c
  | inl expanded =>
      if existsb (fun de => existsb is_nilb (snd de)) expanded then inr 10      (* assert oid.value *)
      else inl (dedup (flat_map snd expanded ++ ids))
  end.

(* compare_status + _do_transfer without faults and without remote indexes, on the state the
   status queries left: what is to be copied - (file objects, directory objects) - or the exception.
   [a]: hash_name of the source odb; [src]: its objects.  (status.py assumes that a memfs staging
   source holds every id; build() put every id it requests there, so looking them up is the same.) *)
Definition transfer_plan (a : alg) (src : oid -> option (list N)) (vf : option alg)
           (st : state) (dst : nat) (all : list oid)
  : (list (oid * list N) * list (oid * list N)) + N :=
  let dst_exists := filter (store_has st dst) all in
  let dst_missing := filter (fun k => negb (store_has st dst k)) all in
  let in_src k := match src k with Some _ => true | None => false end in
  let new := filter (fun k => in_src k && negb (mem k dst_exists)) all in
  let missing := filter (fun k => negb (in_src k)) dst_missing in
  (* _do_transfer *)
  let new_dirs := filter is_dir_oid new in
  let new_files := filter (fun k => negb (is_dir_oid k)) new in
  match load_all a src new_dirs with
  | inr _ => inr 10                                   (* assert dir_obj *)
  | inl loaded =>
      (* verify=True ([vf] = the destination's algorithm): a new file whose bytes do not hash to its
         id is dropped on arrival and counts as failed; a directory listing it is withheld *)
      let failed k := match vf, src k with
                      | Some a', Some b => mem k new_files && negb (list_N_eqb (stem (H a' b)) (stem k))
                      | _, _ => false
                      end in
      let send := filter (fun de => negb (existsb (fun k => mem k missing || failed k) (snd de))) loaded in
      inl (items_of src new_files, items_of src (map fst send))
  end.

(* dest.add(..., check_exists=False): the file objects in one call, then every directory object
   whose listed files are all on one of the two sides *)
Definition add_new (verify : bool) (st : state) (dst : nat) (items : list (oid * list N)) : state :=
  if verify then add_copy_v st dst items else add_copy st dst items false.
Definition apply_plan (verify : bool) (st : state) (dst : nat)
           (p : list (oid * list N) * list (oid * list N)) : state :=
  let st1 := match fst p with [] => st | _ => add_new verify st dst (fst p) end in
  fold_left (fun s it => add_new verify s dst [it]) (snd p) st1.

(* transfer(src, dest, ids, shallow): status(dest) checks every id (a local destination verifies
   and protects what it holds unprotected); if something is missing there, status(src) does the
   same on a real source store ([src_idx]; a staging source is memfs and not queried); then the
   new objects are added.  [srcf st]: the source's objects in state [st]. *)
Definition transfer_core (a : alg) (srcf : state -> oid -> option (list N)) (src_idx : option nat)
           (verify : bool) (st : state) (dst : nat) (ids : list oid) (shallow : bool) : state * N :=
  match expand a (srcf st) ids shallow with
  | inr c => (st, c)
  | inl all =>
      let st1 := check_all st dst all in
      match filter (fun k => negb (store_has st1 dst k)) all with
      | [] => (st1, 0)
      | _ :: _ =>
          let st2 := match src_idx with Some i => check_all st1 i all | None => st1 end in
          let vf := if verify then option_map s_alg (get_store st2 dst) else None in
          match transfer_plan a (srcf st2) vf st2 dst all with
          | inr c => (st2, c)
          | inl p => (apply_plan verify st2 dst p, 0)
          end
      end
  end.

(* what build() leaves in the staging (reference) odb: oid -> bytes, later entries replace
   earlier ones (ReferenceHashFileDB._obj_cache is a dict) *)
Definition refs_lookup (refs : list (oid * list N)) (k : oid) : option (list N) :=
  alookup k (rev refs).

Definition file_entry (a : alg) (kb : key * oid) : entry :=
  {| e_key := fst kb; e_meta := None; e_hash := Some (alg_name a, snd kb) |}.

(* Tree.digest(): always hashes the listing with DEFAULT_ALGORITHM = md5 *)
Definition listing_of (a : alg) (files : list (key * oid)) : list N :=
  as_bytes false (tree_of_list (map (file_entry a) files)).
Definition dir_oid_of (listing : list N) : oid := H Md5 listing ++ dot_dir.

(* build(odb, path, fs, name = odb.hash_name) ; transfer(staging, odb, {obj.hash_info}, shallow=False) *)
Definition stage (st : state) (si : nat) (w : work) : state * N :=
  match get_store st si with
  | None => (st, 99)
  | Some s =>
      let a := s_alg s in
      match w with
      | WFile b =>
          let k := H a b in
          transfer_core a (fun _ => refs_lookup [(k, b)]) None false st si [k] false
      | WDir files =>
          let hashed := map (fun kb => (fst kb, H a (snd kb), snd kb)) files in
          let listing := listing_of a (map (fun x => (fst (fst x), snd (fst x))) hashed) in
          let d := dir_oid_of listing in
          let refs := map (fun x => (snd (fst x), snd x)) hashed ++ [(d, listing)] in
          match a with
          | Md5 => transfer_core a (fun _ => refs_lookup refs) None false st si [d] false
          | _ =>
              (* _build_external_tree_info: the listing goes straight into the destination under
                 its md5 name, is re-hashed with the odb's algorithm and requested under that *)
              let st1 := add_copy st si [(d, listing)] true in
              transfer_core a (fun _ => refs_lookup refs) None false st1 si [H a listing ++ dot_dir] false
          end
      end
  end.

(* build(..., upload=True): _build_files asserts name == "md5" before the first upload; a
   directory without files never gets there.  Every file is hashed (md5 of the raw stream)
   while it is copied to a temporary name, and referenced under that digest. *)
Definition stage_upload (st : state) (si : nat) (w : work) : state * N :=
  match get_store st si with
  | None => (st, 99)
  | Some s =>
      match s_alg s, w with
      | Md5, _ => stage st si w
      | _, WDir [] => stage st si w
      | _, _ => (st, 10)                                      (* AssertionError *)
      end
  end.

(* odb.add(path, fs, oid) by a caller outside dvc-data *)
Definition add_ext (st : state) (si : nat) (b : list N) (k : oid) : state * N :=
  match get_store st si with
  | None => (st, 99)
  | Some _ => (add_copy st si [(k, b)] true, 0)
  end.

Definition store_bytes (st : state) (si : nat) (k : oid) : option (list N) :=
  match get_store st si with Some s => option_map o_bytes (alookup k (s_objs s)) | None => None end.

Definition transfer_op (st : state) (src dst : nat) (ids : list oid) (shallow verify : bool) : state * N :=
  match get_store st src, get_store st dst with
  | Some s, Some _ =>
      if Nat.eqb src dst then (st, 0)                         (* src == dest *)
      else transfer_core (s_alg s) (fun st' k => store_bytes st' src k) (Some src) verify st dst ids shallow
  | _, _ => (st, 99)
  end.

(* index.save(idx, odb): the files under their recorded hash in one add; then one directory
   object per directory entry, built from the index (build_tree; Tree.digest -> md5) *)
Definition dir_listing (a : alg) (files : list (key * list N * oid)) (d : key) : list N :=
  let below := filter (fun f => is_prefix d (fst (fst f)) && negb (key_eqb (fst (fst f)) d)) files in
  listing_of a (map (fun f => (skipn (length d) (fst (fst f)), snd f)) below).

Definition save_index (st : state) (si : nat) (dirs : list key) (files : list (key * list N * oid))
  : state * N :=
  match get_store st si with
  | None => (st, 99)
  | Some s =>
      let a := s_alg s in
      let st1 := match files with
                 | [] => st
                 | _ => add_copy st si (map (fun f => (snd f, snd (fst f))) files) true
                 end in
      (fold_left (fun s' d => let l := dir_listing a files d in
                              add_copy s' si [(dir_oid_of l, l)] true) dirs st1, 0)
  end.

(* migrate(prepare(src, dest)) *)
Definition migrate_items (a' : alg) (objs : list (oid * obj)) (order : list oid) : list (oid * obj) :=
  let listed := dedup (filter (fun k => ahas k objs) order) in
  let rest := filter (fun k => negb (mem k listed)) (map fst objs) in
  flat_map (fun k => match alookup k objs with
                     | Some o => [(H a' (o_bytes o) ++ (if is_dir_oid k then dot_dir else []), o)]
                     | None => []
                     end) (listed ++ rest).

Definition migrate_op (st : state) (src dst : nat) (order : list oid) (hard : bool) : state * N :=
  match get_store st src, get_store st dst with
  | Some s, Some d =>
      match s_objs s with
      | [] => (st, 0)
      | _ => (add_link st dst (migrate_items (s_alg d) (s_objs s) order) hard, 0)
      end
  | _, _ => (st, 99)
  end.

Definition step_op (st : state) (o : op) : state * N :=
  match o with
  | OStage si w => stage st si w
  | OStageUpload si w => stage_upload st si w
  | OAdd si b k => add_ext st si b k
  | OTransfer src dst ids sh vf => transfer_op st src dst ids sh vf
  | OSaveIndex si dirs files => save_index st si dirs files
  | OMigrate src dst order hard => migrate_op st src dst order hard
  | OReopen si c => (set_cls st si c, 0)
  | ORot si k b =>
      (match get_store st si with
       | Some s => match alookup k (s_objs s) with Some o => rot_ino (o_ino o) b st | None => st end
       | None => st
       end, 0)
  end.

(* ---- the caller's obligations (WfOp of Proofs/StoreOpsProofs.v), as a boolean ---- *)
(* the bytes are what Tree.as_bytes() prints for the tree they parse to *)
Definition canonical_b (b : list N) : bool :=
  match from_bytes None b with
  | FlOk t => list_N_eqb (as_bytes false t) b
  | FlErr _ => false
  end.
Definition named_ok_b (a : alg) (k : oid) (b : list N) : bool :=
  if is_dir_oid k then list_N_eqb k (H a b ++ dot_dir) && canonical_b b else list_N_eqb k (H a b).

Definition wf_op_b (st : state) (o : op) : bool :=
  match o with
  | OStage si w | OStageUpload si w =>
      match w, get_store st si with
      | WDir _, Some s => negb (alg_eqb (s_alg s) Sha256)
      | _, _ => true
      end
  | OAdd si b k =>
      match get_store st si with Some s => named_ok_b (s_alg s) k b | None => true end
  | OTransfer src dst _ _ _ =>
      match get_store st src, get_store st dst with
      | Some s, Some d => alg_eqb (s_alg s) (s_alg d)
      | _, _ => true
      end
  | OSaveIndex si dirs files =>
      match get_store st si with
      | Some s => forallb (fun f => list_N_eqb (snd f) (H (s_alg s) (snd (fst f)))) files
                  && (match dirs with [] => true | _ => negb (alg_eqb (s_alg s) Sha256) end)
      | None => true
      end
  | OMigrate _ _ _ _ => true
  | OReopen _ _ => true
  | ORot _ _ _ => false                       (* not an operation of dvc-data *)
  end.

(* a sufficient boolean test for "the invariant is violated": some object is filed under a name
   that is not the digest of its bytes, or a local-class object is not read-only *)
Definition name_bad_b (a : alg) (k : oid) (b : list N) : bool :=
  negb (list_N_eqb k (if is_dir_oid k then H a b ++ dot_dir else H a b)).
Definition store_viol_b (s : store) : bool :=
  existsb (fun k => match alookup k (s_objs s) with
                    | Some o => name_bad_b (s_alg s) k (o_bytes o)
                                || match s_cls s with Local => negb (o_mode o =? mode_ro) | Base => false end
                    | None => false
                    end) (map fst (s_objs s)).
Definition viol_b (st : state) : bool := existsb store_viol_b (st_stores st).

Definition step (st : state) (o : op) : state := fst (step_op st o).

Fixpoint wf_hist_b (st : state) (ops : list op) : bool :=
  match ops with
  | [] => true
  | o :: r => wf_op_b st o && wf_hist_b (step st o) r
  end.
Definition run (st : state) (ops : list op) : state := fold_left step ops st.

End WithDigest.

Definition init_state (cfg : list (cls * alg)) : state :=
  {| st_stores := map (fun c => {| s_cls := fst c; s_alg := snd c; s_objs := [] |}) cfg;
     st_next := 1 |}.

(* ------------------------------------------------------------------ dos2unix (hashfile/hash.py) *)
(* TEXT_CHARS = bytes(range(32,127)) + b"\n\r\t\f\b" *)
Definition is_text_char (c : N) : bool :=
  ((32 <=? c) && (c <=? 126)) || (c =? 10) || (c =? 13) || (c =? 9) || (c =? 12) || (c =? 8).

(* istextblock: empty -> text; a NUL -> binary; else  len(nontext)/len(block) <= 0.30, decided
   here on integers (10 * nontext <= 3 * len; equal to the float test for blocks of <= 512 bytes,
   C14's sweep) *)
Definition istextblock (block : list N) : bool :=
  match block with
  | [] => true
  | _ => if existsb (N.eqb 0) block then false
         else let nontext := N.of_nat (length (filter (fun c => negb (is_text_char c)) block)) in
              10 * nontext <=? 3 * N.of_nat (length block)
  end.

(* data.replace(b"\r\n", b"\n") *)
Fixpoint dos2unix (l : list N) : list N :=
  match l with
  | [] => []
  | c :: r =>
      match r with
      | d :: _ => if (c =? 13) && (d =? 10) then dos2unix r else c :: dos2unix r
      | [] => [c]
      end
  end.

(* what Dos2UnixHashStreamFile feeds the hasher for a content of one chunk *)
Definition d2u_norm (b : list N) : list N :=
  match b with
  | [] => []
  | _ => if istextblock (firstn 512 b) then dos2unix b else b
  end.

(* ------------------------------------------------------------------ SHA-256 (FIPS 180-4) *)
Definition rotr32 (x s : N) : N := N.land (N.lor (N.shiftr x s) (N.shiftl x (32 - s))) mask32.
Definition Ksha : list N := [
 1116352408;1899447441;3049323471;3921009573;961987163;1508970993;2453635748;2870763221;
 3624381080;310598401;607225278;1426881987;1925078388;2162078206;2614888103;3248222580;
 3835390401;4022224774;264347078;604807628;770255983;1249150122;1555081692;1996064986;
 2554220882;2821834349;2952996808;3210313671;3336571891;3584528711;113926993;338241895;
 666307205;773529912;1294757372;1396182291;1695183700;1986661051;2177026350;2456956037;
 2730485921;2820302411;3259730800;3345764771;3516065817;3600352804;4094571909;275423344;
 430227734;506948616;659060556;883997877;958139571;1322822218;1537002063;1747873779;
 1955562222;2024104815;2227730452;2361852424;2428436474;2756734187;3204031479;3329325298].

Fixpoint be_word (acc : N) (bs : list N) : N :=
  match bs with [] => acc | b :: r => be_word (acc * 256 + b) r end.
Fixpoint be_words (n : nat) (bs : list N) : list N :=
  match n with O => [] | S k => be_word 0 (firstn 4 bs) :: be_words k (skipn 4 bs) end.

Definition ssig0 (x : N) : N := N.lxor (N.lxor (rotr32 x 7) (rotr32 x 18)) (N.shiftr x 3).
Definition ssig1 (x : N) : N := N.lxor (N.lxor (rotr32 x 17) (rotr32 x 19)) (N.shiftr x 10).
Definition bsig0 (x : N) : N := N.lxor (N.lxor (rotr32 x 2) (rotr32 x 13)) (rotr32 x 22).
Definition bsig1 (x : N) : N := N.lxor (N.lxor (rotr32 x 6) (rotr32 x 11)) (rotr32 x 25).

(* message schedule, newest word first: w = [W(t-1); W(t-2); ...] *)
Fixpoint sha_sched (n : nat) (w : list N) : list N :=
  match n with
  | O => w
  | S k =>
      let x := add32 (add32 (ssig1 (nth 1 w 0)) (nth 6 w 0)) (add32 (ssig0 (nth 14 w 0)) (nth 15 w 0)) in
      sha_sched k (x :: w)
  end.

Definition sha_state := (N * N * N * N * N * N * N * N)%type.

Definition sha_round (st : sha_state) (kw : N * N) : sha_state :=
  let '(a, b, c, d, e, f, g, h) := st in
  let ch := N.lxor (N.land e f) (N.land (not32 e) g) in
  let maj := N.lxor (N.lxor (N.land a b) (N.land a c)) (N.land b c) in
  let t1 := add32 (add32 (add32 h (bsig1 e)) (add32 ch (fst kw))) (snd kw) in
  let t2 := add32 (bsig0 a) maj in
  (add32 t1 t2, a, b, c, add32 d t1, e, f, g).

Definition sha_block (st : sha_state) (bs : list N) : sha_state :=
  let w := rev (sha_sched 48 (rev (be_words 16 bs))) in
  let '(a0, b0, c0, d0, e0, f0, g0, h0) := st in
  let '(a, b, c, d, e, f, g, h) := fold_left sha_round (combine Ksha w) st in
  (add32 a0 a, add32 b0 b, add32 c0 c, add32 d0 d, add32 e0 e, add32 f0 f, add32 g0 g, add32 h0 h).

Fixpoint be_bytes (n : nat) (x : N) : list N :=
  match n with O => [] | S k => ((x / 256 ^ N.of_nat k) mod 256) :: be_bytes k x end.

Definition sha_pad (msg : list N) : list N :=
  let len := N.of_nat (length msg) in
  let zeros := N.to_nat ((119 - (len mod 64)) mod 64) in
  msg ++ [128] ++ repeat 0 zeros ++ be_bytes 8 (8 * len).

Fixpoint sha_blocks (fuel : nat) (st : sha_state) (bs : list N) : sha_state :=
  match fuel with O => st | S k =>
    match bs with [] => st | _ => sha_blocks k (sha_block st (firstn 64 bs)) (skipn 64 bs) end end.

Definition sha_init : sha_state :=
  (1779033703, 3144134277, 1013904242, 2773480762, 1359893119, 2600822924, 528734635, 1541459225).

Definition sha256_raw (msg : list N) : list N :=
  let p := sha_pad msg in
  let '(a, b, c, d, e, f, g, h) := sha_blocks (S (length p)) sha_init p in
  be_bytes 4 a ++ be_bytes 4 b ++ be_bytes 4 c ++ be_bytes 4 d ++
  be_bytes 4 e ++ be_bytes 4 f ++ be_bytes 4 g ++ be_bytes 4 h.
Definition sha256_hex (msg : list N) : list N := flat_map hex_byte (sha256_raw msg).

(* ------------------------------------------------------------------ the executable digest *)
Definition H_exec (a : alg) (b : list N) : oid :=
  match a with
  | Md5 => md5_hex b
  | Md5D2U => md5_hex (d2u_norm b)
  | Sha256 => sha256_hex b
  end.

(* ------------------------------------------------------------------ history runner + encoders *)
(* sorted listing of a store: (oid, bytes, mode) *)
Definition obj_leb (a b : oid * obj) : bool := lex_leb (fst a) (fst b).
Definition listing (s : store) : list (oid * obj) := sort_by obj_leb (s_objs s).

Definition same_obj (a b : obj) : bool :=
  list_N_eqb (o_bytes a) (o_bytes b) && (o_mode a =? o_mode b).

(* what changed in a store between two states: the entries of [next] that are new or differ,
   the number of objects of [next], and the ids that are gone *)
Definition delta (prev next : store) : val :=
  let ch := filter (fun p => match alookup (fst p) (s_objs prev) with
                             | Some o => negb (same_obj o (snd p))
                             | None => true
                             end) (listing next) in
  let gone := filter (fun p => negb (ahas (fst p) (s_objs next))) (listing prev) in
  VL [VN (N.of_nat (length (s_objs next)));
      VL (map (fun p => VL [VB (fst p); VB (o_bytes (snd p)); VN (o_mode (snd p))]) ch);
      VL (map (fun p => VB (fst p)) gone)].

Fixpoint deltas (prev next : list store) : list val :=
  match prev, next with
  | p :: pr, n :: nr => delta p n :: deltas pr nr
  | _, _ => []
  end.

(* run a history; after every step: the result code, whether the operation met the caller's
   obligations (WfOp) in the state it was applied to, and the delta of every store *)
Fixpoint run_trace (H : alg -> list N -> oid) (st : state) (ops : list op) : list val :=
  match ops with
  | [] => []
  | o :: r =>
      let '(st', c) := step_op H st o in
      VL [VN c; enc_bool (wf_op_b H st o); VL (deltas (st_stores st) (st_stores st'))] :: run_trace H st' r
  end.

Definition run_history (cfg : list (cls * alg)) (ops : list op) : val :=
  VL (run_trace H_exec (init_state cfg) ops).

(* ------------------------------------------------------------------ test vectors *)
(* hashlib.sha256(b"").hexdigest() = e3b0c44298fc1c149afbf4c8996fb92427ae41e4649b934ca495991b7852b855 *)
Example sha256_empty :
  sha256_hex [] =
  [101;51;98;48;99;52;52;50;57;56;102;99;49;99;49;52;57;97;102;98;102;52;99;56;57;57;54;102;98;57;50;52;
   50;55;97;101;52;49;101;52;54;52;57;98;57;51;52;99;97;52;57;53;57;57;49;98;55;56;53;50;98;56;53;53].
Proof. vm_compute. reflexivity. Qed.

(* sha256(b"abc") = ba7816bf8f01cfea414140de5dae2223b00361a396177a9cb410ff61f20015ad *)
Example sha256_abc :
  sha256_hex [97;98;99] =
  [98;97;55;56;49;54;98;102;56;102;48;49;99;102;101;97;52;49;52;49;52;48;100;101;53;100;97;101;50;50;50;51;
   98;48;48;51;54;49;97;51;57;54;49;55;55;97;57;99;98;52;49;48;102;102;54;49;102;50;48;48;49;53;97;100].
Proof. vm_compute. reflexivity. Qed.
