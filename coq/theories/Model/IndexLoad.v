(* C17 - model of the lazily loaded data index: dvc_data/index/index.py (DataIndex.__getitem__,
   _load, _load_from_storage, _load_from_object_storage, iteritems, ls, info), index/view.py
   (DataIndexView._iteritems, _load_dir_keys, ls), index/diff.py (_diff with hash_only=True) and
   fs.py (DataFileSystem._get_key, info, ls, _get_fs_path/_open).

   State.  An index is a finite map  key |-> entry(meta?, hash?, loaded)  kept as an association
   list; the object store (directory objects = flat listings with multi-part keys, file blobs) and
   the prefix of the one ObjectStorage are the environment [env].

   Loading.  [expand] is _load + _load_from_object_storage for one entry: the entry is marked
   loaded and, *in its place*, its children are materialised: one file entry per listing row
   (Meta from the row, HashInfo(md5, row.md5)) and one directory entry (Meta(isdir=True),
   loaded=True, no hash) for every proper non-empty prefix of a multi-part row key (the `dirs`
   set of the source).  The real trie *overwrites* what is already stored under those keys; the
   model places the children next to the directory entry, which is the same map exactly when
   nothing is stored beneath an unloaded directory entry ([wf] in the proofs; it is the premise
   of the property: "holds a directory as a single unloaded entry").

   Every access operation is  "load what the source loads at that point, then answer from the
   resulting state":  step = (load_where sel ; query).  Which entries are selected follows the
   source line by line (longest valued prefix in __getitem__/iteritems, the key itself in
   _ensure_loaded, every yielded entry in iteritems, every visited .dir-hashed entry in the view).
   A selected entry that cannot be loaded (no .dir hash, object absent or unparsable) makes the
   operation fail with DataIndexDirError (11), as the default `onerror` does.

   Answers are canonical: key sets are enumerated in key order ([usort]) and values looked up,
   the bookkeeping flag `loaded` and the in-place `entry.meta = Meta()` of _get_meta are not
   part of an answer (encoders apply [norm] and drop [e_loaded]). *)
From Coq Require Import NArith List Bool.
From DvcData Require Import Base.Val.
Import ListNotations.
Open Scope N_scope.

Definition name := list N.
Definition key := list name.
Definition oid := list N.

(* ---- keys ------------------------------------------------------------------------------ *)
Fixpoint key_eqb (a b : key) : bool :=
  match a, b with
  | [], [] => true
  | x :: a', y :: b' => list_N_eqb x y && key_eqb a' b'
  | _, _ => false
  end.

Fixpoint is_prefix (p k : key) : bool :=
  match p, k with
  | [], _ => true
  | x :: p', y :: k' => list_N_eqb x y && is_prefix p' k'
  | _ :: _, [] => false
  end.

Definition strict_prefix (p k : key) : bool := is_prefix p k && negb (key_eqb p k).

(* all non-empty prefixes of k, k included *)
Fixpoint inits_ne (k : key) : list key :=
  match k with
  | [] => []
  | x :: r => [x] :: map (cons x) (inits_ne r)
  end.

(* ikey[:-idx] for idx in range(1, len(ikey)): the proper non-empty prefixes *)
Fixpoint proper_inits (k : key) : list key :=
  match k with
  | [] => []
  | x :: r => match r with
              | [] => []
              | _ :: _ => [x] :: map (cons x) (proper_inits r)
              end
  end.

(* lexicographic order (Python tuple / str comparison) and canonical enumeration *)
Fixpoint lex_lt {A} (ltb eqb : A -> A -> bool) (a b : list A) : bool :=
  match a, b with
  | [], [] => false
  | [], _ :: _ => true
  | _ :: _, [] => false
  | x :: a', y :: b' => if ltb x y then true else if eqb x y then lex_lt ltb eqb a' b' else false
  end.
Definition name_ltb : name -> name -> bool := lex_lt N.ltb N.eqb.
Definition key_ltb : key -> key -> bool := lex_lt name_ltb list_N_eqb.

Fixpoint ins {A} (ltb : A -> A -> bool) (x : A) (l : list A) : list A :=
  match l with
  | [] => [x]
  | y :: r => if ltb x y then x :: l else if ltb y x then y :: ins ltb x r else l
  end.
Definition usort {A} (ltb : A -> A -> bool) (l : list A) : list A := fold_right (ins ltb) [] l.

(* ---- entries ---------------------------------------------------------------------------- *)
Record emeta := { m_dir : bool; m_size : option N; m_exec : bool }.
Record entry := { e_meta : option emeta; e_hash : option oid; e_loaded : bool }.
Record lrow := { r_key : key; r_hash : oid; r_size : option N; r_exec : bool }.
(* one object store: the directory objects it can load (present and parseable) and its file objects *)
Record store := {
  s_dirs : list (oid * list lrow);
  s_blobs : list (oid * list N) }.
(* the storage map: one StorageInfo at prefix v_sp with up to three roles, each an ObjectStorage *)
Record env := {
  v_sp : option key;                       (* None: no storage registered *)
  v_data : option store;
  v_cache : option store;
  v_remote : option store;
  v_hidden : list oid;                     (* directory objects currently unreadable in every storage *)
  v_swallow : bool }.                      (* index.onerror swallows DataIndexDirError (default: raises) *)

Definition with_hidden (E : env) (l : list oid) : env :=
  {| v_sp := v_sp E; v_data := v_data E; v_cache := v_cache E; v_remote := v_remote E;
     v_hidden := l; v_swallow := v_swallow E |}.
Definition hide (h : oid) (E : env) : env := with_hidden E (h :: v_hidden E).
Definition restore (h : oid) (E : env) : env :=
  with_hidden E (filter (fun h' => negb (list_N_eqb h h')) (v_hidden E)).
Definition unhide (E : env) : env := with_hidden E [].

Definition idx := list (key * entry).

Definition meta0 : emeta := {| m_dir := false; m_size := None; m_exec := false |}.
Definition hi_truthy (h : option oid) : bool := match h with Some (_ :: _) => true | _ => false end.
Definition dot_dir : list N := [46; 100; 105; 114].
Definition ends_with (s suf : list N) : bool :=
  Nat.leb (length suf) (length s) && list_N_eqb (skipn (Nat.sub (length s) (length suf)) s) suf.
Definition hi_isdir (h : option oid) : bool :=
  match h with Some (c :: v) => ends_with (c :: v) dot_dir | _ => false end.

(* _get_meta with an ObjectStorage-only storage map: hash => Meta(), else None *)
Definition norm (e : entry) : entry :=
  match e_meta e with
  | Some _ => e
  | None => if hi_truthy (e_hash e)
            then {| e_meta := Some meta0; e_hash := e_hash e; e_loaded := e_loaded e |} else e
  end.
Definition isdir_raw (e : entry) : bool := match e_meta e with Some m => m_dir m | None => false end.
Definition mark (e : entry) : entry := {| e_meta := e_meta e; e_hash := e_hash e; e_loaded := true |}.

Fixpoint assoc {B} (l : list (list N * B)) (k : list N) : option B :=
  match l with
  | [] => None
  | (k', b) :: r => if list_N_eqb k k' then Some b else assoc r k
  end.

Fixpoint lookup (i : idx) (k : key) : option entry :=
  match i with
  | [] => None
  | (k', e) :: r => if key_eqb k k' then Some e else lookup r k
  end.

(* what an answer may show of an entry: everything but the bookkeeping flag *)
Definition strip (e : entry) : entry := {| e_meta := e_meta e; e_hash := e_hash e; e_loaded := false |}.
Definition lookupS (i : idx) (k : key) : option entry := option_map strip (lookup i k).

Definition has_node (i : idx) (k : key) : bool := existsb (fun x => is_prefix k (fst x)) i.
Definition is_node (i : idx) (k : key) : bool := match k with [] => true | _ => has_node i k end.

(* ---- loading ----------------------------------------------------------------------------- *)
Definition under_sp (E : env) (k : key) : bool :=
  match v_sp E with Some p => is_prefix p k | None => false end.

(* DataIndex._load goes on to _load_from_storage *)
Definition loadable (E : env) (x : key * entry) : bool :=
  negb (e_loaded (snd x)) && isdir_raw (snd x) && under_sp E (fst x).

(* the first role, in the given order, that is registered and answers *)
Fixpoint first_some {A B} (f : A -> option B) (l : list (option A)) : option B :=
  match l with
  | [] => None
  | None :: r => first_some f r
  | Some a :: r => match f a with Some b => Some b | None => first_some f r end
  end.
(* _load_from_storage tries data, cache, remote; DataFileSystem._get_fs_path tries cache, remote, data *)
Definition roles_load (E : env) : list (option store) := [v_data E; v_cache E; v_remote E].
Definition roles_read (E : env) : list (option store) := [v_cache E; v_remote E; v_data E].

(* _load_from_storage / _load_from_object_storage: needs a .dir hash and Tree.load to succeed in
   one of the storages; a storage where it fails (object absent or unparsable) is skipped *)
Definition listing_of (E : env) (e : entry) : option (list lrow) :=
  match e_hash e with
  | Some h => if hi_isdir (Some h) && negb (existsb (list_N_eqb h) (v_hidden E))
              then first_some (fun st => assoc (s_dirs st) h) (roles_load E) else None
  | None => None
  end.
(* _get_fs_path: the first storage whose file system has the object *)
Definition blob_of (E : env) (h : oid) : option (list N) :=
  first_some (fun st => assoc (s_blobs st) h) (roles_read E).

Definition file_entry (r : lrow) : entry :=
  {| e_meta := Some {| m_dir := false; m_size := r_size r; m_exec := r_exec r |};
     e_hash := Some (r_hash r); e_loaded := false |}.
Definition dir_entry : entry :=
  {| e_meta := Some {| m_dir := true; m_size := None; m_exec := false |}; e_hash := None; e_loaded := true |}.

Definition mem_key (k : key) (l : list key) : bool := existsb (key_eqb k) l.
Fixpoint dedup (l : list key) : list key :=
  match l with
  | [] => []
  | x :: r => if mem_key x r then dedup r else x :: dedup r
  end.

Definition children (k : key) (rows : list lrow) : idx :=
  map (fun p => (k ++ p, dir_entry)) (dedup (flat_map (fun r => proper_inits (r_key r)) rows))
  ++ map (fun r => (k ++ r_key r, file_entry r)) rows.

Definition expand (E : env) (x : key * entry) : idx :=
  if loadable E x then
    match listing_of E (snd x) with
    | Some rows => (fst x, mark (snd x)) :: children (fst x) rows
    | None => [x]
    end
  else [x].

Definition sel := key * entry -> bool.
Definition s_none : sel := fun _ => false.
Definition s_all : sel := fun _ => true.
Definition s_key (d : key) : sel := fun x => key_eqb d (fst x).

Definition load_where (E : env) (s : sel) (i : idx) : idx :=
  flat_map (fun x => if s x then expand E x else [x]) i.
Definition load_all (E : env) : idx -> idx := load_where E s_all.
Definition load (E : env) (k : key) : idx -> idx := load_where E (s_key k).

Definition is_some {A} (o : option A) : bool := match o with Some _ => true | None => false end.
(* a selected entry whose load raises DataIndexDirError *)
Definition fails (E : env) (s : sel) (i : idx) : bool :=
  existsb (fun x => s x && loadable E x && negb (is_some (listing_of E (snd x)))) i.

(* ---- primitive steps ------------------------------------------------------------------------ *)
Inductive res (A : Type) : Type := Ok (a : A) | Err (n : N).
Arguments Ok {A} a.
Arguments Err {A} n.

Definition E_KEY : N := 8.
Definition E_DIRERR : N := 11.
Definition E_NOTFOUND : N := 2.
Definition E_SHORT : N := 15.
Definition E_ISDIR : N := 16.

(* pygtrie longest_prefix: the longest key carrying a value that is a prefix of k *)
Definition lp (i : idx) (k : key) : option key :=
  fold_left (fun best x =>
               if is_prefix (fst x) k then
                 match best with
                 | None => Some (fst x)
                 | Some b => if Nat.ltb (length b) (length (fst x)) then Some (fst x) else best
                 end
               else best) i None.
Definition s_lp (i : idx) (k : key) : sel := match lp i k with Some d => s_key d | None => s_none end.

(* DataIndex._load: a failing load goes to index.onerror; the default raises (the operation fails,
   DataIndexDirError), a swallowing one returns and the entry simply stays unloaded *)
Definition blocked (E : env) (s : sel) (i : idx) : bool := negb (v_swallow E) && fails E s i.

(* the common shape: load the selection (or fail), then answer from the new state *)
Definition guarded {A} (E : env) (s : sel) (i : idx) (q : idx -> res A) : idx * res A :=
  if blocked E s i then (i, Err E_DIRERR) else let i' := load_where E s i in (i', q i').

(* trie[key]: Ok None = ShortKeyError (a node without a value) *)
Definition get_q (k : key) (i : idx) : res (option entry) :=
  match lookupS i k with
  | Some e => Ok (Some e)
  | None => if is_node i k then Ok None else Err E_KEY
  end.

(* DataIndex.__getitem__ *)
Definition get_sel (i : idx) (k : key) : sel :=
  match lookup i k with Some _ => s_none | None => s_lp i k end.
Definition get_step (E : env) (i : idx) (k : key) : idx * res (option entry) :=
  guarded E (get_sel i k) i (get_q k).

(* the names of the child nodes of k *)
Definition child_name (k k' : key) : list name :=
  if is_prefix k k' then match skipn (length k) k' with n :: _ => [n] | [] => [] end else [].
Definition children_q (k : key) (i : idx) : list (key * option entry) :=
  map (fun n => (k ++ [n], lookupS i (k ++ [n])))
      (usort name_ltb (flat_map (fun x => child_name k (fst x)) i)).
Definition ls_q (k : key) (i : idx) : res (list (key * option entry)) :=
  if is_node i k then Ok (children_q k i) else Err E_KEY.

(* DataIndex.ls: _ensure_loaded (self.get + _load of the key itself) then trie.ls *)
Definition ensure_sel (k : key) (i : idx) : sel :=
  match lookup i k with
  | Some e => if isdir_raw e && negb (e_loaded e) then s_key k else s_none
  | None => s_none
  end.
Definition ls_step (E : env) (i : idx) (k : key) : idx * res (list (key * option entry)) :=
  let '(i1, r) := get_step E i k in
  match r with
  | Err 11 => (i1, Err E_DIRERR)
  | _ => guarded E (ensure_sel k i1) i1 (ls_q k)
  end.

(* DataIndex.iteritems(prefix, shallow) *)
Definition top (i : idx) (p k : key) : bool :=
  negb (existsb (fun x => is_prefix p (fst x) && strict_prefix (fst x) k) i).
Definition items_sel (i : idx) (p : key) (sh : bool) : sel :=
  fun x => is_prefix p (fst x) && (negb sh || top i p (fst x)).
Definition items_q (p : key) (sh : bool) (i : idx) : res (list (key * option entry)) :=
  Ok (map (fun k => (k, lookupS i k))
          (usort key_ltb (filter (fun k => is_prefix p k && (negb sh || top i p k)) (map fst i)))).
Definition items_step (E : env) (i : idx) (p : key) (sh : bool) : idx * res (list (key * option entry)) :=
  let s1 := match p with [] => s_none | _ => s_lp i p end in
  if blocked E s1 i then (i, Err E_DIRERR) else
  let i1 := load_where E s1 i in
  if negb (is_node i1 p) then (i1, Err E_KEY) else
  guarded E (items_sel i1 p sh) i1 (items_q p sh).

(* DataIndexView.iteritems(): traversal through keys that pass the filter, loading every visited
   entry that carries a .dir hash and is not loaded (_load_dir_keys) *)
Definition pathok (f : key -> bool) (k : key) : bool :=
  match k with [] => false | _ => forallb f (inits_ne k) end.
(* an entry at the root key is never yielded by a view, but its directory is loaded like any other *)
Definition view_sel (f : key -> bool) : sel :=
  fun x => (match fst x with [] => true | _ => pathok f (fst x) end) && hi_isdir (e_hash (snd x)).
Definition view_items_q (f : key -> bool) (i : idx) : res (list (key * option entry)) :=
  Ok (map (fun k => (k, lookupS i k)) (usort key_ltb (filter (pathok f) (map fst i)))).
Definition view_items_step (E : env) (i : idx) (f : key -> bool) :=
  guarded E (view_sel f) i (view_items_q f).

Definition filter_res {A} (f : A -> bool) (r : res (list A)) : res (list A) :=
  match r with Ok l => Ok (filter f l) | Err n => Err n end.
Definition view_ls_step (E : env) (i : idx) (f : key -> bool) (k : key) :=
  let '(i', r) := ls_step E i k in (i', filter_res (fun c : key * option entry => f (fst c)) r).

(* ---- the fs adaptor ------------------------------------------------------------------------- *)
Definition slash : N := 47.
Definition split_on (sep : N) (s : list N) : list (list N) :=
  fold_right (fun c acc => if N.eqb c sep then [] :: acc
                           else match acc with h :: t => (c :: h) :: t | [] => [[c]] end) [[]] s.
Definition dot : list N := [46].
Definition dotdot : list N := [46; 46].
(* posixpath.normpath on an absolute path, component-wise *)
Definition norm_comps (cs : list name) : key :=
  fold_left (fun acc c => if list_N_eqb c [] || list_N_eqb c dot then acc
                          else if list_N_eqb c dotdot then removelast acc else acc ++ [c]) cs [].
(* DataFileSystem._get_key *)
Definition fs_key (p : list N) : key := norm_comps (split_on slash p).
Fixpoint join_sep (sep : N) (k : key) : list N :=
  match k with
  | [] => []
  | [x] => x
  | x :: r => x ++ sep :: join_sep sep r
  end.
Definition path_of_key (k : key) : list N := slash :: join_sep slash k.
(* posixpath.join(a, b) for a component b without slashes *)
Definition pjoin (a b : list N) : list N :=
  match a with
  | [] => b
  | _ => if N.eqb (last a 0) slash then a ++ b else a ++ slash :: b
  end.

Definition nf_err {A} (r : res A) : res A :=      (* KeyError -> FileNotFoundError *)
  match r with Err 8 => Err E_NOTFOUND | _ => r end.

Definition fs_info_step (E : env) (i : idx) (p : list N) : idx * res (option entry) :=
  let '(i', r) := get_step E i (fs_key p) in (i', nf_err r).

Definition info_isdir (oe : option entry) : bool :=
  match oe with None => true | Some e => isdir_raw (norm e) end.

Definition fs_ls_step (E : env) (i : idx) (p : list N) : idx * res (list (list N * option entry)) :=
  let k := fs_key p in
  let '(i1, r) := get_step E i k in
  match r with
  | Err n => (i1, nf_err (Err n))
  | Ok oe =>
      if info_isdir oe then
        let '(i2, r2) := ls_step E i1 k in
        (i2, match r2 with
             | Ok l => Ok (map (fun c : key * option entry => (pjoin p (last (fst c) []), snd c)) l)
             | Err n => nf_err (Err n)
             end)
      else (i1, Ok [(join_sep slash k, oe)])
  end.

(* _open -> _get_fs_path: the entry's hash resolved in the storage of its key *)
Definition fs_read_step (E : env) (i : idx) (p : list N) : idx * res (list N) :=
  let k := fs_key p in
  let '(i1, r) := get_step E i k in
  (i1, match r with
       | Err n => nf_err (Err n)
       | Ok None => Err E_ISDIR
       | Ok (Some e) =>
           if isdir_raw (norm e) then Err E_ISDIR
           else if under_sp E k && hi_truthy (e_hash e) then
                  match e_hash e with
                  | Some h => match blob_of E h with Some b => Ok b | None => Err E_NOTFOUND end
                  | None => Err E_NOTFOUND
                  end
                else Err E_NOTFOUND
       end).

(* ---- hash-level diff against a second (plain) index --------------------------------------------- *)
Definition hval (oe : option entry) : option oid :=
  match oe with Some e => if hi_truthy (e_hash e) then e_hash e else None | None => None end.
Definition oid_eqb (a b : option oid) : bool :=
  match a, b with Some x, Some y => list_N_eqb x y | None, None => true | _, _ => false end.
(* _diff_hash_info: 0 unchanged 1 add 2 delete 3 modify *)
Definition hi_diff (o n : option oid) : N :=
  match o, n with
  | None, Some _ => 1
  | Some _, None => 2
  | Some x, Some y => if list_N_eqb x y then 0 else 3
  | None, None => 0
  end.

Record dchange := { d_key : key; d_typ : N; d_old : option entry; d_new : option entry }.
Definition dinfo := option (option entry).   (* None: no info; Some None: implicit directory *)
Definition d_entry (d : dinfo) : option entry := match d with Some (Some e) => Some e | _ => None end.
Definition d_isdir (d : dinfo) : bool := match d with Some oe => info_isdir oe | None => false end.
Fixpoint kassoc {B} (l : list (key * B)) (k : key) : option B :=
  match l with
  | [] => None
  | (k', b) :: r => if key_eqb k k' then Some b else kassoc r k
  end.
Definition res_list {A} (r : res (list A)) : list A := match r with Ok l => l | Err _ => [] end.

Fixpoint diff_node (fuel : nat) (E : env) (st o : idx) (k : key) (oi ni : dinfo) : idx * list dchange :=
  match fuel with
  | O => (st, [{| d_key := k; d_typ := 99; d_old := None; d_new := None |}])
  | S f =>
      let oe := d_entry oi in
      let ne := d_entry ni in
      let typ := hi_diff (hval oe) (hval ne) in
      let this := if (is_some oe || is_some ne) && negb (N.eqb typ 0)
                  then [{| d_key := k; d_typ := typ; d_old := oe; d_new := ne |}] else [] in
      if N.eqb typ 0 && hi_isdir (hval oe) then (st, this)
      else if d_isdir oi || d_isdir ni then
        let '(st1, r) := ls_step E st k in
        let och := res_list r in
        let nch := res_list (ls_q k o) in
        fold_left (fun acc c =>
                     let '(s, out) := acc in
                     let '(s', out') := diff_node f E s o c (kassoc och c) (kassoc nch c) in
                     (s', out ++ out'))
                  (usort key_ltb (map fst och ++ map fst nch)) (st1, this)
      else (st, this)
  end.

Definition diff_fuel : nat := 12.
Definition diff_step (E : env) (i o : idx) : idx * res (list dchange) :=
  let '(i1, r) := get_step E i [] in
  let ni := match get_q [] o with Ok oe => Some oe | Err _ => None end in
  match r with
  | Err 11 => (i1, Err E_DIRERR)
  | _ =>
    let oi := match r with Ok oe => Some oe | Err _ => None end in
    let '(i2, cs) := diff_node diff_fuel E i1 o [] oi ni in
    (i2, Ok (sort_by (fun a b => negb (key_ltb (d_key b) (d_key a))) cs))
  end.

(* ---- operations, answers, runs ------------------------------------------------------------------ *)
Inductive op :=
| OGet (k : key) | OItems (p : key) (shallow : bool) | OLs (k : key) | OInfo (k : key)
| ODiff (other : idx)
| OFsLs (p : list N) | OFsInfo (p : list N) | OFsRead (p : list N)
| OViewItems (f : key -> bool) | OViewLs (f : key -> bool) (k : key)
| OHide (h : oid) | ORestore (h : oid).    (* the environment changes between two accesses *)

Definition enc_key (k : key) : val := VL (map VB k).
Definition enc_optN (o : option N) : val := match o with Some n => VL [VN n] | None => VL [] end.
Definition enc_hash (h : option oid) : val :=
  match h with Some (c :: r) => VL [VB (c :: r)] | _ => VL [] end.
Definition enc_meta (m : option emeta) : val :=
  match m with
  | Some m => VL [enc_bool (m_dir m); enc_optN (m_size m); enc_bool (m_exec m)]
  | None => VL []
  end.
Definition enc_entry (e : entry) : val :=
  let e' := norm e in VL [enc_meta (e_meta e'); enc_hash (e_hash e')].
Definition enc_oentry (oe : option entry) : val := enc_option enc_entry oe.
(* _info_from_entry: type, size, isexec, md5, entry *)
Definition enc_info (oe : option entry) : val :=
  match oe with
  | None => VL [VN 1; VL [VN 0]; VN 0; VL []; VL []]
  | Some e =>
      let e' := norm e in
      VL [enc_bool (isdir_raw e');
          match e_meta e' with Some m => enc_optN (m_size m) | None => VL [VN 0] end;
          match e_meta e' with Some m => enc_bool (m_exec m) | None => VN 0 end;
          enc_hash (e_hash e');
          VL [enc_entry e]]
  end.
Definition enc_res {A} (f : A -> val) (r : res A) : val :=
  match r with Ok a => VL [VN 1; f a] | Err n => VL [VN 0; VN n] end.
Definition enc_get (r : res (option entry)) : val :=
  match r with
  | Ok (Some e) => VL [VN 1; enc_entry e]
  | Ok None => VL [VN 0; VN E_SHORT]
  | Err n => VL [VN 0; VN n]
  end.
Definition enc_items := enc_res (enc_list (fun c : key * option entry => VL [enc_key (fst c); enc_oentry (snd c)])).
Definition enc_ls := enc_res (enc_list (fun c : key * option entry => VL [enc_key (fst c); enc_info (snd c)])).
Definition enc_change (c : dchange) : val :=
  VL [enc_key (d_key c); VN (d_typ c); enc_oentry (d_old c); enc_oentry (d_new c)].

Definition step (E : env) (i : idx) (o : op) : idx * val :=
  match o with
  | OGet k => let '(i', r) := get_step E i k in (i', enc_get r)
  | OItems p sh => let '(i', r) := items_step E i p sh in (i', enc_items r)
  | OLs k => let '(i', r) := ls_step E i k in (i', enc_ls r)
  | OInfo k => let '(i', r) := get_step E i k in (i', enc_res enc_info r)
  | ODiff other => let '(i', r) := diff_step E i other in (i', enc_res (enc_list enc_change) r)
  | OFsLs p => let '(i', r) := fs_ls_step E i p in
               (i', enc_res (enc_list (fun c : list N * option entry => VL [VB (fst c); enc_info (snd c)])) r)
  | OFsInfo p => let '(i', r) := fs_info_step E i p in (i', enc_res (fun oe => VL [VB p; enc_info oe]) r)
  | OFsRead p => let '(i', r) := fs_read_step E i p in (i', enc_res VB r)
  | OViewItems f => let '(i', r) := view_items_step E i f in (i', enc_items r)
  | OViewLs f k => let '(i', r) := view_ls_step E i f k in (i', enc_ls r)
  | OHide _ | ORestore _ => (i, VL [])
  end.

Fixpoint run (E : env) (i : idx) (ops : list op) : idx * list val :=
  match ops with
  | [] => (i, [])
  | o :: r => let '(i1, a) := step E i o in let '(i2, l) := run E i1 r in (i2, a :: l)
  end.
Definition answers (E : env) (i : idx) (ops : list op) : list val := snd (run E i ops).

(* runs in which the environment changes: OHide / ORestore act on the environment before the step *)
Definition env_step (E : env) (o : op) : env :=
  match o with OHide h => hide h E | ORestore h => restore h E | _ => E end.
Fixpoint run_env (E : env) (i : idx) (ops : list op) : env * idx * list val :=
  match ops with
  | [] => (E, i, [])
  | o :: r => let E1 := env_step E o in
              let '(i1, a) := step E1 i o in
              let '(E2, i2, l) := run_env E1 i1 r in (E2, i2, a :: l)
  end.

(* ---- the explicit construction and the shared projection --------------------------------------------- *)
(* the index "in which that directory's files are listed explicitly": the directory entry without
   its object hash, marked loaded, followed by one plain file entry per listing row; no entries
   for sub-directories (they are implicit trie nodes there) *)
Definition explicit1 (E : env) (x : key * entry) : idx :=
  if loadable E x then
    match listing_of E (snd x) with
    | Some rows => (fst x, {| e_meta := e_meta (snd x); e_hash := None; e_loaded := true |})
                   :: map (fun r => (fst x ++ r_key r, file_entry r)) rows
    | None => [x]
    end
  else [x].
Definition explicit (E : env) (i : idx) : idx := flat_map (explicit1 E) i.

(* (key, is-directory, file hash) of every node but the root *)
Definition node_keys (i : idx) : list key := usort key_ltb (flat_map (fun x => inits_ne (fst x)) i).
Definition project1 (i : idx) (k : key) : key * bool * option oid :=
  let oe := lookupS i k in
  (k, info_isdir oe, if info_isdir oe then None else hval oe).
Definition project (i : idx) : list (key * bool * option oid) := map (project1 i) (node_keys i).
Definition enc_project (l : list (key * bool * option oid)) : val :=
  enc_list (fun t : key * bool * option oid => VL [enc_key (fst (fst t)); enc_bool (snd (fst t)); enc_hash (snd t)]) l.

(* ---- the hypotheses of the C17 theorems, as booleans (evaluated on every generated valid case) ---- *)
Definition okb (E : env) (i : idx) : bool :=
  forallb (fun x => negb (loadable E x) || is_some (listing_of E (snd x))) i.
Fixpoint nodupb (l : list key) : bool :=
  match l with
  | [] => true
  | k :: r => negb (mem_key k r) && nodupb r
  end.
Definition wfb (E : env) (i : idx) : bool :=
  forallb (fun x => negb (loadable E x) ||
                    forallb (fun y => negb (is_prefix (fst x) (fst y)) || key_eqb (fst y) (fst x)) i) i.
Definition tree_rowsb (rows : list lrow) : bool :=
  forallb (fun r1 => forallb (fun r2 => negb (is_prefix (r_key r1) (r_key r2))
                                        || key_eqb (r_key r1) (r_key r2)) rows) rows.
Definition lwfb (E : env) (i : idx) : bool :=
  forallb (fun x => match listing_of E (snd x) with Some rows => tree_rowsb rows | None => true end) i.
Definition hypsb (E : env) (i : idx) : bool :=
  okb E i && nodupb (map fst i) && wfb E i && lwfb E i.

(* ---- filters used by the harness (all prefix-closed but f_under) ----------------------------------------- *)
Definition f_anc (p : key) : key -> bool := fun k => is_prefix k p || is_prefix p k.
Definition f_notunder (p : key) : key -> bool := fun k => negb (is_prefix p k).
Definition f_depth (n : nat) : key -> bool := fun k => Nat.leb (length k) n.
Definition f_under (p : key) : key -> bool := fun k => is_prefix p k.
Definition f_and (f g : key -> bool) : key -> bool := fun k => f k && g k.
Definition f_or (f g : key -> bool) : key -> bool := fun k => f k || g k.

(* ---- harness entry point ------------------------------------------------------------------------------------- *)
(* short constructors for the generated literals *)
Definition En (d : bool) (sz : option N) (x : bool) (h : option oid) (l : bool) : entry :=
  {| e_meta := Some {| m_dir := d; m_size := sz; m_exec := x |}; e_hash := h; e_loaded := l |}.
Definition E0 (h : option oid) (l : bool) : entry := {| e_meta := None; e_hash := h; e_loaded := l |}.
Definition Rw (k : key) (h : oid) (sz : option N) (x : bool) : lrow :=
  {| r_key := k; r_hash := h; r_size := sz; r_exec := x |}.

Record case := { c_env : env; c_idx : idx; c_ops : list op; c_proj : bool }.
Definition run_case (c : case) : val :=
  VL (VL (snd (run_env (c_env c) (c_idx c) (c_ops c))) ::
      if c_proj c then [enc_bool (hypsb (c_env c) (c_idx c));
                        enc_project (project (load_all (c_env c) (c_idx c)));
                        enc_project (project (explicit (c_env c) (c_idx c)))] else []).
