(* Hand-written runtime of the translator unit "state" (Gen/State.v, property C13): the types and the
   library calls the generated [State__get] refers to.  Model/StateDb.v re-exports [token].

   _checksum(info) = str(int(tokenize([info[f] for f in checksum_fields]), 16)): tokenize is md5 over
   the printed list; it is modelled as an INJECTIVE pairing of the listed fields - the generated
   [State_checksum] keeps the list of the field values itself (assumption, see Model/StateDb.v; the
   harness recomputes the checksum string of every row it reads back from its definition). *)
From Coq Require Import NArith List Bool.
From DvcData Require Import Base.Val Base.PyBase Gen.PyTypes.
Import ListNotations.
Open Scope N_scope.

(* the stat information State reads: info["ino"], info["mtime"], info["size"] of a regular file;
   mtime is the float st_mtime, mapped injectively to N by its IEEE-754 bit pattern *)
Record token := { t_ino : N; t_mtime : N; t_size : N }.

Definition token_eqb (a b : token) : bool :=
  (t_ino a =? t_ino b) && (t_mtime a =? t_mtime b) && (t_size a =? t_size b).

(* Meta.from_info(info) (protocol None) of a regular, non-executable local file *)
Definition Meta_from_info (info : token) : meta :=
  mk_meta false (Some (t_size info)) None false None None None None
          (Some (t_ino info)) (Some (t_mtime info)) None false None 1.

Definition meta_set_size (m : meta) (s : option N) : meta :=
  mk_meta (m_isdir m) s (m_nfiles m) (m_isexec m) (m_version_id m) (m_etag m) (m_checksum m) (m_md5 m)
          (m_inode m) (m_mtime m) (m_remote m) (m_is_link m) (m_destination m) (m_nlink m).

(* HashInfo.from_dict(d): {} -> HashInfo(); {name: value} -> HashInfo(name, value) *)
Definition HashInfo_from_dict (d : pydict) : hashinfo :=
  match d with
  | [(n, PVStr v)] => mk_hashinfo (Some n) (Some v) None
  | _ => mk_hashinfo None None None
  end.

Definition hashinfo_set_name (h : hashinfo) (n : option (list N)) : hashinfo :=
  mk_hashinfo n (hi_value h) (hi_obj_name h).

(* compat.batched: `it = iter(iterable); while batch := tuple(islice(it, n)): yield batch`
   (the unit emits [batched_gen] over this loop only when the source is exactly that idiom);
   fuelled by the length of the list, enough for n >= 1 *)
Fixpoint islice_loop {A} (fuel : nat) (n : nat) (l : list A) : list (list A) :=
  match fuel with
  | O => []
  | S f => match firstn n l with
           | [] => []                                   (* the walrus test: an empty batch ends the loop *)
           | b => b :: islice_loop f n (skipn n l)
           end
  end.
