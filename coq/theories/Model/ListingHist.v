(* Histories on ONE Tree object: Tree.add interleaved with the queries that go through the cached
   pygtrie (get_obj, filter, iteritems).  In tree.py the trie is a cache of the dict, dropped by
   add(); the model has no cache - a query is a function of the current dict - so the model's
   answers after the same operation sequence are the reference for what the cache must preserve
   (Proofs/ListingHistProofs.v: every answer depends only on the Adds that precede it). *)
From Coq Require Import NArith List Bool.
From DvcData Require Import Base.Val Base.MD5 Base.Json Model.Listing.
Import ListNotations.
Open Scope N_scope.

Inductive hop :=
| HAdd (e : entry)            (* tree.add(key, meta, hi) *)
| HGetObj (p : key)           (* tree.get_obj(odb, p).oid *)
| HFilter (p : key)           (* list(tree.filter(p)) *)
| HItems.                     (* list(tree.iteritems()) *)

Inductive hans :=
| AObj (o : option (list N))
| AEntries (es : tree).       (* as a set; the harness lists them in dict order *)

Definition answer (op : hop) (t : tree) : option hans :=
  match op with
  | HAdd _ => None
  | HGetObj p => Some (AObj (get_obj t p))
  | HFilter p => Some (AEntries (filter_prefix p t))
  | HItems => Some (AEntries t)
  end.

Definition hstep (t : tree) (op : hop) : tree :=
  match op with HAdd e => add e t | _ => t end.

(* the answers of the queries, in order, and the final dict *)
Fixpoint run_hist (ops : list hop) (t : tree) : list hans * tree :=
  match ops with
  | [] => ([], t)
  | op :: r =>
      let (outs, tf) := run_hist r (hstep t op) in
      (match answer op t with Some a => a :: outs | None => outs end, tf)
  end.

Definition enc_hans (a : hans) : val :=
  match a with
  | AObj o => VL [VN 0; enc_option VB o]
  | AEntries es => VL [VN 1; enc_tree es]
  end.
Definition enc_hist (r : list hans * tree) : val :=
  VL [enc_list enc_hans (fst r); enc_tree (snd r); VB (digest (snd r))].

(* Tree.digest(with_meta): the identifier always comes from the meta-free bytes; with_meta only
   selects which bytes are kept as the object's content (path + ".with_meta").  None: as_bytes
   raises AttributeError (an entry without Meta). *)
Definition digest_obj (with_meta : bool) (t : tree) : option (list N * list N) :=
  match as_bytes_res with_meta t with
  | Some content => Some (md5_hex (as_bytes false t) ++ dot_dir, content)
  | None => None
  end.
