(* Model of dvc_data/hashfile/transfer.py (transfer, _do_transfer, _add), of
   hashfile/status.py (status with and without a remote index, _indexed_dir_hashes,
   compare_status), and of the parts of
   HashFileDB.add / ObjectDB.add / dvc_objects.fs.generic.transfer a transfer goes through.

   source (as of 5bda9b0), condensed:

     transfer(src, dest, obj_ids, verify, src_index, dest_index, cache_odb, shallow):
       status = compare_status(src, dest, obj_ids, check_deleted=False, ...)
       validate_status(status)
       if not status.new: return TransferResult(set(), set())
       failed = _do_transfer(src, dest, status.new, status.missing, ...)
       return TransferResult(status.new - failed, failed)

     compare_status: cache_odb = cache_odb or src
       dest_exists, dest_missing = status(dest, obj_ids, cache_odb=cache_odb, shallow)
       if dest_missing: src_exists, src_missing = status(src, obj_ids, shallow)   # cache_odb = src !
       else:            src_exists, src_missing = dest_exists, {}
       ok = src_exists & dest_exists      missing = src_missing & dest_missing
       new = src_exists - dest_exists     deleted = dest_exists - src_exists

     status(odb, obj_ids, index, cache_odb, shallow)
       for hi in obj_ids:
         if hi.isdir and not shallow: for entry in Tree.load(cache_odb, hi): hashes[entry] = ..   # may raise
         if hi.isdir and index: dir_objs[hi.value] = tree
         hashes[hi.value] = hi
       if index and hashes:
         if dir_objs:                                      # _indexed_dir_hashes
           if some indexed directory id is not in odb: index.clear()
           for d in (requested directory ids present in odb):
             tree = dir_objs[d] or Tree.load(cache_odb, d)  (FileNotFoundError: continue)
             if d not in index: index.update([d], files of tree)
             yield files of tree, d
           exists = hashes & yielded ; hashes -= exists
         if hashes: exists |= index.keys() & hashes ; hashes -= exists
       if hashes: exists |= odb.oids_exist(hashes)
       return exists, hashes - exists

     _do_transfer(src, dest, new, missing, src_index, dest_index, cache_odb):
       dir_ids, file_ids = split new by isdir ; failed_ids = {} ; succeeded = []
       for D in dir_ids:                                   # set iteration order: oracle
         tree = find_tree_by_obj_id([cache_odb, src], D) ; assert tree
         entry_ids = ids listed by tree
         bound = file_ids & entry_ids ; file_ids -= entry_ids
         dir_fails = _add(bound)                           # uploads; order inside the batch: oracle
         dir_fails |= entry_ids & failed_ids               # (fix 0a9de89)
         if dir_fails:                      failed_ids |= dir_fails | {D}
         elif entry_ids & missing:          pass           # withheld, nothing recorded
         elif _add([D]):                    failed_ids |= {D}
         else:                              succeeded.append(tree)
       failed_ids |= _add(file_ids)
       if failed_ids: src_index.clear() (if given); return failed_ids
       for tree in succeeded: dest_index.update([tree.oid], files of tree)   (if given)
       return {}

     _add(ids) = dest.add(paths, fs, oids, on_error=collect, verify=verify, check_exists=False)
       ObjectDB.add -> generic.transfer: one put_file (temp name + os.replace, atomic) per oid,
       an exception of one upload is routed to on_error and the batch goes on; on a file system
       whose uploads are NOT atomic the failing upload may leave a truncated object under the
       final name (oracle t_part, bytes t_trunc; event Partial) - it is reported failed like
       any other failure, and verify=True removes it in the post-add check;
       HashFileDB.add, verify=True: afterwards every oid is re-hashed; a mismatching object is
       removed and (fix dd1aa82) routed to on_error.

   [t_dst] is the destination as the status phase vouches for it: [has] = "there is an object
   under this id" for a base-class store; a LocalHashFileDB answers oids_exist through check(),
   which re-hashes a copy that is not write-protected and REMOVES it when it does not hash to its
   id (C07's mechanism) - such a copy counts as absent, and the harness passes the destination
   without it (rule computed independently: local class, mode <> 0o444, md5 <> id).

   Single writer: only the events of this transfer act on the destination.  (Since 5bda9b0
   _add's error callback does not count a PermissionError as a failure when the destination
   object is there and write-protected - an object a concurrent writer added meanwhile; with a
   single writer an object of [new] is absent when its upload fails, so that branch is not
   reachable here.  Concurrent writers are C16's subject.)

   Non-determinism resolved inside the implementation is an explicit argument:
     t_dord   order in which the set dir_ids is iterated,
     t_bord   order of the uploads inside one _add batch,
     t_fails  which uploads raise (t_part: ... after writing truncated bytes t_trunc under the final name).
   Environment: t_parse (json decoding of a directory object's bytes into the listed ids;
   None = not a directory listing), t_corrupt (the bytes stored under this id in the source do
   not hash to the id - what HashFileDB.check computes with hashlib).

   One style: stdlib lists; a set is a list, compared by membership. *)
From Coq Require Import NArith List Bool.
From DvcData Require Import Base.Val.
Import ListNotations.
Open Scope N_scope.

Definition oid := list N.
Definition bytes := list N.

Definition dot_dir : list N := [46; 100; 105; 114].   (* ".dir" *)
Definition ends_with (s suf : list N) : bool :=
  Nat.leb (length suf) (length s) && list_N_eqb (skipn (Nat.sub (length s) (length suf)) s) suf.
(* HashInfo.isdir *)
Definition is_dir_oid (o : oid) : bool := ends_with o dot_dir.
Definition is_file_oid (o : oid) : bool := negb (is_dir_oid o).

(* ---- finite sets of ids as lists ---- *)
Definition mem (o : oid) (l : list oid) : bool := existsb (list_N_eqb o) l.
Fixpoint dedup (l : list oid) : list oid :=
  match l with
  | [] => []
  | x :: r => if mem x r then dedup r else x :: dedup r
  end.
Definition inter (a b : list oid) : list oid := filter (fun x => mem x b) a.
Definition diff (a b : list oid) : list oid := filter (fun x => negb (mem x b)) a.

(* ---- object stores: id -> bytes (first binding wins) ---- *)
Definition store := list (oid * bytes).
Fixpoint lookup (o : oid) (s : store) : option bytes :=
  match s with
  | [] => None
  | (k, v) :: r => if list_N_eqb o k then Some v else lookup o r
  end.
Definition has (s : store) (o : oid) : bool :=
  match lookup o s with Some _ => true | None => false end.
Definition put (o : oid) (b : bytes) (s : store) : store := (o, b) :: s.
Definition del (o : oid) (s : store) : store :=
  filter (fun p => negb (list_N_eqb o (fst p))) s.

(* ---- Tree.load ---- *)
Inductive load_res := LoadOk (l : list oid) | LoadMissing | LoadCorrupt.
Definition load (parse : bytes -> option (list oid)) (s : store) (o : oid) : load_res :=
  match lookup o s with
  | None => LoadMissing                                   (* FileNotFoundError *)
  | Some b => match parse b with
              | Some l => LoadOk l
              | None => LoadCorrupt                        (* ObjectFormatError *)
              end
  end.

(* ---- the remote index (ObjectDBIndex): id -> is_dir ---- *)
Definition rindex := list (oid * bool).
(* index.update([d], files): index[d] = True, then index[f] = False for every file *)
Definition ix_update (d : oid) (fs : list oid) (ix : rindex) : rindex :=
  map (fun f => (f, false)) fs ++ (d, true) :: ix.
Fixpoint ix_get (o : oid) (ix : rindex) : option bool :=
  match ix with
  | [] => None
  | (k, v) :: r => if list_N_eqb o k then Some v else ix_get o r
  end.

(* ---- input of one transfer ---- *)
Record t_in := {
  t_src : store;
  t_dst : store;
  t_cache : option store;                    (* cache_odb; None = not given *)
  t_parse : bytes -> option (list oid);
  t_corrupt : oid -> bool;
  t_req : list oid;                          (* obj_ids, in iteration order *)
  t_shallow : bool;
  t_verify : bool;
  t_dix : option rindex;                     (* dest_index as transfer() finds it; None = not given *)
  t_six : option rindex;                     (* src_index as transfer() finds it *)
  t_dnoop : bool;                            (* dest_index is an ObjectDBIndexNoop: given, but it stores nothing *)
  t_snoop : bool;                            (* src_index  is an ObjectDBIndexNoop *)
  t_fails : oid -> bool;                     (* oracle: this upload raises *)
  t_part : oid -> bool;                      (* oracle: ... after part of the bytes were written under
                                                the final name (a file system with non-atomic uploads) *)
  t_trunc : oid -> bytes;                    (* the truncated bytes such an upload leaves *)
  t_dord : list oid -> list oid;             (* oracle: iteration order of dir_ids *)
  t_bord : list oid -> list oid }.           (* oracle: upload order inside a batch *)

(* ---- status / compare_status without index ---- *)
(* error kinds (harness/lib/impl.py ERR): 2 FileNotFoundError, 3 ObjectFormatError, 10 AssertionError *)
Fixpoint collect (parse : bytes -> option (list oid)) (cache : store) (shallow : bool)
         (req : list oid) : N + list oid :=
  match req with
  | [] => inr []
  | o :: r =>
      if is_dir_oid o && negb shallow then
        match load parse cache o with
        | LoadOk l => match collect parse cache shallow r with
                      | inl k => inl k
                      | inr acc => inr (o :: l ++ acc)
                      end
        | LoadMissing => inl 2
        | LoadCorrupt => inl 3
        end
      else match collect parse cache shallow r with
           | inl k => inl k
           | inr acc => inr (o :: acc)
           end
  end.

Definition status_cache (i : t_in) : store :=
  match t_cache i with Some c => c | None => t_src i end.

(* ---- ObjectDBIndex queries ---- *)
Definition ix_has (ix : rindex) (o : oid) : bool :=
  match ix_get o ix with Some _ => true | None => false end.
Definition ix_keys (ix : rindex) : list oid := dedup (map fst ix).
Definition ix_dirs (ix : rindex) : list oid :=
  filter (fun o => match ix_get o ix with Some true => true | _ => false end) (ix_keys ix).

(* the loop of _indexed_dir_hashes over dir_exists: yielded ids and the index afterwards
   (inl 3: a directory object present in odb does not parse in cache_odb).  [noop]: the index is
   an ObjectDBIndexNoop - "d not in index" is always true and update() stores nothing, but the
   files of a present directory are still yielded as existing without being probed (this is
   how a fetch with a remote index - real or no-op - comes to "know" a file the remote lost).  Non-shallow runs
   use the tree loaded by the collection loop from the same cache_odb, so one [load] serves
   both modes.  The loop runs in request order; for flat listings (no listed id is a
   directory id) the resulting index does not depend on the order. *)
Fixpoint indexed_loop (noop : bool) (parse : bytes -> option (list oid)) (cache : store) (dirs : list oid)
         (ix : rindex) : N + (list oid * rindex) :=
  match dirs with
  | [] => inr ([], ix)
  | d :: r =>
      match load parse cache d with
      | LoadMissing => indexed_loop noop parse cache r ix
      | LoadCorrupt => inl 3
      | LoadOk l =>
          let ix' := if noop || ix_has ix d then ix else ix_update d l ix in
          match indexed_loop noop parse cache r ix' with
          | inl k => inl k
          | inr (y, ix'') => inr (l ++ d :: y, ix'')
          end
      end
  end.

(* status(odb, req, index, cache_odb, shallow): exists, missing, index afterwards.
   [has odb] stands for odb.oids_exist / odb.list_oids_exists (environment: they answer
   "is there an object under this id"). *)
Definition status_ix (noop : bool) (parse : bytes -> option (list oid)) (odb cache : store)
           (ix : option rindex) (shallow : bool) (req : list oid)
  : N + (list oid * list oid * option rindex) :=
  match collect parse cache shallow req with
  | inl k => inl k
  | inr h0 =>
      let hashes := dedup h0 in
      match ix with
      | None => inr (filter (has odb) hashes, filter (fun o => negb (has odb o)) hashes, None)
      | Some x =>
          let rdirs := dedup (filter is_dir_oid req) in
          let x1 := match rdirs with
                    | [] => x
                    | _ :: _ => if forallb (has odb) (ix_dirs x) then x else []
                    end in
          match indexed_loop noop parse cache (filter (has odb) rdirs) x1 with
          | inl k => inl k
          | inr (y, x2) =>
              let ex1 := filter (fun o => mem o y) hashes in
              let h1 := filter (fun o => negb (mem o y)) hashes in
              let ex2 := filter (ix_has x2) h1 in
              let h2 := filter (fun o => negb (ix_has x2 o)) h1 in
              inr (ex1 ++ ex2 ++ filter (has odb) h2,
                   filter (fun o => negb (has odb o)) h2, Some x2)
          end
      end
  end.

Record cmp := { c_ok : list oid; c_missing : list oid; c_new : list oid; c_deleted : list oid }.

(* compare_status(check_deleted=False): the four sets and both indexes afterwards *)
Definition compare_status (i : t_in) : N + (cmp * option rindex * option rindex) :=
  match status_ix (t_dnoop i) (t_parse i) (t_dst i) (status_cache i) (t_dix i) (t_shallow i) (t_req i) with
  | inl k => inl k
  | inr (dex, dmiss, dix') =>
      match dmiss with
      | [] => inr ({| c_ok := dex; c_missing := []; c_new := []; c_deleted := [] |}, dix', t_six i)
      | _ :: _ =>
          match status_ix (t_snoop i) (t_parse i) (t_src i) (t_src i) (t_six i) (t_shallow i) (t_req i) with
          | inl k => inl k
          | inr (sex, smiss, six') =>
              inr ({| c_ok := inter sex dex; c_missing := inter smiss dmiss;
                      c_new := diff sex dex; c_deleted := diff dex sex |}, dix', six')
          end
      end
  end.

(* ---- events ---- *)
Inductive event :=
| Put (o : oid) (ok : bool)                 (* one upload attempt (ok: the whole object arrived; not ok: nothing did) *)
| Partial (o : oid) (b : bytes)             (* a failed upload attempt that left the truncated bytes b under o *)
| Drop (o : oid)                            (* verify=True: uploaded object failed the re-hash, removed *)
| IndexUpdate (d : oid) (fs : list oid)     (* dest_index.update([d], fs) *)
| SrcIndexClear.                            (* src_index.clear() *)

(* find_tree_by_obj_id([cache_odb, src], D) *)
Definition load_ok (parse : bytes -> option (list oid)) (s : store) (o : oid) : option (list oid) :=
  match load parse s o with LoadOk l => Some l | _ => None end.
Definition find_tree (i : t_in) (D : oid) : option (list oid) :=
  match (match t_cache i with Some c => load_ok (t_parse i) c D | None => None end) with
  | Some l => Some l
  | None => load_ok (t_parse i) (t_src i) D
  end.

(* _add *)
Definition upload_ok (i : t_in) (o : oid) : bool := negb (t_fails i o) && has (t_src i) o.
(* the failing upload wrote a truncated object (a missing source object is not even opened) *)
Definition part_written (i : t_in) (o : oid) : bool := t_fails i o && t_part i o && has (t_src i) o.
(* verify=True re-hashes whatever is under the id after the batch: a corrupt copy and a
   truncated leftover are both removed (and reported through on_error) *)
Definition dropped (i : t_in) (o : oid) : bool :=
  t_verify i && ((upload_ok i o && t_corrupt i o) || part_written i o).
Definition delivered (i : t_in) (o : oid) : bool := upload_ok i o && negb (dropped i o).
Definition attempt (i : t_in) (o : oid) : event :=
  if upload_ok i o then Put o true
  else if part_written i o then Partial o (t_trunc i o) else Put o false.
Definition add_events (i : t_in) (batch : list oid) : list event :=
  let b := t_bord i batch in
  map (attempt i) b ++ map Drop (filter (dropped i) b).
Definition add_failed (i : t_in) (batch : list oid) : list oid :=
  filter (fun o => negb (delivered i o)) (t_bord i batch).

(* one iteration of the directory loop: events, file_ids', failed_ids', succeeded? *)
Definition dir_step (i : t_in) (missing : list oid) (D : oid) (entries files failed : list oid)
  : list event * list oid * list oid * bool :=
  let bound := filter (fun f => mem f entries) files in
  let files' := filter (fun f => negb (mem f entries)) files in
  let ev1 := add_events i bound in
  let fails := add_failed i bound ++ filter (fun f => mem f failed) entries in
  match fails with
  | _ :: _ => (ev1, files', D :: fails ++ failed, false)
  | [] =>
      if existsb (fun f => mem f missing) entries then (ev1, files', failed, false)
      else match add_failed i [D] with
           | _ :: _ => (ev1 ++ add_events i [D], files', D :: failed, false)
           | [] => (ev1 ++ add_events i [D], files', failed, true)
           end
  end.

Record dres := {
  d_events : list event;
  d_files : list oid;
  d_failed : list oid;
  d_succ : list (oid * list oid);
  d_ok : bool }.                             (* false: assert dir_obj failed *)

Fixpoint dir_loop (i : t_in) (missing dirs files failed : list oid) : dres :=
  match dirs with
  | [] => {| d_events := []; d_files := files; d_failed := failed; d_succ := []; d_ok := true |}
  | D :: r =>
      match find_tree i D with
      | None => {| d_events := []; d_files := files; d_failed := failed; d_succ := []; d_ok := false |}
      | Some entries =>
          match dir_step i missing D entries files failed with
          | (ev, files', failed', succ) =>
              let rest := dir_loop i missing r files' failed' in
              {| d_events := ev ++ d_events rest;
                 d_files := d_files rest;
                 d_failed := d_failed rest;
                 d_succ := (if succ then [(D, entries)] else []) ++ d_succ rest;
                 d_ok := d_ok rest |}
          end
      end
  end.

(* _do_transfer: events and the returned failed set (None = AssertionError) *)
Definition do_transfer (i : t_in) (new missing : list oid) : list event * option (list oid) :=
  let r := dir_loop i missing (t_dord i (filter is_dir_oid new)) (filter is_file_oid new) [] in
  if d_ok r then
    let failed := add_failed i (d_files r) ++ d_failed r in
    let evs := d_events r ++ add_events i (d_files r) in
    match failed with
    | _ :: _ => (evs ++ [SrcIndexClear], Some failed)
    | [] => (evs ++ (if t_dnoop i then [] else map (fun p => IndexUpdate (fst p) (snd p)) (d_succ r)), Some [])
    end
  else (d_events r, None).

Inductive outcome := TErr (k : N) | TOk (transferred failed : list oid).
Record t_out := {
  o_status : option cmp;
  o_dix : option rindex;                     (* dest_index after the status phase *)
  o_six : option rindex;                     (* src_index after the status phase *)
  o_events : list event;
  o_outcome : outcome }.

Definition transfer (i : t_in) : t_out :=
  match compare_status i with
  | inl k => {| o_status := None; o_dix := t_dix i; o_six := t_six i; o_events := []; o_outcome := TErr k |}
  | inr (st, dix, six) =>
      match c_new st with
      | [] => {| o_status := Some st; o_dix := dix; o_six := six; o_events := []; o_outcome := TOk [] [] |}
      | _ :: _ =>
          match do_transfer i (c_new st) (c_missing st) with
          | (evs, None) =>
              {| o_status := Some st; o_dix := dix; o_six := six; o_events := evs; o_outcome := TErr 10 |}
          | (evs, Some failed) =>
              {| o_status := Some st; o_dix := dix; o_six := six; o_events := evs;
                 o_outcome := TOk (diff (c_new st) failed) failed |}
          end
      end
  end.

(* ---- the world the events act on ---- *)
Record world := { w_src : store; w_dst : store; w_dix : option rindex; w_six : option rindex }.

Definition step_dst (src : store) (e : event) (d : store) : store :=
  match e with
  | Put o true => match lookup o src with Some b => put o b d | None => d end
  | Partial o b => put o b d
  | Drop o => del o d
  | _ => d
  end.
Fixpoint apply_dst (src : store) (evs : list event) (d : store) : store :=
  match evs with
  | [] => d
  | e :: r => apply_dst src r (step_dst src e d)
  end.

Definition step (e : event) (w : world) : world :=
  match e with
  | Put _ _ | Partial _ _ | Drop _ =>
      {| w_src := w_src w; w_dst := step_dst (w_src w) e (w_dst w); w_dix := w_dix w; w_six := w_six w |}
  | IndexUpdate d fs =>
      {| w_src := w_src w; w_dst := w_dst w; w_dix := option_map (ix_update d fs) (w_dix w); w_six := w_six w |}
  | SrcIndexClear =>
      {| w_src := w_src w; w_dst := w_dst w; w_dix := w_dix w; w_six := option_map (fun _ => []) (w_six w) |}
  end.
Fixpoint apply_events (evs : list event) (w : world) : world :=
  match evs with
  | [] => w
  | e :: r => apply_events r (step e w)
  end.

(* the world when the uploads start: the status phase has already updated the indexes *)
Definition init_world (i : t_in) : world :=
  {| w_src := t_src i; w_dst := t_dst i; w_dix := o_dix (transfer i); w_six := o_six (transfer i) |}.
Definition final_world (i : t_in) : world := apply_events (o_events (transfer i)) (init_world i).

(* a process killed after [n] events *)
Definition killed_world (i : t_in) (n : nat) : world :=
  apply_events (firstn n (o_events (transfer i))) (init_world i).

(* the prefix that ends with the n-th upload attempt (what the harness can impose) *)
Fixpoint upto_put (n : nat) (evs : list event) : list event :=
  match n with
  | O => []
  | S m => match evs with
           | [] => []
           | Put o ok :: r => Put o ok :: upto_put m r
           | Partial o b :: r => Partial o b :: upto_put m r
           | e :: r => e :: upto_put n r
           end
  end.

(* ---- the oracles the harness passes: a priority list decides every order ---- *)
Definition by_priority (p l : list oid) : list oid :=
  filter (fun x => mem x l) p ++ filter (fun x => negb (mem x p)) l.

(* ---- correspondence: compact cases and encoders ---- *)
Fixpoint idx (tbl : list (list N)) (x : list N) (n : N) : N :=
  match tbl with
  | [] => 999999
  | y :: r => if list_N_eqb x y then n else idx r x (n + 1)
  end.
Definition enc_oids (tbl : list oid) (l : list oid) : val :=
  enc_set (map (fun o => [idx tbl o 0]) l).
Definition enc_store (tbl : list oid) (ctbl : list bytes) (s : store) : val :=
  enc_set (map (fun o => [idx tbl o 0; match lookup o s with Some b => idx ctbl b 0 | None => 999999 end])
               (dedup (map fst s))).
Definition enc_index (tbl : list oid) (ix : option rindex) : val :=
  match ix with
  | None => VL []
  | Some x =>
      let keys := dedup (map fst x) in
      VL [enc_oids tbl (filter (fun o => match ix_get o x with Some true => true | _ => false end) keys);
          enc_oids tbl keys]
  end.
Definition enc_event (tbl : list oid) (e : event) : val :=
  match e with
  | Put o ok => VL [VN 0; VN (idx tbl o 0); enc_bool ok]
  | Partial o _ => VL [VN 4; VN (idx tbl o 0)]
  | Drop o => VL [VN 1; VN (idx tbl o 0)]
  | IndexUpdate d fs => VL [VN 2; VN (idx tbl d 0); enc_oids tbl fs]
  | SrcIndexClear => VL [VN 3]
  end.
Definition is_put (e : event) : bool := match e with Put _ _ | Partial _ _ => true | _ => false end.
Definition is_store_event (e : event) : bool :=
  match e with Put _ _ | Partial _ _ | Drop _ => true | _ => false end.

Record static := {
  s_tbl : list oid;
  s_ctbl : list bytes;
  s_src : store;
  s_cache : option store;
  s_parse : list (bytes * list oid);
  s_corrupt : list oid }.

Record round := {
  r_dst : store;
  r_req : list oid;
  r_shallow : bool;
  r_verify : bool;
  r_dix : option rindex;
  r_six : option rindex;
  r_dnoop : bool;
  r_snoop : bool;
  r_fails : list oid;
  r_partial : list (oid * bytes);           (* failing uploads that leave these truncated bytes *)
  r_dirorder : list oid;                    (* observed order of the directory loop *)
  r_putorder : list oid;                    (* observed order of the upload attempts *)
  r_crash : option N }.                     (* abort right after the n-th upload attempt *)

Fixpoint assoc_bytes {A} (k : bytes) (l : list (bytes * A)) : option A :=
  match l with
  | [] => None
  | (k', v) :: r => if list_N_eqb k k' then Some v else assoc_bytes k r
  end.

Definition mk_in (s : static) (r : round) : t_in :=
  {| t_src := s_src s; t_dst := r_dst r; t_cache := s_cache s;
     t_parse := fun b => assoc_bytes b (s_parse s);
     t_corrupt := fun o => mem o (s_corrupt s);
     t_req := r_req r; t_shallow := r_shallow r; t_verify := r_verify r;
     t_dix := r_dix r; t_six := r_six r; t_dnoop := r_dnoop r; t_snoop := r_snoop r;
     t_fails := fun o => mem o (r_fails r);
     t_part := fun o => mem o (map fst (r_partial r));
     t_trunc := fun o => match assoc_bytes o (r_partial r) with Some b => b | None => [] end;
     t_dord := by_priority (r_dirorder r);
     t_bord := by_priority (r_putorder r) |}.

Definition enc_cmp (tbl : list oid) (c : cmp) : val :=
  VL [enc_oids tbl (c_ok c); enc_oids tbl (c_missing c); enc_oids tbl (c_new c); enc_oids tbl (c_deleted c)].

(* ids present after each upload attempt of [evs] (state after the prefix ending with it) *)
Fixpoint snapshots (src : store) (evs : list event) (d : store) : list (list oid) :=
  match evs with
  | [] => []
  | e :: r =>
      let d' := step_dst src e d in
      if is_put e then dedup (map fst d') :: snapshots src r d' else snapshots src r d'
  end.

Definition run_round (s : static) (r : round) : val :=
  let i := mk_in s r in
  let o := transfer i in
  let tbl := s_tbl s in
  let evs := match r_crash r with
             | Some n => upto_put (N.to_nat n) (o_events o)
             | None => o_events o
             end in
  let w := apply_events evs (init_world i) in
  VL [ enc_option (enc_cmp tbl) (o_status o);
       VL (map (enc_event tbl) (filter is_store_event evs));
       VL (map (enc_oids tbl) (snapshots (t_src i) evs (t_dst i)));
       match r_crash r with
       | Some _ => VL [VN 2]
       | None => match o_outcome o with
                 | TErr k => VL [VN 0; VN k]
                 | TOk tr fl => VL [VN 1; enc_oids tbl tr; enc_oids tbl fl]
                 end
       end;
       enc_store tbl (s_ctbl s) (w_dst w);
       match o_status o with Some _ => enc_index tbl (w_dix w) | None => VL [] end;
       match o_status o with Some _ => enc_index tbl (w_six w) | None => VL [] end;
       enc_store tbl (s_ctbl s) (w_src w) ].

Definition run_scen (c : static * list round) : val := VL (map (run_round (fst c)) (snd c)).
