(* Model of the hash-state cache and of the index-level hash carriers (property C13).

   sources (read line by line; /repo/src/dvc_data):
     hashfile/state.py   _checksum, State.save / save_many / get / _get / get_many
     hashfile/cache.py   HashesCache.get / get_many / set_many / is_empty
     compat.py           batched
     hashfile/hash.py    hash_file
     hashfile/build.py   _get_hashes
     index/diff.py       _diff_meta   (as used by diff(..., meta_only=True, with_unchanged=True))
     index/update.py     update
     index/save.py       _meta_matches, md5
     index/build.py      build (entries of a flat directory of regular files)

   What is modelled, what is environment
   * file system view  path |-> (token, bytes)  with token = (ino, mtime, size) exactly as
     fs.info() presents them to the implementation (mtime is the float st_mtime; the harness
     maps a float injectively to N by its IEEE-754 bit pattern).  The *clock / inode oracle* is
     explicit: every mutating operation carries the token the environment gives the file.
     A path that is a symbolic link has the token and the bytes of the file it RESOLVES to: stat
     information follows links (fsutils._localfs_info, LocalFileSystem.info(str)); writes / touches of the
     link's target are Write / Touch of the path (environment hypothesis, exercised by the harness with
     symlinked files in the staged directory).
   * hashing is PER PATH: [get_hashes] attaches to every missed path the digest of that path's bytes
     ([answer_of], [save_miss]); the thread pool of _hash_files (submission order, completion order of
     imap_unordered) has no counterpart in the model because the answer must not depend on it - the
     harness forces pool hashing with out-of-order completion and compares.
   * _checksum(info) = str(int(tokenize([ino, mtime, size]), 16)) is modelled as an INJECTIVE
     pairing: a row keeps the triple itself ([r_tok]).  (tokenize is md5 over the printed list;
     injectivity is assumed up to md5 collisions on those short strings, and the harness
     recomputes the checksum string independently for every row it reads back.)
   * the digest  H : name -> bytes -> oid  (hashlib / the dos2unix stream) is a Section variable:
     every theorem holds for every H; the correspondence instantiates it with a table of the
     hashlib values of the contents in play ([tableH]).
   * SQLite: the Cache table is an association list path |-> raw; "SELECT ... WHERE key IN (...)"
     on a chunk is the per-key lookup of the chunk (exercised by the correspondence across the
     999 boundary); rows that do not parse as JSON are [Garbage].
   * a non-local file system (isinstance(fs, LocalFileSystem) false) is a second view [w_mem];
     [local = false] selects it and by-passes the cache.

   stdlib lists only (association lists; first binding wins, [set] replaces in place). *)
From Coq Require Import NArith List Bool.
From DvcData Require Import Base.Val.
From DvcData Require Export Model.StateDbBase.
Import ListNotations.
Open Scope N_scope.

Definition path := list N.
Definition name := list N.
Definition bytes := list N.
Definition oid := list N.
Definition hashinfo := (name * oid)%type.

Definition md5_name : name := [109; 100; 53].                                          (* "md5" *)
Definition md5_d2u_name : name := [109; 100; 53; 45; 100; 111; 115; 50; 117; 110; 105; 120].  (* "md5-dos2unix" *)
Definition HASH_VERSION : N := 1.                      (* State.HASH_VERSION *)
Definition SQLITE_MAX_VARIABLE_NUMBER : nat := 999.   (* HashesCache.SQLITE_MAX_VARIABLE_NUMBER *)

(* ---------------------------------------------------------------- association lists *)
Fixpoint lookup {A} (k : path) (l : list (path * A)) : option A :=
  match l with
  | [] => None
  | (k', v) :: r => if list_N_eqb k k' then Some v else lookup k r
  end.

Fixpoint set {A} (k : path) (v : A) (l : list (path * A)) : list (path * A) :=
  match l with
  | [] => [(k, v)]
  | (k', v') :: r => if list_N_eqb k k' then (k, v) :: r else (k', v') :: set k v r
  end.

Definition remove {A} (k : path) (l : list (path * A)) : list (path * A) :=
  filter (fun kv => negb (list_N_eqb k (fst kv))) l.

Definition has {A} (k : path) (l : list (path * A)) : bool :=
  match lookup k l with Some _ => true | None => false end.

(* ---------------------------------------------------------------- tokens, rows, files *)
(* [token] = (ino, mtime, size) and [token_eqb] come from Model/StateDbBase.v (shared with the generated
   Gen/State.v); Proofs/StateDbProofs.v proves that the field list is the one hashfile/state.py:_checksum
   reads ([tie_checksum_fields]) and that [token_eqb] is the generated checksum comparison. *)

(* the JSON value of a row: {"version", "checksum", "size", "hash_info": {name: value}} *)
Record row := { r_version : option N; r_tok : token; r_size : N; r_alg : name; r_val : oid }.
Inductive raw := Garbage | Row (r : row).       (* Garbage: json_loads raises ValueError / empty *)
Definition statedb := list (path * raw).

Record file := { f_tok : token; f_bytes : bytes }.
Definition fsview := list (path * file).

Definition fs_info (fs : fsview) (p : path) : option token :=     (* fs.info(path); None = FileNotFoundError *)
  match lookup p fs with Some f => Some (f_tok f) | None => None end.

Definition or_info (info : option token) (fs : fsview) (p : path) : option token :=   (* info or fs.info(path) *)
  match info with Some i => Some i | None => fs_info fs p end.

(* ---------------------------------------------------------------- State._get *)
(* hashfile/state.py:State._get  (hand-written; [tie_State__get] in Proofs/StateDbProofs.v proves it equal to
   the translated Gen/State.v:State__get)
     try: entry = json_loads(raw)  except ValueError: return None
     actual = _checksum(info)
     if entry["checksum"] != actual: return None
     version = entry.get("version")
     if version is not None and version > self.HASH_VERSION: return None
     meta = Meta.from_info(info) ...
     hash_info = HashInfo.from_dict(entry["hash_info"])
     if version is None and hash_info.name == "md5": hash_info.name = "md5-dos2unix"
     return meta, hash_info                                                                  *)
Definition st__get (r : raw) (info : token) : option hashinfo :=
  match r with
  | Garbage => None
  | Row e =>
      if negb (token_eqb (r_tok e) info) then None
      else match r_version e with
           | Some v => if HASH_VERSION <? v then None else Some (r_alg e, r_val e)
           | None => Some (if list_N_eqb (r_alg e) md5_name then md5_d2u_name else r_alg e, r_val e)
           end
  end.

(* State.get:
     if not isinstance(fs, LocalFileSystem): return None, None
     raw = self.hashes.get(path);  if not raw: return None, None
     try: info = info or fs.info(path)  except FileNotFoundError: return None, None
     if r := self._get(path, raw, info): return r
     return None, None                                                                       *)
Definition st_get (db : statedb) (local : bool) (fs : fsview) (p : path) (info : option token)
  : option hashinfo :=
  if negb local then None else
  match lookup p db with
  | None => None
  | Some r =>
      match or_info info fs p with
      | None => None
      | Some i => st__get r i
      end
  end.

(* ---------------------------------------------------------------- batched, get_many *)
(* compat.py:batched  ([tie_batched]: equal to the generated batched_gen)
     it = iter(iterable)
     while batch := tuple(islice(it, n)): yield batch
   fuelled by the length of the list (enough for n >= 1, see batched_concat) *)
Fixpoint batched_fuel {A} (fuel : nat) (n : nat) (l : list A) : list (list A) :=
  match fuel with
  | O => []
  | S f => match l with
           | [] => []
           | _ :: _ => firstn n l :: batched_fuel f n (skipn n l)
           end
  end.
Definition batched {A} (n : nat) (l : list A) : list (list A) := batched_fuel (length l) n l.

Definition db_is_empty (db : statedb) : bool := match db with [] => true | _ :: _ => false end.

(* HashesCache.get_many:
     if self.is_empty(): yield from zip_longest(keys, []); return
     for chunk in batched(keys, 999):
         d = dict(SELECT key, value FROM Cache WHERE key IN chunk and raw = 1)
         for key in chunk: yield key, d.get(key)                                             *)
Definition lookup_chunk (db : statedb) (chunk : list path) : list (path * option raw) :=
  map (fun k => (k, lookup k db)) chunk.

Definition hashes_get_many (db : statedb) (ks : list path) : list (path * option raw) :=
  if db_is_empty db then map (fun k => (k, None)) ks
  else flat_map (lookup_chunk db) (batched SQLITE_MAX_VARIABLE_NUMBER ks).

(* State.get_many:
     if not isinstance(fs, LocalFileSystem): yield from zip_longest(items, [], []); return
     for path, raw in self.hashes.get_many(items):
         if not raw: yield path, None, None; continue
         try: info = infos.get(path) or fs.info(path)  except FileNotFoundError: yield path, None, None; continue
         if r := self._get(path, raw, info): yield path, r[0], r[1]  else: yield path, None, None *)
Definition get_many_row (fs : fsview) (infos : list (path * token)) (kr : path * option raw)
  : path * option hashinfo :=
  match snd kr with
  | None => (fst kr, None)
  | Some r =>
      match or_info (lookup (fst kr) infos) fs (fst kr) with
      | None => (fst kr, None)
      | Some i => (fst kr, st__get r i)
      end
  end.

Definition st_get_many (db : statedb) (local : bool) (fs : fsview) (ks : list path)
           (infos : list (path * token)) : list (path * option hashinfo) :=
  if negb local then map (fun k => (k, None)) ks
  else map (get_many_row fs infos) (hashes_get_many db ks).

(* ---------------------------------------------------------------- save *)
(* State.save / the per-item body of save_many:
     if not isinstance(fs, LocalFileSystem): return
     entry = {"version": HASH_VERSION, "checksum": _checksum(info), "size": info["size"],
              "hash_info": hash_info.to_dict()};  self.hashes[path] = json_dumps(entry)     *)
Definition st_save (db : statedb) (local : bool) (p : path) (hi : hashinfo) (info : token) : statedb :=
  if negb local then db
  else set p (Row {| r_version := Some HASH_VERSION; r_tok := info; r_size := t_size info;
                     r_alg := fst hi; r_val := snd hi |}) db.

(* the test both hash_file and _get_hashes apply to a looked-up answer:
     meta is not None and hash_info is not None and hash_info.name == name *)
Definition use_hit (alg : name) (a : option hashinfo) : option oid :=
  match a with
  | Some (n, v) => if list_N_eqb n alg then Some v else None
  | None => None
  end.

Section WithDigest.
  Variable H : name -> bytes -> oid.      (* the digest of the bytes under an algorithm name *)

  (* hash_file(path, fs, name, state, info):
       meta, hash_info = state.get(path, fs, info=info)
       if meta is not None and hash_info is not None and hash_info.name == name: return meta, hash_info
       oid, meta = _hash_file(path, fs, name, info=info)        (opens the file: FileNotFoundError)
       hash_info = HashInfo(name, oid);  state.save(path, fs, hash_info, info=info)
     result None = FileNotFoundError *)
  Definition hash_file (db : statedb) (local : bool) (fs : fsview) (p : path) (alg : name)
             (info : option token) : option oid * statedb :=
    match use_hit alg (st_get db local fs p info) with
    | Some v => (Some v, db)
    | None =>
        match lookup p fs with
        | None => (None, db)
        | Some f =>
            let v := H alg (f_bytes f) in
            (Some v, st_save db local p (alg, v) (match info with Some i => i | None => f_tok f end))
        end
    end.

  (* _get_hashes(paths, fs, name, infos, state):
       for path, meta, hi in state.get_many(paths, fs, infos):
           info = infos[path]                                        (KeyError when absent)
           if meta is not None and hi is not None and hi.name == name: hashes[path] = ...
           else: (small|large)_files.append((path, info))
       new_hashes = dict(hash_file(p, fs, name, state=None, info=info) for the misses)   (FileNotFoundError)
       state.save_many(((path, hi, info) ...), fs);  hashes.update(new_hashes)
     result: Some answers in the order of [ps] | None with an error code (8 KeyError, 2 FileNotFoundError) *)
  Definition miss (alg : name) (pa : path * option hashinfo) : bool :=
    match use_hit alg (snd pa) with Some _ => false | None => true end.

  Definition save_miss (local : bool) (fs : fsview) (alg : name) (infos : list (path * token))
             (db : statedb) (pa : path * option hashinfo) : statedb :=
    match lookup (fst pa) fs, lookup (fst pa) infos with
    | Some f, Some i => st_save db local (fst pa) (alg, H alg (f_bytes f)) i
    | _, _ => db
    end.

  Definition answer_of (fs : fsview) (alg : name) (pa : path * option hashinfo) : path * oid :=
    (fst pa,
     match use_hit alg (snd pa) with
     | Some v => v
     | None => match lookup (fst pa) fs with Some f => H alg (f_bytes f) | None => [] end
     end).

  Definition get_hashes (db : statedb) (local : bool) (fs : fsview) (ps : list path) (alg : name)
             (infos : list (path * token)) : (N + list (path * oid)) * statedb :=
    if negb (forallb (fun p => has p infos) ps) then (inl 8, db) else
    let looked := st_get_many db local fs ps infos in
    let missed := filter (miss alg) looked in
    if negb (forallb (fun pa => has (fst pa) fs) missed) then (inl 2, db) else
    (inr (map (answer_of fs alg) looked), fold_left (save_miss local fs alg infos) missed db).

  (* A write DURING a staging query: the file [wp] is rewritten (to [fnew]) after it has been read for
     hashing and before state.save_many records the rows.  Which stat information keys the saved row?
       AtWalk  the info collected by the walk BEFORE the hashing (what _get_hashes does: the items handed
               to save_many carry infos[path], and save_many uses `info or fs.info(path)`)
       AtSave  a fresh fs.info(path) at save time (the row would pair the OLD digest with the NEW token)
     Files are read in [fs]; [fs'] = [fs] with [wp] rewritten is what a stat at save time sees. *)
  Inductive savetok := AtWalk | AtSave.

  Definition save_miss_at (m : savetok) (local : bool) (fs fs' : fsview) (alg : name)
             (infos : list (path * token)) (db : statedb) (pa : path * option hashinfo) : statedb :=
    match lookup (fst pa) fs,
          match m with AtWalk => lookup (fst pa) infos | AtSave => fs_info fs' (fst pa) end with
    | Some f, Some i => st_save db local (fst pa) (alg, H alg (f_bytes f)) i
    | _, _ => db
    end.

  Definition get_hashes_during (m : savetok) (db : statedb) (local : bool) (fs : fsview) (ps : list path)
             (alg : name) (infos : list (path * token)) (wp : path) (fnew : file)
    : (N + list (path * oid)) * statedb :=
    if negb (forallb (fun p => has p infos) ps) then (inl 8, db) else
    let looked := st_get_many db local fs ps infos in
    let missed := filter (miss alg) looked in
    if negb (forallb (fun pa => has (fst pa) fs) missed) then (inl 2, db) else
    let fs' := set wp fnew fs in
    (inr (map (answer_of fs alg) looked), fold_left (save_miss_at m local fs fs' alg infos) missed db).

  (* The same for the single-file route when the CALLER supplied the stat information (hash_file(..., info=i),
     index.build.build_entry, odb.check): the file is rewritten to [fnew] after it was read and before
     state.save; hash_file passes the caller's info on to state.save (AtWalk = the supplied info), a re-stat
     at save time (AtSave) would see [fnew].  (Without caller-supplied info state.save has to stat the file
     itself, after the read: that window exists in the implementation and is outside the property's routes.) *)
  Definition hash_file_during (m : savetok) (db : statedb) (local : bool) (fs : fsview) (p : path) (alg : name)
             (i : token) (fnew : file) : option oid * statedb :=
    match use_hit alg (st_get db local fs p (Some i)) with
    | Some v => (Some v, db)
    | None =>
        match lookup p fs with
        | None => (None, db)
        | Some f =>
            let v := H alg (f_bytes f) in
            (Some v, st_save db local p (alg, v) (match m with AtWalk => i | AtSave => f_tok fnew end))
        end
    end.

  (* ---------------------------------------------------------------- index level *)
  (* Meta: the attrs that take part in ==  (remote, is_link, destination, nlink are eq=False) *)
  Record meta := { m_isdir : bool; m_size : option N; m_nfiles : option N; m_isexec : bool;
                   m_version_id : option (list N); m_etag : option (list N);
                   m_checksum : option (list N); m_md5 : option (list N);
                   m_inode : option N; m_mtime : option N }.

  Definition optN_eqb (a b : option N) : bool :=
    match a, b with Some x, Some y => x =? y | None, None => true | _, _ => false end.
  Definition optL_eqb (a b : option (list N)) : bool :=
    match a, b with Some x, Some y => list_N_eqb x y | None, None => true | _, _ => false end.

  Definition meta_eqb (a b : meta) : bool :=
    Bool.eqb (m_isdir a) (m_isdir b) && optN_eqb (m_size a) (m_size b) &&
    optN_eqb (m_nfiles a) (m_nfiles b) && Bool.eqb (m_isexec a) (m_isexec b) &&
    optL_eqb (m_version_id a) (m_version_id b) && optL_eqb (m_etag a) (m_etag b) &&
    optL_eqb (m_checksum a) (m_checksum b) && optL_eqb (m_md5 a) (m_md5 b) &&
    optN_eqb (m_inode a) (m_inode b) && optN_eqb (m_mtime a) (m_mtime b).

  (* Meta.from_info(info, "local") of a regular, non-executable file *)
  Definition meta_of_token (t : token) : meta :=
    {| m_isdir := false; m_size := Some (t_size t); m_nfiles := None; m_isexec := false;
       m_version_id := None; m_etag := None; m_checksum := None; m_md5 := None;
       m_inode := Some (t_ino t); m_mtime := Some (t_mtime t) |}.

  Definition meta_token (m : meta) : option token :=
    match m_inode m, m_mtime m, m_size m with
    | Some i, Some t, Some s => Some {| t_ino := i; t_mtime := t; t_size := s |}
    | _, _, _ => None
    end.

  Record ientry := { i_meta : option meta; i_hash : option hashinfo }.
  Definition index := list (path * ientry).      (* key |-> entry; the key of a file is its path *)

  Definition entry_tok (e : ientry) : option token :=
    match i_meta e with Some m => meta_token m | None => None end.
  Definition is_dir_entry (e : ientry) : bool :=
    match i_meta e with Some m => m_isdir m | None => false end.

  (* index/diff.py:_diff_meta   (cmp_key is None for update(); [tie_diff_meta]: equal to the generated Gen/IDiff.v:diff_meta)
       if old is None and new is not None: return ADD
       if old is not None and new is None: return DELETE
       if cmp_key is None and old != new: return MODIFY
       return UNCHANGED                                                                       *)
  Inductive dtyp := ADD | DELETE | MODIFY | UNCHANGED.
  Definition diff_meta (old new : option meta) : dtyp :=
    match old, new with
    | None, Some _ => ADD
    | Some _, None => DELETE
    | Some a, Some b => if meta_eqb a b then UNCHANGED else MODIFY
    | None, None => UNCHANGED
    end.

  (* index.build(path, fs): one entry per file, Meta.from_info, no hash *)
  Definition idx_build (fs : fsview) : index :=
    map (fun pf => (fst pf, {| i_meta := Some (meta_of_token (f_tok (snd pf))); i_hash := None |})) fs.

  (* update(new, old):
       for change in diff(old, new, with_unchanged=True, meta_only=True):
           if change.typ == UNCHANGED: change.new.hash_info = change.old.hash_info
     per key of [new]: typ = _diff_meta(old_entry.meta, new_entry.meta) with a missing entry
     counting as meta None.  A key absent from [old] whose new entry has no meta is
     "UNCHANGED" with change.old = None: AttributeError (None result). Keys only in [old]
     are DELETE and leave [new] alone. *)
  Definition upd_entry (old : index) (pe : path * ientry) : option (path * ientry) :=
    match lookup (fst pe) old with
    | Some eo =>
        match diff_meta (i_meta eo) (i_meta (snd pe)) with
        | UNCHANGED => Some (fst pe, {| i_meta := i_meta (snd pe); i_hash := i_hash eo |})
        | _ => Some pe
        end
    | None =>
        match diff_meta None (i_meta (snd pe)) with
        | UNCHANGED => None
        | _ => Some pe
        end
    end.

  Fixpoint map_opt {A B} (f : A -> option B) (l : list A) : option (list B) :=
    match l with
    | [] => Some []
    | a :: r => match f a, map_opt f r with
                | Some b, Some r' => Some (b :: r')
                | _, _ => None
                end
    end.

  Definition idx_update (new old : index) : option index := map_opt (upd_entry old) new.

  (* md5(index, state, name) on a local file system:
       for _, entry in index.iteritems():
           if entry.meta and entry.meta.isdir: ret.add(entry); continue
           hash_info = entry.hash_info if (entry.hash_info and its name in ("md5","md5-dos2unix")) else None
           matches = _meta_matches(fs, path, entry.meta)
               -- local fs: FileNotFoundError -> False (skip); otherwise info has no "md5" -> None
           if matches: ret.add(entry)  elif matches is not None: continue
           try: _, hi = hash_file(path, fs, name, state=state)  except FileNotFoundError: continue
           if hash_info and hi != hash_info: continue
           ret.add(DataIndexEntry(key=entry.key, meta=entry.meta, hash_info=hi))              *)
  Definition md5_family (n : name) : bool := list_N_eqb n md5_name || list_N_eqb n md5_d2u_name.
  Definition hi_eqb (a b : hashinfo) : bool := list_N_eqb (fst a) (fst b) && list_N_eqb (snd a) (snd b).
  Definition nonempty (l : list N) : bool := match l with [] => false | _ :: _ => true end.

  Definition old_md5 (e : ientry) : option hashinfo :=
    match i_hash e with
    | Some hi => if nonempty (snd hi) && md5_family (fst hi) then Some hi else None
    | None => None
    end.

  Definition md5_step (fs : fsview) (alg : name) (acc : index * statedb) (pe : path * ientry)
    : index * statedb :=
    let ret := fst acc in
    let db := snd acc in
    let p := fst pe in
    let e := snd pe in
    if is_dir_entry e then (set p e ret, db) else
    match lookup p fs with
    | None => (ret, db)
    | Some _ =>
        match hash_file db true fs p alg None with
        | (None, db') => (ret, db')
        | (Some v, db') =>
            let e' := {| i_meta := i_meta e; i_hash := Some (alg, v) |} in
            match old_md5 e with
            | Some h => if hi_eqb (alg, v) h then (set p e' ret, db') else (ret, db')
            | None => (set p e' ret, db')
            end
        end
    end.

  Definition idx_md5 (db : statedb) (fs : fsview) (idx : index) (alg : name) : index * statedb :=
    fold_left (md5_step fs alg) idx ([], db).

  (* ---------------------------------------------------------------- histories *)
  Inductive slot := SA | SB.

  Inductive op :=
  (* file mutations; the token is the clock / inode oracle's answer, as later seen by fs.info *)
  | Write (p : path) (b : bytes) (t : token)       (* open(p, "wb").write(b): same inode *)
  | Replace (p : path) (b : bytes) (t : token)     (* write a temp file + os.replace: new inode *)
  | Create (p : path) (b : bytes) (t : token)      (* re-creation after a deletion / first creation *)
  | Touch (p : path) (t : token)                   (* os.utime: bytes kept *)
  | Delete (p : path)
  | MemPut (p : path) (b : bytes)                  (* a file of the non-local file system *)
  (* state rows written without hash_file *)
  | SaveForeign (p : path) (r : raw)               (* state.hashes[path] = <json> *)
  | StSave (local : bool) (p : path) (hi : hashinfo) (info : option token)   (* state.save *)
  (* queries *)
  | QGet (local : bool) (p : path) (info : option token)                       (* state.get *)
  | QGetMany (local : bool) (ps : list path) (infos : list (path * token))     (* state.get_many *)
  | QHashFile (local : bool) (p : path) (alg : name) (info : option token)     (* hash_file *)
  | QGetHashes (local : bool) (ps : list path) (alg : name) (infos : list (path * token))  (* staging *)
  (* staging with a write DURING the query: [wp] is rewritten to (b, t) after the hashing, before save_many *)
  | QGetHashesW (local : bool) (ps : list path) (alg : name) (infos : list (path * token))
                (wp : path) (b : bytes) (t : token)
  (* index level: two index variables *)
  (* hash_file with caller-supplied info [i] and a write of the same file DURING the query (after the read,
     before state.save) *)
  | QHashFileW (local : bool) (p : path) (alg : name) (i : token) (b : bytes) (t : token)
  | IBuild (s : slot)                              (* s = index.build(root, localfs) *)
  | IMd5 (s : slot) (alg : name)                   (* s = index.md5(s, state, name=alg) *)
  | IUpdate (s : slot).                            (* index.update(new = s, old = the other one) *)

  Inductive out :=
  | ONone
  | OErr (k : N)
  | OGet (local : bool) (p : path) (a : option hashinfo)
  | OMany (local : bool) (l : list (path * option hashinfo))
  | OHash (local : bool) (p : path) (alg : name) (v : option oid)
  | OHashes (local : bool) (alg : name) (l : list (path * oid))
  | OHashesDuring (local : bool) (alg : name) (l : list (path * oid)) (wp : path)   (* [wp] was rewritten meanwhile *)
  | OHashDuring (local : bool) (p : path) (alg : name) (v : option oid)   (* [p] was rewritten meanwhile *)
  | OMd5 (alg : name) (i : index)
  | OIndex (i : index).

  Record world := { w_fs : fsview; w_mem : fsview; w_db : statedb; w_a : index; w_b : index }.
  Definition empty_world : world := {| w_fs := []; w_mem := []; w_db := []; w_a := []; w_b := [] |}.

  Definition the_fs (w : world) (local : bool) : fsview := if local then w_fs w else w_mem w.
  Definition get_slot (w : world) (s : slot) : index := match s with SA => w_a w | SB => w_b w end.
  Definition other (s : slot) : slot := match s with SA => SB | SB => SA end.

  Definition with_fs (w : world) (fs : fsview) : world :=
    {| w_fs := fs; w_mem := w_mem w; w_db := w_db w; w_a := w_a w; w_b := w_b w |}.
  Definition with_db (w : world) (db : statedb) : world :=
    {| w_fs := w_fs w; w_mem := w_mem w; w_db := db; w_a := w_a w; w_b := w_b w |}.
  Definition with_slot (w : world) (s : slot) (i : index) : world :=
    match s with
    | SA => {| w_fs := w_fs w; w_mem := w_mem w; w_db := w_db w; w_a := i; w_b := w_b w |}
    | SB => {| w_fs := w_fs w; w_mem := w_mem w; w_db := w_db w; w_a := w_a w; w_b := i |}
    end.

  Definition zero_token : token := {| t_ino := 0; t_mtime := 0; t_size := 0 |}.

  Definition step (w : world) (o : op) : world * out :=
    match o with
    | Write p b t | Replace p b t | Create p b t =>
        (with_fs w (set p {| f_tok := t; f_bytes := b |} (w_fs w)), ONone)
    | Touch p t =>
        match lookup p (w_fs w) with
        | Some f => (with_fs w (set p {| f_tok := t; f_bytes := f_bytes f |} (w_fs w)), ONone)
        | None => (w, ONone)
        end
    | Delete p => (with_fs w (remove p (w_fs w)), ONone)
    | MemPut p b =>
        ({| w_fs := w_fs w; w_mem := set p {| f_tok := zero_token; f_bytes := b |} (w_mem w);
            w_db := w_db w; w_a := w_a w; w_b := w_b w |}, ONone)
    | SaveForeign p r => (with_db w (set p r (w_db w)), ONone)
    | StSave local p hi info =>
        if negb local then (w, ONone) else
        match or_info info (w_fs w) p with
        | None => (w, OErr 2)                    (* fs.info raises FileNotFoundError *)
        | Some i => (with_db w (st_save (w_db w) local p hi i), ONone)
        end
    | QGet local p info => (w, OGet local p (st_get (w_db w) local (the_fs w local) p info))
    | QGetMany local ps infos => (w, OMany local (st_get_many (w_db w) local (the_fs w local) ps infos))
    | QHashFile local p alg info =>
        let r := hash_file (w_db w) local (the_fs w local) p alg info in
        (with_db w (snd r), OHash local p alg (fst r))
    | QGetHashes local ps alg infos =>
        let r := get_hashes (w_db w) local (the_fs w local) ps alg infos in
        (with_db w (snd r), match fst r with inl k => OErr k | inr l => OHashes local alg l end)
    | QGetHashesW local ps alg infos wp b t =>
        let fnew := {| f_tok := t; f_bytes := b |} in
        let r := get_hashes_during AtWalk (w_db w) local (the_fs w local) ps alg infos wp fnew in
        (with_fs (with_db w (snd r)) (set wp fnew (w_fs w)),
         match fst r with inl k => OErr k | inr l => OHashesDuring local alg l wp end)
    | QHashFileW local p alg i b t =>
        let fnew := {| f_tok := t; f_bytes := b |} in
        let r := hash_file_during AtWalk (w_db w) local (the_fs w local) p alg i fnew in
        (with_fs (with_db w (snd r)) (set p fnew (w_fs w)), OHashDuring local p alg (fst r))
    | IBuild s => let i := idx_build (w_fs w) in (with_slot w s i, OIndex i)
    | IMd5 s alg =>
        let r := idx_md5 (w_db w) (w_fs w) (get_slot w s) alg in
        (with_slot (with_db w (snd r)) s (fst r), OMd5 alg (fst r))
    | IUpdate s =>
        match idx_update (get_slot w s) (get_slot w (other s)) with
        | Some i => (with_slot w s i, OIndex i)
        | None => (w, OErr 99)                   (* AttributeError: 'NoneType' has no 'hash_info' *)
        end
    end.

  (* the run of a history: the world after each step, with the step's output *)
  Fixpoint run (w : world) (h : list op) : list (world * out) :=
    match h with
    | [] => []
    | o :: h' => let r := step w o in r :: run (fst r) h'
    end.

  Definition exec (w : world) (h : list op) : world := fold_left (fun w o => fst (step w o)) h w.

  (* ---------------------------------------------------------------- the environment hypothesis, as a decidable check
     (Proofs/StateDbProofs.v states it as the Prop [Ticks] and proves [ticks_b_sound]) *)
  Definition raw_tok (r : raw) : option token := match r with Row e => Some (r_tok e) | Garbage => None end.
  Definition opt_token_eqb (a : option token) (t : token) : bool :=
    match a with Some x => token_eqb x t | None => false end.

  Definition fresh_b (w : world) (p : path) (t : token) : bool :=
    forallb (fun kr => negb (list_N_eqb (fst kr) p && opt_token_eqb (raw_tok (snd kr)) t)) (w_db w) &&
    forallb (fun ke => negb (list_N_eqb (fst ke) p && opt_token_eqb (entry_tok (snd ke)) t)) (w_a w) &&
    forallb (fun ke => negb (list_N_eqb (fst ke) p && opt_token_eqb (entry_tok (snd ke)) t)) (w_b w).

  Definition row_ok_b (fs : fsview) (p : path) (r : raw) : bool :=
    match lookup p fs with
    | None => true
    | Some f => match st__get r (f_tok f) with
                | None => true
                | Some (n, v) => list_N_eqb v (H n (f_bytes f))
                end
    end.

  Definition info_current_b (fs : fsview) (p : path) (info : option token) : bool :=
    match info with
    | None => true
    | Some i => opt_token_eqb (fs_info fs p) i
    end.
  Definition infos_current_b (fs : fsview) (infos : list (path * token)) : bool :=
    forallb (fun pi => opt_token_eqb (fs_info fs (fst pi)) (snd pi)) infos.

  Definition tick_okb (w : world) (o : op) : bool :=
    match o with
    | Write p _ t | Replace p _ t | Create p _ t | Touch p t => fresh_b w p t
    | Delete _ | MemPut _ _ => true
    | SaveForeign p r => row_ok_b (w_fs w) p r
    | StSave local p hi info =>
        negb local ||
        (info_current_b (w_fs w) p info &&
         match lookup p (w_fs w) with Some f => list_N_eqb (snd hi) (H (fst hi) (f_bytes f)) | None => true end)
    | QGet local p info | QHashFile local p _ info => negb local || info_current_b (w_fs w) p info
    | QGetMany local _ infos | QGetHashes local _ _ infos => negb local || infos_current_b (w_fs w) infos
    | QGetHashesW local ps alg infos wp _ t =>
        (* the walk-time infos are current when collected; the write's token is new also with respect to the
           rows the query records (they carry the walk-time tokens) *)
        (negb local || infos_current_b (w_fs w) infos) &&
        fresh_b (with_db w (snd (get_hashes (w_db w) local (the_fs w local) ps alg infos))) wp t
    | QHashFileW local p alg i _ t =>
        (negb local || info_current_b (w_fs w) p (Some i)) &&
        fresh_b (with_db w (snd (hash_file (w_db w) local (the_fs w local) p alg (Some i)))) p t
    | IBuild _ | IMd5 _ _ | IUpdate _ => true
    end.

  Fixpoint ticks_b (w : world) (h : list op) : bool :=
    match h with
    | [] => true
    | o :: h' => tick_okb w o && ticks_b (fst (step w o)) h'
    end.

  (* ---------------------------------------------------------------- encoders (correspondence) *)
  Definition enc_token (t : token) : val := VL [VN (t_ino t); VN (t_mtime t); VN (t_size t)].
  Definition enc_hi (h : hashinfo) : val := VL [VB (fst h); VB (snd h)].
  Definition enc_raw (r : raw) : val :=
    match r with
    | Garbage => VL []
    | Row e => VL [enc_option VN (r_version e); enc_token (r_tok e); VN (r_size e); VB (r_alg e); VB (r_val e)]
    end.
  Definition by_key {A} (l : list (path * A)) : list (path * A) :=
    sort_by (fun a b => lex_leb (fst a) (fst b)) l.
  Definition enc_db (db : statedb) : val :=
    VL (map (fun kr => VL [VB (fst kr); enc_raw (snd kr)]) (by_key db)).
  Definition enc_entry (ke : path * ientry) : val :=
    VL [VB (fst ke); enc_option enc_token (entry_tok (snd ke)); enc_option enc_hi (i_hash (snd ke))].
  Definition enc_index (i : index) : val := VL (map enc_entry (by_key i)).

  (* a batch answer is printed compactly: its length and the hits with their positions *)
  Fixpoint hits_from (i : N) (l : list (path * option hashinfo)) : list val :=
    match l with
    | [] => []
    | (_, None) :: r => hits_from (i + 1) r
    | (p, Some h) :: r => VL [VN i; VB p; enc_hi h] :: hits_from (i + 1) r
    end.

  Definition enc_out (o : out) : val :=
    match o with
    | ONone => VL []
    | OErr k => VL [VN 0; VN k]
    | OGet _ _ a => VL [VN 1; enc_option enc_hi a]
    | OMany _ l => VL [VN 2; VN (N.of_nat (length l)); VL (hits_from 0 l)]
    | OHash _ _ _ v => VL [VN 3; enc_option VB v]
    | OHashes _ _ l => VL [VN 4; VL (map (fun pv => VB (snd pv)) l)]
    | OHashesDuring _ _ l _ => VL [VN 4; VL (map (fun pv => VB (snd pv)) l)]
    | OHashDuring _ _ _ v => VL [VN 3; enc_option VB v]
    | OMd5 _ i => VL [VN 5; enc_index i]
    | OIndex i => VL [VN 5; enc_index i]
    end.

  Definition enc_run (h : list op) : val :=
    VL [enc_bool (ticks_b empty_world h);
        VL (map (fun wo => enc_out (snd wo)) (run empty_world h));
        enc_db (w_db (exec empty_world h))].
End WithDigest.

(* ---------------------------------------------------------------- input helpers (correspondence) *)
(* the digest as a table of the hashlib values of the contents in play *)
Fixpoint tableH (tbl : list (name * bytes * oid)) (alg : name) (b : bytes) : oid :=
  match tbl with
  | [] => []
  | (a, c, v) :: r => if list_N_eqb a alg && list_N_eqb c b then v else tableH r alg b
  end.

(* short constructor names for the generated case terms *)
Definition T := Build_token.
Definition R := Build_row.

(* compact batches: explicit paths and ranges of unknown paths [7; start], [7; start+1], ... *)
Inductive bitem := BP (p : path) | BR (start : N) (count : nat).
Fixpoint range_paths (start : N) (count : nat) : list path :=
  match count with
  | O => []
  | S c => [7; start] :: range_paths (start + 1) c
  end.
Definition expand (l : list bitem) : list path :=
  flat_map (fun b => match b with BP p => [p] | BR s c => range_paths s c end) l.
