(* Model of dvc_data/hashfile/build.py : _hash_files, _get_hashes, _build_files and the loop of
   _build_tree - how state-cache hits and freshly computed hashes are merged, and in which order.

   A file of one directory is a record: its name (the dict key in file_infos), its size
   (info["size"]), what the hash-state cache answers for it (None: miss / stale / unreadable;
   Some (name, value): a hit with that HashInfo) and [f_true], the value hash_file computes for
   its current content under the requested algorithm.  hash_file itself is C14's subject; here
   it is the function  file -> f_true.

   Non-determinism = explicit oracle arguments:
     done   the order in which ThreadPoolExecutor.imap_unordered delivered the results of the
            large files (a list of names).  It depends on checksum_jobs (max_workers), on the
            machine and on timing; the model takes it as given, the theorems quantify over every
            permutation, the harness observes the real one.
     walk   the order in which _walk_files yields directories and os.listdir lists the files.

   _get_hashes (build.py:105-143):
     hashes = {}                                      dict, insertion order
     for path, meta, hi in state.get_many(paths):     in the order of paths
         if hit and hi.name == name: hashes[path] = hit
         elif size and size > large_file_threshold: large.append
         else: small.append
     _hash_files: if len(large) < 2: small.extend(large); large.clear()
                  yield from map(_hash, small); then imap_unordered(_hash, large)
     new_hashes = dict(that iterator);  hashes.update(new_hashes);  return hashes          *)
From Coq Require Import NArith List Bool.
From DvcData Require Import Base.Val Base.MD5 Base.Json Model.Listing.
Import ListNotations.
Open Scope N_scope.

Record hfile := {
  f_name : list N;
  f_size : N;
  f_state : hash_info;        (* state.get_many: Some (hi.name, hi.value) when meta and hi are not None *)
  f_true : list N }.          (* hash_file(path, fs, name).value *)

Record hconf := {
  c_name : list N;            (* requested algorithm *)
  c_threshold : N;            (* large_file_threshold *)
  c_jobs : option N }.        (* checksum_jobs: only sizes the thread pool *)

(* a dict  name -> (hash name, value)  in insertion order *)
Definition hdict := list (list N * (list N * list N)).

Fixpoint hd_set (k : list N) (v : list N * list N) (d : hdict) : hdict :=
  match d with
  | [] => [(k, v)]
  | (k', v') :: r => if list_N_eqb k k' then (k, v) :: r else (k', v') :: hd_set k v r
  end.
Fixpoint hd_get (k : list N) (d : hdict) : option (list N * list N) :=
  match d with
  | [] => None
  | (k', v') :: r => if list_N_eqb k k' then Some v' else hd_get k r
  end.
(* dict(pairs) / d.update(pairs) *)
Definition hd_update (d : hdict) (pairs : hdict) : hdict :=
  fold_left (fun d kv => hd_set (fst kv) (snd kv) d) pairs d.

Definition is_hit (c : hconf) (f : hfile) : bool :=
  match f_state f with Some (n, _) => list_N_eqb n (c_name c) | None => false end.
Definition is_large (c : hconf) (f : hfile) : bool :=
  negb (f_size f =? 0) && (c_threshold c <? f_size f).

Definition hits (c : hconf) (fs : list hfile) : list hfile := filter (is_hit c) fs.
Definition large0 (c : hconf) (fs : list hfile) : list hfile :=
  filter (fun f => negb (is_hit c f) && is_large c f) fs.
Definition small0 (c : hconf) (fs : list hfile) : list hfile :=
  filter (fun f => negb (is_hit c f) && negb (is_large c f)) fs.

(* after "if len(large_files) < 2" *)
Definition par_files (c : hconf) (fs : list hfile) : list hfile :=
  let l := large0 c fs in if Nat.ltb (length l) 2 then [] else l.
Definition seq_files (c : hconf) (fs : list hfile) : list hfile :=
  let l := large0 c fs in if Nat.ltb (length l) 2 then small0 c fs ++ l else small0 c fs.

Definition hit_pair (f : hfile) : list N * (list N * list N) :=
  (f_name f, match f_state f with Some h => h | None => ([], []) end).
Definition fresh_pair (c : hconf) (f : hfile) : list N * (list N * list N) :=
  (f_name f, (c_name c, f_true f)).

(* results of the pool in delivery order: the files named by [done], in that order *)
Fixpoint find_file (n : list N) (fs : list hfile) : option hfile :=
  match fs with
  | [] => None
  | f :: r => if list_N_eqb n (f_name f) then Some f else find_file n r
  end.
Definition delivered (done : list (list N)) (par : list hfile) : list hfile :=
  flat_map (fun n => match find_file n par with Some f => [f] | None => [] end) done.

(* what _hash_files yields, in order *)
Definition hash_files (c : hconf) (done : list (list N)) (fs : list hfile) : hdict :=
  map (fresh_pair c) (seq_files c fs) ++ map (fresh_pair c) (delivered done (par_files c fs)).

Definition get_hashes (c : hconf) (done : list (list N)) (fs : list hfile) : hdict :=
  let hashes := hd_update [] (map hit_pair (hits c fs)) in
  let new_hashes := hd_update [] (hash_files c done fs) in
  hd_update hashes new_hashes.

(* _build_files: {fname: hashes[path][:2] for fname, path in zip(fnames, paths)}; a missing
   path is a KeyError (None) *)
Fixpoint build_files_go (h : hdict) (fs : list hfile) : option hdict :=
  match fs with
  | [] => Some []
  | f :: r =>
      match hd_get (f_name f) h, build_files_go h r with
      | Some v, Some d => Some ((f_name f, v) :: d)
      | _, _ => None
      end
  end.
Definition build_files (c : hconf) (done : list (list N)) (fs : list hfile) : option hdict :=
  build_files_go (get_hashes c done fs) fs.

(* _build_tree: for every walked directory (rel_key, files) the objects of _build_files are
   added under key rel_key + (fname,).  One delivery order per directory.  The Meta attached to
   an entry is not modelled (the identifier ignores it: C03_meta_blind). *)
Definition hentry (rel : key) (nv : list N * (list N * list N)) : entry :=
  {| e_key := rel ++ [fst nv]; e_meta := None; e_hash := Some (snd nv) |}.

Fixpoint build_tree_go (c : hconf) (dones : list (list (list N))) (walk : list (key * list hfile))
         (t : tree) : option tree :=
  match walk with
  | [] => Some t
  | (rel, fs) :: w =>
      let done := match dones with d :: _ => d | [] => [] end in
      match build_files c done fs with
      | None => None
      | Some objs => build_tree_go c (tl dones) w (fold_left (fun t nv => add (hentry rel nv) t) objs t)
      end
  end.
Definition build_tree (c : hconf) (dones : list (list (list N))) (walk : list (key * list hfile)) : option tree :=
  build_tree_go c dones walk [].

Definition build_oid (c : hconf) (dones : list (list (list N))) (walk : list (key * list hfile)) : option (list N) :=
  option_map digest (build_tree c dones walk).

(* ------------------------------------------------------------------ val encoders *)
Definition enc_hdict (d : hdict) : val :=
  enc_list (fun kv => VL [VB (fst kv); VB (fst (snd kv)); VB (snd (snd kv))]) d.
