(* Model of dvc_data/index/checkout.py (as of /repo f4a117d, i.e. after fixes d2d7c8a, 8c795c3, ed61977, 41e56e8):
   compare / _compare / apply / _delete_files / _delete_dirs / _create_dirs / _create_files /
   _chmod_files, over an abstract workspace, with the old index = image of the workspace as
   index/build.py:build + index/save.py:md5 produce it.

   What is what
   ------------
   * workspace  = finite map  key |-> File bytes exec shared | Dir | Dangling   (association list;
     [ws_ok] in the proofs: prefix closed, no root entry).  [shared] = the inode is the cache
     object's (hard link of a non-empty object, symbolic link): os.chmod through such a path
     reaches every other path sharing the object - this is what makes a non-executable entry
     executable under link types hardlink/symlink (DESIGN C09, Oracle note).
     [Dangling] = a broken symbolic link in the prior workspace (e.g. a symlink checkout whose cache
     object was collected since); build_entries lists it as an entry without meta and hash
     (since 41e56e8 checkout itself no longer creates one).
   * target     = finite map key |-> TFile exec (content of the object its hash names | no hash)
                                    | TDir (hash?) lazy
     plus [trees]: the directory objects that can be loaded (listing relkey |-> content) and
     [avail]: the contents whose file objects are present in the cache.  Hashes are modelled by
     the content itself (oid_of), i.e. collision freeness is built in.
   * classification of one key = the GENERATED [IDiff.diff_entry] (translator unit idiff, from
     index/diff.py) with compare()'s default meta_cmp_key = (isdir, isexec);
     the per-change branch of _compare is the GENERATED [IdxCompare.compare_branch] (translator unit
     idxcompare), additionally validated exhaustively against the real _compare by
     harness/props/c09.py, stream "branch";
   * the traversal of index/diff.py:_diff is replaced by its flat specification: every key of
     either index once (C08's statement; exercised by the correspondence on every run);
   * lazy loading (index.py:_load_from_object_storage) = [expand], eager: every lazy directory
     entry is reached by _diff when its ancestors are directories (target well-formedness);
   * non-determinism: the order of diff.files_chmod (set iteration in _diff) matters only when
     _chmod_files aborts; it is an explicit oracle argument [order].
   Not modelled: update_meta=True (the harness passes update_meta=False, as dvc does), state,
   version-aware file systems, storages other than one ObjectStorage "cache", relink's
   prompt-free UNCHANGED branch is modelled in [compare_change] only. *)
From Coq Require Import NArith List Bool.
From DvcData Require Import Base.Val Base.PyBase Gen.PyTypes Gen.IDiff Gen.IdxCompare.
Import ListNotations.
Open Scope N_scope.

Definition bytes := list N.
Inductive link := Copy | Hardlink | Symlink.
Inductive node := File (b : bytes) (x : bool) (sh : bool) | Dir | Dangling.
Definition fmap (A : Type) := list (key * A).
Definition ws := fmap node.

Fixpoint lookup {A} (m : fmap A) (k : key) : option A :=
  match m with
  | [] => None
  | (k', v) :: r => if key_eqb k k' then Some v else lookup r k
  end.
Definition remove {A} (k : key) (m : fmap A) : fmap A :=
  filter (fun kv => negb (key_eqb k (fst kv))) m.
Definition set {A} (k : key) (v : A) (m : fmap A) : fmap A := (k, v) :: remove k m.

Fixpoint is_prefix (p k : key) : bool :=
  match p, k with
  | [], _ => true
  | x :: p', y :: k' => list_N_eqb x y && is_prefix p' k'
  | _ :: _, [] => false
  end.
Definition strict_prefix (p k : key) : bool := is_prefix p k && Nat.ltb (length p) (length k).

Definition mem_key (k : key) (l : list key) : bool := existsb (key_eqb k) l.
Fixpoint dedup (l : list key) : list key :=
  match l with
  | [] => []
  | x :: r => if mem_key x r then dedup r else x :: dedup r
  end.

(* ---- the target index --------------------------------------------------------------------- *)
Inductive tentry := TFile (x : bool) (c : option bytes) | TDir (h : option bytes) (lz : bool).
Definition target := fmap tentry.
Definition listing := list (key * bytes).           (* Tree: relative key |-> content *)
Definition trees := list (bytes * listing).

Fixpoint tree_of (tr : trees) (h : bytes) : option listing :=
  match tr with
  | [] => None
  | (h', l) :: r => if list_N_eqb h h' then Some l else tree_of r h
  end.

(* ikey[:-idx] for idx in range(1, len(ikey)): the non-empty strict prefixes *)
Fixpoint inner_prefixes (k : key) : list key :=
  match k with
  | [] => []
  | x :: r => match r with
              | [] => []
              | _ :: _ => [x] :: map (cons x) (inner_prefixes r)
              end
  end.

(* index.py:_load_from_object_storage on one entry; second component: DataIndexDirError *)
Definition load_entry (tr : trees) (kv : key * tentry) : target * list key :=
  match kv with
  | (k, TDir (Some h) true) =>
      match tree_of tr h with
      | Some l =>
          ((k, TDir (Some h) false)
             :: map (fun rc => (k ++ fst rc, TFile false (Some (snd rc)))) l
             ++ map (fun d => (k ++ d, TDir None false)) (dedup (flat_map (fun rc => inner_prefixes (fst rc)) l)),
           [])
      | None => ([kv], [k])
      end
  | _ => ([kv], [])
  end.
Definition expand (tr : trees) (t : target) : target * list key :=
  (flat_map (fun kv => fst (load_entry tr kv)) t, flat_map (fun kv => snd (load_entry tr kv)) t).

(* ---- index entries as the generated records ------------------------------------------------- *)
Definition md5_name : list N := [109; 100; 53].
Definition oid_of (c : bytes) : list N := 111 :: c.          (* never empty: HashInfo is truthy *)
Definition mk_m (isdir isexec : bool) : meta :=
  mk_meta isdir None None isexec None None None None None None None false None 0.
Definition hi_of (v : list N) : hashinfo := mk_hashinfo (Some md5_name) (Some v) None.

(* build_entries(compute_hash=True) of the workspace: files hashed, directories with the x bit, a broken
   link as `DataIndexEntry(key=key)` - no meta, no hash (index/build.py, the `name in broken` branch) *)
Definition old_entry (k : key) (n : node) : option ientry :=
  match n with
  | File b x _ => Some (mk_ientry (Some k) (Some (mk_m false x)) (Some (hi_of (oid_of b))) None)
  | Dir => Some (mk_ientry (Some k) (Some (mk_m true true)) None (Some true))
  | Dangling => Some (mk_ientry (Some k) None None None)
  end.
Definition new_entry (k : key) (t : tentry) : ientry :=
  match t with
  | TFile x c => mk_ientry (Some k) (Some (mk_m false x)) (option_map (fun c => hi_of (oid_of c)) c) None
  | TDir h lz => mk_ientry (Some k) (Some (mk_m true false)) (option_map (fun h => hi_of (100 :: h)) h)
                           (if lz then None else Some true)
  end.

(* checkout.py: meta_cmp_key(meta) = None if meta is None else (meta.isdir, meta.isexec) *)
Definition cmpk (m : option meta) : N :=
  match m with
  | None => 0
  | Some m => 1 + (if m_isdir m then 2 else 0) + (if m_isexec m then 4 else 0)
  end.

(* ---- the per-change branch of _compare ------------------------------------------------------ *)
(* GENERATED: Gen/IdxCompare.v (translator unit idxcompare) holds [action], the helper closures and
   [compare_branch typ old new delete relink new_has_node : option (list action)] - the actions one change
   appends, in source order; None = the iteration raises (AssertionError, attribute of a missing side).
   Those inputs are not produced by diff without with_renames/with_unknown; they yield no action here. *)
Definition compare_change (relink delete : bool) (typ : ichange) (old new : option ientry) (new_has_node : bool)
  : list action :=
  match compare_branch typ old new delete relink new_has_node with
  | Some l => l
  | None => []
  end.

Definition is_none {A} (o : option A) : bool := match o with None => true | Some _ => false end.

(* one key of the union: _diff's loop body (typ, UNCHANGED filter) + _compare's branch *)
Definition change_actions (relink delete : bool) (k : key) (o : option node) (t : option tentry) (hn : bool)
  : list action :=
  let oe := match o with Some n => old_entry k n | None => None end in
  let ne := option_map (new_entry k) t in
  if is_none oe && is_none ne then []
  else
    let typ := diff_entry oe ne false false (Some cmpk) false in
    if ichange_eqb typ ichange_UNCHANGED && negb relink then []
    else compare_change relink delete typ oe ne hn.

Definition akey (e : ientry) : key := match e_key e with Some k => k | None => [] end.
(* ObjectStorage.get: `if not entry.hash_info: raise ValueError`, else the object named by the value *)
Definition acontent (e : ientry) : option bytes :=
  match e_hash_info e with
  | Some h => match hi_value h with Some (_ :: c) => Some c | _ => None end
  | None => None
  end.

Definition is_dirs_create_in (failed : list key) (a : action) : bool :=
  match a with ADirsCreate e => mem_key (akey e) failed | _ => false end.

(* pygtrie has_node(key) for a key without a value: some key of the index lies strictly below it *)
Definition has_node (t : target) (k : key) : bool := existsb (fun kv => strict_prefix k (fst kv)) t.

(* compare(): _compare, then failed directories leave dirs_create *)
Definition compare (relink delete : bool) (old : ws) (tr : trees) (t : target) : list action * list key :=
  let '(t', failed) := expand tr t in
  let keys := dedup (map fst old ++ map fst t') in
  let acts := flat_map (fun k => change_actions relink delete k (lookup old k) (lookup t' k) (has_node t' k)) keys in
  (filter (fun a => negb (is_dirs_create_in failed a)) acts, dedup failed).

Definition files_delete (p : list action) : list key :=
  flat_map (fun a => match a with AFilesDelete e => [akey e] | _ => [] end) p.
Definition dirs_delete (p : list action) : list key :=
  flat_map (fun a => match a with ADirsDelete e => [akey e] | _ => [] end) p.
Definition files_create (p : list action) : list (key * option bytes) :=
  flat_map (fun a => match a with AFilesCreate e => [(akey e, acontent e)] | _ => [] end) p.
Definition dirs_create (p : list action) : list key :=
  flat_map (fun a => match a with ADirsCreate e => [akey e] | _ => [] end) p.
Definition files_chmod (p : list action) : list key :=
  flat_map (fun a => match a with AFilesChmod e => [akey e] | _ => [] end) p.

(* ---- the file system primitives -------------------------------------------------------------- *)
Definition has_child (k : key) (w : ws) : bool := existsb (fun kv => strict_prefix k (fst kv)) w.

(* dvc_objects utils.remove: rmtree of a directory, unlink otherwise, ENOENT ignored *)
Definition rm (k : key) (w : ws) : ws :=
  match lookup w k with
  | Some Dir => filter (fun kv => negb (is_prefix k (fst kv))) w
  | _ => remove k w
  end.

(* os.rmdir with `except OSError: pass` *)
Definition rmdir (k : key) (w : ws) : ws :=
  match lookup w k with
  | Some Dir => if has_child k w then w else remove k w
  | _ => w
  end.

(* sorted(entries, key=lambda e: len(e.key), reverse=True): stable, longest first *)
Fixpoint insert_desc (k : key) (l : list key) : list key :=
  match l with
  | [] => [k]
  | y :: r => if Nat.leb (length y) (length k) then k :: l else y :: insert_desc k r
  end.
Definition sort_desc (l : list key) : list key := fold_right insert_desc [] l.

(* all non-empty prefixes, shortest first *)
Fixpoint prefixes (k : key) : list key :=
  match k with
  | [] => []
  | x :: r => [x] :: map (cons x) (prefixes r)
  end.
(* os.makedirs(exist_ok=True); a file in the way is outside the model's domain (left as is) *)
Definition mkdir1 (w : ws) (p : key) : ws :=
  match lookup w p with None => set p Dir w | Some _ => w end.
Definition makedirs (k : key) (w : ws) : ws := fold_left mkdir1 (prefixes k) w.

Definition parent (k : key) : key := removelast k.
Definition parent_ok (k : key) (w : ws) : bool :=
  match parent k with
  | [] => true
  | p => match lookup w p with Some Dir => true | _ => false end
  end.

(* error codes of the onerror calls: 1 failed directory (src None, exc None), 2 transfer error
   (src given), 3 no hash info (src None, ValueError) *)
Definition errs := list (key * N).

Definition mem_bytes (c : bytes) (l : list bytes) : bool := existsb (list_N_eqb c) l.

(* one entry of _create_files -> generic.transfer(links=[lt]) *)
Definition create_file (lt : link) (avail : list bytes) (w : ws) (kc : key * option bytes) : ws * errs :=
  let k := fst kc in
  match snd kc with
  | None => (w, [(k, 3)])
  | Some c =>
      match lt with
      | Copy =>
          (* put_file: makedirs(parent), copyfile to a temp name, os.replace *)
          let w1 := makedirs (parent k) w in
          if negb (mem_bytes c avail) then (w1, [(k, 2)])
          else match lookup w1 k with
               | Some Dir => (w1, [(k, 2)])
               | _ => (set k (File c false false) w1, [])
               end
      | Hardlink =>
          (* localfs.link: size(src); empty -> open(dst, "w"); else os.link; FileExistsError is
             swallowed by transfer *)
          if negb (mem_bytes c avail) then (w, [(k, 2)])
          else if negb (parent_ok k w) then (w, [(k, 2)])
          else match c with
               | [] => match lookup w k with
                       | Some Dir => (w, [(k, 2)])
                       | _ => (set k (File [] false false) w, [])
                       end
               | _ :: _ => match lookup w k with
                           | Some _ => (w, [])
                           | None => (set k (File c false true) w, [])
                           end
               end
      | Symlink =>
          (* 41e56e8: a missing source is reported and dropped before transfer; then os.symlink *)
          if negb (mem_bytes c avail) then (w, [(k, 2)])
          else if negb (parent_ok k w) then (w, [(k, 2)])
          else match lookup w k with
               | Some _ => (w, [])
               | None => (set k (File c false true) w, [])
               end
      end
  end.

(* 8c795c3: `for parent in {fs.parent(dest) ...}: fs.makedirs(parent, exist_ok=True)` for the entries handed
   to transfer: those with a source path (hash-less entries were dropped with a ValueError before) and,
   when symlink is among the link types, an existing source (41e56e8) *)
Definition to_transfer (lt : link) (avail : list bytes) (kc : key * option bytes) : bool :=
  match snd kc with
  | None => false
  | Some c => match lt with Symlink => mem_bytes c avail | _ => true end
  end.
Definition make_parents (lt : link) (avail : list bytes) (l : list (key * option bytes)) (w : ws) : ws :=
  fold_left (fun w kc => if to_transfer lt avail kc then makedirs (parent (fst kc)) w else w) l w.

Definition create_files (lt : link) (avail : list bytes) (l : list (key * option bytes)) (w : ws) : ws * errs :=
  fold_left (fun acc kc => let '(w1, e1) := create_file lt avail (fst acc) kc in (w1, snd acc ++ e1)) l
            (make_parents lt avail l w, []).

(* os.chmod(path, st_mode | S_IEXEC) *)
Definition set_exec_shared (c : bytes) (w : ws) : ws :=
  map (fun kv => match snd kv with
                 | File b x true => if list_N_eqb b c then (fst kv, File b true true) else kv
                 | _ => kv
                 end) w.
(* None = os.stat raised FileNotFoundError (outside the try): apply aborts *)
Definition chmod1 (k : key) (w : ws) : option ws :=
  match lookup w k with
  | None | Some Dangling => None
  | Some Dir => Some w
  | Some (File b _ true) => Some (set_exec_shared b w)
  | Some (File b _ false) => Some (set k (File b true false) w)
  end.
Fixpoint chmod_files (l : list key) (w : ws) : ws * bool :=
  match l with
  | [] => (w, false)
  | k :: r => match chmod1 k w with
              | None => (w, true)
              | Some w1 => chmod_files r w1
              end
  end.

(* the observed order of diff.files_chmod, restricted to / completed by the model's set *)
Definition reorder (order l : list key) : list key :=
  filter (fun k => mem_key k l) order ++ filter (fun k => negb (mem_key k order)) l.

(* _create_dirs: os.makedirs(exist_ok=True) per entry, no try/except - a file or a broken link on the way
   raises FileExistsError / NotADirectoryError out of apply *)
Definition blocked (w : ws) (k : key) : bool :=
  existsb (fun p => match lookup w p with Some Dir | None => false | Some _ => true end) (prefixes k).
Fixpoint mk_until (ps : list key) (w : ws) : ws :=
  match ps with
  | [] => w
  | p :: r => match lookup w p with
              | None => mk_until r (set p Dir w)
              | Some Dir => mk_until r w
              | Some _ => w
              end
  end.
Fixpoint create_dirs (l : list key) (w : ws) : ws * bool :=
  match l with
  | [] => (w, false)
  | k :: r => if blocked w k then (mk_until (prefixes k) w, true) else create_dirs r (makedirs k w)
  end.

Record out := { o_ws : ws; o_errs : errs; o_raised : bool; o_dirs_raised : bool }.

(* apply(): dirs_failed -> onerror; delete files; delete dirs; create dirs; create files; chmod.
   [order], [order_dc]: the observed orders of diff.files_chmod / diff.dirs_create (they matter only when
   the phase aborts) *)
Definition apply (lt : link) (avail : list bytes) (order order_dc : list key) (p : list action * list key) (w : ws) : out :=
  let acts := fst p in
  let e0 := map (fun k => (k, 1)) (snd p) in
  let w1 := fold_left (fun w k => rm k w) (files_delete acts) w in
  let w2 := fold_left (fun w k => rmdir k w) (sort_desc (dirs_delete acts)) w1 in
  let '(w3, r3) := create_dirs (reorder order_dc (dirs_create acts)) w2 in
  if r3 then {| o_ws := w3; o_errs := e0; o_raised := true; o_dirs_raised := true |}
  else
    let '(w4, e4) := create_files lt avail (files_create acts) w3 in
    let '(w5, raised) := chmod_files (reorder order (files_chmod acts)) w4 in
    {| o_ws := w5; o_errs := e0 ++ e4; o_raised := raised; o_dirs_raised := false |}.

Definition checkout (lt : link) (delete : bool) (avail : list bytes) (tr : trees) (order order_dc : list key)
           (w : ws) (t : target) : out :=
  apply lt avail order order_dc (compare false delete w tr t) w.

(* the file system a target describes: its files with their bytes, its directories *)
Definition fs_node (te : tentry) : option node :=
  match te with
  | TFile x (Some c) => Some (File c x false)
  | TFile _ None => None
  | TDir _ _ => Some Dir
  end.

(* ---- encoders for the correspondence check ---------------------------------------------------- *)
Definition flat_bytes (b : list N) : list N := N.of_nat (length b) :: b.
Definition flat_key (k : key) : list N := N.of_nat (length k) :: flat_map flat_bytes k.
Definition enc_keys (l : list key) : val := VL (map VB (sort_bytes (map flat_key l))).
Definition enc_plan (p : list action * list key) : val :=
  VL [enc_keys (files_delete (fst p)); enc_keys (dirs_delete (fst p)); enc_keys (map fst (files_create (fst p)));
      enc_keys (dirs_create (fst p)); enc_keys (files_chmod (fst p)); enc_keys (snd p)].
Definition flat_node (kv : key * node) : list N :=
  flat_key (fst kv) ++ match snd kv with
                       | Dir => [0]
                       | File b x _ => [1; if x then 1 else 0] ++ b
                       | Dangling => [2]
                       end.
Definition enc_ws (w : ws) : val := VL (map VB (sort_bytes (map flat_node w))).
Definition enc_errs (e : errs) : val := VL (map VB (sort_bytes (map (fun kc => snd kc :: flat_key (fst kc)) e))).

Record case := {
  c_link : link; c_delete : bool; c_avail : list bytes; c_trees : trees; c_order : list key; c_order_dc : list key;
  c_ws : ws; c_target : target }.

(* first compare, apply, second compare on the resulting workspace *)
Definition run_case (c : case) : val :=
  let p1 := compare false (c_delete c) (c_ws c) (c_trees c) (c_target c) in
  let o := apply (c_link c) (c_avail c) (c_order c) (c_order_dc c) p1 (c_ws c) in
  let p2 := compare false (c_delete c) (o_ws o) (c_trees c) (c_target c) in
  VL [enc_plan p1; enc_ws (o_ws o); enc_errs (o_errs o); enc_bool (o_raised o); enc_plan p2].

(* compare(relink=True): unchanged files are deleted and created again (to change their link type); the second
   compare is the plain one *)
Definition run_case_relink (c : case) : val :=
  let p1 := compare true (c_delete c) (c_ws c) (c_trees c) (c_target c) in
  let o := apply (c_link c) (c_avail c) (c_order c) (c_order_dc c) p1 (c_ws c) in
  let p2 := compare false (c_delete c) (o_ws o) (c_trees c) (c_target c) in
  VL [enc_plan p1; enc_ws (o_ws o); enc_errs (o_errs o); enc_bool (o_raised o); enc_plan p2].

(* a retry history: round 1 with the directory objects [c_trees c], then - the target index being the same
   object, a failed load having left its entry unloaded - round 2 from the resulting workspace with [tr2].
   The cache persists between the rounds: an object that round 1 made executable (chmod through a hard or
   symbolic link) still is in round 2, so a new link to it is executable at once ([fix_exec]; within one
   apply from a fresh cache this cannot happen, chmod being the last phase). *)
Definition xobjs_of (w : ws) : list bytes :=
  flat_map (fun kv => match snd kv with File b true true => [b] | _ => [] end) w.
Definition fix_exec (xs : list bytes) (w : ws) : ws :=
  map (fun kv => match snd kv with
                 | File b x true => if mem_bytes b xs then (fst kv, File b true true) else kv
                 | _ => kv
                 end) w.
Definition run_retry (c : case) (tr2 : trees) (order2 order_dc2 : list key) : val :=
  let p1 := compare false (c_delete c) (c_ws c) (c_trees c) (c_target c) in
  let o1 := apply (c_link c) (c_avail c) (c_order c) (c_order_dc c) p1 (c_ws c) in
  let p2 := compare false (c_delete c) (o_ws o1) tr2 (c_target c) in
  let o2 := apply (c_link c) (c_avail c) order2 order_dc2 p2 (o_ws o1) in
  let w2 := fix_exec (xobjs_of (o_ws o1)) (o_ws o2) in
  let p3 := compare false (c_delete c) w2 tr2 (c_target c) in
  VL [enc_plan p1; enc_ws (o_ws o1); enc_errs (o_errs o1); enc_bool (o_raised o1);
      enc_plan p2; enc_ws w2; enc_errs (o_errs o2); enc_bool (o_raised o2); enc_plan p3].

(* the per-change branch alone, on entries given by (present?, isdir, isexec, hash id) *)
Definition mk_e (isdir isexec : bool) (h : option N) (k : key) : ientry :=
  mk_ientry (Some k) (Some (mk_m isdir isexec)) (option_map (fun n => hi_of [n]) h) None.
Definition typ_of_code (c : N) : ichange :=
  match c with
  | 1 => ichange_ADD | 2 => ichange_MODIFY | 3 => ichange_RENAME | 4 => ichange_DELETE
  | 5 => ichange_UNCHANGED | _ => ichange_UNKNOWN
  end.
Definition enc_branch (relink delete : bool) (t : N) (old new : option ientry) (hn : bool) : val :=
  enc_plan (compare_change relink delete (typ_of_code t) old new hn, []).
