(* Model of dvc_data/hashfile/checkout.py (checkout, _diff, _determine_files_to_relink, _checkout,
   _checkout_file, _relink, _remove, _save_link), hashfile/diff.py (diff) and the link clean-up of
   hashfile/state.py (save_link / get_unused_links / remove_links).        Properties C05 and C10.

   Scope: the target is a non-empty directory object (Tree); the workspace root is absent or a
   directory whose paths agree in kind with the target's (files stay files).  Under that scope the
   ROOT key of hashfile/diff.py never triggers an action and never changes the truthiness of the
   DiffResult, so it is left out; a workspace is a finite map  key |-> file node.

   Translated units called from here (regenerated from the source on every run):
     Gen.ODiff.Change_typ, Gen.ODiff.TreeEntry_in_cache, Gen.Relink.needs_relink,
     Gen.PyTypes.HashInfo_isdir / hashinfo_eqb / tentry.
   Hand-written deciders validated against the real functions by exhaustive enumeration with
   recording fakes (harness/props/_objcheckout_common.py): remove_guard (_remove), cf_decide
   (_checkout_file).

   Environment (oracle arguments, quantified in the theorems):
     H        content hash (hashlib md5 in the correspondence, through a finite table)
     order    iteration order of  old_keys | new_keys  (a Python set) - observed by the harness
     g_links  result of dvc_objects test_links - observed
     g_now    mtime given to files created by copying
   Link primitive contract (dvc_objects): [link_node]; a hard link of an empty object is a fresh
   empty file; creating a symlink/hardlink over an existing path is skipped (FileExistsError is
   swallowed by dvc_objects.fs.generic.transfer); a copy replaces the path (tmp + os.replace).
   Since /repo f4a117d every link is preceded by the guarded removal, so link_step only ever sees an
   existing path after _remove returned early - the "existing path" branches are kept for fidelity. *)
From Coq Require Import NArith List Bool.
From DvcData Require Import Base.Val Base.PyBase Gen.PyTypes Gen.ODiff Gen.Relink Gen.ObjCheckout.
Import ListNotations.
Open Scope N_scope.

Definition bytes := list N.
Definition oid := list N.

Inductive lkind := LCopy | LHard | LSym.
Definition lkind_eqb (a b : lkind) : bool :=
  match a, b with LCopy, LCopy | LHard, LHard | LSym, LSym => true | _, _ => false end.

(* what lstat / readlink / followed stat say about a workspace file (fsutils._localfs_info) *)
Record fnode := mk_fnode {
  f_bytes : bytes;              (* content read through the path; [] for a dangling link *)
  f_link : bool;                (* the path is a symbolic link *)
  f_dest : option (list N);     (* readlink; a destination inside the cache is the object id *)
  f_broken : bool;              (* symbolic link whose destination does not exist *)
  f_ino : N;                    (* followed inode: the c_ino of a cache object, or 0 = private *)
  f_nlink : N;                  (* followed st_nlink *)
  f_mtime : N }.                (* followed st_mtime *)
Definition ws := list (key * fnode).        (* first binding wins *)

Record cobj := mk_cobj { c_bytes : bytes; c_ino : N; c_nlink : N; c_mtime : N }.
Definition cache := list (oid * cobj).

Fixpoint kassoc {A} (k : key) (l : list (key * A)) : option A :=
  match l with
  | [] => None
  | (k', v) :: r => if key_eqb k k' then Some v else kassoc k r
  end.
Fixpoint oassoc {A} (o : oid) (l : list (oid * A)) : option A :=
  match l with
  | [] => None
  | (o', v) :: r => if list_N_eqb o o' then Some v else oassoc o r
  end.
Definition is_some {A} (o : option A) : bool := match o with Some _ => true | None => false end.

Definition ws_remove (k : key) (w : ws) : ws := filter (fun kv => negb (key_eqb k (fst kv))) w.
Definition ws_put (k : key) (x : option fnode) (w : ws) : ws :=
  match x with None => ws_remove k w | Some n => (k, n) :: ws_remove k w end.

(* ---------------------------------------------------------------- deciders *)

(* checkout.py:51 _remove : guard -> action.
   The decider the model RUNS is read off the generated action list (Gen.ObjCheckout.gen_remove,
   regenerated from the source on every run); [remove_guard_spec] is the hand-written reading the
   proofs reason about, tied to it by Proofs/ObjCoTie.v (remove_guard_eq). *)
Inductive rm_act := RmSkip | RmRaise | RmRemove.
Definition remove_guard_spec (force in_cache exists_ : bool) (answer : option bool) : rm_act :=
  if negb force && negb in_cache then
    if negb exists_ then RmSkip
    else match answer with
         | None => RmRaise
         | Some a => if negb a then RmRaise else RmRemove
         end
  else RmRemove.
Definition is_raise (a : oc_act) : bool := match a with ARaisePrompt => true | _ => false end.
Definition is_rm (a : oc_act) : bool := match a with ARemove => true | _ => false end.
Definition rm_of_acts (l : list oc_act) : rm_act :=
  if existsb is_raise l then RmRaise else if existsb is_rm l then RmRemove else RmSkip.
Definition remove_guard (force in_cache exists_ : bool) (answer : option bool) : rm_act :=
  rm_of_acts (gen_remove force in_cache exists_ answer).

(* checkout.py:95 _checkout_file : decision tree -> action.  Same arrangement: the model runs
   [cf_of_acts (gen_checkout_file ...)] (with _relink's generated body expanded in place);
   [cf_decide] is the hand-written reading, tied by Proofs/ObjCoTie.v (cf_gen_eq). *)
Inductive cf_act := CfLink | CfUnprotect | CfRelink.
Definition cf_decide (has_old relink file_is_copy same_oid cache_is_copy : bool) : cf_act :=
  if has_old then
    if relink then
      if file_is_copy && same_oid && cache_is_copy then CfUnprotect else CfRelink
    else CfRelink
  else CfLink.
Definition gsubst (s : gsrc) (a : oc_act) : oc_act := match a with AGuard GArg => AGuard s | x => x end.
Definition expand_acts (l : list oc_act) : list oc_act :=
  flat_map (fun a => match a with ARelink s => map (gsubst s) gen_relink | x => [x] end) l.
(* the three action sequences the model gives a meaning to:
     cache.unprotect(path)                                        CfUnprotect
     _remove(.., change.old.in_cache, ..); link(..); protect(..)  CfRelink
     _remove(.., False, ..); link(..)                             CfLink      (since f4a117d)
   anything else is None: the step is treated as a failure and the tie lemma no longer holds *)
Definition cf_of_acts (l : list oc_act) : option cf_act :=
  match expand_acts l with
  | [AUnprotect] => Some CfUnprotect
  | [AGuard GOld; ALink; AProtect] => Some CfRelink
  | [AGuard GFalse; ALink] => Some CfLink
  | _ => None
  end.

(* ---------------------------------------------------------------- metas, entries, changes *)

Definition md5_name : list N := [109;100;53].
Definition copy_name : list N := [99;111;112;121].
Definition hardlink_name : list N := [104;97;114;100;108;105;110;107].
Definition symlink_name : list N := [115;121;109;108;105;110;107].
Definition lkind_name (t : lkind) : list N :=
  match t with LCopy => copy_name | LHard => hardlink_name | LSym => symlink_name end.

Definition hi (o : oid) : hashinfo := mk_hashinfo (Some md5_name) (Some o) None.

Definition meta_of (n : fnode) : meta :=
  mk_meta false (Some (len (f_bytes n))) None false None None None None
          (Some (f_ino n)) (Some (f_mtime n)) None (f_link n) (f_dest n) (f_nlink n).
Definition cmeta_of (c : cobj) : meta :=
  mk_meta false (Some (len (c_bytes c))) None false None None None None
          (Some (c_ino c)) (Some (c_mtime c)) None false None (c_nlink c).

(* diff.py:110 _cache_check : cache.check(oid) succeeded (cache objects are intact - C07) *)
Definition cache_check (c : cache) (o : oid) : option meta :=
  if is_nil o then None else option_map cmeta_of (oassoc o c).

Definition truthy_oid (e : tentry) : bool :=
  match t_oid e with
  | Some h => match hi_value h with Some s => truthy_list s | None => false end
  | None => false
  end.
Definition new_oid (ch : ochange_args) : option oid :=
  match t_oid (c_new ch) with Some h => hi_value h | None => None end.
Definition ch_key (ch : ochange_args) : key := t_key (c_new ch).
Definition new_isdir (ch : ochange_args) : bool :=
  match t_oid (c_new ch) with Some h => HashInfo_isdir h | None => false end.
Definition typ_is (t : ochange) (ch : ochange_args) : bool := ochange_eqb (Change_typ ch) t.

Section WithH.
Variable H : bytes -> oid.

(* build(dry_run=True): fails with FileNotFoundError on a dangling link, and then _diff goes on
   with old = None *)
Definition stageable (w : ws) : bool := negb (existsb (fun kn => f_broken (snd kn)) w).
Definition old_entry (w : ws) (k : key) : option (meta * oid) :=
  if stageable w then option_map (fun n => (meta_of n, H (f_bytes n))) (kassoc k w) else None.

Definition mk_change (c : cache) (w : ws) (tgt : list (key * oid)) (k : key) : ochange_args :=
  let old := old_entry w k in
  let oo := option_map snd old in
  let new := kassoc k tgt in
  mk_ochange_args
    (mk_tentry (match oo with Some o => cache_check c o | None => None end) k
               (option_map fst old) (option_map hi oo))
    (mk_tentry (match new with Some o => cache_check c o | None => None end) k
               None (option_map hi new)).

(* ---------------------------------------------------------------- configuration *)

Record cfg := mk_cfg {
  g_force : bool;
  g_relink : bool;
  g_prompt : option (key -> bool);
  g_types : list (list N);        (* cache.cache_types as configured *)
  g_links : list lkind;           (* test_links(cache.cache_types, ...) *)
  g_state : bool;                 (* a State object is passed *)
  g_now : N }.

Definition ci (g : cfg) : cacheinfo := mk_cacheinfo (g_types g) (fun o => o).
Definition ask (g : cfg) (k : key) : option bool := option_map (fun f => f k) (g_prompt g).

(* checkout.py:178 _determine_files_to_relink (local file systems) *)
Definition wants_relink (g : cfg) (ch : ochange_args) : bool :=
  if new_isdir ch then false
  else match t_meta (c_old ch) with
       | None => true
       | Some m => needs_relink [] (ci g) m (t_cache_meta (c_new ch)) (new_oid ch)
       end.
(* checkout.py:234-241 : which unchanged entries join diff.modified *)
Definition extra_modified (g : cfg) (ch : ochange_args) : bool :=
  if g_relink g then wants_relink g ch
  else negb (TreeEntry_in_cache (c_new ch)) && negb (new_isdir ch).

(* ---------------------------------------------------------------- per-path steps *)

(* _remove(path, fs, in_cache, force, prompt) : None = PromptError(path) *)
Definition guard_step (g : cfg) (k : key) (inc : bool) (cur : option fnode) : option (option fnode) :=
  match remove_guard (g_force g) inc (is_some cur) (ask g k) with
  | RmSkip => Some cur
  | RmRaise => None
  | RmRemove => Some None
  end.
Definition del_step (g : cfg) (ch : ochange_args) (cur : option fnode) : option (option fnode) :=
  guard_step g (ch_key ch) (TreeEntry_in_cache (c_old ch)) cur.

Definition link_node (t : lkind) (o : oid) (co : cobj) (now : N) : fnode :=
  match t with
  | LCopy => mk_fnode (c_bytes co) false None false 0 1 now
  | LHard => if is_nil (c_bytes co) then mk_fnode [] false None false 0 1 now
             else mk_fnode (c_bytes co) false None false (c_ino co) (N.succ (N.max 1 (c_nlink co))) (c_mtime co)
  | LSym => mk_fnode (c_bytes co) true (Some o) false (c_ino co) (c_nlink co) (c_mtime co)
  end.
Definition dangling_node (o : oid) : fnode := mk_fnode [] true (Some o) true 0 0 0.

Inductive fres :=
| FPrompt
| FFail (cur : option fnode)
| FNotFound (cur : option fnode)
| FOk (cur : option fnode).

(* Link.__call__ -> dvc_objects transfer(links=...) of one file *)
Definition link_step (g : cfg) (c : cache) (o : oid) (cur : option fnode) : fres :=
  match g_links g with
  | [] => FFail cur
  | t :: _ =>
      match t, cur with
      | LSym, Some _ => FOk cur                        (* FileExistsError: skipped *)
      | _, _ =>
          match oassoc o c with
          | None => match t with
                    | LSym => FNotFound (Some (dangling_node o))   (* os.symlink succeeds *)
                    | _ => FFail cur                               (* FileNotFoundError -> CheckoutError *)
                    end
          | Some co =>
              match t, cur with
              | LHard, Some _ =>
                  if is_nil (c_bytes co) then FOk (Some (link_node t o co (g_now g)))  (* open(path, "w") *)
                  else FOk cur                          (* FileExistsError: skipped *)
              | _, _ => FOk (Some (link_node t o co (g_now g)))
              end
          end
      end
  end.

(* fs.iscopy(path) = not (is_symlink or is_hardlink) of the path as it is *)
Definition iscopy (cur : option fnode) : bool :=
  match cur with Some n => negb (f_link n) && N.eqb (f_nlink n) 1 | None => true end.
Definition file_is_copy (ch : ochange_args) (cur : option fnode) : bool :=
  match t_meta (c_old ch) with
  | None => iscopy cur
  | Some m => negb (m_is_link m) && N.eqb (m_nlink m) 1
  end.
Definition cache_is_copy (g : cfg) : bool :=
  match g_types g with t :: _ => list_N_eqb t copy_name | [] => false end.

(* _localfs_info(entry_path) after a successful _checkout_file raises on a dangling link *)
Definition post_info (r : fres) : fres :=
  match r with
  | FOk (Some n) => if f_broken n then FNotFound (Some n) else r
  | _ => r
  end.

(* the generated _checkout_file on the abstract arguments of this change *)
Definition cf_gen (g : cfg) (ch : ochange_args) (cur : option fnode) : option cf_act :=
  cf_of_acts (gen_checkout_file
                (truthy_oid (c_old ch)) (g_relink g)
                (negb (is_some (t_meta (c_old ch)))) (iscopy cur)
                (match t_meta (c_old ch) with Some m => m_is_link m | None => false end)
                (match t_meta (c_old ch) with Some m => N.eqb (m_nlink m) 1 | None => false end)
                (opt_eqb hashinfo_eqb (t_oid (c_new ch)) (t_oid (c_old ch))) (cache_is_copy g)).

Definition file_step (g : cfg) (c : cache) (ch : ochange_args) (cur : option fnode) : fres :=
  match new_oid ch with
  | None => FFail cur
  | Some o =>
      match cf_gen g ch cur with
      | None => FFail cur
      | Some act =>
      post_info
        match act with
        | CfLink => (* since f4a117d: an existing path without an old entry is guarded as "not in cache" *)
                    match guard_step g (ch_key ch) false cur with
                    | None => FPrompt
                    | Some cur1 => link_step g c o cur1
                    end
        | CfUnprotect => FOk cur
        | CfRelink => match del_step g ch cur with
                      | None => FPrompt
                      | Some cur1 => link_step g c o cur1
                      end
        end
      end
  end.

(* ---------------------------------------------------------------- the two loops of _checkout *)

Fixpoint run_del (g : cfg) (chs : list ochange_args) (w : ws) : ws * option key :=
  match chs with
  | [] => (w, None)
  | ch :: r =>
      match del_step g ch (kassoc (ch_key ch) w) with
      | None => (w, Some (ch_key ch))
      | Some cur' => run_del g r (ws_put (ch_key ch) cur' w)
      end
  end.

Record fstate := mk_fstate { s_ws : ws; s_failed : list key; s_upd : list (key * N) }.
Inductive fout := FoPrompt (k : key) | FoNotFound (k : key) | FoDone.

Definition mtime_of (x : option fnode) : N := match x with Some n => f_mtime n | None => 0 end.

Fixpoint run_files (g : cfg) (c : cache) (chs : list ochange_args) (s : fstate) : fstate * fout :=
  match chs with
  | [] => (s, FoDone)
  | ch :: r =>
      if new_isdir ch then run_files g c r s else
      let k := ch_key ch in
      match file_step g c ch (kassoc k (s_ws s)) with
      | FPrompt => (s, FoPrompt k)
      | FNotFound cur' => (mk_fstate (ws_put k cur' (s_ws s)) (s_failed s) (s_upd s), FoNotFound k)
      | FFail cur' => run_files g c r (mk_fstate (ws_put k cur' (s_ws s)) (s_failed s ++ [k]) (s_upd s))
      | FOk cur' => run_files g c r (mk_fstate (ws_put k cur' (s_ws s)) (s_failed s)
                                               (s_upd s ++ [(k, mtime_of cur')]))
      end
  end.

(* ---------------------------------------------------------------- checkout *)

Inductive outcome :=
| ONothing                 (* returned None: nothing to do *)
| ODone (b : bool)         (* returned bool(diff) and not relink *)
| OPrompt (k : key)        (* PromptError(path) *)
| OFailed (ks : list key)  (* CheckoutError(paths) *)
| OLink                    (* LinkError: no usable link type *)
| ONotFound (k : key).     (* FileNotFoundError escaping after a symlink to a missing object *)

Record result := mk_result {
  r_out : outcome;
  r_ws : ws;
  r_cache : cache;
  r_links : option (list (key * N)) }.   (* what _save_link tokenises: path |-> mtime *)

Definition changes (c : cache) (w : ws) (tgt : list (key * oid)) (order : list key) : list ochange_args :=
  filter (fun ch => truthy_oid (c_old ch) || truthy_oid (c_new ch)) (map (mk_change c w tgt) order).

Definition old_mtime (ch : ochange_args) : N :=
  match t_meta (c_old ch) with
  | Some m => match m_mtime m with Some t => t | None => 0 end
  | None => 0
  end.
(* utils.py:57 _get_mtime_from_changes *)
Definition link_record (unchanged : list ochange_args) (upd : list (key * N)) : list (key * N) :=
  upd ++ map (fun ch => (ch_key ch, old_mtime ch))
             (filter (fun ch => negb (is_some (kassoc (ch_key ch) upd))) unchanged).

Definition checkout (g : cfg) (c : cache) (w : ws) (tgt : list (key * oid)) (order : list key) : result :=
  let chs := changes c w tgt order in
  let deleted := filter (typ_is ochange_DELETE) chs in
  let added := filter (typ_is ochange_ADD) chs in
  let modified := filter (typ_is ochange_MODIFY) chs in
  let unchanged := filter (typ_is ochange_UNCHANGED) chs in
  let modified' := modified ++ filter (extra_modified g) unchanged in
  if is_nil deleted && is_nil added && is_nil modified' then
    mk_result ONothing w c (if g_relink g && g_state g then Some (link_record unchanged []) else None)
  else if is_nil (g_links g) then mk_result OLink w c None
  else
    match run_del g deleted w with
    | (w1, Some k) => mk_result (OPrompt k) w1 c None
    | (w1, None) =>
        match run_files g c (added ++ modified') (mk_fstate w1 [] []) with
        | (s, FoPrompt k) => mk_result (OPrompt k) (s_ws s) c None
        | (s, FoNotFound k) => mk_result (ONotFound k) (s_ws s) c None
        | (s, FoDone) =>
            mk_result (if is_nil (s_failed s) then ODone (negb (g_relink g)) else OFailed (s_failed s))
                      (s_ws s) c
                      (if g_state g then Some (link_record unchanged (s_upd s)) else None)
        end
    end.

(* ---------------------------------------------------------------- single-file targets *)
(* The target is a file object (HashFile): the only key is ROOT = ("",), checked out at the path
   itself.  hashfile/diff.py gives the ROOT entry NO meta (diff._get returns (None, hash_info)), so
   _determine_files_to_relink always re-links it and _checkout_file asks fs.iscopy(path); the link
   record is the path's own mtime (utils._get_mtime_from_changes, type "file").  [cur] is the path
   as it is (None = absent); a dangling link cannot be staged (old = None). *)
Definition root_key : key := [[]].
Definition mk_change1 (c : cache) (cur : option fnode) (o : oid) : ochange_args :=
  let oo := match cur with
            | Some n => if f_broken n then None else Some (H (f_bytes n))
            | None => None
            end in
  mk_ochange_args
    (mk_tentry (match oo with Some x => cache_check c x | None => None end) root_key None (option_map hi oo))
    (mk_tentry (cache_check c o) root_key None (Some (hi o))).
Definition put1 (x : option fnode) : ws := ws_put root_key x [].
Definition rec1 (g : cfg) (x : option fnode) : option (list (key * N)) :=
  if g_state g then Some [(root_key, mtime_of x)] else None.
Definition checkout1 (g : cfg) (c : cache) (cur : option fnode) (o : oid) : result :=
  let ch := mk_change1 c cur o in
  if typ_is ochange_UNCHANGED ch && negb (extra_modified g ch) then
    mk_result ONothing (put1 cur) c (if g_relink g then rec1 g cur else None)
  else if is_nil (g_links g) then mk_result OLink (put1 cur) c None
  else match file_step g c ch cur with
       | FPrompt => mk_result (OPrompt root_key) (put1 cur) c None
       | FNotFound x => mk_result (ONotFound root_key) (put1 x) c None
       | FFail x => mk_result (OFailed [root_key]) (put1 x) c (rec1 g x)
       | FOk x => mk_result (ODone (negb (g_relink g))) (put1 x) c (rec1 g x)
       end.

(* ---------------------------------------------------------------- falsy targets: "remove this output" *)
(* checkout(path, fs, None, ...) or an EMPTY Tree (falsy: len 0): every key of the old tree is a DELETE
   and so is ROOT, whose in_cache flag is the cache lookup of the old tree's .dir object ([ric], an
   oracle argument: the tree digest is not modelled).  _remove(ROOT) removes the directory with
   whatever is still below it.  [ds] is the order in which the deletion loop handles the entries;
   since /repo 38c4abf the loop is `sorted(diff.deleted, key=lambda c: c.old.key == ROOT)`, i.e. ROOT
   last - the theorems assume exactly that ([root_last]) and are refuted without it.
   After the loop: `failed = [path]` (no object to create), so CheckoutError([path]) - or, with a
   State, _save_link's stat of the removed directory raises FileNotFoundError first. *)
Inductive dkey := DRoot | DKey (k : key).
Fixpoint run_rm (g : cfg) (c : cache) (w0 : ws) (ric : bool) (ds : list dkey) (w : ws) : ws * option key :=
  match ds with
  | [] => (w, None)
  | DKey k :: r =>
      let ch := mk_change c w0 [] k in
      if truthy_oid (c_old ch) then
        match del_step g ch (kassoc k w) with
        | None => (w, Some k)
        | Some x => run_rm g c w0 ric r (ws_put k x w)
        end
      else run_rm g c w0 ric r w
  | DRoot :: r =>
      (* the directory exists: there is an old tree *)
      match guard_step g root_key ric (Some (mk_fnode [] false None false 0 0 0)) with
      | None => (w, Some root_key)
      | Some _ => run_rm g c w0 ric r []          (* the directory and everything still below it *)
      end
  end.
Definition checkout_rm (g : cfg) (c : cache) (w : ws) (ric : bool) (ds : list dkey) : result :=
  if stageable w && negb (is_nil w) then
    if is_nil (g_links g) then mk_result OLink w c None
    else match run_rm g c w ric ds w with
         | (w1, Some k) => mk_result (OPrompt k) w1 c None
         | (w1, None) => mk_result (if g_state g then ONotFound root_key else OFailed [root_key]) w1 c None
         end
  else mk_result (OFailed [root_key]) w c (if g_relink g && g_state g then Some [] else None).

End WithH.

Fixpoint join_key (k : key) : list N :=
  match k with
  | [] => []
  | [x] => x
  | x :: r => x ++ 47 :: join_key r
  end.

Definition enc_key (k : key) : val := VB (join_key k).
Definition sort_keyed {A} (l : list (key * A)) : list (key * A) :=
  sort_by (fun a b => lex_leb (join_key (fst a)) (join_key (fst b))) l.

(* ---------------------------------------------------------------- link clean-up (state.py) *)

(* a path of the links world: a file (inode, mtime) or a directory (inode); files below a
   directory are the entries whose key extends the directory's key *)
Inductive lnode := LFile (ino mtime : N) | LDir (ino : N).
Definition lfs := list (key * lnode).

Fixpoint is_prefix (p q : key) : bool :=
  match p, q with
  | [], _ => true
  | x :: p', y :: q' => list_N_eqb x y && is_prefix p' q'
  | _ :: _, [] => false
  end.

Inductive ltoken := TFile (mtime : N) | TDir (files : list (key * N)).

(* utils.py:25 get_mtime_and_size : a directory's token covers every file's path and mtime *)
Definition files_under (p : key) (f : lfs) : list (key * N) :=
  flat_map (fun kn => match snd kn with
                      | LFile _ m => if is_prefix p (fst kn) then [(fst kn, m)] else []
                      | LDir _ => []
                      end) f.
Definition token_now (f : lfs) (p : key) : option (N * ltoken) :=
  match kassoc p f with
  | None => None
  | Some (LFile i m) => Some (i, TFile m)
  | Some (LDir i) => Some (i, TDir (sort_keyed (files_under p f)))
  end.

Fixpoint kn_list_eqb (a b : list (key * N)) : bool :=
  match a, b with
  | [], [] => true
  | (k, m) :: a', (k', m') :: b' => key_eqb k k' && N.eqb m m' && kn_list_eqb a' b'
  | _, _ => false
  end.
Definition ltoken_eqb (a b : ltoken) : bool :=
  match a, b with
  | TFile m, TFile m' => N.eqb m m'
  | TDir l, TDir l' => kn_list_eqb l l'
  | _, _ => false
  end.
Definition rec_eqb (a b : N * ltoken) : bool := N.eqb (fst a) (fst b) && ltoken_eqb (snd a) (snd b).

Definition ltable := list (key * (N * ltoken)).
Definition kmem (k : key) (l : list key) : bool := existsb (key_eqb k) l.

(* state.py:275 save_link *)
Definition save_link (f : lfs) (tab : ltable) (p : key) : ltable :=
  match token_now f p with
  | None => tab
  | Some r => (p, r) :: filter (fun kv => negb (key_eqb p (fst kv))) tab
  end.
(* state.py:298 get_unused_links *)
Definition get_unused_links (f : lfs) (tab : ltable) (used : list key) : list key :=
  map fst (filter (fun kv => negb (kmem (fst kv) used) &&
                             match token_now f (fst kv) with
                             | None => false
                             | Some r => rec_eqb (snd kv) r
                             end) tab).
(* state.py:325 remove_links : fs.remove is recursive *)
Definition lfs_remove (p : key) (f : lfs) : lfs := filter (fun kn => negb (is_prefix p (fst kn))) f.
Definition remove_links (f : lfs) (tab : ltable) (unused : list key) : lfs * ltable :=
  (fold_right lfs_remove f unused, filter (fun kv => negb (kmem (fst kv) unused)) tab).

(* histories on tracked links *)
Inductive lop :=
| OpRecord (p : key)
| OpWrite (p : key) (n : lnode)          (* create / modify / replace a path (new inode and/or mtime) *)
| OpRemove (p : key)
| OpCleanup (used : list key).

Record lstate := mk_lstate { l_fs : lfs; l_tab : ltable; l_removed : list (list key) }.
Definition lstep (s : lstate) (op : lop) : lstate :=
  match op with
  | OpRecord p => mk_lstate (l_fs s) (save_link (l_fs s) (l_tab s) p) (l_removed s)
  | OpWrite p n => mk_lstate ((p, n) :: filter (fun kn => negb (key_eqb p (fst kn))) (l_fs s)) (l_tab s) (l_removed s)
  | OpRemove p => mk_lstate (lfs_remove p (l_fs s)) (l_tab s) (l_removed s)
  | OpCleanup used =>
      let u := get_unused_links (l_fs s) (l_tab s) used in
      let '(f', t') := remove_links (l_fs s) (l_tab s) u in
      mk_lstate f' t' (l_removed s ++ [u])
  end.
Definition lrun (ops : list lop) : lstate := fold_left lstep ops (mk_lstate [] [] []).

(* ---------------------------------------------------------------- histories of checkouts on one cache *)
(* Several checkouts in one process on one cache directory, with objects collected from the cache
   (gc) and user edits in between.  Every checkout evaluates in_cache against the cache AS IT IS AT
   THAT CALL: hstep passes the current cache, nothing is remembered between calls (diff.py keeps its
   memo _cache_check local to one diff() call). *)
Inductive hop :=
| HCheckout (g : cfg) (tgt : list (key * oid)) (order : list key)
| HDrop (o : oid)                     (* the object is removed from the cache *)
| HUser (w : ws).                     (* the user rewrites the workspace arbitrarily *)
Definition hstep (H : bytes -> oid) (s : cache * ws) (op : hop) : cache * ws :=
  match op with
  | HCheckout g tgt order => let r := checkout H g (fst s) (snd s) tgt order in (r_cache r, r_ws r)
  | HDrop o => (filter (fun oc => negb (list_N_eqb o (fst oc))) (fst s), snd s)
  | HUser w => (fst s, w)
  end.
Definition hrun (H : bytes -> oid) (ops : list hop) (s : cache * ws) : cache * ws := fold_left (hstep H) ops s.

(* ---------------------------------------------------------------- executable instance + encoders *)

Definition H_tab (tab : list (bytes * oid)) (b : bytes) : oid :=
  match oassoc b tab with Some o => o | None => [] end.

Definition enc_fnode (n : fnode) : val :=
  VL [ (if f_broken n then VL [] else VL [VB (f_bytes n)]);
       enc_bool (f_link n);
       enc_option VB (f_dest n);
       VN (f_ino n);
       (* "is a hard link of a cache object": st_nlink alone also counts workspace-to-workspace links,
          whose count changes when a sibling path is removed in the same call - not tracked here *)
       enc_bool (negb (f_link n) && N.ltb 1 (f_nlink n) && negb (N.eqb (f_ino n) 0)) ].
Definition enc_ws (w : ws) : val :=
  VL (map (fun kn => VL [enc_key (fst kn); enc_fnode (snd kn)]) (sort_keyed w)).
Definition enc_outcome (o : outcome) : val :=
  match o with
  | ONothing => VL [VN 0]
  | ODone b => VL [VN 1; enc_bool b]
  | OPrompt k => VL [VN 4; enc_key k]
  | OFailed ks => VL [VN 5; VL (map VB (canon_set (map join_key ks)))]
  | OLink => VL [VN 7]
  | ONotFound k => VL [VN 2; enc_key k]
  end.
Definition enc_rec (r : option (list (key * N))) : val :=
  match r with
  | None => VL []
  | Some l => VL [VL (map (fun km => VL [enc_key (fst km); VN (snd km)]) (sort_keyed l))]
  end.
Definition enc_result (r : result) : val :=
  VL [enc_outcome (r_out r); enc_ws (r_ws r); enc_rec (r_links r);
      VL (map (fun oc => VL [VB (fst oc); VB (c_bytes (snd oc))]) (r_cache r))].

(* the harness' input record *)
Record co_in := mk_co_in {
  i_htab : list (bytes * oid);
  i_force : bool; i_relink : bool;
  i_prompt : option (list key);      (* None = no prompt; Some yes = prompt answering yes on these *)
  i_types : list (list N);
  i_links : list lkind;
  i_state : bool;
  i_now : N;
  i_cache : cache;
  i_ws : ws;
  i_target : list (key * oid);
  i_order : list key }.
Definition run_in (i : co_in) : result :=
  checkout (H_tab (i_htab i))
           (mk_cfg (i_force i) (i_relink i)
                   (option_map (fun yes k => kmem k yes) (i_prompt i))
                   (i_types i) (i_links i) (i_state i) (i_now i))
           (i_cache i) (i_ws i) (i_target i) (i_order i).

(* single-file targets through the same input record: the path is the ROOT entry of i_ws / i_target *)
Definition run_in1 (i : co_in) : result :=
  checkout1 (H_tab (i_htab i))
            (mk_cfg (i_force i) (i_relink i)
                    (option_map (fun yes k => kmem k yes) (i_prompt i))
                    (i_types i) (i_links i) (i_state i) (i_now i))
            (i_cache i) (kassoc root_key (i_ws i))
            (match kassoc root_key (i_target i) with Some o => o | None => [] end).

Definition run_in_rm (x : co_in * bool * list dkey) : result :=
  let '(i, ric, ds) := x in
  checkout_rm (H_tab (i_htab i))
              (mk_cfg (i_force i) (i_relink i)
                      (option_map (fun yes k => kmem k yes) (i_prompt i))
                      (i_types i) (i_links i) (i_state i) (i_now i))
              (i_cache i) (i_ws i) ric ds.

(* decider tables for the enumeration against the real _remove / _checkout_file *)
Definition enc_rm_act (a : rm_act) : val := VN (match a with RmSkip => 0 | RmRaise => 1 | RmRemove => 2 end).
Definition enc_cf_opt (a : option cf_act) : val :=
  match a with None => VN 99 | Some CfLink => VN 0 | Some CfUnprotect => VN 1 | Some CfRelink => VN 2 end.
Definition enc_cf_act (a : cf_act) : val := VN (match a with CfLink => 0 | CfUnprotect => 1 | CfRelink => 2 end).

(* links world *)
Definition enc_lfs (f : lfs) : val :=
  VL (map (fun kn => enc_key (fst kn)) (sort_keyed f)).
Definition enc_lstate (s : lstate) : val :=
  VL [enc_lfs (l_fs s);
      VL (map (fun kv => enc_key (fst kv)) (sort_keyed (l_tab s)));
      VL (map (fun u => VL (map VB (canon_set (map join_key u)))) (l_removed s))].
