(* Model of the integrity machinery of an object store (property C07).

   sources (read line by line; /repo/src/dvc_data):
     hashfile/db/local.py     LocalHashFileDB.check / oids_exist / protect / is_protected
     hashfile/db/__init__.py  HashFileDB.check / add (verify before and after, protect, save_many) / protect
     hashfile/hash.py         hash_file   (through the state cache)
     hashfile/state.py        State.get / _get / save / save_many   (minimal token-based cache, below)
     hashfile/diff.py         _cache_check            (checkout's view of the cache goes through check())
     hashfile/checkout.py     Link.__call__           (missing link source -> CheckoutError)

   The decision structure of the two [check] bodies, CACHE_MODE and the protect behaviour are NOT
   written here: they come from Gen/Check.v (translator unit "check", regenerated from the source on
   every run) as action lists which this file interprets.

   What is modelled, what is environment
   * store = association list  oid |-> (bytes, mode, token); token = (ino, mtime, size) exactly as
     fs.info presents them (the harness sets mtime with an explicit os.utime clock and passes the
     observed triple).  Store class Local | Base.  w_fmode = the mode a freshly copied file gets.
   * state cache = association list oid |-> row (token, algorithm name, value); the validity decision
     of a row is the translated State._get (Gen/State.v); the key of the real
     cache is the object's path, which oid_to_path makes injective in the oid.  _checksum(info) is
     modelled as the (injective) triple itself.  w_state = false is StateNoop.
   * the digest H : name -> bytes -> oid is a Section variable; the correspondence instantiates it
     with a table of hashlib values ([tableH]).
   * environment operations (tamper / plant / touch / chmod, delete, foreign state rows, wiping the
     state) are explicit ops carrying what the environment decided (bytes, mode, token).
   * add: the object ids of one call are pairwise distinct (the harness never repeats one); sources
     exist; the copy cannot fail (no fault injection here - that is C04/C11).
   stdlib lists only. *)
From Coq Require Import NArith List Bool.
From DvcData Require Import Base.Val Base.PyBase Gen.Check Gen.PyTypes Model.StateDbBase Gen.State.
Import ListNotations.
Open Scope N_scope.

Definition oid := list N.
Definition bytes := list N.
Definition name := list N.

Inductive cls := Local | Base.

(* token = (ino, mtime, size): the record of Model/StateDbBase.v, which the translated State._get
   (Gen/State.v, unit "state") is stated over *)
Notation T := Build_token.

Record obj := Ob { o_bytes : bytes; o_mode : N; o_tok : token }.
Record row := Rw { r_tok : token; r_alg : name; r_val : oid }.

(* ---------------------------------------------------------------- association lists *)
Fixpoint lookup {A} (k : oid) (l : list (oid * A)) : option A :=
  match l with
  | [] => None
  | (k', v) :: r => if list_N_eqb k k' then Some v else lookup k r
  end.

Fixpoint set {A} (k : oid) (v : A) (l : list (oid * A)) : list (oid * A) :=
  match l with
  | [] => [(k, v)]
  | (k', v') :: r => if list_N_eqb k k' then (k, v) :: r else (k', v') :: set k v r
  end.

Fixpoint remove {A} (k : oid) (l : list (oid * A)) : list (oid * A) :=
  match l with
  | [] => []
  | (k', v') :: r => if list_N_eqb k k' then remove k r else (k', v') :: remove k r
  end.

Definition objs := list (oid * obj).
Definition statedb := list (oid * row).

Record world := W {
  w_cls : cls;
  w_alg : name;          (* odb.hash_name *)
  w_state : bool;        (* State (true) | StateNoop (false) *)
  w_verify : bool;       (* odb.verify *)
  w_fmode : N;           (* mode of a freshly copied object file *)
  w_objs : objs;
  w_db : statedb }.

Definition with_objs (w : world) (o : objs) : world :=
  W (w_cls w) (w_alg w) (w_state w) (w_verify w) (w_fmode w) o (w_db w).
Definition with_db (w : world) (d : statedb) : world :=
  W (w_cls w) (w_alg w) (w_state w) (w_verify w) (w_fmode w) (w_objs w) d.

(* result codes (harness/lib/impl.py ERR): 0 ok, 2 FileNotFoundError, 3 ObjectFormatError,
   5 CheckoutError, 99 other *)

(* protect(path): Local = os.chmod(path, CACHE_MODE) (OSError swallowed), Base = pass; from Gen *)
Definition protect_mode (c : cls) : option N :=
  match c with Local => Local_protect_mode | Base => Base_protect_mode end.

Definition protect (w : world) (o : oid) : world :=
  match protect_mode (w_cls w), lookup o (w_objs w) with
  | Some m, Some ob => with_objs w (set o (Ob (o_bytes ob) m (o_tok ob)) (w_objs w))
  | _, _ => w
  end.

Section WithDigest.
  Variable H : name -> bytes -> oid.

  (* State.get + the acceptance test of hash_file:
       raw = hashes.get(path); State._get(path, raw, info)  -- TRANSLATED: Gen.State.State__get
       (checksum comparison, version <= HASH_VERSION, legacy md5 renaming); then
       meta is not None and hash_info is not None and hash_info.name == name.
     A row of this model is the JSON entry State.save writes: version HASH_VERSION, the checksum of
     the token, the size, {alg: value}. *)
  Definition srow_of (r : row) : srow :=
    mk_srow (State_checksum (r_tok r)) (Some State_HASH_VERSION) (t_size (r_tok r))
            [(r_alg r, PVStr (r_val r))].

  Definition st_hit (w : world) (o : oid) (tok : token) : option oid :=
    if w_state w then
      match lookup o (w_db w) with
      | Some r =>
          match State__get (Some (srow_of r)) tok with
          | Some (_, hi) =>
              if opt_eqb list_N_eqb (hi_name hi) (Some (w_alg w)) then hi_value hi else None
          | None => None
          end
      | None => None
      end
    else None.

  Definition st_save (w : world) (o : oid) (tok : token) (alg : name) (v : oid) : statedb :=
    if w_state w then set o (Rw tok alg v) (w_db w) else w_db w.

  (* hash_file(path, fs, name, state, info): the answer and the state database afterwards *)
  Definition hash_file (w : world) (o : oid) (ob : obj) : oid * statedb :=
    match st_hit w o (o_tok ob) with
    | Some v => (v, w_db w)
    | None => let v := H (w_alg w) (o_bytes ob) in (v, st_save w o (o_tok ob) (w_alg w) v)
    end.

  (* interpreter of the action list of HashFileDB.check (Gen.Check.Base_check) *)
  Fixpoint run_base (w : world) (o : oid) (db' : statedb) (acts : list caction) : N * world :=
    match acts with
    | [] => (99, w)
    | CHashFile :: r => run_base (with_db w db') o db' r
    | CRemove :: r => run_base (with_objs w (remove o (w_objs w))) o db' r
    | CRaiseFormat :: _ => (3, w)
    | CProtect :: r => run_base (protect w o) o db' r
    | CRetMeta :: _ => (0, w)
    | CRetInfoMeta :: _ => (0, w)
    | CSuper :: _ => (99, w)
    end.

  Definition base_check (w : world) (o : oid) (ob : obj) : N * world :=
    let hf := hash_file w o ob in
    run_base w o (snd hf) (Base_check true (fst hf) o).

  (* odb.check(oid): a missing object is FileNotFoundError (stat / open) *)
  Definition check (w : world) (o : oid) : N * world :=
    match lookup o (w_objs w) with
    | None => (2, w)
    | Some ob =>
        match w_cls w with
        | Base => base_check w o ob
        | Local =>
            match Local_check (o_mode ob) with
            | CRetInfoMeta :: _ => (0, w)
            | CSuper :: _ => base_check w o ob
            | _ => (99, w)
            end
        end
    end.

  (* odb.check(oid, check_hash=False): an existence query (stat), nothing is hashed, deleted or
     protected; the same generated action lists, with check_hash = false *)
  Definition check_nohash (w : world) (o : oid) : N * world :=
    match lookup o (w_objs w) with
    | None => (2, w)
    | Some ob =>
        let base := run_base w o (w_db w) (Base_check false [] o) in
        match w_cls w with
        | Base => base
        | Local =>
            match Local_check (o_mode ob) with
            | CRetInfoMeta :: _ => (0, w)
            | CSuper :: _ => base
            | _ => (99, w)
            end
        end
    end.

  (* oids_exist: Local = check per id, keeping the ids whose check did not raise
     (FileNotFoundError, ObjectFormatError); Base (dvc_objects) = fs.exists per id *)
  Definition exist_step (acc : list oid * world) (o : oid) : list oid * world :=
    let r := check (snd acc) o in
    (if fst r =? 0 then fst acc ++ [o] else fst acc, snd r).

  Definition has (w : world) (o : oid) : bool :=
    match lookup o (w_objs w) with Some _ => true | None => false end.

  Definition oids_exist (w : world) (os : list oid) : list oid * world :=
    match w_cls w with
    | Local => fold_left exist_step os ([], w)
    | Base => (canon_set (filter (has w) os), w)        (* a set: compared canonically *)
    end.

  (* checkout of a file object into a fresh workspace path:
       _cache_check(oid) = cache.check(oid) with FileNotFoundError/ObjectFormatError swallowed;
       the change is ADD; Link copies the cache file; a missing source is CheckoutError *)
  Definition checkout (w : world) (o : oid) : N * option bytes * world :=
    let w' := snd (check w o) in
    match lookup o (w_objs w') with
    | Some ob => (0, Some (o_bytes ob), w')
    | None => (5, None, w')
    end.

  (* checkout of a directory object (a Tree built in memory: its own id d and entries name |-> id,
     pairwise distinct ids) into a fresh workspace path: diff() asks _cache_check once per distinct
     id (the root's and every entry's), each time against the store as it is NOW; every entry is
     then linked; the entries whose source is missing are collected into one CheckoutError *)
  Definition check_all (w : world) (os : list oid) : world :=
    fold_left (fun w o => snd (check w o)) os w.

  Definition checkout_dir (w : world) (d : oid) (ents : list (list N * oid))
    : N * list (list N * bytes) * world :=
    let w' := check_all w (d :: map snd ents) in
    let got := flat_map (fun e => match lookup (snd e) (w_objs w') with
                                  | Some ob => [(fst e, o_bytes ob)]
                                  | None => []
                                  end) ents in
    (if forallb (fun e => has w' (snd e)) ents then 0 else 5, got, w').

  (* ---- HashFileDB.add(paths, fs, oids, verify=..., on_error=...) *)
  Definition item := (oid * bytes * token)%type.     (* destination id, source bytes, token of the copy *)
  Definition it_oid (i : item) : oid := fst (fst i).

  Definition pre_step (w : world) (i : item) : world := snd (check w (it_oid i)).

  (* super().add with check_exists=True: copy what is not there *)
  Definition copy_step (acc : N * world) (i : item) : N * world :=
    let w := snd acc in
    if has w (it_oid i) then acc
    else (fst acc + 1, with_objs w (set (it_oid i) (Ob (snd (fst i)) (w_fmode w) (snd i)) (w_objs w))).

  (* try: if verify: self.check(o); self.protect(cache_path)
     except ObjectFormatError: on_error(o, exc)   except FileNotFoundError: pass *)
  Definition post_step (verify : bool) (acc : list oid * world) (i : item) : list oid * world :=
    let w := snd acc in
    if verify then
      let r := check w (it_oid i) in
      if fst r =? 0 then (fst acc, protect (snd r) (it_oid i))
      else if fst r =? 3 then (fst acc ++ [it_oid i], snd r)
      else (fst acc, snd r)
    else (fst acc, protect w (it_oid i)).

  (* state.save_many((cache_path, HashInfo(hash_name, o), None) ...): fs.info, missing = skipped *)
  Definition save_step (w : world) (i : item) : world :=
    match lookup (it_oid i) (w_objs w) with
    | Some ob => with_db w (st_save w (it_oid i) (o_tok ob) (w_alg w) (it_oid i))
    | None => w
    end.

  Definition add (w : world) (v : option bool) (items : list item) : N * list oid * world :=
    let verify := match v with Some b => b | None => w_verify w end in
    let w1 := if verify then fold_left pre_step items w else w in
    let c := fold_left copy_step items (0, w1) in
    let p := fold_left (post_step verify) items ([], snd c) in
    let w4 := fold_left save_step items (snd p) in
    (fst c, fst p, w4).

  (* add through a handle opened with read_only=True (the option is ignored by check / oids_exist /
     checkout - the same functions above serve every handle - and only forbids add and gc):
     HashFileDB.add runs its pre-verification first, then ObjectDB.add raises
     ObjectDBPermissionError (code 1); nothing is copied, protected or recorded *)
  Definition add_ro (w : world) (v : option bool) (items : list item) : world :=
    if (match v with Some b => b | None => w_verify w end) then fold_left pre_step items w else w.

  (* dvc_data.hashfile.check(odb, obj): for a Tree every entry id, then the tree's own .dir id, one
     odb.check after the other; the first exception leaves the function *)
  Fixpoint check_seq (w : world) (os : list oid) : N * world :=
    match os with
    | [] => (0, w)
    | o :: r => let c := check w o in if fst c =? 0 then check_seq (snd c) r else c
    end.

  (* hashfile.transfer.transfer(staging, odb, ids, verify=v, hardlink=h) of file objects staged by
     build(): compare_status asks the destination's oids_exist (Local: a check per id), what is not
     there is new; _do_transfer -> dest.add(..., verify=v, check_exists=False, hardlink=h) of the new
     ones (a hard link carries the source's token and mode; a copy gets a fresh token);
     TransferResult(transferred = new - failed, failed = the ids reported through on_error) *)
  Definition mem_oid (o : oid) (l : list oid) : bool := existsb (list_N_eqb o) l.

  Definition xfer_new (ex : list oid) (items : list item) : list item :=
    filter (fun i => negb (mem_oid (it_oid i) ex)) items.

  Definition xfer (w : world) (v : option bool) (items : list item) : list oid * list oid * world :=
    let r := oids_exist w (map it_oid items) in
    let new := xfer_new (fst r) items in
    match new with
    | [] => ([], [], snd r)
    | _ :: _ =>
        let a := add (snd r) v new in   (* verify=None reaches add as None: the store default *)
        (filter (fun o => negb (mem_oid o (snd (fst a)))) (map it_oid new), snd (fst a), snd a)
    end.

  (* ---------------------------------------------------------------- histories *)
  Inductive op :=
  | OAdd (v : option bool) (items : list item)
  | OAddRO (v : option bool) (items : list item)       (* add through a read_only=True handle *)
  | OCheck (o : oid)
  | OExist (os : list oid)
  | OCheckout (o : oid)
  | OCheckoutDir (d : oid) (ents : list (list N * oid))
  | OSet (o : oid) (b : bytes) (m : N) (t : token)   (* environment: tamper / plant / touch / chmod *)
  | ODel (o : oid)                                     (* environment: the object file is deleted *)
  | OHash (o : oid)                                    (* hash_file(path of o, ..., state) *)
  | OSaveRow (o : oid) (alg : name) (v : oid)          (* state.save(path of o, HashInfo(alg, v)) *)
  | ODropState                                         (* the state database is wiped *)
  | OCheckSeq (os : list oid)                          (* hashfile.check(odb, tree): entries, then the tree *)
  | OXfer (v : option bool) (items : list item)               (* transfer(src, odb, ids, verify=v, hardlink=..) *)
  | OCheckNoHash (o : oid).                            (* odb.check(oid, check_hash=False) *)

  Inductive out :=
  | ONone
  | ORes (r : N)
  | OAdded (n : N) (errs : list oid)
  | OExists (l : list oid)
  | OCheckedOut (r : N) (b : option bytes)
  | OCheckedOutDir (r : N) (files : list (list N * bytes))
  | OHashed (v : option oid)
  | OXfered (transferred failed : list oid).

  Definition step (w : world) (p : op) : world * out :=
    match p with
    | OAdd v items => let r := add w v items in (snd r, OAdded (fst (fst r)) (snd (fst r)))
    | OAddRO v items => (add_ro w v items, ORes 1)
    | OCheck o => let r := check w o in (snd r, ORes (fst r))
    | OExist os => let r := oids_exist w os in (snd r, OExists (fst r))
    | OCheckout o => let r := checkout w o in (snd r, OCheckedOut (fst (fst r)) (snd (fst r)))
    | OCheckoutDir d ents =>
        let r := checkout_dir w d ents in (snd r, OCheckedOutDir (fst (fst r)) (snd (fst r)))
    | OSet o b m t => (with_objs w (set o (Ob b m t) (w_objs w)), ONone)
    | ODel o => (with_objs w (remove o (w_objs w)), ONone)
    | OHash o =>
        match lookup o (w_objs w) with
        | Some ob => let hf := hash_file w o ob in (with_db w (snd hf), OHashed (Some (fst hf)))
        | None => (w, OHashed None)
        end
    | OSaveRow o alg v =>
        if negb (w_state w) then (w, ONone) else     (* StateNoop.save: pass *)
        match lookup o (w_objs w) with
        | Some ob => (with_db w (st_save w o (o_tok ob) alg v), ONone)
        | None => (w, ORes 2)
        end
    | ODropState => (with_db w [], ONone)
    | OCheckSeq os => let r := check_seq w os in (snd r, ORes (fst r))
    | OXfer v items => let r := xfer w v items in (snd r, OXfered (fst (fst r)) (snd (fst r)))
    | OCheckNoHash o => let r := check_nohash w o in (snd r, ORes (fst r))
    end.

  Fixpoint run (w : world) (h : list op) : list out * world :=
    match h with
    | [] => ([], w)
    | p :: h' => let r := step w p in let r' := run (fst r) h' in (snd r :: fst r', snd r')
    end.

  Definition exec (w : world) (h : list op) : world := fold_left (fun w p => fst (step w p)) h w.

  (* ---------------------------------------------------------------- encoders *)
  Definition enc_out (o : out) : val :=
    match o with
    | ONone => VL []
    | ORes r => VL [VN 1; VN r]
    | OAdded n errs => VL [VN 2; VN n; VL (map VB errs)]
    | OExists l => VL [VN 3; VL (map VB l)]
    | OCheckedOut r b => VL [VN 4; VN r; enc_option VB b]
    | OCheckedOutDir r fs =>
        VL [VN 6; VN r;
            VL (map (fun nb => VL [VB (fst nb); VB (snd nb)])
                    (sort_by (fun a b => lex_leb (fst a) (fst b)) fs))]
    | OHashed v => VL [VN 5; enc_option VB v]
    | OXfered tr fl => VL [VN 7; enc_set tr; enc_set fl]
    end.

  Definition by_key {A} (l : list (oid * A)) : list (oid * A) :=
    sort_by (fun a b => lex_leb (fst a) (fst b)) l.

  Definition enc_obj (ko : oid * obj) : val :=
    VL [VB (fst ko); VB (o_bytes (snd ko)); VN (o_mode (snd ko))].

  (* a row is shown with its value and whether it is recorded under the object's current token *)
  Definition enc_row (w : world) (kr : oid * row) : val :=
    VL [VB (fst kr); VB (r_alg (snd kr)); VB (r_val (snd kr));
        VN (match lookup (fst kr) (w_objs w) with
            | Some ob => if token_eqb (r_tok (snd kr)) (o_tok ob) then 1 else 0
            | None => 2
            end)].

  Definition enc_world (w : world) : val :=
    VL [VL (map enc_obj (by_key (w_objs w))); VL (map (enc_row w) (by_key (w_db w)))].
End WithDigest.

(* ---------------------------------------------------------------- correspondence input *)
Definition md5_name : name := [109; 100; 53].
Definition md5_d2u_name : name := [109; 100; 53; 45; 100; 111; 115; 50; 117; 110; 105; 120].  (* "md5-dos2unix" *)

(* the digest as a table of the hashlib values of the contents in play (algorithm ignored: the
   stores of the correspondence all use md5) *)
Fixpoint tableH (tbl : list (bytes * oid)) (alg : name) (b : bytes) : oid :=
  match tbl with
  | [] => []
  | (c, v) :: r => if list_N_eqb c b then v else tableH r alg b
  end.

Record case := Case {
  c_cls : cls; c_alg : name; c_state : bool; c_verify : bool; c_fmode : N;
  c_tbl : list (bytes * oid); c_ops : list op }.

Definition init_world (c : case) : world :=
  W (c_cls c) (c_alg c) (c_state c) (c_verify c) (c_fmode c) [] [].

Definition enc_run (c : case) : val :=
  let r := run (tableH (c_tbl c)) (init_world c) (c_ops c) in
  VL [VL (map enc_out (fst r)); enc_world (snd r)].
