(* C13 - Cached and carried-over hashes are never stale.
   Only statements here; proofs are in Proofs/StateDbProofs.v, the model in Model/StateDb.v
   (+ Model/StateDbBase.v, Gen/State.v, Gen/IDiff.v: the translated deciders the model is proved equal to).

   Reading guide (definitions in Proofs/StateDbProofs.v; H : name -> bytes -> oid is ANY digest):
     hashes_to H fs p n v   the file p exists in fs and v = H n (its current bytes)
     out_ok H w o           the answer o of a step is right in the world w after the step:
                              state.get / get_many: every hit (n, v) has hashes_to, and only the local fs hits
                              hash_file / _get_hashes (staging): every answer has hashes_to for the asked algorithm
                              index.md5: every non-directory entry carries the asked algorithm's current digest
                              index.build / update: an entry whose (inode, mtime, size) is the file's current
                                stat carries the file's current digest (IdxInv)
     Ticks H w h            the environment hypothesis along the history h started in w, made explicit:
                              * a write / replace / create / touch gives the file a token (inode, mtime, size)
                                recorded for that path neither in the state table nor in a live index [Fresh]
                                - exactly the property's "changes the file's size, modification time or inode";
                              * caller-supplied stat information is the file's current one;
                              * rows written by somebody else than hash_file (state.save by a caller, a foreign
                                writer) are truthful whenever they could be served for the file as it is now.
                            ticks_b is its executable form; the correspondence evaluates it on the tokens
                            observed in every real history (it must answer true, and false on the touch-back probe).
   Deviations from DESIGN section 6: "size = |bytes|" is not needed as a hypothesis and is not assumed;
   C13_md5 is stated for the local file system (where the stat information never carries a checksum, so
   index.md5 always goes through hash_file); "Query via staging" = _get_hashes. *)
From Coq Require Import NArith List Bool.
From DvcData Require Import Base.Val Model.StateDb Proofs.StateDbProofs.
From DvcData Require Base.PyBase Gen.PyTypes Gen.IDiff Gen.State.
Import ListNotations.
Open Scope N_scope.

(* For every digest, every history of file mutations, row writes and queries (any length, any
   interleaving, any batch sizes) that satisfies Ticks: every answer of every route is right. *)
Theorem C13_never_stale : forall (H : name -> bytes -> oid) (h : list op),
  Ticks H empty_world h ->
  forall w o, In (w, o) (run H empty_world h) -> out_ok H w o.
Proof. exact never_stale. Qed.
Print Assumptions C13_never_stale.

(* the invariant form, from any world satisfying the invariant (not only the empty one) *)
Theorem C13_never_stale_inv : forall H h w, Inv H w -> Ticks H w h ->
  Forall (fun wo => out_ok H (fst wo) (snd wo)) (run H w h) /\ Inv H (exec H w h).
Proof. exact never_stale_from. Qed.
Print Assumptions C13_never_stale_inv.

(* A writer striking DURING a staging query - after a file was read for hashing, before state.save_many
   records the rows (op QGetHashesW: the model saves the row under the token observed at WALK time, as
   _get_hashes does; Model/StateDb.v: get_hashes_during AtWalk).  The world it leaves is the world of
   "query, then write"; the invariant holds in it; every later answer of every route along every
   continuation satisfying Ticks is right.  (Proofs/StateDbProofs.v: ex_savetime_refuted shows that a row
   keyed by a stat taken at SAVE time would be served as a stale hit by the very next lookup.) *)
Theorem C13_inquery_write_safe : forall H w local ps alg infos wp b t,
  Inv H w -> tick_ok H w (QGetHashesW local ps alg infos wp b t) ->
  let w' := fst (step H w (QGetHashesW local ps alg infos wp b t)) in
  w' = exec H w [QGetHashes local ps alg infos; Write wp b t] /\ Inv H w' /\
  forall h, Ticks H w' h -> Forall (fun wo => out_ok H (fst wo) (snd wo)) (run H w' h).
Proof. exact inquery_write_safe. Qed.
Print Assumptions C13_inquery_write_safe.

(* the same for the single-file route when the caller supplied the stat information (hash_file(..., info=i),
   index.build.build_entry): the row is saved under the SUPPLIED info, so a replacement of the file between
   the read and state.save is a write after the query.  (ex_savetime_single_refuted: a re-stat at save time
   would be a stale hit.  Without supplied info state.save must stat after the read: outside these routes.) *)
Theorem C13_inquery_write_safe_single : forall H w local p alg i b t,
  Inv H w -> tick_ok H w (QHashFileW local p alg i b t) ->
  let w' := fst (step H w (QHashFileW local p alg i b t)) in
  w' = exec H w [QHashFile local p alg (Some i); Write p b t] /\ Inv H w' /\
  forall h, Ticks H w' h -> Forall (fun wo => out_ok H (fst wo) (snd wo)) (run H w' h).
Proof. exact inquery_write_safe_single. Qed.
Print Assumptions C13_inquery_write_safe_single.

(* the executable hypothesis the correspondence evaluates on real histories implies the Prop one *)
Theorem C13_ticks_b_sound : forall H h w, ticks_b H w h = true -> Ticks H w h.
Proof. exact ticks_b_sound. Qed.
Print Assumptions C13_ticks_b_sound.

(* batch and single lookups agree for ANY number of paths (duplicates, unknown paths included) ... *)
Theorem C13_batch : forall db local fs ks infos,
  st_get_many db local fs ks infos = map (fun k => (k, st_get db local fs k (lookup k infos))) ks.
Proof. exact get_many_is_map_get. Qed.
Print Assumptions C13_batch.

(* ... the SQL lookups are issued per chunk of 1..999 keys and the chunk answers concatenate *)
Theorem C13_batch_chunks : forall db fs ks infos,
  st_get_many db true fs ks infos =
  flat_map (fun chunk => st_get_many db true fs chunk infos) (batched SQLITE_MAX_VARIABLE_NUMBER ks)
  /\ (forall c, In c (batched SQLITE_MAX_VARIABLE_NUMBER ks) -> (1 <= length c <= 999)%nat)
  /\ concat (batched SQLITE_MAX_VARIABLE_NUMBER ks) = ks.
Proof. exact get_many_chunks_concat. Qed.
Print Assumptions C13_batch_chunks.

(* A row recorded for another algorithm (by its effective name: a row without version saying "md5"
   means md5-dos2unix), by a newer format version, not JSON, or any row when the file system is not
   the local one, is never used as a hit: hash_file answers the digest of the bytes read now,
   WHATEVER the row says (no invariant, no Ticks needed). *)
Theorem C13_foreign : forall H db local fs p alg info, foreign db local p alg ->
  use_hit alg (st_get db local fs p info) = None /\
  fst (hash_file H db local fs p alg info) =
    match lookup p fs with Some f => Some (H alg (f_bytes f)) | None => None end.
Proof. exact foreign_spec. Qed.
Print Assumptions C13_foreign.

(* a newer-format row is not even returned by state.get; a non-local file system reads and writes nothing *)
Theorem C13_foreign_get : forall H db fs p alg info ks infos hi i,
  (forall local e v, lookup p db = Some (Row e) -> r_version e = Some v -> HASH_VERSION < v ->
                     st_get db local fs p info = None) /\
  st_get db false fs p info = None /\
  st_get_many db false fs ks infos = map (fun k => (k, None)) ks /\
  st_save db false p hi i = db /\
  snd (hash_file H db false fs p alg info) = db.
Proof. exact foreign_get_spec. Qed.
Print Assumptions C13_foreign_get.

(* update(new, old) keeps keys and metadata of [new]; an entry's hash differs from the one it had only
   by being the old entry's hash under the same key, and then the two Optional[Meta] are EQUAL (all ten
   attributes that take part in Meta.__eq__: isdir size nfiles isexec version_id etag checksum md5 inode
   mtime) *)
Theorem C13_update : forall new old i, idx_update new old = Some i ->
  map fst i = map fst new /\
  forall p e, In (p, e) i ->
    exists e0, In (p, e0) new /\ i_meta e = i_meta e0 /\
      (e = e0 \/ exists eo, lookup p old = Some eo /\ i_meta eo = i_meta e0 /\ i_hash e = i_hash eo).
Proof. exact idx_update_spec. Qed.
Print Assumptions C13_update.

(* and therefore carries no stale hash: the index invariant is preserved *)
Theorem C13_update_inv : forall H fs new old i,
  IdxInv H fs new -> IdxInv H fs old -> idx_update new old = Some i -> IdxInv H fs i.
Proof. exact idx_update_inv. Qed.
Print Assumptions C13_update_inv.

(* index.md5 (local file system): under a sound state table, every non-directory entry of the result
   carries H alg (current bytes) - obtained through hash_file, never the hash the entry had; an entry
   whose former md5-family hash differs from it is dropped; directory entries are copied; the table
   stays sound *)
Theorem C13_md5 : forall H db fs idx alg, DbInv H fs db ->
  DbInv H fs (snd (idx_md5 H db fs idx alg)) /\
  forall p e, In (p, e) (fst (idx_md5 H db fs idx alg)) ->
    (is_dir_entry e = true /\ In (p, e) idx) \/
    (is_dir_entry e = false /\
     exists f e0, In (p, e0) idx /\ lookup p fs = Some f /\ i_meta e = i_meta e0 /\
                  i_hash e = Some (alg, H alg (f_bytes f)) /\
                  (forall h, old_md5 e0 = Some h -> h = (alg, H alg (f_bytes f)))).
Proof. exact idx_md5_spec. Qed.
Print Assumptions C13_md5.

(* ---- the tie to the source: the deciders of the model ARE the translated ones (Gen/State.v and
   Gen/IDiff.v are regenerated from /repo on every run) *)
Theorem C13_tie_get : forall r i,
  st__get r i = match Gen.State.State__get (raw_entry r) i with Some mh => hit_of mh | None => None end.
Proof. exact tie_State__get. Qed.
Print Assumptions C13_tie_get.

Theorem C13_tie_checksum :
  Gen.State.checksum_fields = [[105;110;111]; [109;116;105;109;101]; [115;105;122;101]] /\
  forall a b, Base.PyBase.list_eqb N.eqb (Gen.State.State_checksum a) (Gen.State.State_checksum b) = token_eqb a b.
Proof. exact tie_checksum_fields. Qed.
Print Assumptions C13_tie_checksum.

Theorem C13_tie_batched : forall (ks : list path),
  Gen.State.batched_gen Gen.State.HashesCache_SQLITE_MAX_VARIABLE_NUMBER ks =
  Some (batched SQLITE_MAX_VARIABLE_NUMBER ks).
Proof. exact tie_batched_999. Qed.
Print Assumptions C13_tie_batched.

Theorem C13_tie_diff_meta : forall old new,
  Gen.IDiff.diff_meta old new None = Gen.IDiff.ichange_UNCHANGED <->
  diff_meta (option_map meta_down old) (option_map meta_down new) = UNCHANGED.
Proof. exact tie_diff_meta_unchanged. Qed.
Print Assumptions C13_tie_diff_meta.

Theorem C13_tie_constants :
  HASH_VERSION = Gen.State.State_HASH_VERSION /\
  SQLITE_MAX_VARIABLE_NUMBER = Gen.State.HashesCache_SQLITE_MAX_VARIABLE_NUMBER /\
  Gen.State.State_nonlocal_guarded =
    [[103;101;116]; [103;101;116;95;109;97;110;121]; [115;97;118;101]; [115;97;118;101;95;109;97;110;121]].
Proof. exact tie_constants. Qed.
Print Assumptions C13_tie_constants.
