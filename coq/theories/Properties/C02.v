(* C02 - stage -> store -> checkout round trip reproduces the data exactly.

   Model: Model/RoundTrip.v (the loop of _build_tree over what os.walk yields, keys derived from the
   root strings by slicing and splitting; the keep-first object store; Tree.digest / as_bytes /
   load / from_list through Model/Listing.v and Base/Json.v; checkout into a location that does not
   exist; the index path build -> md5 -> save -> compare(None, idx) -> apply).

   A source tree [t : wtree] is the list, in walk order, of (directory key, [(name, bytes)]), one item
   per directory, directories without files included; [walk_of p t] are the root strings os.walk
   yields for it below p and [files t] is its content {key |-> bytes}.  Hypotheses:
     wf_tree t      names non-empty and free of the separator, no file called .dvcignore, file keys
                    pairwise distinct
     text_tree t    names are valid Unicode text (no lone surrogates)
     digest_ok H    the digest yields non-empty text             (proved for md5_hex)
     collision_free (in_play H t)   no two contents in play - the files and the listing, the latter
                    under its ".dir" name - share an object id   (a hypothesis on the abstract H;
                    decided by computation for the concrete example)
   "Prefix-free" (no key is a proper prefix of another) is *not* needed: the model's location is a
   flat map keyed by the split path, and the theorems hold without it.

   [stage_from s0] is build + the full transfer into a destination that already holds s0
   ([stage] = [stage_from []]); C02_obj_from / C02_obj_healed cover the store histories "directory
   object present, file objects absent".

   Deviation from DESIGN: transfer(staging -> odb) into an empty odb is folded into [stage] (the
   store it returns is the odb after the transfer); the correspondence compares exactly that store. *)
From Coq Require Import NArith List Bool Permutation.
From DvcData Require Import Base.Val Base.MD5 Base.Json Model.Listing Model.RoundTrip Gen.DbAdd Proofs.RoundTripBase Proofs.RoundTripProofs Proofs.RoundTripTie.
Import ListNotations.
Open Scope N_scope.

(* object level: the checked-out location holds exactly the files of t (in relpath order) *)
Theorem C02_obj : forall (H : bytes -> list N) (path : list N) (t : wtree),
  wf_tree t -> text_tree t -> digest_ok H -> collision_free (in_play H t) ->
  exists sg, stage H path (walk_of (rstrip_sep path) t) = Ok sg /\
    checkout (sg_store sg) (sg_oid sg) = Ok (sort_by file_leb (files t)).
Proof. exact obj_thm. Qed.
Print Assumptions C02_obj.

(* ... hence, as maps: same (key, bytes) pairs, no key twice *)
Theorem C02_obj_map : forall (H : bytes -> list N) (path : list N) (t : wtree),
  wf_tree t -> text_tree t -> digest_ok H -> collision_free (in_play H t) ->
  exists sg f, stage H path (walk_of (rstrip_sep path) t) = Ok sg /\
    checkout (sg_store sg) (sg_oid sg) = Ok f /\
    Permutation f (files t) /\ NoDup (map fst f).
Proof. exact obj_map_thm. Qed.
Print Assumptions C02_obj_map.

(* the store step from a destination that is not empty: for ANY initial store s0 such that no two
   contents in play - those already in s0 included - share an object id (the abstract-digest form of
   "every object in the store is named by its digest"), build + full transfer (expansion requested:
   every absent object is delivered, present ones are left alone) + checkout reproduces the files *)
Theorem C02_obj_from : forall (H : bytes -> list N) (s0 : store) (path : list N) (t : wtree),
  wf_tree t -> text_tree t -> digest_ok H -> collision_free (s0 ++ in_play H t) ->
  exists sg, stage_from H s0 path (walk_of (rstrip_sep path) t) = Ok sg /\
    checkout (sg_store sg) (sg_oid sg) = Ok (sort_by file_leb (files t)).
Proof. exact obj_from_thm. Qed.
Print Assumptions C02_obj_from.

(* in particular from any sub-store of the objects in play: the directory object alone (an earlier
   shallow transfer), or a complete store that lost objects afterwards *)
Theorem C02_obj_healed : forall (H : bytes -> list N) (s0 : store) (path : list N) (t : wtree),
  wf_tree t -> text_tree t -> digest_ok H -> collision_free (in_play H t) ->
  (forall x, In x s0 -> In x (in_play H t)) ->
  exists sg, stage_from H s0 path (walk_of (rstrip_sep path) t) = Ok sg /\
    checkout (sg_store sg) (sg_oid sg) = Ok (sort_by file_leb (files t)).
Proof. exact obj_healed_thm. Qed.
Print Assumptions C02_obj_healed.

(* re-staging after the source changed (t1 staged and transferred, then - s0 being whatever is left
   of that store: all of it, a part, nothing - t2 staged into the same odb): the checkout is the
   CURRENT tree t2, also when contents moved between paths.  Staging references are per build.  Staging in the model hashes the current bytes; that a warm
   hash-state cache is transparent is checked by the correspondence on runs with a State (C13 owns
   the cache's soundness theorem). *)
Theorem C02_restage : forall (H : bytes -> list N) (path path2 : list N) (t1 t2 : wtree) (s0 : store),
  wf_tree t1 -> wf_tree t2 -> text_tree t2 -> digest_ok H ->
  collision_free (in_play H t1 ++ in_play H t2) ->
  exists sg1, stage H path (walk_of (rstrip_sep path) t1) = Ok sg1 /\
    (incl s0 (sg_store sg1) ->
     exists sg2, stage_from H s0 path2 (walk_of (rstrip_sep path2) t2) = Ok sg2 /\
       checkout (sg_store sg2) (sg_oid sg2) = Ok (sort_by file_leb (files t2))).
Proof. exact restage_thm. Qed.
Print Assumptions C02_restage.

(* what the default shallow transfer leaves in an empty store: the directory object alone *)
Theorem C02_shallow_store : forall (H : bytes -> list N) (path : list N) (t : wtree),
  wf_tree t ->
  shallow_store H [] path (walk_of (rstrip_sep path) t) =
  Ok [(digestH H (built_tree H t), as_bytes false (built_tree H t))].
Proof. exact shallow_store_spec. Qed.
Print Assumptions C02_shallow_store.

(* reloading the directory object yields the listing that was built: same keys, same hashes, in
   relpath order, each entry carrying Meta(md5 = its hash) *)
Theorem C02_reload : forall (H : bytes -> list N) (path : list N) (t : wtree),
  wf_tree t -> text_tree t -> digest_ok H -> collision_free (in_play H t) ->
  exists sg, stage H path (walk_of (rstrip_sep path) t) = Ok sg /\
    sg_tree sg = built_tree H t /\
    load (sg_store sg) (sg_oid sg) = Ok (map (loaded_entry H) (sort_by file_leb (files t))).
Proof. exact reload_thm. Qed.
Print Assumptions C02_reload.

Theorem C02_reload_map : forall (H : bytes -> list N) (path : list N) (t : wtree),
  wf_tree t -> text_tree t -> digest_ok H -> collision_free (in_play H t) ->
  exists sg l, stage H path (walk_of (rstrip_sep path) t) = Ok sg /\
    load (sg_store sg) (sg_oid sg) = Ok l /\
    Permutation (map (fun e => (e_key e, e_hash e)) l) (map (fun e => (e_key e, e_hash e)) (sg_tree sg)).
Proof. exact reload_map_thm. Qed.
Print Assumptions C02_reload_map.

Theorem C02_meta : forall (H : bytes -> list N) (path : list N) (t : wtree),
  wf_tree t ->
  exists sg, stage H path (walk_of (rstrip_sep path) t) = Ok sg /\
    sg_nfiles sg = N.of_nat (length (files t)) /\ sg_size sg = total_size (files t).
Proof. exact meta_thm. Qed.
Print Assumptions C02_meta.

(* a directory with no file at or below it is in neither the listing nor the checked-out location *)
Theorem C02_empty_dirs_untracked : forall (H : bytes -> list N) (path : list N) (t : wtree) (d : key),
  wf_tree t -> text_tree t -> digest_ok H -> collision_free (in_play H t) ->
  (forall kb, In kb (files t) -> ~ prefix_of d (fst kb)) ->
  exists sg f, stage H path (walk_of (rstrip_sep path) t) = Ok sg /\
    checkout (sg_store sg) (sg_oid sg) = Ok f /\
    ~ In d (map e_key (sg_tree sg)) /\ ~ In d (map fst f) /\ ~ In d (dirs_of f).
Proof. exact empty_dirs_thm. Qed.
Print Assumptions C02_empty_dirs_untracked.

(* index level: build -> md5 -> save -> compare(None, idx) -> apply recreates the files exactly, and
   the directories are the directories of the source (index.build tracks them, empty ones too) *)
Theorem C02_idx : forall (H : bytes -> list N) (path : list N) (t : wtree),
  wf_tree t -> collision_free (objs_of H (files t)) ->
  exists o, idx_roundtrip H path (walk_of (rstrip_sep path) t) = Ok o /\
    io_files o = files t /\
    (forall d, In d (io_dirs o) <-> (d <> [] /\ In d (map fst t)) \/ In d (dirs_of (files t))).
Proof. exact idx_thm. Qed.
Print Assumptions C02_idx.

(* a single file *)
Theorem C02_file : forall (H : bytes -> list N) (b : bytes),
  let sg := stage_file H b in
  checkout_file (sg_store sg) (sg_oid sg) = Ok b /\ sg_size sg = N.of_nat (length b).
Proof. exact file_thm. Qed.
Print Assumptions C02_file.

(* the instance the implementation runs: md5 *)
Theorem C02_obj_md5 : forall (path : list N) (t : wtree),
  wf_tree t -> text_tree t -> collision_free (in_play md5_hex t) ->
  exists sg, stage md5_hex path (walk_of (rstrip_sep path) t) = Ok sg /\
    checkout (sg_store sg) (sg_oid sg) = Ok (sort_by file_leb (files t)) /\
    load (sg_store sg) (sg_oid sg) = Ok (map (loaded_entry md5_hex) (sort_by file_leb (files t))) /\
    sg_nfiles sg = N.of_nat (length (files t)) /\ sg_size sg = total_size (files t).
Proof. exact obj_md5_thm. Qed.
Print Assumptions C02_obj_md5.

(* ---- tie of the store step to the source, through the translator (Gen/DbAdd.v, regenerated on every
   run): [g_add] interprets the generated decisions of HashFileDB.add over the model's store extended
   with the protected ids and the rows of the state transaction; for the calls the round trip makes it
   IS the model's keep-first add ([model_add]: st_add_all + every distinct requested id protected and
   recorded).  [valid] is what check(o, check_hash=True) decides; arbitrary. *)
Theorem C02_tie_add : forall (valid : list N * bytes -> bool) objs w,
  g_add valid None model_store_verify false add_default_check_exists objs w = Some (model_add objs w, false).
Proof. exact tie_add_default. Qed.
Print Assumptions C02_tie_add.

Theorem C02_tie_tree_add : forall (valid : list N * bytes -> bool) dirobj w,
  g_add valid tree_add_percall_verify model_store_verify tree_add_hardlink tree_add_check_exists [dirobj] w =
  Some ({| a_store := st_add dirobj (a_store w);
           a_prot := a_prot w ++ [fst dirobj]; a_rows := a_rows w ++ [fst dirobj] |}, false).
Proof. exact tie_tree_add. Qed.
Print Assumptions C02_tie_tree_add.

Theorem C02_tie_transfer_add : forall (valid : list N * bytes -> bool) store_vfy objs w,
  NoDup (map fst objs) -> (forall ob, In ob objs -> st_get (fst ob) (a_store w) = None) ->
  g_add valid (Some false) store_vfy false false objs w = Some (model_add objs w, false).
Proof. exact tie_transfer_add. Qed.
Print Assumptions C02_tie_transfer_add.

(* handed an id that is already there, transfer's add (check_exists=False) overwrites it: why
   _do_transfer must restrict the per-directory add to the ids compare_status found to be new *)
Theorem C02_tie_transfer_needs_absent : forall (valid : list N * bytes -> bool),
  exists objs w, g_add valid (Some false) false false false objs w <> Some (model_add objs w, false).
Proof. exact tie_transfer_needs_absent. Qed.
Print Assumptions C02_tie_transfer_needs_absent.

(* the store of [stage_from] (C02_obj_from, stage_from_spec) is the generated add of the file objects
   followed by the generated add_update_tree of the directory object *)
Theorem C02_tie_stage_store : forall (valid : list N * bytes -> bool) (Hd : bytes -> list N) s0 t,
  let files_objs := objs_of Hd (files t) in
  let dirobj := (digestH Hd (built_tree Hd t), as_bytes false (built_tree Hd t)) in
  let w0 := {| a_store := s0; a_prot := []; a_rows := [] |} in
  match g_add valid None model_store_verify false add_default_check_exists files_objs w0 with
  | Some (w1, false) =>
      g_add valid tree_add_percall_verify model_store_verify tree_add_hardlink tree_add_check_exists [dirobj] w1 =
      Some ({| a_store := st_add dirobj (st_add_all files_objs s0);
               a_prot := dedup_oids (map fst files_objs) ++ [fst dirobj];
               a_rows := dedup_oids (map fst files_objs) ++ [fst dirobj] |}, false)
  | _ => False
  end.
Proof. exact tie_stage_store. Qed.
Print Assumptions C02_tie_stage_store.
