(* C07 - Corrupted objects are detected and dropped, never served; intact ones unharmed.
   Only statements here; proofs in Proofs/IntegrityProofs*.v, model in Model/Integrity.v, whose
   decision structure for both check bodies is regenerated from the source (Gen/Check.v) and whose
   state-row validity decision is the translated State._get (Gen/State.v; tie lemma st_hit_spec).

   Vocabulary (Proofs/IntegrityProofs.v), for an arbitrary digest H, store and state database:
     named_ok alg o ob    the bytes of ob hash (under alg) to the name o, compared as check does
                          (parts before the first dot)
     honest_for w o ob    the state row of o, IF recorded under ob's current (ino, mtime, size)
                          for the store's algorithm, tells the truth about ob's bytes.  It holds when
                          the cache is cold (no row / StateNoop), stale (row recorded under another
                          token: the `token changed` hypothesis every listed tamper pattern
                          satisfies) or warm (re-hashed since): C07_regimes.
     Tampered w o ob      o |-> ob in the store, ~ named_ok, (Local -> mode <> 0o444), honest_for
     Intact w o ob        o |-> ob in the store, named_ok, honest_for
   A same-length rewrite that restores the mtime under a warm row falsifies honest_for: it is
   outside the property's quantifier (DESIGN 6/C07 `not a finding`).
   The one-step theorems start from an arbitrary world (any store, any state database satisfying
   the hypothesis for the object in question); C07_history shows the hypothesis is an invariant of
   every history, add included, so they apply at every point of every history.
   Fault layer (Model/IntegrityFault.v): removing the objects of one shard directory may fail with an
   OSError that leaves check() and the whole operation; the correspondence evaluates that layer.
   C07_fault_free_refines: without a fault it IS the pure model; C07_no_serve_under_delete_fault:
   a tampered object is never materialised nor reported valid even if its deletion fails. *)
From Coq Require Import NArith List Bool.
From DvcData Require Import Base.Val Gen.Check Model.StateDbBase Model.Integrity Proofs.IntegrityProofs Proofs.IntegrityProofsFold Proofs.IntegrityProofsAdd Proofs.IntegrityProofsAddInv Proofs.IntegrityProofsExamples Proofs.IntegrityProofsHist Model.IntegrityFault Proofs.IntegrityProofsFault.
Import ListNotations.
Open Scope N_scope.

Theorem C07_regimes : forall H w o ob,
  cold w o \/ stale w o ob \/ warm H w o ob -> honest_for H w o ob.
Proof. exact regimes_honest. Qed.
Print Assumptions C07_regimes.

(* an integrity check rejects a tampered object and deletes it *)
Theorem C07_reject : forall H w o ob, Tampered H w o ob ->
  fst (check H w o) = 3 /\ lookup o (w_objs (snd (check H w o))) = None.
Proof. exact reject. Qed.
Print Assumptions C07_reject.

(* a local existence query does not report it, and deletes it when it was asked about *)
Theorem C07_exists : forall H w o ob os, w_cls w = Local -> Tampered H w o ob ->
  ~ In o (fst (oids_exist H w os)) /\
  (In o os -> lookup o (w_objs (snd (oids_exist H w os))) = None).
Proof. exact exists_rejects. Qed.
Print Assumptions C07_exists.

(* ... and reports every intact object it was asked about, leaving it intact *)
Theorem C07_exists_intact : forall H w o ob os, w_cls w = Local -> Intact H w o ob -> In o os ->
  In o (fst (oids_exist H w os)) /\ exists ob', Intact H (snd (oids_exist H w os)) o ob'.
Proof. exact exists_keeps. Qed.
Print Assumptions C07_exists_intact.

(* checkout refuses to materialise it: CheckoutError (5), nothing written, object dropped *)
Theorem C07_checkout_refuses : forall H w o ob, Tampered H w o ob ->
  fst (checkout H w o) = (5, None) /\ lookup o (w_objs (snd (checkout H w o))) = None.
Proof. exact checkout_refuses. Qed.
Print Assumptions C07_checkout_refuses.

Theorem C07_checkout_intact : forall H w o ob, Intact H w o ob ->
  fst (checkout H w o) = (0, Some (o_bytes ob)).
Proof. exact checkout_intact. Qed.
Print Assumptions C07_checkout_intact.

(* directory targets: a tampered file object listed by a checked-out directory is not materialised
   (CheckoutError for the whole checkout, the object dropped); an intact one is *)
Theorem C07_checkout_dir_refuses : forall H w d ents n o ob, Tampered H w o ob -> In (n, o) ents ->
  fst (fst (checkout_dir H w d ents)) = 5 /\
  lookup o (w_objs (snd (checkout_dir H w d ents))) = None.
Proof. exact checkout_dir_refuses. Qed.
Print Assumptions C07_checkout_dir_refuses.

Theorem C07_checkout_dir_intact : forall H w d ents n o ob, Intact H w o ob -> In (n, o) ents ->
  exists ob', Intact H (snd (checkout_dir H w d ents)) o ob' /\
              In (n, o_bytes ob') (snd (fst (checkout_dir H w d ents))).
Proof. exact checkout_dir_intact. Qed.
Print Assumptions C07_checkout_dir_intact.

(* a store that verifies retains, for every id of the add, only an object whose bytes hash to
   the name - whatever the sources contain - provided the pre-existing object of that id is not a
   write-protected mismatch (trusted_ok), its state row is honest, and the copy gets a token
   that differs from the row's and from the replaced file's (fresh: `token changed`) *)
Theorem C07_verify_add : forall H w v items o b t,
  eff_verify w v = true ->
  NoDup (map it_oid items) -> In (o, b, t) items ->
  honest H w o -> trusted_ok H w o -> fresh w o t ->
  (w_cls w = Local -> S_IMODE (w_fmode w) <> PROTECTED) ->
  forall ob', lookup o (w_objs (snd (add H w v items))) = Some ob' -> named_ok H (w_alg w) o ob'.
Proof. exact verify_add. Qed.
Print Assumptions C07_verify_add.

(* an intact object passes, is retained with its bytes, and a Local one is left read-only *)
Theorem C07_intact : forall H w o ob, Intact H w o ob ->
  fst (check H w o) = 0 /\
  exists ob', lookup o (w_objs (snd (check H w o))) = Some ob' /\ o_bytes ob' = o_bytes ob /\
              (w_cls w = Local -> S_IMODE (o_mode ob') = PROTECTED).
Proof. exact intact. Qed.
Print Assumptions C07_intact.

(* no check, existence query or checkout ever harms an intact object, whichever id it is asked about *)
Theorem C07_intact_bystander : forall H w o ob o', Intact H w o ob ->
  exists ob', Intact H (snd (check H w o')) o ob'.
Proof. intros H w o ob o' I. apply (IN_step H w o o'). now exists ob. Qed.
Print Assumptions C07_intact_bystander.

(* The invariant  Inv w := every state row honest /\ every write-protected Local object named_ok
   /\ a fresh copy is not created write-protected  holds along EVERY history (add included) whose
   steps satisfy the side conditions [tick_ok]: tampers change the token w.r.t. the state row (or
   leave bytes and token alone) and do not leave mismatching content write-protected; foreign rows
   are truthful; adds have distinct ids and fresh tokens for the copies and - without
   verification - honest sources onto named_ok objects.  It holds for the empty store. *)
Theorem C07_history : forall H w h, Inv H w -> ticks H w h -> Inv H (exec H w h).
Proof. exact history_inv. Qed.
Print Assumptions C07_history.

Theorem C07_history_empty : forall H c a s v m h,
  (c = Local -> S_IMODE m <> PROTECTED) -> ticks H (W c a s v m [] []) h ->
  Inv H (exec H (W c a s v m [] []) h).
Proof. intros. apply history_inv; auto. now apply empty_inv. Qed.
Print Assumptions C07_history_empty.

(* hence, at any point of any such history, every mismatching unprotected object is Tampered and
   every matching object is Intact: C07_reject / _exists / _checkout_refuses / _intact apply *)
Theorem C07_history_tampered : forall H w h o ob, Inv H w -> ticks H w h ->
  lookup o (w_objs (exec H w h)) = Some ob -> ~ named_ok H (w_alg (exec H w h)) o ob ->
  S_IMODE (o_mode ob) <> PROTECTED -> Tampered H (exec H w h) o ob.
Proof. exact history_tampered. Qed.
Print Assumptions C07_history_tampered.

Theorem C07_history_intact : forall H w h o ob, Inv H w -> ticks H w h ->
  lookup o (w_objs (exec H w h)) = Some ob -> named_ok H (w_alg (exec H w h)) o ob ->
  Intact H (exec H w h) o ob.
Proof. exact history_intact. Qed.
Print Assumptions C07_history_intact.

(* the tree-level check  dvc_data.hashfile.check(odb, tree)  = odb.check of every entry id and of the
   tree's own .dir id in turn (os, in any order): it never passes over a tampered object; it deletes
   it when what is checked before it is intact; on intact objects it succeeds and keeps them intact *)
Theorem C07_check_tree_rejects : forall H o ob os w, Tampered H w o ob -> In o os ->
  fst (check_seq H w os) <> 0.
Proof. exact check_seq_rejects. Qed.
Print Assumptions C07_check_tree_rejects.

Theorem C07_check_tree_deletes : forall H o ob os1 os2 w, Tampered H w o ob -> ~ In o os1 ->
  (forall o', In o' os1 -> exists ob', Intact H w o' ob') ->
  fst (check_seq H w (os1 ++ o :: os2)) = 3 /\
  lookup o (w_objs (snd (check_seq H w (os1 ++ o :: os2)))) = None.
Proof. exact check_seq_deletes. Qed.
Print Assumptions C07_check_tree_deletes.

Theorem C07_check_tree_intact : forall H os w, (forall o, In o os -> exists ob, Intact H w o ob) ->
  fst (check_seq H w os) = 0 /\
  forall o, In o os -> exists ob, Intact H (snd (check_seq H w os)) o ob.
Proof. exact check_seq_intact. Qed.
Print Assumptions C07_check_tree_intact.

(* transfer(staging, odb, ids, verify=v, hardlink=any) with an effective verification: whatever the sources contain and however the
   object arrives (a copy with a fresh token, a hard link with the source's token), no new id keeps
   an object that does not hash to its name - hypotheses as for C07_verify_add, in the world the
   destination's existence query leaves *)
Theorem C07_verify_transfer : forall H w v items o b t,
  let r := oids_exist H w (map it_oid items) in
  let new := xfer_new (fst r) items in
  eff_verify (snd r) v = true ->      (* per-call flag, or - absent / None - the store default *)
  NoDup (map it_oid new) -> In (o, b, t) new ->
  honest H (snd r) o -> trusted_ok H (snd r) o -> fresh (snd r) o t ->
  (w_cls (snd r) = Local -> S_IMODE (w_fmode (snd r)) <> PROTECTED) ->
  forall ob', lookup o (w_objs (snd (xfer H w v items))) = Some ob' -> named_ok H (w_alg (snd r)) o ob'.
Proof. exact verify_xfer. Qed.
Print Assumptions C07_verify_transfer.

(* the read_only option of a handle is ignored by check / oids_exist / checkout (one model serves
   every handle: all theorems above hold through a read-only handle); add through such a handle
   is refused (ObjectDBPermissionError, code 1), creates no object and harms no intact one *)
Theorem C07_readonly_add_refused : forall H w v items,
  snd (step H w (OAddRO v items)) = ORes 1 /\
  (forall o, lookup o (w_objs w) = None -> lookup o (w_objs (fst (step H w (OAddRO v items)))) = None) /\
  (forall o ob, Intact H w o ob -> exists ob', Intact H (fst (step H w (OAddRO v items))) o ob').
Proof. exact add_ro_refused. Qed.
Print Assumptions C07_readonly_add_refused.

(* ---------------------------------------------------------------- deletion may fail *)
(* without a configured fault the fault layer computes exactly what the pure model computes, step
   by step, over every history: all theorems above are about what the correspondence runs *)
Theorem C07_fault_free_refines : forall H h w,
  frun H (FW w None false) h = (fst (run H w h), FW (snd (run H w h)) None false).
Proof. exact frun_refines. Qed.
Print Assumptions C07_fault_free_refines.

(* whatever shard is faulty: a tampered object is never served by a checkout - file target:
   the checkout fails and nothing is materialised; directory target: the checkout fails and every
   materialised file comes from an entry with another id *)
Theorem C07_no_serve_under_delete_fault : forall H fw o ob,
  f_abort fw = false -> Tampered H (f_w fw) o ob ->
  (fst (fst (fcheckout H fw o)) <> 0 /\ snd (fst (fcheckout H fw o)) = None) /\
  (forall d ents n, In (n, o) ents ->
     fst (fst (fcheckout_dir H fw d ents)) <> 0 /\
     forall n' bs, In (n', bs) (snd (fst (fcheckout_dir H fw d ents))) ->
                   exists o', In (n', o') ents /\ o' <> o).
Proof.
  intros H fw o ob A T. split. now apply (no_serve_file H fw o ob).
  intros d ents n I. now apply (no_serve_dir H fw d ents n o ob).
Qed.
Print Assumptions C07_no_serve_under_delete_fault.

(* ... and no query reports it valid: check fails (ObjectFormatError or the OSError), a Local
   existence query does not list it *)
Theorem C07_no_valid_under_delete_fault : forall H fw o ob,
  f_abort fw = false -> Tampered H (f_w fw) o ob ->
  fst (fcheck H fw o) <> 0 /\
  (w_cls (f_w fw) = Local -> forall os, ~ In o (fst (foids_exist H fw os))) /\
  (forall os, In o os -> fst (fcheck_seq H fw os) <> 0).
Proof.
  intros H fw o ob A T. split. now apply (fault_check_rejects H fw o ob).
  split. intros C os. now apply (fault_exists_rejects H fw o ob).
  intros os I. now apply (fault_check_seq_rejects H o ob os fw).
Qed.
Print Assumptions C07_no_valid_under_delete_fault.
